------------------------------- MODULE AuthV1 -------------------------------
(***************************************************************************)
(* X10: the LEGACY (v1) authentication / authorization flows of nuts-node.  *)
(*                                                                         *)
(* Mode "grant": auth/services/oauth (authzServer.CreateAccessToken =       *)
(*   validateAccessTokenRequest + buildAccessToken, IntrospectAccessToken)  *)
(*   behind auth/api/auth/v1 (POST /n2n/auth/v1/accesstoken, POST           *)
(*   /internal/auth/v1/accesstoken/introspect).  A grant request is a       *)
(*   vector of abstract attribute classes; one action per request.          *)
(* Mode "sess": contract signing sessions: auth/services/selfsigned         *)
(*   (signer.StartSigningSession, web.RenderEmployeeIDPage,                 *)
(*   web.HandleEmployeeIDForm, signer.SigningSessionStatus, store.evict)    *)
(*   and auth/services/dummy behind the notary and the v1 API.              *)
(* Mode "vp": notary.VerifyVP / selfsigned.validator.VerifyVP /             *)
(*   contract.VerifyForGivenTime (PUT /internal/auth/v1/signature/verify).  *)
(*                                                                         *)
(* Deviations of the code from the statement are boolean constants          *)
(* (TRUE = what the statement demands):                                     *)
(*   SignerBound    the key that signed the grant belongs to jwt.iss        *)
(*   ExpRequired    a grant without exp is refused                          *)
(*   IdentityBound  the identity presentation was signed by jwt.iss         *)
(*   EvictionRuns   the session store's eviction loop is started            *)
(*   TokenTyped     introspection accepts only JWTs issued as access tokens *)
(***************************************************************************)
EXTENDS Naturals, Sequences, FiniteSets, TLC

CONSTANTS Mode, Hist,
          SignerBound, ExpRequired, IdentityBound, EvictionRuns, TokenTyped,
          Attrs, OkVals, Defects,          \* grant: attribute names, acceptable classes, defect classes per attribute
          MaxDefects, MaxGrants, MaxT, MaxIntro, Foreign,
          Means, MaxOps,                   \* sess
          Employers, TimeClasses, FreshClasses, Mutations, MaxVerify   \* vp

VARIABLES tokens,   \* grant: sequence of issued tokens [req, iat]
          ngr,      \* grant: number of requests made
          now,      \* grant: abstract clock (one tick > token life + skew)
          nin,      \* grant: number of introspections
          st,       \* sess: state of the one session
          means,    \* sess: signing means of the session
          late,     \* sess: 0 = before the deadline, 1 = past ExpiresAt, 2 = past ExpiresAt + 10 min
          vps,      \* sess: presentations handed out
          shown,    \* sess: number of times the secret was disclosed
          dead,     \* sess: the session was cancelled / expired / errored at some point
          ops,      \* sess/vp: operation counter (bound)
          vp,       \* vp: employer whose presentation is being verified ("" = none yet)
          trust,    \* vp: the issuer of the organisation credentials is trusted
          last,     \* answer of the last operation (observation)
          hist
vars == <<tokens, ngr, now, nin, st, means, late, vps, shown, dead, ops, vp, trust, last, hist>>
view == <<tokens, ngr, now, nin, st, means, late, vps, shown, dead, ops, vp, trust, last>>

Log(e) == hist' = IF Hist THEN Append(hist, e) ELSE hist

\* ---------------------------------------------------------------- grant ----------------------------------
Vals(a) == OkVals[a] \cup Defects[a]
NDef(r) == Cardinality({a \in Attrs : r[a] \in Defects[a]})
\* requests: the clean one, every single replacement (defects and alternative acceptable classes), and every one of
\* those with one (more) defect: all single defects, all pairs of defects, every alternative with every defect
Base == [a \in Attrs |-> "ok"]
Set1(r, S) == UNION {{[r EXCEPT ![a] = v] : v \in S[a]} : a \in Attrs}
AllVals == [a \in Attrs |-> Vals(a)]
R1 == Set1(Base, AllVals)
Reqs == {r \in {Base} \cup R1 \cup UNION {Set1(r1, Defects) : r1 \in R1} : NDef(r) <= MaxDefects}
Clean(r) == NDef(r) = 0
\* what the code lets pass
Passes(a, v) == \/ v \in OkVals[a]
                \/ a = "signer" /\ v = "otherdid" /\ ~SignerBound
                \/ a = "win" /\ v = "noexp" /\ ~ExpRequired
                \/ a = "usi" /\ v = "othersigner" /\ ~IdentityBound
Accepts(r) == \A a \in Attrs : Passes(a, r[a])

Grant(r) ==
    /\ Mode = "grant" /\ ngr < MaxGrants
    /\ ngr' = ngr + 1
    /\ LET res == IF Accepts(r) THEN "issued" ELSE "refused" IN
       /\ tokens' = IF res = "issued" THEN Append(tokens, [req |-> r, iat |-> now]) ELSE tokens
       /\ last' = [a |-> "Grant", res |-> res, req |-> r]
       /\ Log([a |-> "Grant", req |-> r, res |-> res])
    /\ UNCHANGED <<now, nin, st, means, late, vps, shown, dead, ops, vp, trust>>

Fresh(k) == tokens[k].iat = now
\* introspection of token k issued by this node
Introspect(k) ==
    /\ Mode = "grant" /\ nin < MaxIntro /\ k \in 1..Len(tokens)
    /\ nin' = nin + 1
    /\ last' = [a |-> "Introspect", k |-> k, active |-> Fresh(k), claims |-> IF Fresh(k) THEN tokens[k].req ELSE <<>>]
    /\ Log([a |-> "Introspect", k |-> k, active |-> Fresh(k)])
    /\ UNCHANGED <<tokens, ngr, now, st, means, late, vps, shown, dead, ops, vp, trust>>
\* a token this node did not issue: forged (unknown key), tampered (payload of an issued token altered), grant (a grant
\* JWT signed by a key of this node), garbage
IntrospectForeign(f) ==
    /\ Mode = "grant" /\ nin < MaxIntro /\ f \in Foreign
    /\ f = "tampered" => Len(tokens) > 0
    /\ nin' = nin + 1
    /\ LET act == (f = "grant" /\ ~TokenTyped) IN       \* a grant JWT signed by a key of this node passes for a token
       /\ last' = [a |-> "IntrospectForeign", k |-> f, active |-> act, claims |-> <<>>]
       /\ Log([a |-> "IntrospectForeign", f |-> f, active |-> act])
    /\ UNCHANGED <<tokens, ngr, now, st, means, late, vps, shown, dead, ops, vp, trust>>
Tick ==
    /\ Mode = "grant" /\ now < MaxT
    /\ now' = now + 1
    /\ last' = [a |-> "Tick"]
    /\ Log([a |-> "Tick"])
    /\ UNCHANGED <<tokens, ngr, nin, st, means, late, vps, shown, dead, ops, vp, trust>>

\* P1: a token exists only for a request all of whose checks held
IssuedOnlyIfAllHeld == \A k \in 1..Len(tokens) : Clean(tokens[k].req)
\* P2: active only for a token of this node inside its window, with exactly the claims established at issuance
IntrospectFaithful ==
    last.a \in {"Introspect", "IntrospectForeign"} =>
        /\ last.active => (last.a = "Introspect" /\ Fresh(last.k) /\ last.claims = tokens[last.k].req)
        /\ (last.a = "Introspect" /\ Fresh(last.k)) => last.active

\* ---------------------------------------------------------------- sess -----------------------------------
Gone == {"none", "deleted"}
Final == {"cancelled", "expired", "errored"}
Create(m) ==
    /\ Mode = "sess" /\ st = "none" /\ m \in Means
    /\ st' = "created" /\ means' = m /\ ops' = ops + 1
    /\ last' = [a |-> "Create", res |-> "ok"]
    /\ Log([a |-> "Create", m |-> m])
    /\ UNCHANGED <<tokens, ngr, now, nin, late, vps, shown, dead, vp, trust>>
\* GET of the signing page (web.RenderEmployeeIDPage): the form with the secret is rendered once
Page ==
    /\ Mode = "sess" /\ means = "employeeid" /\ ops < MaxOps /\ ops' = ops + 1
    /\ IF st \in Gone THEN /\ last' = [a |-> "Page", res |-> "notfound"] /\ UNCHANGED <<st, shown>>
       ELSE IF st = "created" THEN /\ st' = "in-progress" /\ shown' = shown + 1 /\ last' = [a |-> "Page", res |-> "form"]
       ELSE /\ last' = [a |-> "Page", res |-> "done"] /\ UNCHANGED <<st, shown>>
    /\ Log([a |-> "Page"])
    /\ UNCHANGED <<tokens, ngr, now, nin, means, late, vps, dead, vp, trust>>
\* POST of the form (web.HandleEmployeeIDForm)
Target(acc, sec) == IF sec # "ok" THEN "errored" ELSE IF acc = "true" THEN "completed" ELSE IF acc = "false" THEN "cancelled" ELSE "blank"
Submit(acc, sec) ==
    /\ Mode = "sess" /\ means = "employeeid" /\ ops < MaxOps /\ ops' = ops + 1
    /\ acc \in {"true", "false", "junk"} /\ sec \in {"ok", "bad", "none"}
    /\ IF st \in Gone THEN /\ last' = [a |-> "Submit", res |-> "notfound", acc |-> acc, sec |-> sec] /\ UNCHANGED <<st, dead>>
       ELSE IF late > 0
            THEN /\ st' = IF st = "in-progress" THEN "expired" ELSE st
                 /\ dead' = (dead \/ st = "in-progress")
                 /\ last' = [a |-> "Submit", res |-> "notfound", acc |-> acc, sec |-> sec]
       ELSE IF st = "in-progress"
            THEN /\ st' = Target(acc, sec)
                 /\ dead' = (dead \/ Target(acc, sec) \in Final)
                 /\ last' = [a |-> "Submit", res |-> "redirect", acc |-> acc, sec |-> sec]
       ELSE /\ last' = [a |-> "Submit", res |-> "notfound", acc |-> acc, sec |-> sec] /\ UNCHANGED <<st, dead>>
    /\ Log([a |-> "Submit", acc |-> acc, sec |-> sec])
    /\ UNCHANGED <<tokens, ngr, now, nin, means, late, vps, shown, vp, trust>>
\* GET of the session status (signer.SigningSessionStatus / Dummy.SigningSessionStatus)
Poll ==
    /\ Mode = "sess" /\ means # "" /\ ops < MaxOps /\ ops' = ops + 1
    /\ IF st \in Gone THEN /\ last' = [a |-> "Poll", res |-> "notfound", vp |-> FALSE] /\ UNCHANGED <<st, vps>>
       ELSE IF means = "employeeid"
            THEN IF st = "completed" THEN /\ st' = "vp-requested" /\ vps' = vps + 1 /\ last' = [a |-> "Poll", res |-> st, vp |-> TRUE]
                 ELSE IF st \in Final \cup {"vp-requested"} THEN /\ st' = "deleted" /\ UNCHANGED vps /\ last' = [a |-> "Poll", res |-> st, vp |-> FALSE]
                 ELSE /\ UNCHANGED <<st, vps>> /\ last' = [a |-> "Poll", res |-> st, vp |-> FALSE]
       ELSE \* dummy: every poll advances the session
            IF st = "created" THEN /\ st' = "in-progress" /\ UNCHANGED vps /\ last' = [a |-> "Poll", res |-> st, vp |-> FALSE]
            ELSE IF st = "in-progress" THEN /\ st' = "completed" /\ UNCHANGED vps /\ last' = [a |-> "Poll", res |-> st, vp |-> FALSE]
            ELSE /\ st' = "deleted" /\ vps' = vps + 1 /\ last' = [a |-> "Poll", res |-> st, vp |-> TRUE]
    /\ Log([a |-> "Poll"])
    /\ UNCHANGED <<tokens, ngr, now, nin, means, late, shown, dead, vp, trust>>
\* time passes: beyond the signing deadline, then beyond deadline + 10 min (eviction due)
Age ==
    /\ Mode = "sess" /\ means = "employeeid" /\ late < 2 /\ st \notin Gone
    /\ late' = late + 1
    /\ last' = [a |-> "Age"]
    /\ Log([a |-> "Age"])
    /\ UNCHANGED <<tokens, ngr, now, nin, st, means, vps, shown, dead, ops, vp, trust>>
\* one round of the eviction loop (memorySessionStore.evict)
Evict ==
    /\ Mode = "sess" /\ EvictionRuns /\ late = 2 /\ st \notin Gone
    /\ st' = "deleted"
    /\ last' = [a |-> "Evict"]
    /\ Log([a |-> "Evict"])
    /\ UNCHANGED <<tokens, ngr, now, nin, means, late, vps, shown, dead, ops, vp, trust>>

\* P3
VpAtMostOnce == vps <= 1
SecretOnce == shown <= 1
VpOnlyWhenCompleted == [][vps' > vps => (st = "completed" /\ ~dead)]_vars
DeadStaysDead == [][dead => (dead' /\ vps' = vps /\ st' \in Final \cup Gone)]_vars
SecretRequired == [][(st # "completed" /\ st' = "completed" /\ means = "employeeid") => (last'.a = "Submit" /\ last'.sec = "ok" /\ last'.acc = "true" /\ late = 0)]_vars
EventuallyGone == (late = 2) ~> (st \in Gone)

\* ---------------------------------------------------------------- vp -------------------------------------
\* R: organisation credential of the (initially trusted) issuer; W: credential of an issuer that is not trusted;
\* U: no organisation credential
Trusted(e) == e = "R" /\ trust
Sign(e) ==
    /\ Mode = "vp" /\ vp = "" /\ e \in Employers
    /\ vp' = e /\ last' = [a |-> "Sign"]
    /\ Log([a |-> "Sign", e |-> e])
    /\ UNCHANGED <<tokens, ngr, now, nin, st, means, late, vps, shown, dead, ops, trust>>
SetTrust(b) ==
    /\ Mode = "vp" /\ vp # "" /\ b \in BOOLEAN /\ b # trust /\ ops < MaxVerify /\ ops' = ops + 1
    /\ trust' = b /\ last' = [a |-> "SetTrust"]
    /\ Log([a |-> "SetTrust", b |-> b])
    /\ UNCHANGED <<tokens, ngr, now, nin, st, means, late, vps, shown, dead, vp>>
Verify(tc, mu) ==
    /\ Mode = "vp" /\ vp # "" /\ tc \in TimeClasses /\ mu \in Mutations /\ ops < MaxVerify /\ ops' = ops + 1
    /\ LET res == IF tc \in FreshClasses /\ mu = "none" /\ Trusted(vp) THEN "valid" ELSE "invalid" IN
       /\ last' = [a |-> "Verify", tc |-> tc, mu |-> mu, res |-> res]
       /\ Log([a |-> "Verify", tc |-> tc, mu |-> mu, res |-> res])
    /\ UNCHANGED <<tokens, ngr, now, nin, st, means, late, vps, shown, dead, vp, trust>>
\* P4 (and the immutability half of P3)
ValidIffInWindowAndTrusted ==
    last.a = "Verify" => (last.res = "valid" <=> (last.tc \in FreshClasses /\ last.mu = "none" /\ Trusted(vp)))

\* -----------------------------------------------------------------------------------------------------------
Init == /\ tokens = <<>> /\ ngr = 0 /\ now = 0 /\ nin = 0
        /\ st = "none" /\ means = "" /\ late = 0 /\ vps = 0 /\ shown = 0 /\ dead = FALSE /\ ops = 0
        /\ vp = "" /\ trust = TRUE
        /\ last = [a |-> "Init"] /\ hist = <<>>
Next == \/ \E r \in Reqs : Grant(r)
        \/ \E k \in 1..MaxGrants : Introspect(k)
        \/ \E f \in Foreign : IntrospectForeign(f)
        \/ Tick
        \/ \E m \in Means : Create(m)
        \/ Page \/ Poll \/ Age \/ Evict
        \/ \E acc \in {"true", "false", "junk"}, sec \in {"ok", "bad", "none"} : Submit(acc, sec)
        \/ \E e \in Employers : Sign(e)
        \/ \E b \in BOOLEAN : SetTrust(b)
        \/ \E tc \in TimeClasses, mu \in Mutations : Verify(tc, mu)
Spec == Init /\ [][Next]_vars
FairSpec == Spec /\ WF_vars(Evict)

TypeOK == /\ ngr \in 0..MaxGrants /\ now \in 0..MaxT /\ late \in 0..2 /\ vps \in Nat /\ shown \in Nat
          /\ st \in {"none", "created", "in-progress", "completed", "vp-requested", "cancelled", "expired", "errored", "blank", "deleted"}
Terminal == CASE Mode = "grant" -> ngr = MaxGrants /\ now = MaxT /\ nin = MaxIntro
              [] Mode = "sess" -> ops = MaxOps \/ (st \in Gone /\ means # "" /\ last.a = "Poll")
              [] OTHER -> ops = MaxVerify
=============================================================================
