---------------------------- MODULE MCProducer ----------------------------
(* Concrete templates, subscribers and ids for model checking Producer.tla *)
EXTENDS Producer, Json

\* the templates a caller of CreateTransaction may pass (Templates in the cfg selects a subset)
Tpl == [
  did     |-> [type |-> "did", key |-> "jwk",    priv |-> FALSE, palok |-> TRUE,  addl |-> {}],          \* new DID document, key attached
  vc      |-> [type |-> "vc",  key |-> "kid",    priv |-> FALSE, palok |-> TRUE,  addl |-> {"g"}],       \* credential, prev = DID document of the issuer
  upd     |-> [type |-> "did", key |-> "kid",    priv |-> FALSE, palok |-> TRUE,  addl |-> {"g", "last"}], \* update of a mutable entity: prev = own last transaction
  priv    |-> [type |-> "vc",  key |-> "kid",    priv |-> TRUE,  palok |-> TRUE,  addl |-> {"g"}],       \* private credential
  privbad |-> [type |-> "vc",  key |-> "kid",    priv |-> TRUE,  palok |-> FALSE, addl |-> {"g"}],       \* participant without keyAgreement key
  ghost   |-> [type |-> "vc",  key |-> "kid",    priv |-> FALSE, palok |-> TRUE,  addl |-> {"g", "ghost"}], \* unknown additional prev
  nokey   |-> [type |-> "vc",  key |-> "nokey",  priv |-> FALSE, palok |-> TRUE,  addl |-> {"g"}],       \* private key not in the key store
  badjwk  |-> [type |-> "did", key |-> "badjwk", priv |-> FALSE, palok |-> TRUE,  addl |-> {}],          \* attached key is not the signing key
  kidfar  |-> [type |-> "vc",  key |-> "kid",    priv |-> FALSE, palok |-> TRUE,  addl |-> {}]           \* kid without the DID document among the prevs
]
MCTplType(t) == Tpl[t].type
MCTplKey(t) == Tpl[t].key
MCTplPriv(t) == Tpl[t].priv
MCTplPalOK(t) == Tpl[t].palok
MCTplAddl(t) == Tpl[t].addl

\* gossip: transaction events of everything (transport/v2); nats: payload events of everything (Network.emitEvents);
\* app: an engine subscribed through Network.Subscribe(WithPersistency, WithSelectionFilter) to credentials
MCSubType(s) == IF s = "gossip" THEN "transaction" ELSE "payload"
MCSubSel(s, ty) == IF s = "app" THEN ty = "vc" ELSE TRUE
MCId(p, k) == p \o "." \o ToString(k)

\* behaviour generation
Emit == (Terminal /\ rp.pc = "idle" /\ Hist) => PrintT(ToJson(hist))
\* one witness per distinct state in which two stored transactions share a clock (the race the code permits)
EmitFork == (Hist /\ AllReturned /\ ~NoFork) => PrintT(ToJson(hist))
EmitRace == (Hist /\ AllReturned /\ ~NoRaceFailure) => PrintT(ToJson(hist))
HistBound == Len(hist) <= 60
=============================================================================
