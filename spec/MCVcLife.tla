----------------------------- MODULE MCVcLife -----------------------------
(* Concrete credentials, revocations and parties for model checking VcLife.tla.                         *)
(* The tables are the single source of truth: every TLC run prints them as JSON and the Go driver builds *)
(* the real signed documents from that print-out.                                                       *)
EXTENDS VcLife, Json

MCIssuers == {"I1", "I2", "I3"}
\* namespace owner of every credential id (the DID the id starts with)
MCOwner == [x1 |-> "I1", x2 |-> "I2", x3 |-> "I3", x4 |-> "I1", x5 |-> "I1", x6 |-> "I1", x7 |-> "I1", x9 |-> "I1"]

Cr(id, iss, sig, wf, fmt, ctx) == [id |-> id, iss |-> iss, sig |-> sig, wf |-> wf, fmt |-> fmt, ctx |-> ctx]
MCC == [
  a |-> Cr("x1", "I1", "ok",  TRUE,  "ld",  "std"),      \* the genuine credential of the trusted issuer
  b |-> Cr("x1", "I1", "ok",  TRUE,  "ld",  "std"),      \* same id, other content, also signed by I1
  f |-> Cr("x1", "I1", "bad", TRUE,  "ld",  "std"),      \* forged: names I1, not signed by a key of I1
  q |-> Cr("x1", "I2", "ok",  TRUE,  "ld",  "std"),      \* squatter: issued and signed by I2 under an id of I1's namespace
  m |-> Cr("x4", "I1", "ok",  FALSE, "ld",  "std"),      \* signed by I1 but not well-formed for its type
  u |-> Cr("x2", "I2", "ok",  TRUE,  "ld",  "std"),      \* credential of the issuer that is not trusted
  k |-> Cr("x3", "I3", "ok",  TRUE,  "ld",  "std"),      \* issuer whose DID document arrives later
  j |-> Cr("x5", "I1", "ok",  TRUE,  "jwt", "std"),      \* JWT credential
  y |-> Cr("x6", "I1", "ok",  TRUE,  "ld",  "flaky"),    \* uses an allowed remote context that is unreachable at first
  z |-> Cr("x7", "I1", "ok",  TRUE,  "ld",  "denied")    \* uses a context that is not on the allow list
]
Rv(id, iss, sig) == [id |-> id, iss |-> iss, sig |-> sig]
MCR == [
  ra  |-> Rv("x1", "I1", "ok"),     \* genuine revocation of x1
  ra2 |-> Rv("x1", "I1", "ok"),     \* a second genuine revocation of x1 (other date)
  rf  |-> Rv("x1", "I2", "ok"),     \* forged by another issuer: issuer I2, correctly signed by I2
  rb  |-> Rv("x1", "I1", "bad"),    \* names I1, not signed by a key of I1
  ru  |-> Rv("x2", "I2", "ok"),
  rk  |-> Rv("x3", "I3", "ok"),     \* issuer key unknown at arrival
  r9  |-> Rv("x9", "I1", "ok"),     \* credential nobody has seen
  ry  |-> Rv("x6", "I1", "ok")
]

\* ---- mode "pub": parties of the issuing node and the NutsComm service of their documents
K(k, to) == [k |-> k, to |-> to]
MCParties == {"I", "V", "W", "Sown", "Sref", "Sref2", "Snone", "Sghost", "Smax", "Sdeep", "E1", "E2", "E3", "E4", "E5", "G"}
MCComm == [
  I |-> K("own", ""),   \* replaced by pcfg.icomm
  V |-> K("own", ""), W |-> K("ref", "V"),
  Sown |-> K("own", ""), Sref |-> K("ref", "V"), Sref2 |-> K("ref", "W"), Snone |-> K("none", ""), Sghost |-> K("ref", "G"),
  Smax |-> K("ref", "E2"),                \* Smax -> E2 -> E3 -> E4 -> E5(own): found at depth 4
  Sdeep |-> K("ref", "E1"),               \* Sdeep -> E1 -> ... -> E5(own): depth 5 = too deep
  E1 |-> K("ref", "E2"), E2 |-> K("ref", "E3"), E3 |-> K("ref", "E4"), E4 |-> K("ref", "E5"), E5 |-> K("own", ""),
  G |-> K("ghost", "")
]
MCSubjects == {"Sown", "Sref", "Sref2", "Snone", "Sghost", "Smax", "Sdeep"}

ASSUME PrintT(ToJson([tables |-> [C |-> MCC, R |-> MCR, Owner |-> MCOwner, Comm |-> MCComm]]))

\* ---- behaviour generation -----------------------------------------------------------------------------
Emit == (Hist /\ Terminal) => PrintT(ToJson([steps |-> hist]))
\* one witness per distinct state in which the code departs from the property statement
Bad == Mode = "recv" /\ ~(IdUnique /\ StoredAreValid /\ OrderIndependent /\ TransientNotDropped /\ NoPoison)
EmitBad == (Hist /\ Bad) => PrintT(ToJson([steps |-> hist]))
HistBound == Len(hist) <= 40
=============================================================================
