----------------------------- MODULE MCUserFlow -----------------------------
(* Concrete flows for model checking UserFlow.tla. Every TLC run prints the flow table it used; the Go driver   *)
(* builds the real requests from that print-out.                                                              *)
EXTENDS UserFlow, Json

F(t, v, s) == [tenant |-> t, ver |-> v, scope |-> s]
\* same tenant, same verifier, two users (two browsers, or one browser used by both)
MCCfgUsers == [f1 |-> F("ta", "v1", "both"), f2 |-> F("ta", "v1", "both")]
\* two tenants of node A at one verifier: one flow asks for organization + user, the other for the organization only
MCCfgTenants == [f1 |-> F("ta", "v1", "both"), f2 |-> F("tb", "v1", "org")]
\* one tenant at two verifier tenants of node B
MCCfgVerifiers == [f1 |-> F("ta", "v1", "org"), f2 |-> F("ta", "v2", "both")]
MCCfgOne == [f1 |-> F("ta", "v1", "both")]

ASSUME PrintT(ToJson([flows |-> Cfg]))

Emit == (Hist /\ Terminal) => PrintT(ToJson([steps |-> hist]))
\* one witness per distinct state in which the code departs from the statement
Bad == ~(TokenOrganization /\ TokenUser /\ LandingBound /\ SessionFulfilledByClient)
EmitBad == (Hist /\ Bad) => PrintT(ToJson([steps |-> hist]))
\* witnesses of a complete double flow (vacuity: both tokens can be delivered)
BothDelivered == ~(\A f \in Flows : st.deliv[f] = 1)
=============================================================================
