-------------------------- MODULE TraceDiscovery --------------------------
(***************************************************************************)
(* Trace validation: executions of the REAL discovery.Module pair (server  *)
(* and client over sqlite, recorded by the driver: one event per action    *)
(* with its arguments and cheap projected state) must be behaviours of     *)
(* Discovery.tla.  The verdict of a submission and everything the server   *)
(* and the client answered are TAKEN FROM THE LOG and compared with what   *)
(* the specification computes; the C16 invariants are evaluated on the     *)
(* reconstructed state.  Traces are concatenated; "reset" starts the next. *)
(***************************************************************************)
EXTENDS MCDiscovery, IOUtils

TraceLog == ndJsonDeserialize(IOEnv.VERIF_TRACE)
VARIABLE l
tvars == <<vars, l>>

Ev == TraceLog[l]
IsEvent(e) == l <= Len(TraceLog) /\ Ev.ev = e /\ l' = l + 1
ToSet(q) == {q[i] : i \in 1..Len(q)}
LiveSubjects(tbl) == {r.s : r \in {x \in tbl : x.kind = "reg" /\ ~Expired(x.exp)}}

TReset == /\ IsEvent("reset")
          /\ now' = 0 /\ epoch' = 1 /\ seeded' = FALSE /\ ts' = 0 /\ rows' = {}
          /\ events' = 0 /\ defects' = 0 /\ resets' = 0 /\ outages' = 0
          /\ restarts' = 0 /\ srvUpAt' = 0 /\ cliUpAt' = 0
          /\ cseed' = 0 /\ cts' = 0 /\ crows' = {}
          /\ poll' = Idle /\ quiet' = 0 /\ dirty' = FALSE /\ hist' = <<>>

\* the server's verdict is the logged one; timestamp, seed, number of rows and live subjects must be the model's
TSubmit == /\ IsEvent("submit")
           /\ Submit(Ev.s, Ev.kind, Ev.e, Ev.d, Ev.o, Ev.res = "accepted")
           /\ ts' = Ev.ts
           /\ (IF seeded' THEN epoch' ELSE 0) = Ev.seed
           /\ Cardinality(rows') = Ev.n
           /\ LiveSubjects(rows') = ToSet(Ev.live)
TTick == IsEvent("tick") /\ Tick
TServerReset == IsEvent("srvreset") /\ ServerReset
\* a restart of a process on its database: the service row and the tables the new incarnation shows are the model's
TServerRestart == /\ IsEvent("srvrestart") /\ ServerRestart
                  /\ ts' = Ev.ts
                  /\ (IF seeded' THEN epoch' ELSE 0) = Ev.seed
                  /\ Cardinality(rows') = Ev.n
                  /\ LiveSubjects(rows') = ToSet(Ev.live)
TClientRestart == /\ IsEvent("clirestart") /\ ClientRestart
                  /\ cts' = Ev.cts /\ cseed' = Ev.cseed
                  /\ Cardinality(crows') = Ev.n
                  /\ LiveSubjects(crows') = ToSet(Ev.live)
                  /\ {c.s : c \in {x \in crows' : x.val /\ ~Expired(x.exp)}} = ToSet(Ev.search)
\* first statement of get: the service row the real server read
TPollFirst == /\ IsEvent("poll.first") /\ PollFirst
              /\ Ev.first = "discovery_service"
              /\ poll'.after = Ev.after /\ poll'.rts = Ev.rts /\ poll'.rseed = Ev.rseed
\* second statement: the rows of the real response
TPollSecond == /\ IsEvent("poll.second") /\ PollSecond
               /\ {r.ts : r \in poll'.rows} = ToSet(Ev.rows)
               /\ poll'.rts = Ev.rts /\ poll'.rseed = Ev.rseed
\* the client's service row, table size, replica and Search output after the real apply
TApply == /\ IsEvent("apply") /\ ClientApply(Ev.out = 1)
          /\ cts' = Ev.cts /\ cseed' = Ev.cseed
          /\ Cardinality(crows') = Ev.n
          /\ LiveSubjects(crows') = ToSet(Ev.live)
          /\ {c.s : c \in {x \in crows' : x.val /\ ~Expired(x.exp)}} = ToSet(Ev.search)

\* a background validation round (a round with nothing to flag changes nothing)
TValidate == /\ IsEvent("validate")
             /\ IF Pending THEN ClientValidate ELSE UNCHANGED vars
             /\ Cardinality(crows') = Ev.n
             /\ LiveSubjects(crows') = ToSet(Ev.live)
             /\ {c.s : c \in {x \in crows' : x.val /\ ~Expired(x.exp)}} = ToSet(Ev.search)

TraceNext == TReset \/ TSubmit \/ TTick \/ TServerReset \/ TServerRestart \/ TClientRestart \/ TPollFirst \/ TPollSecond \/ TApply \/ TValidate
TraceInit == Init /\ l = 1 /\ TLCSet(1, 1)
TraceSpec == TraceInit /\ [][TraceNext]_tvars

\* acceptance: the whole file was consumed (high-water mark kept in a TLC register; -workers 1)
Progress == TLCSet(1, IF l > TLCGet(1) THEN l ELSE TLCGet(1))
TraceAccepted ==
    \/ TLCGet(1) = Len(TraceLog) + 1
    \/ Print(<<"TRACE-REJECTED-AT", TLCGet(1), TraceLog[TLCGet(1)]>>, FALSE)
=============================================================================
