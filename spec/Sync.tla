------------------------------- MODULE Sync -------------------------------
(***************************************************************************)
(* Set reconciliation of the Nuts network protocol v2                      *)
(* (network/transport/v2/{handlers,transactionlist_handler,senders,        *)
(* conversation,protocol}.go, gossip/{manager,queue}.go) between nodes     *)
(* that each hold a dag.State.                                             *)
(*                                                                         *)
(* One action per protocol handler / timer of the Go code:                 *)
(*   GossipTick(n,p)       gossip ticker -> callSenders -> sendGossipMsg   *)
(*   Deliver(m) = HandleGossip | HandleState | HandleTxSet | HandleListQ   *)
(*                | HandleRangeQ | HandleList   (one handler call)         *)
(*   Expire(n,c)           conversationManager.evict                       *)
(*   LocalCreate(n,t)      a new transaction is created on node n          *)
(*   Lose / Duplicate      the network; reordering is implicit (bag)       *)
(*   Inject                an adversarial peer sends an unsolicited or     *)
(*                         forged response                                 *)
(*                                                                         *)
(* Digest abstraction: XOR(S) == S (set of refs), IBLT(S) == S with        *)
(* decoding possible iff the symmetric difference has at most D elements.  *)
(* Admission of a single transaction is Dag.tla's business; here Add is    *)
(* its sequential summary: t is admitted iff it is valid and all its       *)
(* prevs are present.                                                      *)
(***************************************************************************)
EXTENDS Naturals, FiniteSets, Sequences, TLC

CONSTANTS
    Node,          \* node names
    Link,          \* set of <<n, p>>: n has a connection to p (symmetric)
    Tx,            \* transaction universe
    InitTx,        \* [Node -> SUBSET Tx] initial DAGs (valid, ancestor closed, same root)
    Future,        \* [Node -> SUBSET Tx] transactions node n may create locally
    P,             \* page size in clock values (real: 512)
    D,             \* IBLT decode capacity (real: ~650 for 1024 buckets)
    Q,             \* gossip queue bound (real: 100)
    C,             \* max transactions per TransactionList message (real: bounded by 512 KiB)
    Ids,           \* pool of conversation ids ("smallest id not live anywhere" == fresh UUID)
    MaxLoss, MaxDup, MaxExpire, MaxInject, MaxCreate,
    Hist
CONSTANTS Prevs(_), Lc(_), ValidTx(_)

NoId == 0
Max(S) == IF S = {} THEN 0 ELSE CHOOSE m \in S : \A k \in S : k <= m
Min2(a, b) == IF a < b THEN a ELSE b
SymDiff(S, T) == (S \ T) \cup (T \ S)
LcHigh(S) == Max({Lc(t) : t \in S})
Page(c) == c \div P
PageStart(pg) == pg * P
Peers(n) == {p \in Node : <<n, p>> \in Link}
\* State.XOR(c) / State.IBLT(c): all pages up to and including the page holding clock c
ZeroTo(S, c) == IF c < LcHigh(S) THEN {t \in S : Page(Lc(t)) <= Page(c)} ELSE S

VARIABLES
    txs,      \* [Node -> SUBSET Tx]  the DAG of each node
    conv,     \* [Node -> set of conversations]
    lastc,    \* [Node -> [Node -> id]] lastPeerConversationID (blocking rule)
    gq,       \* [Node -> [Node -> SUBSET Tx]] gossip queue per peer
    glog,     \* [Node -> [Node -> SUBSET Tx]] refs recently received from that peer (not gossiped back)
    net,      \* in-flight envelopes (a set: duplicates are re-deliveries)
    lost, dups, expired, injected, created,
    hist
vars == <<txs, conv, lastc, gq, glog, net, lost, dups, expired, injected, created, hist>>
view == <<txs, conv, lastc, gq, glog, net, lost, dups, expired, injected, created>>

Log(e) == hist' = IF Hist THEN Append(hist, e) ELSE hist

Msg(k, f, to, c, x, l, lr, rs, lo, hi, num, tot) ==
    [kind |-> k, from |-> f, to |-> to, cid |-> c, xor |-> x, lc |-> l, lcReq |-> lr, refs |-> rs, lo |-> lo, hi |-> hi, num |-> num, tot |-> tot]
Conv(c, k, p, l, rs, lo, hi) == [cid |-> c, kind |-> k, peer |-> p, lc |-> l, refs |-> rs, lo |-> lo, hi |-> hi]

Init ==
    /\ txs = InitTx
    /\ conv = [n \in Node |-> {}]
    /\ lastc = [n \in Node |-> [p \in Node |-> NoId]]
    /\ gq = [n \in Node |-> [p \in Node |-> {}]]
    /\ glog = [n \in Node |-> [p \in Node |-> {}]]
    /\ net = {} /\ lost = 0 /\ dups = 0 /\ expired = 0 /\ injected = 0 /\ created = 0
    /\ hist = <<>>

LiveIds == UNION {{c.cid : c \in conv[n]} : n \in Node} \cup {m.cid : m \in net}
\* ids of conversations being closed by the current handler may be reused, unless a message carrying them is still in flight
NetIds == {m.cid : m \in net}
ConvIds == UNION {{c.cid : c \in conv[n]} : n \in Node}
FreshExcept(S) == LET used == (ConvIds \ S) \cup (NetIds \ {i \in S : Cardinality({m \in net : m.cid = i}) <= 1})
                  IN IF Ids \ used = {} THEN NoId ELSE CHOOSE i \in Ids \ used : \A j \in Ids \ used : i <= j
Fresh == FreshExcept({})

\* conversation.go: one active blockable conversation (TransactionListQuery / TransactionRangeQuery) per peer
HasActive(n, p, closing) == \E c \in conv[n] \ closing : c.cid = lastc[n][p] /\ c.kind \in {"ListQ", "RangeQ"}

Nothing == [c |-> {}, m |-> {}, l |-> NoId]
\* senders.go -------------------------------------------------------------
SendState(n, p, l, closing) ==
    LET f == FreshExcept({c.cid : c \in closing}) IN
    IF f = NoId THEN Nothing
    ELSE [c |-> {Conv(f, "State", p, l, {}, 0, 0)},
          m |-> {Msg("State", n, p, f, txs[n], l, 0, {}, 0, 0, 1, 1)}, l |-> NoId]
SendStateX(n, p, x, l, closing) ==   \* State carrying the XOR of set x (after additions in the same handler)
    LET f == FreshExcept({c.cid : c \in closing}) IN
    IF f = NoId THEN Nothing
    ELSE [c |-> {Conv(f, "State", p, l, {}, 0, 0)},
          m |-> {Msg("State", n, p, f, x, l, 0, {}, 0, 0, 1, 1)}, l |-> NoId]
SendListQ(n, p, rs, closing) ==
    LET f == FreshExcept({c.cid : c \in closing}) IN
    IF HasActive(n, p, closing) \/ f = NoId THEN Nothing
    ELSE [c |-> {Conv(f, "ListQ", p, 0, rs, 0, 0)},
          m |-> {Msg("ListQ", n, p, f, {}, 0, 0, rs, 0, 0, 1, 1)}, l |-> f]
SendRangeQ(n, p, lo, hi, closing) ==
    LET f == FreshExcept({c.cid : c \in closing}) IN
    IF HasActive(n, p, closing) \/ f = NoId THEN Nothing
    ELSE [c |-> {Conv(f, "RangeQ", p, 0, {}, lo, hi)},
          m |-> {Msg("RangeQ", n, p, f, {}, 0, 0, {}, lo, hi, 1, 1)}, l |-> f]

\* sendTransactionList: sorted on clock, chunked; nothing is sent for an empty list
RECURSIVE Chunks(_, _, _, _, _, _)
Chunks(n, p, cid, S, num, tot) ==
    IF S = {} THEN {}
    ELSE LET lows == {t \in S : \A u \in S : Lc(t) <= Lc(u)}
             \* take up to C transactions with the lowest clocks (ties: any choice is the same set up to size)
             pick == IF Cardinality(S) <= C THEN S
                     ELSE CHOOSE X \in SUBSET S : Cardinality(X) = C /\ \A a \in X, b \in S \ X : Lc(a) <= Lc(b)
         IN {Msg("List", n, p, cid, {}, 0, 0, pick, 0, 0, num, tot)} \cup Chunks(n, p, cid, S \ pick, num + 1, tot)
ListMsgs(n, p, cid, S) ==
    LET k == Cardinality(S)  tot == (k + C - 1) \div C IN Chunks(n, p, cid, S, 1, tot)

Apply(n, p, out, closing) ==
    /\ conv' = [conv EXCEPT ![n] = (@ \ closing) \cup out.c]
    /\ lastc' = IF out.l = NoId THEN lastc ELSE [lastc EXCEPT ![n][p] = out.l]

\* every admitted transaction is registered with the gossip manager for all peers (queue.enqueue)
Enqueue(n, new) ==
    gq' = [gq EXCEPT ![n] = [p \in Node |->
             IF p \in Peers(n)
             THEN LET cand == new \ glog[n][p]
                      room == IF Q > Cardinality(gq[n][p]) THEN Q - Cardinality(gq[n][p]) ELSE 0
                  IN IF Cardinality(cand) <= room THEN gq[n][p] \cup cand
                     ELSE gq[n][p] \cup (CHOOSE X \in SUBSET cand : Cardinality(X) = room)
             ELSE gq[n][p]]]

\* gossip ----------------------------------------------------------------
\* timing assumption: at most one Gossip in flight per direction, sent when the receiver has no open conversation
GossipTick(n, p) ==
    /\ p \in Peers(n)
    /\ ~(\E m \in net : m.kind = "Gossip" /\ m.from = n /\ m.to = p)
    /\ conv[p] = {} /\ conv[n] = {}
    /\ net' = net \cup {Msg("Gossip", n, p, NoId, txs[n], LcHigh(txs[n]), 0, gq[n][p], 0, 0, 1, 1)}
    /\ gq' = [gq EXCEPT ![n][p] = {}]
    /\ Log([a |-> "GossipTick", n |-> n, p |-> p])
    /\ UNCHANGED <<txs, conv, lastc, glog, lost, dups, expired, injected, created>>

Consume(m, keep) == IF keep THEN net ELSE net \ {m}

\* handlers.go ------------------------------------------------------------
HandleGossip(n, m, keep) ==
    /\ m.kind = "Gossip"
    /\ LET x == txs[n]
           clock == LcHigh(x)
           new == m.refs \ x
           out == IF x = m.xor THEN Nothing
                  ELSE IF SymDiff(x, new) = m.xor \/ (m.lc < clock /\ new # {})
                       THEN SendListQ(n, m.from, new, {})
                       ELSE SendState(n, m.from, clock, {})
       IN /\ Apply(n, m.from, out, {})
          /\ net' = Consume(m, keep) \cup out.m
          /\ glog' = IF x = m.xor \/ m.refs = {} THEN glog ELSE [glog EXCEPT ![n][m.from] = @ \cup m.refs]
          /\ gq' = IF x = m.xor \/ m.refs = {} THEN gq ELSE [gq EXCEPT ![n][m.from] = @ \ m.refs]
    /\ UNCHANGED txs

HandleState(n, m, keep) ==
    /\ m.kind = "State"
    /\ net' = Consume(m, keep) \cup
              (IF txs[n] = m.xor THEN {}
               ELSE {Msg("TxSet", n, m.from, m.cid, ZeroTo(txs[n], m.lc), LcHigh(txs[n]), m.lc, {}, 0, 0, 1, 1)})
    /\ UNCHANGED <<txs, conv, lastc, gq, glog>>

HandleTxSet(n, m, keep) ==
    /\ m.kind = "TxSet"
    /\ LET cs == {c \in conv[n] : c.cid = m.cid /\ c.kind = "State" /\ c.lc = m.lcReq} IN
       IF cs = {} THEN /\ net' = Consume(m, keep) /\ UNCHANGED <<conv, lastc>>   \* unknown / expired / mismatching
       ELSE LET minLC == Min2(m.lcReq, m.lc)
                mine == ZeroTo(txs[n], minLC)
                diff == SymDiff(mine, m.xor)
                missing == m.xor \ mine
                rp == Page(m.lcReq)
                out == IF Cardinality(diff) > D
                       THEN (IF minLC < P THEN SendRangeQ(n, m.from, 0, P, cs)
                             ELSE SendState(n, m.from, PageStart(Page(minLC)) - 1, cs))
                       ELSE IF missing # {} THEN SendListQ(n, m.from, missing, cs)
                       ELSE IF Page(m.lc) > rp
                            THEN (IF Page(LcHigh(txs[n])) > rp
                                  THEN SendRangeQ(n, m.from, PageStart(rp + 1), PageStart(rp + 2), cs)
                                  ELSE SendRangeQ(n, m.from, PageStart(rp + 1), PageStart(rp + 3), cs))
                            ELSE Nothing
            IN /\ Apply(n, m.from, out, cs)
               /\ net' = Consume(m, keep) \cup out.m
    /\ UNCHANGED <<txs, gq, glog>>

HandleListQ(n, m, keep) ==
    /\ m.kind = "ListQ"
    /\ net' = Consume(m, keep) \cup ListMsgs(n, m.from, m.cid, m.refs \cap txs[n])
    /\ UNCHANGED <<txs, conv, lastc, gq, glog>>

HandleRangeQ(n, m, keep) ==
    /\ m.kind = "RangeQ"
    /\ LET hi == Min2(m.hi, m.lo + 2 * P)                               \* two-page cap
           have == {t \in txs[n] : Lc(t) >= m.lo /\ Lc(t) < hi} IN
       net' = Consume(m, keep) \cup (IF m.lo >= m.hi THEN {} ELSE ListMsgs(n, m.from, m.cid, have))
    /\ UNCHANGED <<txs, conv, lastc, gq, glog>>

\* transactionlist_handler.go: transactions are added in clock order; the first one whose prevs are missing
\* ends the conversation and restarts with State; an invalid one aborts the handler (conversation stays open)
AddableAt(S, G) == {t \in G : Prevs(t) \subseteq S /\ ValidTx(t)}
RECURSIVE AddInOrder(_, _)
\* result: [s |-> set after adding, stop |-> "none" | "missing" | "invalid"]
AddInOrder(S, R) ==
    IF R = {} THEN [s |-> S, stop |-> "none"]
    ELSE LET v == CHOOSE v \in {Lc(t) : t \in R} : \A w \in {Lc(t) : t \in R} : v <= w
             G == {t \in R : Lc(t) = v}
             ok == AddableAt(S, G)
         IN IF ok = G THEN AddInOrder(S \cup G, R \ G)
            ELSE IF \E t \in G \ ok : ~ValidTx(t) /\ Prevs(t) \subseteq S THEN [s |-> S \cup ok, stop |-> "invalid"]
            ELSE [s |-> S \cup ok, stop |-> "missing"]
HandleList(n, m, keep) ==
    /\ m.kind = "List"
    /\ LET Matches(c) == \/ (c.kind = "ListQ" /\ m.refs \subseteq c.refs)
                         \/ (c.kind = "RangeQ" /\ (\A t \in m.refs : (Lc(t) >= c.lo /\ Lc(t) < c.hi)))
           cs == {c \in conv[n] : c.cid = m.cid /\ Matches(c)} IN
       IF cs = {} THEN /\ net' = Consume(m, keep) /\ UNCHANGED <<conv, lastc, txs, gq>>  \* unknown, expired, non-requested
       ELSE LET r == AddInOrder(txs[n], m.refs) IN
            /\ txs' = [txs EXCEPT ![n] = r.s]
            /\ Enqueue(n, r.s \ txs[n])
            /\ IF r.stop = "missing"
               THEN LET out == SendStateX(n, m.from, r.s, LcHigh(r.s), cs) IN
                    /\ Apply(n, m.from, out, cs) /\ net' = Consume(m, keep) \cup out.m
               ELSE IF r.stop = "invalid"
               THEN /\ net' = Consume(m, keep) /\ UNCHANGED <<conv, lastc>>
               ELSE /\ net' = Consume(m, keep)
                    /\ IF m.num >= m.tot THEN Apply(n, m.from, Nothing, cs) ELSE UNCHANGED <<conv, lastc>>
    /\ UNCHANGED glog

Deliver(m, keep) ==
    /\ m \in net
    /\ (keep => dups < MaxDup) /\ dups' = (IF keep THEN dups + 1 ELSE dups)
    /\ LET n == m.to IN
       \/ HandleGossip(n, m, keep) \/ HandleState(n, m, keep) \/ HandleTxSet(n, m, keep)
       \/ HandleListQ(n, m, keep) \/ HandleRangeQ(n, m, keep) \/ HandleList(n, m, keep)
    /\ Log([a |-> "Deliver", kind |-> m.kind, from |-> m.from, to |-> m.to, num |-> m.num, keep |-> keep, cid |-> m.cid,
            new |-> LET d == conv'[m.to] \ conv[m.to] IN IF d = {} THEN NoId ELSE (CHOOSE c \in d : TRUE).cid])
    /\ UNCHANGED <<lost, expired, injected, created>>

Lose(m) ==
    /\ m \in net /\ lost < MaxLoss /\ lost' = lost + 1 /\ net' = net \ {m}
    /\ Log([a |-> "Lose", kind |-> m.kind, from |-> m.from, to |-> m.to, num |-> m.num, cid |-> m.cid])
    /\ UNCHANGED <<txs, conv, lastc, gq, glog, dups, expired, injected, created>>

\* a conversation times out; normally only when nothing belonging to it is still in flight (timely delivery),
\* a bounded number of times prematurely
Expire(n, c) ==
    /\ c \in conv[n]
    /\ \/ ~(\E m \in net : m.cid = c.cid)
       \/ expired < MaxExpire
    /\ expired' = IF \E m \in net : m.cid = c.cid THEN expired + 1 ELSE expired
    /\ conv' = [conv EXCEPT ![n] = @ \ {c}]
    /\ Log([a |-> "Expire", n |-> n, kind |-> c.kind, cid |-> c.cid, lc |-> c.lc, lo |-> c.lo, hi |-> c.hi, nrefs |-> Cardinality(c.refs)])
    /\ UNCHANGED <<txs, lastc, gq, glog, net, lost, dups, injected, created>>

\* a transaction is created locally (network.CreateTransaction -> State.Add -> gossip notifier)
LocalCreate(n, t) ==
    /\ created < MaxCreate /\ t \in Future[n] /\ t \notin txs[n] /\ Prevs(t) \subseteq txs[n]
    /\ created' = created + 1
    /\ txs' = [txs EXCEPT ![n] = @ \cup {t}]
    /\ Enqueue(n, {t})
    /\ Log([a |-> "LocalCreate", n |-> n, t |-> t])
    /\ UNCHANGED <<conv, lastc, glog, net, lost, dups, expired, injected>>

\* adversarial / stale traffic: an unsolicited or forged response from peer p to n
InjectKinds == {"List-unknown-cid", "List-live-cid-foreign-refs", "List-invalid-tx", "TxSet-unknown-cid", "TxSet-wrong-lcreq"}
Inject(n, p, k, t) ==
    /\ injected < MaxInject /\ p \in Peers(n) /\ t \in Tx
    /\ injected' = injected + 1
    /\ LET live == {c \in conv[n] : c.peer = p}
           somecid == IF live = {} THEN NoId ELSE (CHOOSE c \in live : TRUE).cid
           m == CASE k = "List-unknown-cid" -> Msg("List", p, n, NoId, {}, 0, 0, {t}, 0, 0, 1, 1)
                  [] k = "List-live-cid-foreign-refs" -> Msg("List", p, n, somecid, {}, 0, 0, {t}, 0, 0, 1, 1)
                  [] k = "List-invalid-tx" -> Msg("List", p, n, somecid, {}, 0, 0, {t}, 0, 0, 1, 1)
                  [] k = "TxSet-unknown-cid" -> Msg("TxSet", p, n, NoId, {t}, Lc(t), Lc(t), {}, 0, 0, 1, 1)
                  [] k = "TxSet-wrong-lcreq" -> Msg("TxSet", p, n, somecid, {t}, Lc(t), Lc(t) + 7, {}, 0, 0, 1, 1)
       IN /\ (k = "List-invalid-tx" <=> ~ValidTx(t))
          /\ (k \in {"List-live-cid-foreign-refs", "List-invalid-tx", "TxSet-wrong-lcreq"} => live # {})
          /\ net' = net \cup {m}
    /\ Log([a |-> "Inject", n |-> n, p |-> p, k |-> k, t |-> t])
    /\ UNCHANGED <<txs, conv, lastc, gq, glog, lost, dups, expired, created>>

Next ==
    \/ \E n \in Node, p \in Node : GossipTick(n, p)
    \/ \E m \in net, keep \in BOOLEAN : Deliver(m, keep)
    \/ \E m \in net : Lose(m)
    \/ \E n \in Node : \E c \in conv[n] : Expire(n, c)
    \/ \E n \in Node, t \in Tx : LocalCreate(n, t)
    \/ \E n \in Node, p \in Node, k \in InjectKinds, t \in Tx : Inject(n, p, k, t)

Spec == Init /\ [][Next]_vars

Kinds == {"Gossip", "State", "TxSet", "ListQ", "RangeQ", "List"}
\* fairness per message class (kind x conversation id x direction): the real streams are FIFO per connection, which is stronger
Fair ==
    \* the gossip ticker fires periodically whatever else happens: strong fairness (its guard is a timing assumption)
    /\ \A n \in Node, p \in Node : SF_vars(GossipTick(n, p))
    /\ \A n \in Node, p \in Node, k \in Kinds, i \in Ids \cup {NoId}, j \in 1..3 :
          WF_vars(\E m \in net : m.kind = k /\ m.cid = i /\ m.from = p /\ m.to = n /\ m.num = j /\ Deliver(m, FALSE))
    /\ \A n \in Node : WF_vars(\E c \in conv[n] : Expire(n, c) /\ ~(\E m \in net : m.cid = c.cid))
FairSpec == Spec /\ Fair

(***************************************************************************)
(* Properties (C07)                                                        *)
(***************************************************************************)
AllTx == UNION {InitTx[n] \cup Future[n] : n \in Node}
\* never admits an invalid transaction, the DAG stays ancestor closed
OnlyValid == \A n \in Node : \A t \in txs[n] : ValidTx(t) /\ Prevs(t) \subseteq txs[n]
\* never removes one
NeverRemove == [][\A n \in Node : txs[n] \subseteq txs'[n]]_vars
\* one active blocking conversation per peer
OneBlockingPerPeer == \A n \in Node, p \in Node : Cardinality({c \in conv[n] : c.peer = p /\ c.kind \in {"ListQ", "RangeQ"} /\ c.cid = lastc[n][p]}) <= 1
\* connected nodes end up with the union (what exists in the network, including locally created ones)
Existing == UNION {txs[n] : n \in Node}
Converged == \A n \in Node : txs[n] = Existing
Converges == <>[]Converged
=============================================================================
