------------------------------ MODULE UserFlow ------------------------------
(***************************************************************************)
(* X12: the OpenID4VP authorization-code flow with a USER wallet.          *)
(*   auth/api/iam/api.go       RequestUserAccessToken, Callback,           *)
(*                             RetrieveAccessToken, RequestJWTByGet/Post,  *)
(*                             handleAuthorizeRequest, createAuthorization-*)
(*                             Request                                     *)
(*   auth/api/iam/user.go      handleUserLanding, provisionUserSession     *)
(*   auth/api/iam/openid4vp.go handleAuthorizeRequestFromHolder / -Verifier*)
(*                             nextOpenID4VPFlow, HandleAuthorizeResponse, *)
(*                             validatePresentationNonce,                  *)
(*                             handleAccessTokenRequest, handleCallback    *)
(*   auth/api/iam/jar.go, session.go (PEXConsumer), http/user/session.go   *)
(*                                                                         *)
(* Node A hosts the client tenants (holder / user wallet side), node B the *)
(* verifier tenants.  A flow f has a tenant, a verifier and a scope        *)
(* ("both": organization AND user presentation, "org": organization only). *)
(* Every secret value is NAMED by the flow it was made for: redirect token *)
(* T_f, pick-up session id S_f, request object R1_f (A), client state cs_f *)
(* (A), server state st_f (B), request objects R2_f / R3_f and nonces per  *)
(* leg (B), authorization code C_f, PKCE verifier (inside cs_f).           *)
(*                                                                         *)
(* ONE ACTION PER HANDLER, written as a state transformer (record in,      *)
(* record + answer class out) so that a handler that calls other handlers  *)
(* over the network (the wallet's authorize endpoint performs both         *)
(* direct_posts, the callback performs the token request) is the           *)
(* sequential composition of the very operators the attacker can also call *)
(* directly:                                                               *)
(*   HStart     RequestUserAccessToken        (client application)         *)
(*   HLand      GET  A /oauth2/tn/user?token  (browser b)                  *)
(*   HFetchA    GET  A /oauth2/tn/request.jwt/R1                           *)
(*   HAuthV     GET  B /oauth2/v/authorize    (code flow, JAR by reference)*)
(*   HFetchB    GET/POST B /oauth2/v/request.jwt/R2|R3                     *)
(*   HPost      POST B /oauth2/v/response     (direct_post)                *)
(*   HAuthW     GET  A /oauth2/tn/authorize   (vp_token flow, both legs)   *)
(*   HToken     POST B /oauth2/v/token                                     *)
(*   HCallback  GET  A /oauth2/tn/callback                                 *)
(*   HRetrieve  GET  A /internal/auth/v2/accesstoken/S                     *)
(*   Tick(d)    the stores' clocks advance by d seconds (5 / 60 / 900 =    *)
(*              the three life times used by the code)                     *)
(* The browser / attacker chooses every parameter: which tenant path,      *)
(* which flow's token / request_uri / code / state, which captured         *)
(* presentation with which state, a dropped direct_post (captured, not     *)
(* delivered), another tenant's cookie.                                    *)
(*                                                                         *)
(* Deviation constants (TRUE = the property statement, FALSE = the code):  *)
(*   LandingChecksTenant  the landing page refuses a redirect token that   *)
(*                        was made for another tenant [X12-landing-tenant] *)
(*   WalletPerUser        a browser session serves one user: a landing for *)
(*                        another pre-authorized user re-issues the        *)
(*                        employee credential and cancels the flows the    *)
(*                        session has in progress; the code keeps whatever *)
(*                        credential the session holds                     *)
(*                                                [X12-stale-user]         *)
(*   WalletBoundToFlow    the wallet answers an authorization request only *)
(*                        in the browser session (and on the tenant) in    *)
(*                        which the flow it belongs to was landed, i.e. the*)
(*                        verifier's request names the client's state; the *)
(*                        code answers any request in any session          *)
(*                                  [X12-stale-user, X12-foreign-wallet]   *)
(*   PresenterIsClient    the verifier refuses an organization presentation*)
(*                        whose signer is not the client the session was   *)
(*                        opened for              [X12-foreign-wallet]     *)
(***************************************************************************)
EXTENDS Naturals, FiniteSets, Sequences, TLC

CONSTANTS
    Flows, Cfg,            \* flow -> [tenant, ver, scope]
    Tenants, Verifiers, Browsers,
    MaxSteps, MaxAtk, MaxTick,
    LandingChecksTenant, WalletPerUser, WalletBoundToFlow, PresenterIsClient,
    Hist

VARIABLES st, last, nsteps, natk, nticks, hist

vars == <<st, last, nsteps, natk, nticks, hist>>
view == <<st, last, nsteps, natk, nticks>>

Legs == {"org", "user"}
Tenant(f) == Cfg[f].tenant
Ver(f) == Cfg[f].ver
Scope(f) == Cfg[f].scope
None == "-"

InitState == [
    redir |-> {},                                   \* A user/redirect
    pend  |-> [f \in Flows |-> "none"],             \* A clientaccesstoken: none | pending | active | gone
    tok   |-> [f \in Flows |-> None],               \* ... the flow whose code bought the token lying under S_f
    cst   |-> {},                                   \* A oauth/client_state
    roA   |-> {},                                   \* A oauth/requestobject (R1)
    wal   |-> [b \in Browsers |-> [t \in Tenants |-> "none"]],   \* A user/session of (browser, tenant): none | empty | flow whose user the credential names
    sst   |-> {},                                   \* B oauth/client_state
    ful   |-> [f \in Flows |-> {}],                 \* ... presentations fulfilled
    roB   |-> {},                                   \* B oauth/requestobject: <<flow, leg>>
    non   |-> {},                                   \* B oauth/nonce: <<flow, leg>>
    code  |-> {},                                   \* B oauth/code
    stok  |-> {},                                   \* B serveraccesstoken (named by the flow of the code)
    vp    |-> [f \in Flows |-> [l \in Legs |-> [by |-> None, usr |-> None]]],  \* the presentation made for nonce (f, leg): whose wallet
    held  |-> {},                                   \* presentations the attacker has seen on the wire
    \* ---- ghosts (what the statements talk about)
    landed |-> [f \in Flows |-> None],              \* tenant path on which T_f was accepted
    lsess |-> [f \in Flows |-> <<None, None>>],     \* ... and the browser session it was accepted in
    orgBy |-> [f \in Flows |-> None],               \* wallet that fulfilled the organization leg of session st_f
    usrOf |-> [f \in Flows |-> None],               \* flow whose user the accepted user presentation names
    iss   |-> [f \in Flows |-> [ful |-> {}, org |-> None, usr |-> None, done |-> FALSE]],  \* at token issuance
    deliv |-> [f \in Flows |-> 0],
    started |-> {}
]

R(s, out) == [s |-> s, out |-> out]

---------------------------------------------------------------------------
\* user.SessionMiddleware: a request without a valid cookie of THIS tenant gets a fresh, empty session
Sess(s, b, tn) == IF s.wal[b][tn] = "none" THEN [s EXCEPT !.wal[b][tn] = "empty"] ELSE s

HStart(s, f) == R([s EXCEPT !.redir = @ \cup {f}, !.pend[f] = "pending", !.started = @ \cup {f}], "started")

HLand(s0, b, tn, f) ==
    LET s == Sess(s0, b, tn) IN
    IF f \notin s.redir THEN R(s, "forbidden")
    ELSE LET s1 == [s EXCEPT !.redir = @ \ {f}] IN
         IF LandingChecksTenant /\ tn # Tenant(f) THEN R(s1, "forbidden")
         ELSE LET w == IF WalletPerUser \/ s1.wal[b][tn] = "empty" THEN f ELSE s1.wal[b][tn]
                  \* the statement's design: one user per browser session - a landing for another user cancels the flows the
                  \* session still has in progress (their client state), so that none of them can end with this user's credential
                  kill == IF WalletPerUser /\ s1.wal[b][tn] \notin {"empty", f} THEN {g \in s1.cst : s1.lsess[g] = <<b, tn>>} ELSE {} IN
              R([s1 EXCEPT !.wal[b][tn] = w, !.cst = (@ \ kill) \cup {f}, !.roA = @ \cup {f}, !.landed[f] = tn, !.lsess[f] = <<b, tn>>], "to-verifier")

HFetchA(s, tn, r) ==
    IF r \notin s.roA THEN R(s, "refused")
    ELSE LET s1 == [s EXCEPT !.roA = @ \ {r}] IN
         IF tn # Tenant(r) THEN R(s1, "refused") ELSE R(s1, "jwt")

\* B: authorization endpoint, response_type=code. The request object is fetched from the URL in request_uri.
HAuthV(s, v, cid, r) ==
    LET fa == HFetchA(s, Tenant(r), r) IN
    IF fa.out # "jwt" THEN R(fa.s, "error-page")
    ELSE IF cid # Tenant(r) THEN R(fa.s, "error-page")                 \* client_id claim of the signed request differs
    ELSE IF v # Ver(r) THEN R(fa.s, "to-callback-error")              \* audience: error to the redirect_uri of the SIGNED request
    ELSE R([fa.s EXCEPT !.sst = @ \cup {r}, !.ful[r] = {}, !.roB = @ \cup {<<r, "org">>}, !.non = @ \cup {<<r, "org">>}], "to-wallet")

HFetchB(s, v, r, leg, m) ==
    IF <<r, leg>> \notin s.roB THEN R(s, "refused")
    ELSE LET s1 == [s EXCEPT !.roB = @ \ {<<r, leg>>}] IN
         IF v # Ver(r) \/ m # (IF leg = "org" THEN "get" ELSE "post") THEN R(s1, "refused") ELSE R(s1, "jwt")

\* B: direct_post of the presentation made for nonce (p, leg), sent with the state of flow x
HPost(s, v, p, leg, x) ==
    IF x \notin s.sst \/ v # Ver(x) THEN R(s, "refused")
    ELSE IF <<p, leg>> \notin s.non THEN R(s, "error-redirect")
    ELSE LET s1 == [s EXCEPT !.non = @ \ {<<p, leg>>}] IN               \* the nonce is burnt whatever follows
         IF p # x THEN R(s1, "error-redirect")
         ELSE IF PresenterIsClient /\ leg = "org" /\ s.vp[p][leg].by # Tenant(x) THEN R(s1, "error-redirect")
         ELSE LET s2 == [s1 EXCEPT !.ful[x] = @ \cup {leg},
                                   !.orgBy[x] = IF leg = "org" THEN s.vp[p][leg].by ELSE @,
                                   !.usrOf[x] = IF leg = "user" THEN s.vp[p][leg].usr ELSE @] IN
              IF Scope(x) = "both" /\ "user" \notin s2.ful[x]
              THEN R([s2 EXCEPT !.roB = @ \cup {<<x, "user">>}, !.non = @ \cup {<<x, "user">>}], "next")
              ELSE R([s2 EXCEPT !.code = @ \cup {x}], "code")

\* A: authorization endpoint, response_type=vp_token (the wallet). ck: another tenant's cookie is sent along (ignored by
\* the code: the session names its tenant, a new session is made). drop: the attacker keeps that leg's direct_post for himself.
HAuthW(s0, b, tn, r, ck, drop) ==
    LET s == IF ck = "" THEN Sess(s0, b, tn) ELSE [s0 EXCEPT !.wal[b][tn] = "empty"]   \* a foreign cookie: a fresh session replaces the browser's
        fo == HFetchB(s, Ver(r), r, "org", "get") IN
    IF WalletBoundToFlow /\ (r \notin s.cst \/ s.lsess[r] # <<b, tn>>) THEN R(s, "error-page")
    ELSE IF fo.out # "jwt" THEN R(fo.s, "error-page")
    ELSE LET s1 == [fo.s EXCEPT !.vp[r]["org"] = [by |-> tn, usr |-> None], !.held = @ \cup {<<r, "org">>}] IN
         IF drop = "org" THEN R(s1, "error-page")
         ELSE LET po == HPost(s1, Ver(r), r, "org", r) IN
              IF po.out = "code" THEN R(po.s, "to-callback-code")
              ELSE IF po.out # "next" THEN R(po.s, "error-page")
              ELSE LET fu == HFetchB(po.s, Ver(r), r, "user", "post") IN
                   IF fu.out # "jwt" THEN R(fu.s, "error-page")
                   ELSE IF fu.s.wal[b][tn] = "empty" THEN R(fu.s, "to-callback-error")   \* no credential: error posted to the verifier
                   ELSE LET s2 == [fu.s EXCEPT !.vp[r]["user"] = [by |-> tn, usr |-> fu.s.wal[b][tn]], !.held = @ \cup {<<r, "user">>}] IN
                        IF drop = "user" THEN R(s2, "error-page")
                        ELSE LET pu == HPost(s2, Ver(r), r, "user", r) IN
                             IF pu.out = "code" THEN R(pu.s, "to-callback-code") ELSE R(pu.s, "error-page")

\* B: token endpoint. c: the code, x: the flow whose PKCE verifier is sent, cid: client_id
HToken(s, c, x, cid) ==
    IF c \notin s.code THEN R(s, "refused")
    ELSE LET s1 == [s EXCEPT !.code = @ \ {c}] IN
         IF cid # Tenant(c) \/ x # c THEN R(s1, "refused")
         ELSE R([s1 EXCEPT !.stok = @ \cup {c},
                           !.iss[c] = [ful |-> s.ful[c], org |-> s.orgBy[c], usr |-> s.usrOf[c], done |-> TRUE]], "token")

HCallback(s0, b, tn, c, x) ==
    LET s == Sess(s0, b, tn) IN
    IF x \notin s.cst THEN R(s, "error-page")
    ELSE IF tn # Tenant(x) THEN R(s, "to-app-error")
    ELSE LET t == HToken(s, c, x, Tenant(x)) IN
         IF t.out # "token" THEN R(t.s, "to-app-error")
         ELSE R([t.s EXCEPT !.pend[x] = "active", !.tok[x] = c], "to-app-ok")

HRetrieve(s, f) ==
    CASE s.pend[f] = "pending" -> R(s, "pending")
      [] s.pend[f] = "active" -> R([s EXCEPT !.pend[f] = "gone", !.deliv[f] = @ + 1], "token")
      [] OTHER -> R(s, "notfound")

HTick(s, d) ==
    LET s5 == [s EXCEPT !.redir = {}]
        s60 == [s5 EXCEPT !.cst = {}, !.sst = {}, !.non = {}, !.code = {}]
        s900 == [s60 EXCEPT !.roA = {}, !.roB = {}, !.stok = {},
                            !.pend = [f \in Flows |-> IF s.pend[f] \in {"pending", "active"} THEN "gone" ELSE s.pend[f]]] IN
    R(IF d = 5 THEN s5 ELSE IF d = 60 THEN s60 ELSE s900, "tick")

---------------------------------------------------------------------------
\* what exists (the attacker can only present values that were made)
MadeR1(r) == st.landed[r] # None
MadeR2(r) == st.vp[r]["org"].by # None \/ <<r, "org">> \in st.roB \/ r \in st.sst \/ st.ful[r] # {}
MadeCode(c) == c \in st.code \/ st.iss[c].done \/ \E f \in Flows : st.tok[f] = c
MadeCs(x) == st.landed[x] # None

Step(res, e, atk) ==
    /\ nsteps < MaxSteps
    /\ st' = res.s
    /\ last' = [e EXCEPT !.out = res.out]
    /\ nsteps' = nsteps + 1
    /\ natk' = natk + (IF atk THEN 1 ELSE 0)
    /\ hist' = IF Hist THEN Append(hist, [e EXCEPT !.out = res.out]) ELSE hist
    /\ UNCHANGED nticks

E0 == [a |-> "", f |-> "", b |-> "", tn |-> "", v |-> "", cid |-> "", r |-> "", c |-> "", s |-> "", p |-> "", leg |-> "", m |-> "",
       ck |-> "", drop |-> "", evil |-> FALSE, d |-> 0, k |-> "", out |-> ""]

Start(f) == f \notin st.started /\ Step(HStart(st, f), [E0 EXCEPT !.a = "Start", !.f = f], FALSE)
Land(b, tn, f) == /\ f \in st.started /\ (tn # Tenant(f) \/ f \notin st.redir => natk < MaxAtk)
                  /\ Step(HLand(st, b, tn, f), [E0 EXCEPT !.a = "Land", !.b = b, !.tn = tn, !.f = f], tn # Tenant(f) \/ f \notin st.redir)
AuthV(b, v, cid, r, evil) ==
    LET atk == cid # Tenant(r) \/ v # Ver(r) \/ evil \/ r \notin st.roA IN
    /\ MadeR1(r) /\ (atk => natk < MaxAtk) /\ (evil => cid = Tenant(r) /\ v = Ver(r))
    /\ Step(HAuthV(st, v, cid, r), [E0 EXCEPT !.a = "AuthV", !.b = b, !.v = v, !.cid = cid, !.r = r, !.evil = evil], atk)
AuthW(b, tn, r, ck, drop) ==
    LET atk == tn # Tenant(r) \/ ck # "" \/ drop # "" \/ <<r, "org">> \notin st.roB IN
    /\ MadeR2(r) /\ (atk => natk < MaxAtk) /\ ck # tn /\ (ck # "" => st.wal[b][ck] # "none" /\ drop = "")
    /\ (drop = "user" => Scope(r) = "both")
    /\ Step(HAuthW(st, b, tn, r, ck, drop), [E0 EXCEPT !.a = "AuthW", !.b = b, !.tn = tn, !.r = r, !.ck = ck, !.drop = drop], atk)
Callback(b, tn, c, x) ==
    LET atk == c # x \/ tn # Tenant(x) \/ c \notin st.code \/ x \notin st.cst IN
    /\ MadeCode(c) /\ MadeCs(x) /\ (atk => natk < MaxAtk)
    /\ Step(HCallback(st, b, tn, c, x), [E0 EXCEPT !.a = "Callback", !.b = b, !.tn = tn, !.c = c, !.s = x], atk)
Retrieve(f) == /\ f \in st.started /\ (st.pend[f] # "active" => natk < MaxAtk)
               /\ Step(HRetrieve(st, f), [E0 EXCEPT !.a = "Retrieve", !.f = f], st.pend[f] # "active")
FetchA(tn, r) == MadeR1(r) /\ natk < MaxAtk /\ Step(HFetchA(st, tn, r), [E0 EXCEPT !.a = "FetchA", !.tn = tn, !.r = r], TRUE)
FetchB(v, r, leg, m) == /\ (leg = "org" /\ MadeR2(r)) \/ (leg = "user" /\ (<<r, "user">> \in st.roB \/ st.vp[r]["user"].by # None))
                        /\ natk < MaxAtk
                        /\ Step(HFetchB(st, v, r, leg, m), [E0 EXCEPT !.a = "FetchB", !.v = v, !.r = r, !.leg = leg, !.m = m], TRUE)
Post(v, p, leg, x) == /\ <<p, leg>> \in st.held /\ (x \in st.sst \/ st.ful[x] # {} \/ st.iss[x].done \/ MadeR2(x)) /\ natk < MaxAtk
                      /\ Step(HPost(st, v, p, leg, x), [E0 EXCEPT !.a = "Post", !.v = v, !.p = p, !.leg = leg, !.s = x], TRUE)
\* a token request without the verifier (the code was read off the browser's redirect)
TokenGuess(v, c, cid) == /\ MadeCode(c) /\ natk < MaxAtk
                         /\ Step(R(HToken(st, c, None, cid).s, "refused"), [E0 EXCEPT !.a = "TokenGuess", !.v = v, !.c = c, !.cid = cid], TRUE)
\* a request object signed by a tenant the attacker controls that names ANOTHER client and the attacker's redirect_uri
Forged(b, v, cid) == natk < MaxAtk /\ Step(R(st, "error-page"), [E0 EXCEPT !.a = "Forged", !.b = b, !.v = v, !.cid = cid, !.k = "foreign-key"], TRUE)
Tick(d) == /\ nticks < MaxTick /\ nsteps < MaxSteps /\ st.started # {}
           /\ st' = HTick(st, d).s /\ last' = [E0 EXCEPT !.a = "Tick", !.d = d, !.out = "tick"]
           /\ nsteps' = nsteps + 1 /\ nticks' = nticks + 1 /\ UNCHANGED natk
           /\ hist' = IF Hist THEN Append(hist, [E0 EXCEPT !.a = "Tick", !.d = d, !.out = "tick"]) ELSE hist

Init == st = InitState /\ last = E0 /\ nsteps = 0 /\ natk = 0 /\ nticks = 0 /\ hist = <<>>

Next ==
    \/ \E f \in Flows : Start(f) \/ Retrieve(f)
    \/ \E b \in Browsers, tn \in Tenants, f \in Flows : Land(b, tn, f)
    \/ \E b \in Browsers, v \in Verifiers, cid \in Tenants, r \in Flows, evil \in BOOLEAN : AuthV(b, v, cid, r, evil)
    \/ \E b \in Browsers, tn \in Tenants, r \in Flows, ck \in Tenants \cup {""}, drop \in {"", "org", "user"} : AuthW(b, tn, r, ck, drop)
    \/ \E b \in Browsers, tn \in Tenants, c \in Flows, x \in Flows : Callback(b, tn, c, x)
    \/ \E tn \in Tenants, r \in Flows : FetchA(tn, r)
    \/ \E v \in Verifiers, r \in Flows, leg \in Legs, m \in {"get", "post"} : FetchB(v, r, leg, m)
    \/ \E v \in Verifiers, p \in Flows, leg \in Legs, x \in Flows : Post(v, p, leg, x)
    \/ \E v \in Verifiers, c \in Flows, cid \in Tenants : TokenGuess(v, c, cid)
    \/ \E b \in Browsers, v \in Verifiers, cid \in Tenants : Forged(b, v, cid)
    \/ \E d \in {5, 60, 900} : Tick(d)

Spec == Init /\ [][Next]_vars

---------------------------------------------------------------------------
(* Properties                                                              *)
TypeOK ==
    /\ st.redir \subseteq Flows /\ st.cst \subseteq Flows /\ st.roA \subseteq Flows /\ st.sst \subseteq Flows
    /\ st.roB \subseteq Flows \X Legs /\ st.non \subseteq Flows \X Legs /\ st.code \subseteq Flows /\ st.stok \subseteq Flows
    /\ \A f \in Flows : st.pend[f] \in {"none", "pending", "active", "gone"} /\ st.ful[f] \subseteq Legs

Required(f) == IF Scope(f) = "both" THEN {"org", "user"} ELSE {"org"}

\* U1: what lies under the session id of f is the token bought with the code of f, issued after every required presentation
\* was accepted for the nonce / state / verifier of f; it is handed out once
TokenForOwnFlow == \A f \in Flows : st.pend[f] = "active" => st.tok[f] = f
TokenAfterPresentations == \A f \in Flows : st.iss[f].done => st.iss[f].ful = Required(f)
DeliveredOnce == \A f \in Flows : st.deliv[f] <= 1
\* ... by the wallet of the client the flow belongs to, about the user the flow was started for
TokenOrganization == \A f \in Flows : st.iss[f].done => st.iss[f].org = Tenant(f)
TokenUser == \A f \in Flows : (st.iss[f].done /\ Scope(f) = "both") => st.iss[f].usr = f
\* U2: a redirect token is only good on the landing page of its tenant; a server session is only fulfilled by its client
LandingBound == \A f \in Flows : st.landed[f] \in {None, Tenant(f)}
SessionFulfilledByClient == \A f \in Flows : st.orgBy[f] \in {None, Tenant(f)}
\* U3: nothing that was redeemed (or expired) comes back
NoResurrection ==
    [][/\ st'.redir \subseteq st.redir \cup (st'.started \ st.started)
       /\ \A f \in Flows : (st.pend[f] = "gone" => st'.pend[f] = "gone")
       /\ \A f \in Flows : (f \in st'.code \ st.code) => ~st.iss[f].done /\ f \notin st.stok
       /\ \A f \in Flows : (f \in st'.roA \ st.roA) => st.landed[f] = None
       /\ \A f \in Flows : st.deliv[f] <= st'.deliv[f]]_vars
\* U2: a step that names only values of some flows leaves every other flow alone (Tick excepted)
FlowView(s, g) == <<g \in s.redir, s.pend[g], s.tok[g], g \in s.cst, g \in s.roA, g \in s.sst, s.ful[g],
                    {l \in Legs : <<g, l>> \in s.roB}, {l \in Legs : <<g, l>> \in s.non}, g \in s.code, g \in s.stok, s.iss[g], s.deliv[g]>>
Named(e) == {e.f, e.r, e.c, e.s, e.p}
\* (the statement's design lets a landing cancel the other flows of the SAME browser session)
OthersUntouched == [][last'.a # "Tick" => \A g \in Flows \ Named(last') :
                          (last'.a = "Land" /\ st.lsess[g] = <<last'.b, last'.tn>>) \/ FlowView(st', g) = FlowView(st, g)]_vars
\* U2: a refused mix of two flows' values only burns what was presented
MixRefusedHarmless ==
    [][(last'.a = "Callback" /\ last'.c # last'.s /\ last'.out # "to-app-ok") =>
          (st'.cst = st.cst /\ st'.pend = st.pend /\ st'.stok = st.stok /\ st'.code \subseteq st.code /\ st.code \ st'.code \subseteq {last'.c})]_vars
\* U4: the model has one class for "redirect to a URI taken from the unsigned query": it never occurs
NoOpenRedirect == last.out # "to-evil"
\* U5: a browser session of a tenant only ever holds (and presents) credentials made on that tenant's path
WalletOfTenant == \A f \in Flows : \A l \in Legs : st.vp[f][l].by # None => st.vp[f][l].by \in Tenants

Terminal == nsteps = MaxSteps \/ (\A f \in Flows : st.pend[f] = "gone")
=============================================================================
