--------------------------- MODULE MCRevocation ---------------------------
(* Model-checking harness for Revocation.tla: behaviour generation. *)
EXTENDS Revocation, Json

\* one witness behaviour (shortest path) per distinct state (Hist = TRUE configs only); in -simulate mode: every prefix
Emit == Hist => PrintT(ToJson(hist))
\* split Entry transaction: one witness per distinct final allocation
EmitAlloc == (Hist /\ Procs # {} /\ nIssued = MaxCreds /\ Quiet) => PrintT(ToJson(hist))
\* reachability witness (EXPECTED to be violated, Revocation.reach.dupretry.cfg): some Entry transaction hits the duplicate key
\* of a page another transaction created meanwhile and has to start over
NeverDuplicate == [][\A p \in Procs : ~(epc[p] = "locked" /\ epc'[p] = "idle" /\ nIssued' = nIssued)]_vars
\* symmetry of the check configs whose Issuers / Nodes are model values
Sym == Permutations(Issuers) \cup Permutations(Nodes)
SymNodes == Permutations(Nodes)
=============================================================================
