------------------------------ MODULE Config ------------------------------
(***************************************************************************)
(* C20 - strict mode refuses every insecure configuration it documents.    *)
(*                                                                         *)
(* State = one configuration vector.  Start-up is the walk                 *)
(*   Load -> Configure(engine 1) -> ... -> Configure(engine n) -> Start    *)
(* of cmd/root.go (startServer) over the engines in the order in which     *)
(* cmd.CreateSystem registers them; each step carries the guard that the   *)
(* engine's Configure implements:                                          *)
(*   core/server_config.go Load       moved network.{certfile,...} keys    *)
(*   core/config.go loadFromFlagSet   *token / *password flags             *)
(*   storage/engine.go initSQLDatabase   implicit SQLite                   *)
(*   crypto/crypto.go Configure       implicit key storage backend         *)
(*   core/url.go ParsePublicURL       public URL (vdr, auth: ServerURL())  *)
(*   network/network.go Configure     TLS disabled (only with did:nuts)    *)
(*   auth/auth.go Configure           IRMA scheme manager                  *)
(*   auth/services/notary Configure   dummy means dropped                  *)
(*   http/engine.go configureClient   client.StrictMode (registered LAST)  *)
(* The HTTP engine is configured last, yet vdr (did:web resolver), vcr     *)
(* (OpenID4VCI issuer/wallet clients, StatusList2021 client) and discovery *)
(* construct their long-lived StrictHTTPClients in their OWN Configure,    *)
(* i.e. while client.StrictMode still has its zero value.  The walk keeps  *)
(* the live flag and, per holder, the value the flag had when its client   *)
(* was built, so that "is the flag read when the request is made or when   *)
(* the client is made" is a property of the model (LiveStrictFlag).        *)
(* A running node then performs actions whose guards are transcribed too:  *)
(*   notary.CreateSigningSession / VerifyVP with the dummy means           *)
(*   jsonld document loader on a context URL                               *)
(*   http/client StrictHTTPClient.Do, auth/client/iam, oauth.relyingParty  *)
(*   on an outbound URL class                                              *)
(* TLC enumerates the complete product of vectors and (vector x action)    *)
(* pairs and computes the verdicts; tools/props/config.py feeds every      *)
(* vector to the real engines and to the assembled system                  *)
(* (harness/drivers/config).                                               *)
(***************************************************************************)
EXTENDS Naturals, FiniteSets, Sequences, TLC

CONSTANTS
    RedirectGuard,   \* TRUE: a redirect to plain http:// is refused in strict mode.  FALSE: StrictHTTPClient checks the first request only (F14)
    LiveStrictFlag,  \* TRUE: StrictHTTPClient.Do reads client.StrictMode when the request is made (the tree).  FALSE: the client keeps the
                     \*       value the flag had when it was constructed - wrong for every client built before http.Engine.Configure
    AuthPassesStrictMode,  \* TRUE: Auth.IAMClient() hands the node's strict mode to the IAM client.  FALSE: auth.strictMode is declared and
                     \*       read but never assigned, the IAM client of a running node validates URLs with ParsePublicURL(.., false)
    Urls, Tls, Cryptos, Sqls, Irmas, DidMethods, Moved, Secrets, SecretVia,   \* option classes
    OutUrls, OutEntries, Contexts, AllowLists,                                   \* action classes
    \* how the strict-mode JSON-LD loader compares a requested context URL with the entries of its allow-list (jsonld.contexts.remoteallowlist
    \* plus the keys of jsonld.contexts.localmapping): "exact" (the tree: string equality), "prefix" (an entry lets every URL through that
    \* starts with its text), "host" (an entry lets every URL on its host through)
    AllowMatch,
    NearRels, Anchors   \* near-miss relations of a requested context URL to an allow-list entry, and the kind of entry it is near to
\* on which running vectors actions are explored: the action guards read v.strict, v.dummy, flag and snap only (and flag / snap are
\* functions of v.strict), so one canonical vector per (strict, dummy) suffices; the thorough tier explores all of them
CONSTANT ActScope(_)

None == "none"

(*--------------------------- what the statement calls insecure -----------*)
UrlInsecure(u)  == u \in {"http-name", "https-ip", "http-ip", "reserved-tld", "reserved-addr"}
UrlUnusable(u)  == u \in {"empty", "no-scheme", "other-scheme"}    \* refused in either mode; not a strict-mode matter
HasNuts(d)      == d \in {"web,nuts", "nuts", "nuts,web"}
\* "network TLS switched off": there is a network only when did:nuts is enabled (network.Configure returns early otherwise and
\* no gRPC listener is started; docs: the tls.* options "can be ignored" when did:nuts / the gRPC network is not used).
TlsInsecure(v)  == v.tls = "off" /\ HasNuts(v.did)
InsecureSetting(v) == \/ UrlInsecure(v.url)
                      \/ TlsInsecure(v)
                      \/ v.crypto = "unset"          \* key storage left implicit
                      \/ v.sql = "unset"             \* implicit SQLite database
                      \/ v.irma # "pbdf"             \* non-production identity scheme
SecretOnCommandLine(v) == v.secret # None /\ v.via = "flag"
MovedKey(v) == v.moved # None

(*--------------------------- guards as implemented -----------------------*)
\* first refusal while loading (core.ServerConfig.Load); "" = loaded
LoadGuard(v) == CASE SecretOnCommandLine(v) -> "secret-flag"          \* loadFromFlagSet runs before the struct is filled
                  [] MovedKey(v)            -> "moved-key"
                  [] OTHER                  -> ""

Engines == <<"storage", "crypto", "jsonld", "vdr", "vcr", "network", "auth", "discovery", "http">>   \* relative order in cmd.CreateSystem
\* engines that construct a long-lived StrictHTTPClient in their Configure
ClientHolders == {"vdr", "vcr", "discovery"}

UrlGuard(v) == \/ UrlUnusable(v.url)
               \/ (v.strict /\ UrlInsecure(v.url))

ConfigureGuard(e, v) ==
    CASE e = "storage" -> IF v.strict /\ v.sql = "unset" THEN "implicit-sqlite" ELSE ""
      [] e = "crypto"  -> IF v.strict /\ v.crypto = "unset" THEN "implicit-keystore" ELSE ""
      [] e = "vdr"     -> IF UrlGuard(v) THEN "public-url" ELSE ""
      [] e = "network" -> IF HasNuts(v.did) /\ v.strict /\ v.tls = "off" THEN "tls-off" ELSE ""
      [] e = "auth"    -> IF v.strict /\ v.irma # "pbdf" THEN "irma-scheme"
                          ELSE IF UrlGuard(v) THEN "public-url" ELSE ""
      [] e = "discovery" -> IF UrlGuard(v) THEN "public-url" ELSE ""
      [] OTHER         -> ""

(*--------------------------- start-up ------------------------------------*)
VARIABLES
    v,        \* the configuration vector
    pc,       \* "load" | "configure" | "running" | "refused"
    i,        \* index of the next engine to configure
    by,       \* engine (or "load") that refused
    why,      \* reason of the refusal
    act, verdict,  \* action performed on the running node and its verdict ("none" | "performed" | "refused")
    flag,     \* the package-level client.StrictMode (zero value FALSE until http.Engine.Configure)
    snap      \* per client holder: the value of the flag at the moment its long-lived client was constructed

vars == <<v, pc, i, by, why, act, verdict, flag, snap>>

Vec(strictS, urlS, tlsS, crS, sqS, duS, irS, diS, moS, seS, viS) ==
    [strict : strictS, url : urlS, tls : tlsS, crypto : crS, sql : sqS, dummy : duS, irma : irS, did : diS,
     moved : moS, secret : seS, via : viS]

\* complete product of the engine options ...
EngineVectors == Vec(BOOLEAN, Urls, Tls, Cryptos, Sqls, BOOLEAN, Irmas, DidMethods, {None}, {None}, {None})
\* ... and of the load-time checks over a secure and an insecure base configuration
Secure   == [url |-> "https-name", tls |-> "on",  crypto |-> "fs",    sql |-> "sqlite", dummy |-> FALSE, irma |-> "pbdf"]
Insecure == [url |-> "http-name",  tls |-> "off", crypto |-> "unset", sql |-> "unset",  dummy |-> TRUE,  irma |-> "irma-demo"]
LoadProduct == {[strict |-> s, url |-> b.url, tls |-> b.tls, crypto |-> b.crypto, sql |-> b.sql, dummy |-> b.dummy, irma |-> b.irma,
                 did |-> "web,nuts", moved |-> m, secret |-> x, via |-> w] :
                    s \in BOOLEAN, b \in {Secure, Insecure}, m \in Moved, x \in Secrets, w \in SecretVia}
LoadVectors == {lv \in LoadProduct : (lv.secret = None) = (lv.via = None)}
Vectors == EngineVectors \cup LoadVectors

\* who holds the StrictHTTPClient an entry point sends its request through, i.e. WHEN that client was constructed:
\*   an engine      long-lived client built in that engine's Configure (before http.Engine.Configure)
\*   "early"        a client built before any engine was configured (the earliest possible moment)
\*   "none"         a client built on demand, when the request is made (iam.NewClient in Auth.IAMClient(), relyingParty, client.New ...)
Holder(e) == CASE e = "vdr-didweb" -> "vdr"
               [] e \in {"vcr-statuslist", "vcr-openid4vci-wallet", "vcr-openid4vci-issuer"} -> "vcr"
               [] e = "discovery-get" -> "discovery"
               [] e \in {"early-new", "early-cache", "early-tls"} -> "early"
               [] OTHER -> "none"
\* a did:web identifier always yields an https:// URL with a host that is no IP address
Expressible(e, u) == e = "vdr-didweb" => u \in {"https-name", "https-reserved", "https-redirect-http"}
(*--------------------------- the JSON-LD allow-list ----------------------*)
\* The allow-list is a list of URLs: "unrestricted remote contexts" are refused means that a context is loaded in strict mode only when its
\* URL IS an entry.  A requested URL that is no entry can still be textually / structurally NEAR one (anchor = the entry it is near to):
\*   ext-path      entry + "/more"              a document below a listed URL
\*   ext-name      entry + "-more"              the last path element (or the host, for a path-less entry + "more.tld") goes on
\*   ext-query     entry + "?more"
\*   ext-host      path-less entry + ".more.tld/..."   the listed text is only the first labels of another host
\*   ext-userinfo  path-less entry + "@other.tld/..."  the listed host is the userinfo, the request goes to other.tld
\*   truncated     a proper prefix of an entry (its parent "directory")
\*   same-host     another document on the host of an entry
\*   scheme-http   the entry with http:// instead of https://
\*   embeds        an unrelated URL that carries the entry in its path / query
\* anchors: "remote-mapped" (default entry of remoteallowlist that is also a localmapping key), "mapped-only" (a localmapping key that is
\* not on remoteallowlist), "operator" (an entry the operator added to remoteallowlist: exists with AllowLists class "with-url" only)
AllNearRels == {"ext-path", "ext-name", "ext-query", "ext-host", "ext-userinfo", "truncated", "same-host", "scheme-http", "embeds"}
\* which requested URLs a matching rule takes for listed ("equal" = the URL is an entry)
Matches(rule, r) == CASE rule = "exact"  -> r = "equal"
                      [] rule = "prefix" -> r \in {"equal", "ext-path", "ext-name", "ext-query", "ext-host", "ext-userinfo"}
                      [] rule = "host"   -> r \in {"equal", "ext-path", "ext-name", "ext-query", "truncated", "same-host"}
\* ext-host / ext-userinfo need an entry without a path: every mapped-only key (https://nuts.nl/credentials/...) has one
NearExpressible(r, an, al) == /\ (an = "operator") => (al = "with-url")
                              /\ (r \in {"ext-host", "ext-userinfo"}) => (an # "mapped-only")
\* actions of a running node
Actions == [kind : {"dummy-sign", "dummy-verify"}, arg : {None}, entry : {None}, anchor : {None}]
           \cup [kind : {"jsonld"}, arg : Contexts, entry : AllowLists, anchor : {None}]
           \cup {a \in [kind : {"jsonld"}, arg : NearRels, entry : AllowLists, anchor : Anchors] : NearExpressible(a.arg, a.anchor, a.entry)}
           \cup {a \in [kind : {"outbound"}, arg : OutUrls, entry : OutEntries, anchor : {None}] : Expressible(a.entry, a.arg)}
NoAct == [kind |-> None, arg |-> None, entry |-> None, anchor |-> None]

Init == /\ v \in Vectors
        /\ pc = "load" /\ i = 1 /\ by = "" /\ why = "" /\ act = NoAct /\ verdict = None
        /\ flag = FALSE /\ snap = [h \in ClientHolders |-> FALSE]

Refuse(b, w) == pc' = "refused" /\ by' = b /\ why' = w

Load == /\ pc = "load"
        /\ IF LoadGuard(v) # "" THEN Refuse("load", LoadGuard(v)) /\ UNCHANGED i
           ELSE pc' = "configure" /\ UNCHANGED <<by, why, i>>
        /\ UNCHANGED <<v, act, verdict, flag, snap>>

Configure == /\ pc = "configure" /\ i <= Len(Engines)
             /\ LET g == ConfigureGuard(Engines[i], v) IN
                  IF g # "" THEN Refuse(Engines[i], g) /\ UNCHANGED <<i, flag, snap>>
                  ELSE /\ i' = i + 1 /\ UNCHANGED <<pc, by, why>>
                       \* http.Engine.configureClient switches the flag; the holders build their clients with whatever it is now
                       /\ flag' = IF Engines[i] = "http" THEN v.strict ELSE flag
                       /\ snap' = IF Engines[i] \in ClientHolders THEN [snap EXCEPT ![Engines[i]] = flag] ELSE snap
             /\ UNCHANGED <<v, act, verdict>>

Start == /\ pc = "configure" /\ i > Len(Engines)
         /\ pc' = "running"
         /\ UNCHANGED <<v, i, by, why, act, verdict, flag, snap>>

\* --- actions on the running node
DummyAvailable(vv) == vv.dummy /\ ~vv.strict                       \* notary.Configure
OutHttp(u)       == u \in {"http-name", "http-ip"}
OutRedirect(u)   == u = "https-redirect-http"
OutUnlisted(u)   == u \in {"https-ip", "http-ip", "https-reserved"}  \* refused by core.ParsePublicURL(strict) only
\* entries that validate the URL with core.ParsePublicURL before handing it to the StrictHTTPClient
EntryParsesPublicURL(e) == /\ Holder(e) = "none"
                           /\ e \notin {"strict-client", "rfc003", "iam-credentials"}
\* the strict-mode value StrictHTTPClient.Do acts on, for the client behind entry e, given the live flag fl and the snapshots sn
ClientStrict(e, fl, sn) == IF LiveStrictFlag \/ Holder(e) = "none" THEN fl
                           ELSE IF Holder(e) = "early" THEN FALSE ELSE sn[Holder(e)]
\* iamStrict: the strict-mode flag the IAM client was constructed with
OutboundVerdictWith(vv, u, e, iamStrict, fl, sn) ==
    IF OutHttp(u) /\ ClientStrict(e, fl, sn) THEN "refused"                                   \* StrictHTTPClient.Do
    ELSE IF OutHttp(u) /\ e = "rfc003" /\ vv.strict THEN "refused"                           \* relyingParty's own check
    ELSE IF (OutHttp(u) \/ OutUnlisted(u)) /\ EntryParsesPublicURL(e) /\ iamStrict /\ vv.strict THEN "refused"   \* core.ParsePublicURL
    ELSE "performed"
OutboundVerdict(vv, u, e, fl, sn) == OutboundVerdictWith(vv, u, e, AuthPassesStrictMode, fl, sn)
\* does a plain-HTTP request leave the node?  (checkRedirect reads the live flag)
PlainHttpSent(vv, u, e, fl, sn) == \/ (OutHttp(u) /\ OutboundVerdict(vv, u, e, fl, sn) = "performed")
                                   \/ (OutRedirect(u) /\ OutboundVerdict(vv, u, e, fl, sn) = "performed" /\ ~(fl /\ RedirectGuard))
JsonldVerdict(vv, c, al) ==
    CASE c = "embedded" -> "performed"
      [] c = "listed"   -> IF al = "with-url" \/ ~vv.strict THEN "performed" ELSE "refused"
      [] c = "unlisted" -> IF vv.strict THEN "refused" ELSE "performed"
      \* near an entry, but no entry: the filter of NewContextLoader(strict) decides with its matching rule
      [] c \in AllNearRels -> IF vv.strict /\ ~Matches(AllowMatch, c) THEN "refused" ELSE "performed"

Act == /\ pc = "running" /\ act = NoAct /\ ActScope(v)
       /\ \E a \in Actions :
            /\ act' = a
            /\ verdict' = CASE a.kind \in {"dummy-sign", "dummy-verify"} -> IF DummyAvailable(v) THEN "performed" ELSE "refused"
                            [] a.kind = "jsonld"   -> JsonldVerdict(v, a.arg, a.entry)
                            [] a.kind = "outbound" -> OutboundVerdict(v, a.arg, a.entry, flag, snap)
       /\ UNCHANGED <<v, pc, i, by, why, flag, snap>>

Next == Load \/ Configure \/ Start \/ Act
Spec == Init /\ [][Next]_vars

(*--------------------------- the documented promise ----------------------*)
Decided  == pc \in {"running", "refused"}
Refused  == pc = "refused"
Accepted == pc = "running"

ASSUME NearRels \subseteq AllNearRels /\ AllowMatch \in {"exact", "prefix", "host"}
TypeOK == /\ flag \in BOOLEAN /\ snap \in [ClientHolders -> BOOLEAN]
          /\ v \in Vectors /\ pc \in {"load", "configure", "running", "refused"} /\ i \in 1..(Len(Engines) + 1)
          /\ verdict \in {None, "performed", "refused"}

\* with strict mode on the node refuses to start when configured insecurely
StrictRefusesInsecure == (Decided /\ v.strict /\ InsecureSetting(v)) => Refused
\* the same settings are accepted with strict mode off (settings unusable in either mode, moved keys and secrets aside)
NonStrictAccepts == (Decided /\ ~v.strict /\ ~UrlUnusable(v.url) /\ ~MovedKey(v) /\ ~SecretOnCommandLine(v)) => Accepted
\* a secure configuration starts in strict mode: the guards are not simply "refuse everything"
StrictAcceptsSecure == (Decided /\ v.strict /\ ~InsecureSetting(v) /\ ~UrlUnusable(v.url) /\ ~MovedKey(v) /\ ~SecretOnCommandLine(v)) => Accepted
\* configuration keys that moved stop start-up in either mode, secrets are refused on the command line
MovedKeyRefused == (Decided /\ MovedKey(v)) => Refused
SecretOnCommandLineRefused == (Decided /\ SecretOnCommandLine(v)) => Refused
\* test-only authentication means are not available in strict mode
NoDummyInStrict == (act.kind \in {"dummy-sign", "dummy-verify"} /\ v.strict) => verdict = "refused"
DummyInNonStrict == (act.kind \in {"dummy-sign", "dummy-verify"} /\ ~v.strict /\ v.dummy) => verdict = "performed"
\* unrestricted remote JSON-LD contexts
\* (a context whose URL is no entry of the allow-list is unlisted, however near to an entry it is)
NotOnAllowList(c) == c = "unlisted" \/ c \in AllNearRels
NoUnlistedContextInStrict == (act.kind = "jsonld" /\ NotOnAllowList(act.arg) /\ v.strict) => verdict = "refused"
UnlistedContextInNonStrict == (act.kind = "jsonld" /\ NotOnAllowList(act.arg) /\ ~v.strict) => verdict = "performed"
\* plain-HTTP outbound requests and endpoints
NoPlainHttpInStrict == (act.kind = "outbound" /\ v.strict) => ~PlainHttpSent(v, act.arg, act.entry, flag, snap)
\* ... whenever the client was constructed: on a running strict node the flag is on, although every holder built its client before
StrictFlagOnWhenRunning == (Accepted /\ v.strict) => (flag /\ \A h \in ClientHolders : ~snap[h])
OutboundInNonStrict == (act.kind = "outbound" /\ ~v.strict) => verdict = "performed"
\* no unauthenticated network: a strict node that runs without TLS has no gRPC network at all
NoNetworkWithoutTls == (Accepted /\ v.strict /\ v.tls = "off") => ~HasNuts(v.did)

\* vacuity witnesses (expected to be VIOLATED)
WitnessStrictRunning == ~(Accepted /\ v.strict)
WitnessRefusedByAuth == ~(Refused /\ by = "auth")
WitnessNoNutsTlsOff  == ~(Accepted /\ v.strict /\ v.tls = "off")
=============================================================================
