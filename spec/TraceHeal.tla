----------------------------- MODULE TraceHeal -----------------------------
(***************************************************************************)
(* Trace validation for Heal.tla: runs of real v2 protocol instances over  *)
(* real dag.States with a corrupted XOR leaf. One event per simulator      *)
(* step; logged: the verdict of the gossip handler (equal / circuit after) *)
(* and for a repair round whether it ran, which page, and whether the leaf *)
(* was replaced. Concatenated traces are separated by "reset".             *)
(***************************************************************************)
EXTENDS MCHeal, IOUtils

TraceLog == ndJsonDeserialize(IOEnv.VERIF_TRACE)
VARIABLE l
tvars == <<vars, l>>
Ev == TraceLog[l]
IsEvent(e) == l <= Len(TraceLog) /\ Ev.ev = e /\ l' = l + 1

TReset == /\ IsEvent("reset")
          /\ bad' = [n \in Node |-> Clean] /\ circuit' = [n \in Node |-> 0] /\ cursor' = [n \in Node |-> 0]
          /\ ann' = [n \in Node |-> {}] /\ net' = {} /\ corrupts' = 0 /\ losses' = 0 /\ hist' = <<>>
TCorrupt == IsEvent("corrupt") /\ Corrupt(Ev.n, Ev.pg, Ev.g)
TTick == IsEvent("tick") /\ GossipTick(Ev.n, Ev.p)
\* re-announcing an unchanged digest is a stuttering step of the model
TAnnounce == IsEvent("announce") /\ (IF ann[Ev.n] # Digest(Ev.n) THEN Announce(Ev.n) ELSE UNCHANGED vars)
THandle == /\ IsEvent("gossip")
           /\ \E m \in net : /\ m.from = Ev.from /\ m.to = Ev.to /\ HandleGossip(m)
                             /\ circuit'[Ev.to] = (IF Ev.circuit > Red + 1 THEN Red + 1 ELSE Ev.circuit)
                             /\ (Digest(Ev.to) = m.dig) = Ev.eq
TLose == IsEvent("lose") /\ \E m \in net : m.from = Ev.from /\ m.to = Ev.to /\ Lose(m)
TRepair == /\ IsEvent("repair") /\ RepairTick(Ev.n)
           /\ cursor'[Ev.n] = Ev.cursor
           /\ Ev.changed = (bad'[Ev.n] # bad[Ev.n])
           /\ Ev.changed => Ev.pg = cursor[Ev.n]

TraceNext == TReset \/ TCorrupt \/ TTick \/ TAnnounce \/ THandle \/ TLose \/ TRepair
TraceInit == Init /\ l = 1 /\ TLCSet(1, 1)
TraceSpec == TraceInit /\ [][TraceNext]_tvars

Progress == TLCSet(1, IF l > TLCGet(1) THEN l ELSE TLCGet(1))
TraceAccepted ==
    \/ TLCGet(1) = Len(TraceLog) + 1
    \/ Print(<<"TRACE-REJECTED-AT", TLCGet(1), TraceLog[TLCGet(1)]>>, FALSE)
=============================================================================
