-------------------------------- MODULE Nuts --------------------------------
(***************************************************************************)
(* X09: the END-TO-END COMPOSITION (DESIGN section 7, item 1)              *)
(*                                                                         *)
(*   subject operation on a node                                           *)
(*     vdr/didnuts/manager.go      Commit(created) / Update / Deactivate   *)
(*     network/network.go          CreateTransaction (head + additional    *)
(*                                 prevs, sign, state.Add)                 *)
(*   -> the node's DAG             network/dag/state.go Add + verifiers    *)
(*                                 (prevs present; signing key resolvable  *)
(*                                 THROUGH THE DID STORE by a prev ref)    *)
(*   -> gossip / reconciliation    network/transport/v2 (abstracted: what  *)
(*                                 Sync.tla proves is used as one action:  *)
(*                                 node p ADMITS transaction t it learnt   *)
(*                                 from q; loss, duplication, reordering   *)
(*                                 only decide WHEN that happens)          *)
(*   -> persistent subscriber      network/dag/notifier.go (job shelf,     *)
(*                                 first call inside Add, one immediate    *)
(*                                 retry attempt, back-off, start-up       *)
(*                                 replay of EVERY job left on the shelf)  *)
(*   -> ambassador                 vdr/didnuts/ambassador.go callback:     *)
(*                                 controller check against the version    *)
(*                                 the transaction builds on; database     *)
(*                                 errors are retried, all others fatal    *)
(*   -> did store                  vdr/didnuts/didstore (event list in     *)
(*                                 (clock, time, ref) order, merge of      *)
(*                                 unconsumed versions = DidStore.tla)     *)
(*   -> Resolve on every node                                              *)
(*                                                                         *)
(* One DID X is operated by the nodes in Owners (each with a key of its    *)
(* own, K<node>); a rogue party on node Rogue owns another DID Y (its      *)
(* creation is the root of the DAG, transaction 0) and forges versions of  *)
(* X signed with Y's key.  Document content is abstracted to a set of      *)
(* elements (keys "K<n>", services "S<n>", "evil").                        *)
(*                                                                         *)
(* Actions (one per handler / critical section):                           *)
(*   Op(n,kind,m)   manager operation on node n: create | addkey (m's key) *)
(*                  | service | deactivate; CreateTransaction, state.Add,  *)
(*                  the node's own subscriber call, answer to the caller   *)
(*   Forge(n)       the rogue publishes a version of X signed with Y's key *)
(*   React(n)       a key holder publishes a version on top of a           *)
(*                  deactivated document (no manager does that)            *)
(*   Admit(p,q,t)   state.Add of t on p (received from q) + first call of  *)
(*                  the subscriber (synchronously after the commit)        *)
(*   Retry(p,t)     the notifier's immediate retry attempt                 *)
(*   Timer(p,t)     a later attempt of the back-off loop                   *)
(*   Stop/Start(n)  orderly restart; Replay(n,t): Notifier.Run             *)
(*   Arm(n,k)       the next k write transactions of n's did store fail    *)
(*   Lost(q,p)      an exchange between q and p that loses a message       *)
(*                                                                         *)
(* Deviation constants (TRUE = the statement = the code today):            *)
(*   CheckController       the ambassador refuses a version that no        *)
(*                         capability invocation key of the version it     *)
(*                         builds on signed                                *)
(*   RetryDbErrors         a did store error is answered with a plain      *)
(*                         error (job retried), not with EventFatal        *)
(*   SubscriberPersistent  jobs survive a restart and are replayed         *)
(*   StickyDeactivation    once deactivated is always deactivated (merge)  *)
(*   BaseByPrev            the ambassador judges a version against the     *)
(*                         version(s) it NAMES as previous; FALSE = the    *)
(*                         code: against the first named version it finds  *)
(*                         applied locally, the DAG head first (arrival-   *)
(*                         order dependent)        [X09-unapplied-deact]   *)
(*   KeyIgnoresDeactivation  dag.State.Add resolves the signing key in the *)
(*                         version that has a prev as source transaction   *)
(*                         whatever its flags; FALSE = the code: versions  *)
(*                         FLAGGED deactivated are skipped, so a version   *)
(*                         merged with a concurrent deactivation cannot be *)
(*                         built upon: the transaction is never admitted   *)
(*                         by nodes that sort the deactivation first       *)
(*                                                 [X09-key-deactivated]   *)
(***************************************************************************)
EXTENDS Naturals, FiniteSets, Sequences, TLC

CONSTANTS
    Nodes, Owners, Rogue,
    MaxTx, MaxFault, MaxRestart, MaxLossy,
    Kinds,                  \* operations in play: subset of {"create","addkey","service","deactivate","forge","react"}
    TimerFires,             \* the back-off loop is part of the behaviours (liveness); FALSE in generation (the driver cannot wait)
    CheckController, RetryDbErrors, SubscriberPersistent, StickyDeactivation, BaseByPrev, KeyIgnoresDeactivation,
    Hist

VARIABLES
    ntx,       \* number of transactions created (ids 1..ntx; 0 = creation of Y, everywhere from the start)
    tx,        \* id -> [kind, by, key, docprev, dprev, content, deact, lc, auth]
    dag,       \* node -> set of ids on its DAG
    applied,   \* node -> set of ids in the event list of X in its did store
    job,       \* node -> id -> "none" | "done" | "retry" (immediate attempt under way) | "wait" (back-off) | "dead" | "lost"
    up,        \* node -> running
    replay,    \* node -> jobs Notifier.Run still has to deliver
    armed,     \* node -> write failures still to come
    acked,     \* operations acknowledged to their API caller
    faults, restarts, lossy,
    hist

vars == <<ntx, tx, dag, applied, job, up, replay, armed, acked, faults, restarts, lossy, hist>>
view == <<ntx, tx, dag, applied, job, up, replay, armed, acked, faults, restarts, lossy>>

Log(e) == hist' = IF Hist THEN Append(hist, e) ELSE hist
Ids == 1..MaxTx
Nil == [kind |-> "none", by |-> "", key |-> "", docprev |-> {}, dprev |-> {}, head |-> 0, content |-> {}, deact |-> FALSE, lc |-> 0, ord |-> 0, auth |-> FALSE]
KeyOf(n) == "K" \o n
SvcOf(n) == "S" \o n
KeyNames == {KeyOf(n) : n \in Nodes}
Max(S) == CHOOSE x \in S : \A y \in S : y <= x
LcOf(t) == IF t = 0 THEN 0 ELSE tx[t].lc

(***************************************************************************)
(* The did store: canonical fold of a set of applied transactions          *)
(***************************************************************************)
\* the did store orders events by (clock, signing time, ref); ord abstracts (signing time, ref) (= creation order in the model)
OrdOf(t) == IF t = 0 THEN 0 ELSE tx[t].ord
Before(a, b) == LcOf(a) < LcOf(b) \/ (LcOf(a) = LcOf(b) /\ OrdOf(a) < OrdOf(b))
RECURSIVE Sort(_)
Sort(S) == IF S = {} THEN <<>> ELSE LET m == CHOOSE x \in S : \A y \in S : x = y \/ Before(x, y) IN <<m>> \o Sort(S \ {m})
Empty == [src |-> {}, doc |-> {}, deact |-> FALSE]
ApplyEvent(st, e) ==
    LET un == st.src \ tx[e].dprev IN     \* versions the new one does not name as previous are merged into it
    [src |-> {e} \cup un,
     doc |-> tx[e].content \cup UNION {tx[u].content : u \in un},
     deact |-> IF StickyDeactivation THEN st.deact \/ tx[e].deact ELSE tx[e].deact]
RECURSIVE FoldSeq(_, _)
FoldSeq(st, seq) == IF seq = <<>> THEN <<>> ELSE LET s2 == ApplyEvent(st, Head(seq)) IN <<s2>> \o FoldSeq(s2, Tail(seq))
Versions(S) == FoldSeq(Empty, Sort(S))
Cur(S) == IF S = {} THEN Empty ELSE Versions(S)[Cardinality(S)]
\* Resolve(.., SourceTransaction = r): the latest version that has r among its source transactions
VersionWith(S, r) == LET vs == Versions(S)
                         ix == {i \in 1..Len(vs) : r \in vs[i].src}
                     IN IF ix = {} THEN Empty ELSE vs[Max(ix)]
View(n) == Cur(applied[n])
Deact(n) == applied[n] # {} /\ View(n).deact
Active(n) == applied[n] # {} /\ ~View(n).deact

(***************************************************************************)
(* Reference notion: a version is authorised if its signing key is a       *)
(* capability invocation key of a version it builds on                     *)
(***************************************************************************)
AuthOf(kind, key, docprev) == kind = "create" \/ \E r \in docprev : key \in tx[r].content
AuthSet == {t \in 1..ntx : tx[t].auth}

(***************************************************************************)
(* dag.State.Add: the verifiers                                            *)
(***************************************************************************)
\* TransactionSignatureVerifier: an update carries only the key id; SourceTXKeyResolver looks the key up in the version
\* of the signer's document that has one of the transaction's prevs as source transaction - in the node's DID STORE
\* Previous() of a transaction: the head first, then the additional prevs
PrevSeq(t) == <<tx[t].head>> \o Sort(tx[t].dprev \ {tx[t].head})
\* the code: store.Resolve with a SourceTransaction and without AllowDeactivated skips every version FLAGGED deactivated
LiveVersionWith(S, r) == LET vs == Versions(S)
                             ix == {i \in 1..Len(vs) : r \in vs[i].src /\ ~vs[i].deact}
                         IN IF ix = {} THEN [found |-> FALSE, doc |-> {}] ELSE [found |-> TRUE, doc |-> vs[Max(ix)].doc]
\* SourceTXKeyResolver: the first prev for which a version is found decides (key missing in it = error)
RECURSIVE KeyBySeq(_, _, _)
KeyBySeq(p, t, seq) == IF seq = <<>> THEN FALSE
                       ELSE LET r == Head(seq)
                                v == IF r \in applied[p] THEN LiveVersionWith(applied[p], r) ELSE [found |-> FALSE, doc |-> {}]
                            IN IF v.found THEN tx[t].key \in v.doc ELSE KeyBySeq(p, t, Tail(seq))
KeyResolvable(p, t) ==
    \/ tx[t].kind = "create"
    \/ tx[t].key = "KY" /\ 0 \in tx[t].dprev
    \/ IF KeyIgnoresDeactivation
       THEN \E r \in tx[t].dprev \cap applied[p] : tx[t].key \in VersionWith(applied[p], r).doc
       ELSE KeyBySeq(p, t, PrevSeq(t))
Admissible(p, t) == t \notin dag[p] /\ tx[t].dprev \subseteq dag[p] /\ KeyResolvable(p, t)

(***************************************************************************)
(* ambassador.callback                                                     *)
(***************************************************************************)
AmbOK(p, t) ==
    \/ ~CheckController
    \/ tx[t].kind = "create"
    \/ /\ applied[p] # {}
       /\ IF BaseByPrev
          THEN \E r \in tx[t].docprev : tx[t].key \in tx[r].content
          ELSE LET cands == tx[t].dprev \cap applied[p]
                   first == IF tx[t].head \in cands THEN tx[t].head ELSE CHOOSE r \in cands : \A y \in cands : y = r \/ Before(r, y)
                   base == IF cands # {} THEN VersionWith(applied[p], first) ELSE View(p)
               IN tx[t].key \in base.doc
Outcome(p, t) == IF ~AmbOK(p, t) THEN "fatal"
                 ELSE IF armed[p] > 0 THEN (IF RetryDbErrors THEN "retry" ELSE "fatal")
                 ELSE "ok"
\* the job after a call in the given mode
JobAfter(o, mode) == CASE o = "ok" -> "done" [] o = "fatal" -> "dead" [] OTHER -> IF mode = "retry" THEN "wait" ELSE "retry"

Handle(p, t, mode) ==
    LET o == Outcome(p, t) IN
    /\ applied' = [applied EXCEPT ![p] = IF o = "ok" THEN @ \cup {t} ELSE @]
    /\ job' = [job EXCEPT ![p][t] = JobAfter(o, mode)]
    /\ armed' = [armed EXCEPT ![p] = IF AmbOK(p, t) /\ @ > 0 THEN @ - 1 ELSE @]

Running(n) == up[n] /\ replay[n] = {}
HeadOf(D) == CHOOSE h \in D : \A y \in D : y = h \/ Before(y, h)

(***************************************************************************)
(* Operations                                                              *)
(***************************************************************************)
Created == \E t \in 1..ntx : tx[t].kind = "create"
Publish(n, rec, ackd) ==
    LET id == ntx + 1 IN
    /\ ntx' = id
    /\ tx' = [tx EXCEPT ![id] = rec]
    /\ dag' = [dag EXCEPT ![n] = @ \cup {id}]
    /\ acked' = IF ackd THEN acked \cup {id} ELSE acked
    /\ UNCHANGED <<up, replay, faults, restarts, lossy>>

Rec(n, kind, key, docprev, content, deact) ==
    LET h == HeadOf(dag[n])
        dprev == {h} \cup docprev
        dp == dprev \ {0}          \* every version of X the transaction names as previous (the head may be one)
    IN
    [kind |-> kind, by |-> n, key |-> key, docprev |-> dp, dprev |-> dprev, head |-> h, content |-> content, deact |-> deact,
     lc |-> 1 + Max({LcOf(r) : r \in dprev}), ord |-> ntx + 1, auth |-> AuthOf(kind, key, dp)]

\* the node's own subscriber is called inside CreateTransaction (state.Add); the manager's own store.Add is idempotent
\* (the same judgement as AmbOK, for the record that is being published)
OwnBaseOK(n, rec) ==
    IF BaseByPrev THEN \E r \in rec.docprev : rec.key \in tx[r].content
    ELSE LET cands == rec.dprev \cap applied[n]
             first == IF rec.head \in cands THEN rec.head ELSE CHOOSE r \in cands : \A y \in cands : y = r \/ Before(r, y)
         IN rec.key \in (IF cands # {} THEN VersionWith(applied[n], first) ELSE View(n)).doc
OwnCall(n, rec) ==
    LET id == ntx + 1
        ok == ~CheckController \/ rec.kind = "create" \/ (applied[n] # {} /\ OwnBaseOK(n, rec))
    IN /\ applied' = [applied EXCEPT ![n] = IF ok THEN @ \cup {id} ELSE @]
       /\ job' = [job EXCEPT ![n][id] = IF ok THEN "done" ELSE "dead"]
       /\ UNCHANGED armed

Op(n, kind, m) ==
    /\ n \in Owners /\ Running(n) /\ armed[n] = 0 /\ ntx < MaxTx /\ kind \in Kinds
    /\ \A t \in Ids : job[n][t] # "retry"
    /\ CASE kind = "create" -> ~Created /\ m = n
         [] kind = "addkey" -> Active(n) /\ KeyOf(n) \in View(n).doc /\ m \in Owners /\ KeyOf(m) \notin View(n).doc
         [] kind = "service" -> Active(n) /\ KeyOf(n) \in View(n).doc /\ SvcOf(n) \notin View(n).doc /\ m = n
         [] kind = "deactivate" -> Active(n) /\ KeyOf(n) \in View(n).doc /\ m = n
         [] OTHER -> FALSE
    /\ LET cur == View(n)
           content == CASE kind = "create" -> {KeyOf(n)}
                        [] kind = "addkey" -> cur.doc \cup {KeyOf(m)}
                        [] kind = "service" -> cur.doc \cup {SvcOf(n)}
                        [] OTHER -> {}
           rec == Rec(n, kind, KeyOf(n), cur.src, content, kind = "deactivate")
       IN /\ Publish(n, rec, TRUE) /\ OwnCall(n, rec)
          /\ Log([a |-> "Op", n |-> n, kind |-> kind, m |-> m, t |-> ntx + 1])

Forge(n) ==
    /\ n = Rogue /\ Running(n) /\ armed[n] = 0 /\ ntx < MaxTx /\ "forge" \in Kinds /\ applied[n] # {}
    /\ \A t \in 1..ntx : tx[t].kind # "forge"
    /\ LET cur == View(n)
           r0 == Rec(n, "forge", "KY", cur.src, cur.doc \cup {"evil"}, FALSE)
           rec == [r0 EXCEPT !.dprev = @ \cup {0}, !.auth = FALSE]
       IN /\ Publish(n, rec, FALSE) /\ OwnCall(n, rec)
          /\ Log([a |-> "Op", n |-> n, kind |-> "forge", m |-> n, t |-> ntx + 1])

React(n) ==
    /\ n \in Owners /\ Running(n) /\ armed[n] = 0 /\ ntx < MaxTx /\ "react" \in Kinds
    /\ Deact(n) /\ KeyOf(n) \in View(n).doc
    /\ \A t \in 1..ntx : tx[t].kind # "react"
    /\ \A t \in Ids : job[n][t] # "retry"
    /\ LET cur == View(n)
           rec == Rec(n, "react", KeyOf(n), cur.src, {KeyOf(n)}, FALSE)
       IN /\ Publish(n, rec, FALSE) /\ OwnCall(n, rec)
          /\ Log([a |-> "Op", n |-> n, kind |-> "react", m |-> n, t |-> ntx + 1])

(***************************************************************************)
(* Network and subscriber                                                  *)
(***************************************************************************)
Admit(p, q, t, dup) ==
    /\ p # q /\ Running(p) /\ Running(q) /\ t \in dag[q] /\ Admissible(p, t)
    /\ \A u \in dag[q] : Admissible(p, u) => (u = t \/ Before(t, u))     \* lists are processed in clock order
    /\ \A u \in Ids : job[p][u] # "retry"
    /\ dag' = [dag EXCEPT ![p] = @ \cup {t}]
    /\ Handle(p, t, "first")
    /\ Log([a |-> "Admit", p |-> p, q |-> q, t |-> t, dup |-> dup])
    /\ UNCHANGED <<ntx, tx, up, replay, acked, faults, restarts, lossy>>

Retry(p, t) ==
    /\ up[p] /\ job[p][t] = "retry"
    /\ Handle(p, t, "retry")
    /\ Log([a |-> "Retry", p |-> p, t |-> t])
    /\ UNCHANGED <<ntx, tx, dag, up, replay, acked, faults, restarts, lossy>>

Timer(p, t) ==
    /\ TimerFires /\ Running(p) /\ job[p][t] = "wait"
    /\ Handle(p, t, "retry")
    /\ Log([a |-> "Timer", p |-> p, t |-> t])
    /\ UNCHANGED <<ntx, tx, dag, up, replay, acked, faults, restarts, lossy>>

Stop(n) ==
    /\ Running(n) /\ restarts < MaxRestart /\ \A t \in Ids : job[n][t] # "retry"
    /\ up' = [up EXCEPT ![n] = FALSE]
    /\ restarts' = restarts + 1
    /\ Log([a |-> "Stop", n |-> n])
    /\ UNCHANGED <<ntx, tx, dag, applied, job, replay, armed, acked, faults, lossy>>

Start(n) ==
    /\ ~up[n]
    /\ up' = [up EXCEPT ![n] = TRUE]
    /\ replay' = [replay EXCEPT ![n] = IF SubscriberPersistent THEN {t \in Ids : job[n][t] \in {"wait", "dead"}} ELSE {}]
    /\ job' = IF SubscriberPersistent THEN job ELSE [job EXCEPT ![n] = [t \in Ids |-> IF job[n][t] = "wait" THEN "lost" ELSE job[n][t]]]
    /\ Log([a |-> "Start", n |-> n])
    /\ UNCHANGED <<ntx, tx, dag, applied, armed, acked, faults, restarts, lossy>>

Replay(n, t) ==
    /\ up[n] /\ t \in replay[n] /\ \A u \in Ids : job[n][u] # "retry"
    /\ Handle(n, t, "replay")
    /\ replay' = [replay EXCEPT ![n] = @ \ {t}]
    /\ Log([a |-> "Replay", n |-> n, t |-> t])
    /\ UNCHANGED <<ntx, tx, dag, up, acked, faults, restarts, lossy>>

Arm(n, k) ==
    /\ Running(n) /\ faults < MaxFault /\ armed[n] = 0 /\ k \in 1..2
    /\ armed' = [armed EXCEPT ![n] = k]
    /\ faults' = faults + 1
    /\ Log([a |-> "Arm", n |-> n, k |-> k])
    /\ UNCHANGED <<ntx, tx, dag, applied, job, up, replay, acked, restarts, lossy>>

Lost(q, p, k) ==
    /\ p # q /\ Running(p) /\ Running(q) /\ lossy < MaxLossy /\ dag[q] \ dag[p] # {}
    /\ lossy' = lossy + 1
    /\ Log([a |-> "Lost", q |-> q, p |-> p, k |-> k])
    /\ UNCHANGED <<ntx, tx, dag, applied, job, up, replay, armed, acked, faults, restarts>>

Init ==
    /\ ntx = 0 /\ tx = [t \in Ids |-> Nil]
    /\ dag = [n \in Nodes |-> {0}] /\ applied = [n \in Nodes |-> {}]
    /\ job = [n \in Nodes |-> [t \in Ids |-> "none"]]
    /\ up = [n \in Nodes |-> TRUE] /\ replay = [n \in Nodes |-> {}] /\ armed = [n \in Nodes |-> 0]
    /\ acked = {} /\ faults = 0 /\ restarts = 0 /\ lossy = 0 /\ hist = <<>>

Next ==
    \/ \E n \in Nodes, m \in Nodes, kind \in Kinds : Op(n, kind, m)
    \/ \E n \in Nodes : Forge(n) \/ React(n) \/ Stop(n) \/ Start(n)
    \/ \E p \in Nodes, q \in Nodes, t \in Ids : Admit(p, q, t, FALSE)
    \/ \E p \in Nodes, t \in Ids : Retry(p, t) \/ Timer(p, t) \/ Replay(p, t)
    \/ \E n \in Nodes, k \in 1..2 : Arm(n, k)
    \/ \E q \in Nodes, p \in Nodes : Lost(q, p, 0)

Spec == Init /\ [][Next]_vars
FairSpec == /\ Spec
            /\ \A p \in Nodes, t \in Ids : WF_vars(Retry(p, t)) /\ WF_vars(Timer(p, t)) /\ WF_vars(Replay(p, t))
            /\ \A p \in Nodes : WF_vars(Start(p))
            /\ \A p \in Nodes, q \in Nodes : WF_vars(\E t \in Ids : Admit(p, q, t, FALSE))

(***************************************************************************)
(* Properties                                                              *)
(***************************************************************************)
TypeOK ==
    /\ ntx \in 0..MaxTx
    /\ \A n \in Nodes : dag[n] \subseteq 0..ntx /\ applied[n] \subseteq 1..ntx /\ replay[n] \subseteq Ids /\ armed[n] \in 0..2
    /\ \A n \in Nodes, t \in Ids : job[n][t] \in {"none", "done", "retry", "wait", "dead", "lost"}

\* E2: no node resolves a version whose transaction is not on its DAG, or that was not authorised
E2 == \A n \in Nodes :
        /\ applied[n] \subseteq dag[n]
        /\ \A t \in applied[n] : tx[t].auth
        /\ View(n).src \subseteq dag[n]
        /\ "evil" \notin View(n).doc

\* the DAG is closed under previous transactions
DagClosed == \A n \in Nodes : \A t \in dag[n] \ {0} : tx[t].dprev \subseteq dag[n]

\* E3 (safety half): an acknowledged operation is authorised, on its node's DAG and applied there - also after a restart
AckedDurable == \A t \in acked : tx[t].auth /\ t \in dag[tx[t].by] /\ t \in applied[tx[t].by]
\* a job is never left for dead while the failure was transient, and an admitted authorised version is never dropped
NoDrop == \A n \in Nodes : \A t \in dag[n] \ {0} : (tx[t].auth /\ job[n][t] \in {"dead", "lost"}) => FALSE

\* E1 (safety half): when the network is quiet every node shows the canonical fold of all published transactions
Quiet == \A n \in Nodes : Running(n) /\ dag[n] = 0..ntx /\ \A t \in Ids : job[n][t] \notin {"retry", "wait"}
E1 == Quiet => \A n \in Nodes : applied[n] = AuthSet
\* (the fold is a function of the SET: order independence of the did store itself is DidStore.tla / C10)

\* E4: a node that resolves the DID as deactivated never resolves it as active again
E4 == [][\A n \in Nodes : Deact(n) => Deact(n)']_vars
\* the same as a state invariant (the event list of a node only grows): no subset of what a node has applied is
\* deactivated unless the whole is
E4inv == \A n \in Nodes : \A S \in SUBSET applied[n] : (S # {} /\ Cur(S).deact) => Deact(n)
AppliedGrows == [][\A n \in Nodes : applied[n] \subseteq applied'[n] /\ dag[n] \subseteq dag'[n]]_vars

\* liveness under fairness
Converged == \A n \in Nodes : up[n] /\ dag[n] = 0..ntx /\ applied[n] = AuthSet
Converges == <>[]Converged
AckedEverywhere == <>[](\A t \in acked : \A n \in Nodes : t \in applied[n])

Terminal == /\ ntx = MaxTx /\ \A n \in Nodes : Running(n) /\ \A t \in Ids : job[n][t] # "retry"
            /\ restarts = MaxRestart
=============================================================================
