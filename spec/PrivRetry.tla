----------------------------- MODULE PrivRetry -----------------------------
(***************************************************************************)
(* X11: the PRIVATE-TRANSACTION PAYLOAD RETRIEVAL LOOP of one node N.       *)
(*                                                                         *)
(*   network/transport/v2/protocol.go   Configure (persistent notifier      *)
(*       "private", WithRetryDelay, filter PAL != nil), handlePrivateTxRetry,*)
(*       Diagnostics (payload_fetch_dlq = GetFailedEvents)                  *)
(*   network/transport/v2/handlers.go   handleTransactionPayloadQuery (the  *)
(*       holder's side), handleTransactionPayload (the requester's side)    *)
(*   network/dag/notifier.go            Notify / notifyNow / retry / Run /  *)
(*       Finished / GetFailedEvents (maxRetries, retriesFailedThreshold)    *)
(*                                                                         *)
(* One named action per critical section of the code:                      *)
(*   AddTx     State.Add of a private transaction: job saved (retries 0),   *)
(*             Notify() starts the chain of attempts                        *)
(*   Begin     notifyNow part 1: job read from the shelf (T1) + the receiver*)
(*             handlePrivateTxRetry (payload present? PAL mine? broadcast)  *)
(*   End       notifyNow part 2: the book-keeping write (T3): Finished() or *)
(*             retries+1; it is a SEPARATE database transaction            *)
(*   Serve     a holder's handleTransactionPayloadQuery                     *)
(*   Deliver   handleTransactionPayload at N for an answer                  *)
(*   Inject    handleTransactionPayload at N for an adversary's message     *)
(*   Lose / Up / Down / Crash / Restart (Restart = new incarnation + Run()) *)
(*                                                                         *)
(* Deviations of the code from the statement (DESIGN 2.6):                  *)
(*   Resurrect     End writes the job unconditionally: a job that was       *)
(*                 finished between Begin and End comes back                *)
(*                 (REPAIRED: read + put in one WriteShelf, FALSE in the    *)
(*                 descriptive configurations; dev.resurrect stays a guard) *)
(*   RunOvershoot  Run() attempts exhausted jobs as well and counts beyond  *)
(*                 the budget                                              *)
(*   Threshold < Budget   GetFailedEvents lists jobs from                   *)
(*                 retriesFailedThreshold (10) on, the budget is 20         *)
(***************************************************************************)
EXTENDS Integers, Sequences, FiniteSets, TLC

CONSTANTS Tx,          \* private transactions
          Mine,        \* those whose PAL names N (N can decrypt the PAL)
          Peer,        \* other nodes
          Member,      \* peers on the PAL of the transactions in Mine (they can decrypt it)
          Holder,      \* peers that have the payloads
          Budget,      \* maxRetries (20)
          Threshold,   \* retriesFailedThreshold (10)
          MaxCrash, MaxConn, MaxInject, MaxLose, MaxDup,
          Resurrect, RunOvershoot,
          Hist

VARIABLES up,     \* N is running
          dag,    \* [Tx -> BOOLEAN] transaction on N's DAG
          pay,    \* [Tx -> BOOLEAN] payload in N's payload store
          job,    \* [Tx -> -1 .. ] retries of the stored job, -1 = no job
          loop,   \* [Tx -> record] the chain of attempts (Notify / Run + retry goroutine)
          conn,   \* [Peer -> {"down","anon","auth"}]
          net,    \* set of messages in flight
          cnt,    \* bounded counters of the environment
          hist

vars == <<up, dag, pay, job, loop, conn, net, cnt, hist>>
view == <<up, dag, pay, job, loop, conn, net, cnt>>

Off == [st |-> "off", res |-> "-", snap |-> 0, left |-> 0]
Idle(n) == [st |-> "idle", res |-> "-", snap |-> 0, left |-> n]
Q(p, t) == [k |-> "q", p |-> p, t |-> t, c |-> "-"]
A(p, t, c) == [k |-> "a", p |-> p, t |-> t, c |-> c]
Msg == {Q(p, t) : p \in Peer, t \in Tx} \cup {A(p, t, c) : p \in Peer, t \in Tx, c \in {"data", "empty"}}
Log(r) == hist' = IF Hist THEN Append(hist, r) ELSE hist
Bump(k) == cnt' = [cnt EXCEPT ![k] = @ + 1]

Init == /\ up = TRUE
        /\ dag = [t \in Tx |-> FALSE] /\ pay = [t \in Tx |-> FALSE]
        /\ job = [t \in Tx |-> -1] /\ loop = [t \in Tx |-> Off]
        /\ conn = [p \in Peer |-> "down"] /\ net = {}
        /\ cnt = [crash |-> 0, conn |-> 0, inj |-> 0, lose |-> 0, dup |-> 0]
        /\ hist = <<>>

Done(t) == pay[t] \/ t \notin Mine
Targets == {p \in Member : conn[p] = "auth"}

\* State.Add(tx, payload or nil): the job is saved in the same database transaction; Notify() makes the first attempt
AddTx(t, wp) ==
    /\ up /\ ~dag[t]
    /\ dag' = [dag EXCEPT ![t] = TRUE]
    /\ pay' = [pay EXCEPT ![t] = wp]
    /\ job' = [job EXCEPT ![t] = 0]
    /\ loop' = [loop EXCEPT ![t] = Idle(Budget)]
    /\ Log([a |-> "AddTx", t |-> t, wp |-> wp])
    /\ UNCHANGED <<up, conn, net, cnt>>

\* notifyNow, first half: read the job; gone -> the chain ends; otherwise the receiver runs
Begin(t) ==
    /\ up /\ loop[t].st = "idle"
    /\ IF job[t] = -1
       THEN loop' = [loop EXCEPT ![t] = Off] /\ net' = net
       ELSE LET res == IF Done(t) THEN "fin" ELSE IF Targets # {} THEN "inc" ELSE "err" IN
            /\ loop' = [loop EXCEPT ![t] = [st |-> "mid", res |-> res, snap |-> job[t], left |-> @.left]]
            /\ net' = IF res = "inc" THEN net \cup {Q(p, t) : p \in Targets} ELSE net
    /\ Log([a |-> "Begin", t |-> t])
    /\ UNCHANGED <<up, dag, pay, job, conn, cnt>>

\* notifyNow, second half: Finished() or the write of retries+1 (its own database transaction)
End(t) ==
    /\ up /\ loop[t].st = "mid"
    /\ IF loop[t].res = "fin"
       THEN job' = [job EXCEPT ![t] = -1] /\ loop' = [loop EXCEPT ![t] = Off]
       ELSE /\ job' = [job EXCEPT ![t] = IF Resurrect \/ job[t] # -1 THEN loop[t].snap + 1 ELSE -1]
            /\ loop' = [loop EXCEPT ![t] = IF @.left <= 1 THEN Off ELSE Idle(@.left - 1)]
    /\ Log([a |-> "End", t |-> t])
    /\ UNCHANGED <<up, dag, pay, conn, net, cnt>>

\* the holder's handleTransactionPayloadQuery: an empty TransactionPayload when a check fails (connection not authenticated,
\* PAL not decryptable, asker not on the PAL); when the checks pass: the bytes - or, if this participant has not got them
\* itself, NO answer at all (ReadPayload fails with ErrPayloadNotFound and the handler returns the error)
ServeAns(p, t) == IF conn[p] = "auth" /\ p \in Member /\ t \in Mine
                  THEN (IF p \in Holder THEN "data" ELSE "none")
                  ELSE "empty"
Serve(p, t, keep) ==
    /\ Q(p, t) \in net /\ conn[p] # "down"
    /\ keep => cnt.dup < MaxDup
    /\ net' = (IF keep THEN net ELSE net \ {Q(p, t)}) \cup (IF ServeAns(p, t) = "none" THEN {} ELSE {A(p, t, ServeAns(p, t))})
    /\ cnt' = IF keep THEN [cnt EXCEPT !.dup = @ + 1] ELSE cnt
    /\ Log([a |-> "Serve", p |-> p, t |-> t, keep |-> keep])
    /\ UNCHANGED <<up, dag, pay, job, loop, conn>>

\* handleTransactionPayload at N: known transaction, hash match, WritePayload, Finished
Accept(t) == /\ pay' = [pay EXCEPT ![t] = TRUE]
             /\ job' = [job EXCEPT ![t] = -1]
Deliver(m, keep) ==
    /\ up /\ m \in net /\ m.k = "a" /\ conn[m.p] # "down"
    /\ keep => cnt.dup < MaxDup
    /\ IF m.c = "data" /\ dag[m.t] THEN Accept(m.t) ELSE UNCHANGED <<pay, job>>
    /\ net' = IF keep THEN net ELSE net \ {m}
    /\ cnt' = IF keep THEN [cnt EXCEPT !.dup = @ + 1] ELSE cnt
    /\ Log([a |-> "Deliver", p |-> m.p, t |-> m.t, c |-> m.c, keep |-> keep])
    /\ UNCHANGED <<up, dag, loop, conn>>

Lose(m) ==
    /\ m \in net /\ cnt.lose < MaxLose
    /\ net' = net \ {m} /\ Bump("lose")
    /\ Log([a |-> "Lose", k |-> m.k, p |-> m.p, t |-> m.t, c |-> m.c])
    /\ UNCHANGED <<up, dag, pay, job, loop, conn>>

\* the adversary: an unsolicited TransactionPayload over any connection: the right bytes, other bytes, no bytes;
\* for a transaction N has (or has not yet) on its DAG
Inject(p, t, c) ==
    /\ up /\ conn[p] # "down" /\ cnt.inj < MaxInject
    /\ IF c = "good" /\ dag[t] THEN Accept(t) ELSE UNCHANGED <<pay, job>>
    /\ Bump("inj")
    /\ Log([a |-> "Inject", p |-> p, t |-> t, c |-> c])
    /\ UNCHANGED <<up, dag, loop, conn, net>>

Up(p, m) ==
    /\ up /\ conn[p] = "down" /\ cnt.conn < MaxConn
    /\ conn' = [conn EXCEPT ![p] = m] /\ Bump("conn")
    /\ Log([a |-> "Up", p |-> p, m |-> m])
    /\ UNCHANGED <<up, dag, pay, job, loop, net>>

Down(p) ==
    /\ conn[p] # "down"
    /\ conn' = [conn EXCEPT ![p] = "down"]
    /\ net' = {m \in net : m.p # p}
    /\ Log([a |-> "Down", p |-> p])
    /\ UNCHANGED <<up, dag, pay, job, loop, cnt>>

\* the process stops: goroutines and connections are gone, the database file stays
Crash ==
    /\ up /\ cnt.crash < MaxCrash
    /\ up' = FALSE /\ Bump("crash")
    /\ loop' = [t \in Tx |-> Off]
    /\ conn' = [p \in Peer |-> "down"] /\ net' = {}
    /\ Log([a |-> "Crash"])
    /\ UNCHANGED <<dag, pay, job>>

\* new incarnation: Configure registers the notifier again, Run() replays EVERY stored job once (no connection exists yet)
\* and starts a retry goroutine for those that failed and have budget left
RunJob(t) == IF job[t] = -1 THEN -1
             ELSE IF Done(t) THEN -1
             ELSE IF job[t] >= Budget /\ ~RunOvershoot THEN job[t] ELSE job[t] + 1
RunLoop(t) == IF job[t] = -1 \/ Done(t) \/ job[t] >= Budget \/ Budget - (job[t] + 1) <= 0 THEN Off
              ELSE Idle(Budget - (job[t] + 1))
Restart ==
    /\ ~up /\ up' = TRUE
    /\ job' = [t \in Tx |-> RunJob(t)]
    /\ loop' = [t \in Tx |-> RunLoop(t)]
    /\ Log([a |-> "Restart"])
    /\ UNCHANGED <<dag, pay, conn, net, cnt>>

Next == \/ \E t \in Tx : \/ \E wp \in BOOLEAN : AddTx(t, wp)
                         \/ Begin(t) \/ End(t)
        \/ \E p \in Peer, t \in Tx, keep \in BOOLEAN : Serve(p, t, keep)
        \/ \E m \in Msg : (\E keep \in BOOLEAN : Deliver(m, keep)) \/ Lose(m)
        \/ \E p \in Peer, t \in Tx, c \in {"good", "wrong", "empty"} : Inject(p, t, c)
        \/ \E p \in Peer : (\E m \in {"anon", "auth"} : Up(p, m)) \/ Down(p)
        \/ Crash \/ Restart

Spec == Init /\ [][Next]_vars
Fairness == /\ \A t \in Tx : WF_vars(Begin(t)) /\ WF_vars(End(t))
            /\ \A p \in Peer, t \in Tx : WF_vars(Serve(p, t, FALSE))
            /\ \A m \in Msg : WF_vars(Deliver(m, FALSE))
            /\ WF_vars(Restart)
FairSpec == Spec /\ Fairness

\* ---- what the operator sees ------------------------------------------------------------------------------
Dlq == {t \in Tx : job[t] >= Threshold}           \* Diagnostics: payload_fetch_dlq = GetFailedEvents
Exhausted(t) == job[t] >= Budget /\ loop[t].st = "off"

\* ---- properties --------------------------------------------------------------------------------------------
TypeOK == /\ up \in BOOLEAN /\ dag \in [Tx -> BOOLEAN] /\ pay \in [Tx -> BOOLEAN]
          /\ job \in [Tx -> -1 .. (Budget + MaxCrash + 1)]
          /\ \A t \in Tx : loop[t].st \in {"off", "idle", "mid"} /\ loop[t].left \in 0 .. Budget
          /\ conn \in [Peer -> {"down", "anon", "auth"}] /\ net \subseteq Msg

\* R2  a payload is stored only for a transaction on the DAG (the hash match is in the guard of Accept);
\*     a job ends only when the payload is there or the transaction is not for this node
PayOnlyOnDag == \A t \in Tx : pay[t] => dag[t]
JobEndsOnlyDone == [][\A t \in Tx : (job[t] # -1 /\ job'[t] = -1) => (pay'[t] \/ t \notin Mine)]_vars
PayloadKept == [][\A t \in Tx : pay[t] => pay'[t]]_vars
\* R3  no query once the payload is present
NoQueryWhenPresent == [][\A m \in net' \ net : m.k = "q" => ~pay[m.t]]_vars
\* R4  a transaction that is not for this node is never asked for; queries go to authenticated participants only
NoForeignQuery == \A m \in net : m.t \in Mine
QueryOnlyAuthMember == [][\A m \in net' \ net : m.k = "q" => (conn[m.p] = "auth" /\ m.p \in Member)]_vars
\* R5  the dead-letter list
DlqComplete == \A t \in Tx : (job[t] >= Budget /\ ~pay[t]) => t \in Dlq
DlqOnlyExhausted == \A t \in Dlq : job[t] >= Budget
NoStuckJob == up => \A t \in Tx : ~(job[t] # -1 /\ Done(t) /\ loop[t].st = "off")
\* R6  the retry count
WithinBudget == \A t \in Tx : job[t] <= Budget
RetriesMonotone == [][\A t \in Tx : (job[t] # -1 /\ job'[t] # -1) => job'[t] >= job[t]]_vars

\* liveness (FairSpec)
\* R1  while an authenticated holder on the PAL stays connected and the chain of attempts is alive, the payload arrives
Retrieved == \A t \in Mine, h \in Member \cap Holder :
                (dag[t] /\ up /\ conn[h] = "auth" /\ job[t] # -1 /\ loop[t].st # "off")
                    ~> (pay[t] \/ conn[h] # "auth" \/ ~up \/ Exhausted(t))
\* R3 / R5  a present payload ends the job (also across a restart)
JobFinishes == \A t \in Tx : pay[t] ~> (job[t] = -1)
\* R4  a job for somebody else's transaction ends
ForeignFinishes == \A t \in Tx \ Mine : dag[t] ~> (job[t] = -1)
=============================================================================
