------------------------------ MODULE KeyStore ------------------------------
(***************************************************************************)
(* C03: private keys never leave the key store and are used only by key    *)
(* id.  Taint model of crypto/{crypto,jwx,dpop,decryptor}.go,              *)
(* crypto/storage/spi/wrapper.go, crypto/storage/{fs,vault} and of the     *)
(* callers that sign (crypto API v1, DPoP, LD proofs, DAG transactions).   *)
(*                                                                         *)
(* Every key k has a secret atom Sec(k), a public atom Pub(k), an          *)
(* identifier atom Kid(k) and a storage name atom Name(k).  Every output   *)
(* channel is a set of atoms.  An action adds to the channels exactly the  *)
(* atoms the code is supposed to emit; NoSecretInAnyChannel says no        *)
(* channel ever holds a secret atom of the node.                           *)
(*                                                                         *)
(* Key names: a key reference (kid -> storage name, an SQL row) may carry  *)
(* any name class.  Using such a reference hands the name to the           *)
(* validating wrapper, which refuses names outside its pattern BEFORE the  *)
(* backend sees them.  NamespaceConfined: no name class that addresses     *)
(* storage outside the key store's namespace ever reaches a backend.       *)
(*                                                                         *)
(* Signatures: SignatureBoundToKid says a signature requested for key id   *)
(* k verifies with exactly the public key published (resolvable) for k.    *)
(*                                                                         *)
(* Used only BY KEY ID (two input dimensions of every private-key          *)
(* operation):                                                             *)
(*  - the REQUEST key id may be one no key is bound to (empty, unknown, a   *)
(*    near miss of an existing kid, an SQL wildcard, a storage name ...):  *)
(*    UnboundKidSelectsNothing says such a request never selects a key.    *)
(*  - the caller supplied headers of SignJWT / SignJWS may themselves      *)
(*    carry a `kid`: ArtefactNamesSigner / AuditNamesSigner say the kid    *)
(*    written into the produced artefact and into the audit record names   *)
(*    the key that really signed, whatever the caller put there.           *)
(***************************************************************************)
EXTENDS Naturals, FiniteSets, Sequences, TLC

CONSTANTS
    Kids,            \* key ids the environment may create
    NameClasses,     \* classes of storage names a key reference may carry
    JwkClasses,      \* caller supplied `jwk` header: <<class, key family>>, class in none | pub | priv | sym, every key family jwx knows
    MaxGen,          \* how often a key may be (re)created under the same key id
    KeyFamilies,     \* families of keys the backends can hold (the node creates EC P-256 itself; others are imported:
                     \* pre-populated backend + Link / Migrate)
    DecryptFamilies, \* families Crypto.Decrypt supports (ECIES: EC); for every other family the operation must FAIL cleanly
    Backends,        \* storage backends behind the wrapper: fs | vault
    MaxOps,          \* bound on the number of operations of a behaviour
    Hist,
    \* deviations of the code from the property (descriptive variant); all FALSE = prescriptive
    PatternAdmitsDotDot,  \* the name pattern lets the name ".." (dots only) through
    RefusedSecretFamilies, \* key families whose PRIVATE / SYMMETRIC jwk header SignJWS refuses (prescriptive: all of them)
    StaleSignerCache,      \* the signer handed out for a kid is memoised and never invalidated
    SigningKeyEchoed,      \* a requested jwk header is filled with the SIGNING key pair instead of its public half
    ErrorCarriesKey,       \* the error of an operation that fails for the key's family is formatted with the key itself
    UnboundKidSelectsKey,  \* the kid -> key reference lookup answers a request for an UNBOUND key id with some existing key
    CallerKidHeaderWins    \* a `kid` among the caller supplied headers survives into the artefact / the audit record

CONSTANTS
    KidClasses,      \* classes of REQUEST key ids no key is bound to (empty, unknown, near misses of an existing kid, wildcards ...)
    HdrKidClasses    \* caller supplied `kid` header of SignJWT / SignJWS that is not a kid of the model: none | unbound | empty
                     \* (the header may also name any kid of Kids: the requested one, or ANOTHER key's)

CONSTANTS PatternOK(_),      \* the name class matches the wrapper's pattern
          Outside(_, _)      \* (backend, name class): the backend would address storage outside the namespace

\* errorText: the text of returned errors (and of panics); it travels on into API responses and into the callers' log lines
Channels == {"httpResponse", "jwsHeader", "token", "didDocument", "sqlRow", "auditLog", "log", "fileName", "errorText"}
Sec(k) == <<"sec", k>>
Pub(k) == <<"pub", k>>
Kid(k) == <<"kid", k>>
Name(k) == <<"name", k>>
CallerSec(f) == <<"callersec", f>>   \* private / symmetric key material of family f the CALLER put into a jwk header
CallerPub(f) == <<"callerpub", f>>
NodeSecrets == {Sec(k) : k \in Kids}
IsSecretJwk(j) == j[1] \in {"priv", "sym"}
None == "none"

\* key material is identified by <<kid it was created under, generation>>: a kid may be deleted and created again
NoKey == <<None, 0>>

VARIABLES
    keys,      \* key material (<<kid, generation>>) that exists in the backend
    ref,       \* kid -> key material the key reference points at (Link may alias / re-link), or NoKey
    gen,       \* kid -> number of keys created under this kid so far
    fam,       \* kid -> family of the key last created / imported under it
    gone,      \* kids whose key was deleted and not created again
    cache,     \* kid -> key material of the memoised signer (only used when StaleSignerCache), or NoKey
    alias,     \* name classes for which an (SQL) key reference exists
    chan,      \* channel -> set of atoms emitted so far
    sigs,      \* signatures made: [kid |-> requested kid, by |-> key material that signed, pub |-> key material resolvable for the kid,
               \*   named |-> key material resolvable for the kid WRITTEN INTO the artefact (NA: the artefact carries no kid),
               \*   audited |-> key material resolvable for the kid the audit record of the signature names]
    uses,      \* private-key operations that SUCCEEDED for an unbound request kid: [cls |-> kid class, by |-> key material selected]
    seen,      \* <<backend, name class>> pairs that reached a backend
    ops, hist

vars == <<keys, ref, gen, fam, gone, cache, alias, chan, sigs, uses, seen, ops, hist>>
view == <<keys, ref, gen, fam, gone, cache, alias, chan, sigs, uses, seen, ops>>
Log(e) == hist' = IF Hist THEN Append(hist, e) ELSE hist

Init ==
    /\ keys = {} /\ ref = [k \in Kids |-> NoKey] /\ alias = {}
    /\ gen = [k \in Kids |-> 0] /\ gone = {} /\ cache = [k \in Kids |-> NoKey]
    /\ fam = [k \in Kids |-> "EC-P256"]
    /\ chan = [c \in Channels |-> {}]
    /\ sigs = {} /\ uses = {} /\ seen = {} /\ ops = 0 /\ hist = <<>>

Emit(c, atoms) == [chan EXCEPT ![c] = @ \cup atoms]
EmitAll(m) == [c \in Channels |-> chan[c] \cup (IF c \in DOMAIN m THEN m[c] ELSE {})]
Step == ops < MaxOps /\ ops' = ops + 1
Usable(k) == ref[k] # NoKey /\ ref[k] \in keys
\* the key that signs / decrypts for kid k, and the bookkeeping of the memoised signer
SignerFor(k) == IF StaleSignerCache /\ cache[k] # NoKey THEN cache[k] ELSE ref[k]
CanSign(k) == Usable(k) \/ (StaleSignerCache /\ cache[k] # NoKey)
Memoise(k) == cache' = IF StaleSignerCache THEN [cache EXCEPT ![k] = SignerFor(k)] ELSE cache

\* crypto.New through the subject API: key pair in the backend, key reference row, DID document with the public key,
\* DAG transaction (did:nuts) with the public key embedded, audit record naming the kid
New(k) ==
    /\ Step /\ ref[k] = NoKey /\ gen[k] < MaxGen
    /\ gen' = [gen EXCEPT ![k] = @ + 1]
    /\ keys' = keys \cup {<<k, gen[k] + 1>>} /\ ref' = [ref EXCEPT ![k] = <<k, gen[k] + 1>>]
    /\ gone' = gone \ {k} /\ fam' = [fam EXCEPT ![k] = "EC-P256"]
    /\ chan' = EmitAll([fileName |-> {Name(k)}, sqlRow |-> {Kid(k), Name(k)}, didDocument |-> {Pub(k), Kid(k)},
                        httpResponse |-> {Pub(k), Kid(k)}, jwsHeader |-> {Pub(k), Kid(k)}, auditLog |-> {Kid(k)}, log |-> {Kid(k)}])
    /\ Log([a |-> "New", k |-> k])
    /\ UNCHANGED <<alias, sigs, seen, cache, uses>>

\* a key of family f that got into the backend from outside (imported PEM) and is registered by Link or by Migrate:
\* the store holds it like any other key; no DID document knows it
Import(k, f, via) ==
    /\ Step /\ ref[k] = NoKey /\ gen[k] < MaxGen
    /\ gen' = [gen EXCEPT ![k] = @ + 1]
    /\ keys' = keys \cup {<<k, gen[k] + 1>>} /\ ref' = [ref EXCEPT ![k] = <<k, gen[k] + 1>>]
    /\ gone' = gone \ {k} /\ fam' = [fam EXCEPT ![k] = f]
    /\ chan' = EmitAll([fileName |-> {Name(k)}, sqlRow |-> {Kid(k), Name(k)}, log |-> {Kid(k)}])
    /\ Log([a |-> "Import", k |-> k, fam |-> f, via |-> via])
    /\ UNCHANGED <<alias, sigs, seen, cache, uses>>

\* the kid a caller may put among the headers: none, one of the unbound classes, or a kid of the model
HdrKids == HdrKidClasses \cup Kids
NA == <<"n/a", 0>>
\* the kid written into the artefact / the audit record of a signature requested for k with caller header kid hk
WrittenKid(k, hk) == IF CallerKidHeaderWins /\ hk # None THEN hk ELSE k
KeyOfWritten(n) == IF n \in Kids THEN ref[n] ELSE NoKey
\* a signature whose artefact carries a kid header (JWT, JWS without jwk header, LD proof, transaction) ...
SignedAs(k, hk) == {[kid |-> k, by |-> SignerFor(k), pub |-> ref[k],
                     named |-> KeyOfWritten(WrittenKid(k, hk)), audited |-> KeyOfWritten(WrittenKid(k, hk))]}
\* ... and one whose artefact carries a jwk header instead (kid dropped from the artefact, still named by the audit record)
SignedNoKid(k, hk) == {[kid |-> k, by |-> SignerFor(k), pub |-> ref[k], named |-> NA, audited |-> KeyOfWritten(WrittenKid(k, hk))]}
Signed(k) == SignedAs(k, None)

\* what a kid header / audit record shows: the atom of the kid written (a caller supplied string is caller data)
WrittenAtom(k, hk) == IF WrittenKid(k, hk) \in Kids THEN Kid(WrittenKid(k, hk)) ELSE <<"callerkid", WrittenKid(k, hk)>>

\* SignJWT with caller supplied headers; hk = the `kid` the caller put among them (None: no kid header supplied)
SignJWT(k, hk) ==
    /\ Step /\ CanSign(k)
    /\ chan' = EmitAll([token |-> {Kid(k)}, jwsHeader |-> {WrittenAtom(k, hk)}, httpResponse |-> {Kid(k)}, auditLog |-> {WrittenAtom(k, hk)}])
    /\ sigs' = sigs \cup SignedAs(k, hk)
    /\ Log([a |-> "SignJWT", k |-> k, hk |-> hk])
    /\ Memoise(k) /\ UNCHANGED <<keys, ref, gen, fam, gone, alias, seen, uses>>

\* SignJWS with caller supplied headers; j = <<class, family>> of the jwk header.  A private or symmetric key in the
\* header must be refused whatever its family: otherwise the produced JWS publishes it.
\* hk = the `kid` the caller put among the headers: the store must write the id of the key it uses, whatever was there.
SignJWS(k, j, hk) ==
    /\ Step /\ CanSign(k)
    /\ IF IsSecretJwk(j) /\ j[2] \in RefusedSecretFamilies
       THEN \* refused: "refusing to sign JWS with private key in JWK header"
            /\ chan' = Emit("auditLog", {WrittenAtom(k, hk)}) /\ UNCHANGED <<sigs, cache>>
       ELSE /\ chan' = EmitAll([jwsHeader |-> (CASE j[1] = "pub" -> (IF SigningKeyEchoed THEN {Sec(k)} ELSE {CallerPub(j[2])})
                                                 [] IsSecretJwk(j) -> {CallerSec(j[2])}
                                                 [] OTHER -> {WrittenAtom(k, hk)}),
                                httpResponse |-> {Kid(k)}, auditLog |-> {WrittenAtom(k, hk)}])
            /\ sigs' = sigs \cup (IF j[1] = None THEN SignedAs(k, hk) ELSE SignedNoKid(k, hk)) /\ Memoise(k)
    /\ Log([a |-> "SignJWS", k |-> k, jwk |-> j[1] \o ":" \o j[2], hk |-> hk])
    /\ UNCHANGED <<keys, ref, gen, fam, gone, alias, seen, uses>>

\* DPoP proof: the public key travels in the jwk header
SignDPoP(k) ==
    /\ Step /\ CanSign(k)
    /\ chan' = EmitAll([jwsHeader |-> {Pub(k)}, token |-> {Kid(k)}, httpResponse |-> {Pub(k)}, auditLog |-> {Kid(k)}])
    /\ sigs' = sigs \cup Signed(k)
    /\ Log([a |-> "SignDPoP", k |-> k])
    /\ Memoise(k) /\ UNCHANGED <<keys, ref, gen, fam, gone, alias, seen, uses>>

\* JSON-LD proof (credential issued by the subject of k): proof.verificationMethod names the kid
SignLD(k) ==
    /\ Step /\ CanSign(k)
    /\ chan' = EmitAll([httpResponse |-> {Kid(k)}, jwsHeader |-> {Kid(k)}, sqlRow |-> {Kid(k)}, auditLog |-> {Kid(k)}])
    /\ sigs' = sigs \cup Signed(k)
    /\ Log([a |-> "SignLD", k |-> k])
    /\ Memoise(k) /\ UNCHANGED <<keys, ref, gen, fam, gone, alias, seen, uses>>

\* DAG transaction signed by k (DID document update of a did:nuts subject)
SignTx(k) ==
    /\ Step /\ CanSign(k)
    /\ chan' = EmitAll([jwsHeader |-> {Kid(k)}, httpResponse |-> {Kid(k), Pub(k)}, didDocument |-> {Pub(k), Kid(k)}, auditLog |-> {Kid(k)}])
    /\ sigs' = sigs \cup Signed(k)
    /\ Log([a |-> "SignTx", k |-> k])
    /\ Memoise(k) /\ UNCHANGED <<keys, ref, gen, fam, gone, alias, seen, uses>>

\* JWE addressed to k, decrypted by key id: the plaintext (caller data) comes back, nothing of the key
FamOfSigner(k) == fam[SignerFor(k)[1]]
\* what a FAILING operation says about key k: the kid; with the deviation, the key itself (formatted into the error)
Failure(k) == {Kid(k)} \cup (IF ErrorCarriesKey THEN {Sec(k)} ELSE {})
Decrypt(k) ==
    /\ Step /\ CanSign(k)
    /\ chan' = IF FamOfSigner(k) \in DecryptFamilies
               THEN EmitAll([httpResponse |-> {Kid(k)}, auditLog |-> {Kid(k)}])
               ELSE \* "unsupported decryption key": returned to the caller, who logs it (network/dag EncryptedPAL.Decrypt)
                    EmitAll([errorText |-> Failure(k), httpResponse |-> Failure(k), log |-> Failure(k)])
    /\ Log([a |-> "Decrypt", k |-> k])
    /\ Memoise(k) /\ UNCHANGED <<keys, ref, gen, fam, gone, alias, sigs, seen, uses>>

\* Exists / EncryptJWE for the key's public half / DecryptJWE: nothing but the kid (or a failure naming the kid) comes out
Exists(k) ==
    /\ Step
    /\ chan' = EmitAll([httpResponse |-> {Kid(k)}])
    /\ Log([a |-> "Exists", k |-> k])
    /\ UNCHANGED <<keys, ref, gen, fam, gone, cache, alias, sigs, seen, uses>>

JWE(k) ==
    /\ Step /\ CanSign(k)
    /\ chan' = IF FamOfSigner(k) \in DecryptFamilies
               THEN EmitAll([httpResponse |-> {Kid(k)}, token |-> {Kid(k)}, auditLog |-> {Kid(k)}])
               ELSE EmitAll([errorText |-> Failure(k), httpResponse |-> Failure(k), auditLog |-> {Kid(k)}])
    /\ Log([a |-> "JWE", k |-> k])
    /\ Memoise(k) /\ UNCHANGED <<keys, ref, gen, fam, gone, alias, sigs, seen, uses>>

Resolve(k) ==
    /\ Step /\ Usable(k)
    /\ chan' = EmitAll([httpResponse |-> {Pub(k), Kid(k)}, didDocument |-> {Pub(k), Kid(k)}])
    /\ Log([a |-> "Resolve", k |-> k])
    /\ UNCHANGED <<keys, ref, gen, fam, gone, cache, alias, sigs, seen, uses>>

List ==
    /\ Step
    /\ chan' = EmitAll([httpResponse |-> {Kid(m[1]) : m \in keys}, log |-> {Kid(m[1]) : m \in keys}])
    /\ Log([a |-> "List"])
    /\ UNCHANGED <<keys, ref, gen, fam, gone, cache, alias, sigs, seen, uses>>

\* Delete removes the key reference and the key material; every kid that pointed at it can no longer sign
Delete(k) ==
    /\ Step /\ Usable(k) /\ ref[k][1] = k
    /\ keys' = keys \ {ref[k]}
    /\ ref' = [q \in Kids |-> IF ref[q] = ref[k] THEN NoKey ELSE ref[q]]
    /\ gone' = gone \cup {q \in Kids : ref[q] = ref[k]}
    /\ chan' = Emit("auditLog", {Kid(k)})
    /\ Log([a |-> "Delete", k |-> k])
    /\ UNCHANGED <<gen, fam, cache, alias, sigs, seen, uses>>

\* a signature (or decryption) requested for a kid whose key was deleted: must fail with "private key not found"
SignDeleted(k) ==
    /\ Step /\ k \in gone
    /\ IF StaleSignerCache /\ cache[k] # NoKey
       THEN sigs' = sigs \cup {[kid |-> k, by |-> cache[k], pub |-> NoKey, named |-> NoKey, audited |-> NoKey]}
       ELSE UNCHANGED sigs
    /\ chan' = Emit("auditLog", {Kid(k)})
    /\ Log([a |-> "SignDeleted", k |-> k])
    /\ UNCHANGED <<keys, ref, gen, fam, gone, cache, alias, seen, uses>>

\* every private-key operation (sign JWT / JWS / DPoP, decrypt, decrypt JWE) plus Exists / Resolve / Delete requested for a
\* key id of class c to which NO key is bound, while other keys exist: nothing may be selected; the failure names the
\* requested id (caller data).  With the deviation the lookup answers with some existing key.
UseUnbound(c) ==
    /\ Step
    /\ IF UnboundKidSelectsKey /\ keys # {}
       THEN \E m \in keys : uses' = uses \cup {[cls |-> c, by |-> m]}
       ELSE UNCHANGED uses
    /\ chan' = EmitAll([errorText |-> {<<"callerkid", "unbound">>}, httpResponse |-> {<<"callerkid", "unbound">>}])
    /\ Log([a |-> "UseUnbound", kc |-> c])
    /\ UNCHANGED <<keys, ref, gen, fam, gone, cache, alias, sigs, seen>>

\* crypto.Link: a key reference row kid -> storage name of another existing key (new reference, or re-link of a used one)
LinkKey(k, q) ==
    /\ Step /\ Usable(q) /\ q # k /\ ref[k] # ref[q] /\ (ref[k] = NoKey \/ ref[k][1] # k)
    /\ ref' = [ref EXCEPT ![k] = ref[q]] /\ gone' = gone \ {k}
    /\ chan' = Emit("sqlRow", {Kid(k), Name(q)})
    /\ Log([a |-> "LinkKey", k |-> k, to |-> q])
    /\ UNCHANGED <<keys, gen, fam, cache, alias, sigs, seen, uses>>

\* a key reference row whose storage name is of class nc (rows are storage: not trusted)
LinkName(nc) ==
    /\ Step /\ nc \notin alias
    /\ alias' = alias \cup {nc}
    /\ Log([a |-> "LinkName", nc |-> nc])
    /\ UNCHANGED <<keys, ref, gen, fam, gone, cache, chan, sigs, seen, uses>>

Admitted(nc) == PatternOK(nc) \/ (PatternAdmitsDotDot /\ nc = "dotdot")
\* using the reference (resolve / sign / decrypt / exists / delete): the wrapper validates, then the backend is addressed
UseName(b, nc) ==
    /\ Step /\ nc \in alias
    /\ seen' = IF Admitted(nc) THEN seen \cup {<<b, nc>>} ELSE seen
    /\ Log([a |-> "UseName", b |-> b, nc |-> nc])
    /\ UNCHANGED <<keys, ref, gen, fam, gone, cache, alias, chan, sigs, uses>>

Next ==
    \/ \E k \in Kids : New(k) \/ SignDPoP(k) \/ SignLD(k) \/ SignTx(k) \/ Decrypt(k) \/ Resolve(k) \/ Delete(k) \/ SignDeleted(k)
    \/ \E k \in Kids : Exists(k) \/ JWE(k)
    \/ \E k \in Kids, f \in KeyFamilies, via \in {"link", "migrate"} : Import(k, f, via)
    \/ \E k \in Kids, hk \in HdrKids : SignJWT(k, hk)
    \/ \E k \in Kids, j \in JwkClasses, hk \in HdrKids : SignJWS(k, j, hk)
    \/ \E c \in KidClasses : UseUnbound(c)
    \/ \E k, q \in Kids : LinkKey(k, q)
    \/ List
    \/ \E nc \in NameClasses : LinkName(nc)
    \/ \E b \in Backends, nc \in NameClasses : UseName(b, nc)

Spec == Init /\ [][Next]_vars

(***************************************************************************)
(* Properties                                                              *)
(***************************************************************************)
TypeOK == ops \in 0..MaxOps /\ \A k \in Kids : gen[k] \in 0..MaxGen /\ (ref[k] = NoKey \/ ref[k] \in keys \/ TRUE)
\* no secret of the node in any channel
NoSecretInAnyChannel == \A c \in Channels : chan[c] \cap NodeSecrets = {}
\* no private / symmetric key a caller put into a jwk header is published by the produced JWS
NoCallerSecretEchoed == \A c \in Channels : \A a \in chan[c] : a[1] # "callersec"
\* names that would address storage outside the namespace never reach a backend
NamespaceConfined == \A p \in seen : ~Outside(p[1], p[2])
\* a signature for kid k was made by exactly the key CURRENTLY resolvable for k (also after delete / re-create / re-link)
SignatureBoundToKid == \A s \in sigs : s.by = s.pub
\* used only by key id: a request for a key id no key is bound to never selects a key
UnboundKidSelectsNothing == uses = {}
\* the kid written into a produced artefact names the key that really signed it (a verifier resolving the key by that kid
\* gets the signer's public key), whatever `kid` the caller supplied among the headers ...
ArtefactNamesSigner == \A s \in sigs : s.named # NA => s.named = s.by
\* ... and so does the audit record of the signature
AuditNamesSigner == \A s \in sigs : s.audited = s.by
\* a deleted key can no longer sign
DeletedKeyCannotSign == \A s \in sigs : s.pub # NoKey
\* the secret stays where it is: only New puts key material (under its name) into the backend namespace
OnlyNamesInNamespace == \A a \in chan["fileName"] : a[1] = "name"
=============================================================================
