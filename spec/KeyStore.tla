------------------------------ MODULE KeyStore ------------------------------
(***************************************************************************)
(* C03: private keys never leave the key store and are used only by key    *)
(* id.  Taint model of crypto/{crypto,jwx,dpop,decryptor}.go,              *)
(* crypto/storage/spi/wrapper.go, crypto/storage/{fs,vault} and of the     *)
(* callers that sign (crypto API v1, DPoP, LD proofs, DAG transactions).   *)
(*                                                                         *)
(* Every key k has a secret atom Sec(k), a public atom Pub(k), an          *)
(* identifier atom Kid(k) and a storage name atom Name(k).  Every output   *)
(* channel is a set of atoms.  An action adds to the channels exactly the  *)
(* atoms the code is supposed to emit; NoSecretInAnyChannel says no        *)
(* channel ever holds a secret atom of the node.                           *)
(*                                                                         *)
(* Key names: a key reference (kid -> storage name, an SQL row) may carry  *)
(* any name class.  Using such a reference hands the name to the           *)
(* validating wrapper, which refuses names outside its pattern BEFORE the  *)
(* backend sees them.  NamespaceConfined: no name class that addresses     *)
(* storage outside the key store's namespace ever reaches a backend.       *)
(*                                                                         *)
(* Signatures: SignatureBoundToKid says a signature requested for key id   *)
(* k verifies with exactly the public key published (resolvable) for k.    *)
(***************************************************************************)
EXTENDS Naturals, FiniteSets, Sequences, TLC

CONSTANTS
    Kids,            \* key ids the environment may create
    NameClasses,     \* classes of storage names a key reference may carry
    JwkClasses,      \* class of a caller supplied `jwk` header: none | public | private | symmetric
    Backends,        \* storage backends behind the wrapper: fs | vault
    MaxOps,          \* bound on the number of operations of a behaviour
    Hist,
    \* deviations of the code from the property (descriptive variant); all FALSE = prescriptive
    PatternAdmitsDotDot,  \* the name pattern lets the name ".." (dots only) through
    PrivateJwkEchoed      \* SignJWS would sign with a private key in the jwk header (and echo it)

CONSTANTS PatternOK(_),      \* the name class matches the wrapper's pattern
          Outside(_, _)      \* (backend, name class): the backend would address storage outside the namespace

Channels == {"httpResponse", "jwsHeader", "token", "didDocument", "sqlRow", "auditLog", "log", "fileName"}
Sec(k) == <<"sec", k>>
Pub(k) == <<"pub", k>>
Kid(k) == <<"kid", k>>
Name(k) == <<"name", k>>
CallerSec == <<"sec", "caller">>     \* private key material the CALLER put into a jwk header (not the node's)
CallerSym == <<"sym", "caller">>
NodeSecrets == {Sec(k) : k \in Kids}
None == "none"

VARIABLES
    keys,      \* kids whose key pair exists in the backend
    ref,       \* kid -> kid whose key material the reference points at (Link may alias), or None
    alias,     \* name classes for which an (SQL) key reference exists
    chan,      \* channel -> set of atoms emitted so far
    sigs,      \* signatures made: [kid |-> requested kid, by |-> kid of the key that signed, pub |-> kid resolvable for the requested kid]
    seen,      \* <<backend, name class>> pairs that reached a backend
    ops, hist

vars == <<keys, ref, alias, chan, sigs, seen, ops, hist>>
view == <<keys, ref, alias, chan, sigs, seen, ops>>
Log(e) == hist' = IF Hist THEN Append(hist, e) ELSE hist

Init ==
    /\ keys = {} /\ ref = [k \in Kids |-> None] /\ alias = {}
    /\ chan = [c \in Channels |-> {}]
    /\ sigs = {} /\ seen = {} /\ ops = 0 /\ hist = <<>>

Emit(c, atoms) == [chan EXCEPT ![c] = @ \cup atoms]
EmitAll(m) == [c \in Channels |-> chan[c] \cup (IF c \in DOMAIN m THEN m[c] ELSE {})]
Step == ops < MaxOps /\ ops' = ops + 1
Usable(k) == ref[k] # None /\ ref[k] \in keys

\* crypto.New through the subject API: key pair in the backend, key reference row, DID document with the public key,
\* DAG transaction (did:nuts) with the public key embedded, audit record naming the kid
New(k) ==
    /\ Step /\ k \notin keys /\ ref[k] = None
    /\ keys' = keys \cup {k} /\ ref' = [ref EXCEPT ![k] = k]
    /\ chan' = EmitAll([fileName |-> {Name(k)}, sqlRow |-> {Kid(k), Name(k)}, didDocument |-> {Pub(k), Kid(k)},
                        httpResponse |-> {Pub(k), Kid(k)}, jwsHeader |-> {Pub(k), Kid(k)}, auditLog |-> {Kid(k)}, log |-> {Kid(k)}])
    /\ Log([a |-> "New", k |-> k])
    /\ UNCHANGED <<alias, sigs, seen>>

Signed(k) == {[kid |-> k, by |-> ref[k], pub |-> ref[k]]}

SignJWT(k) ==
    /\ Step /\ Usable(k)
    /\ chan' = EmitAll([token |-> {Kid(k)}, jwsHeader |-> {Kid(k)}, httpResponse |-> {Kid(k)}, auditLog |-> {Kid(k)}])
    /\ sigs' = sigs \cup Signed(k)
    /\ Log([a |-> "SignJWT", k |-> k])
    /\ UNCHANGED <<keys, ref, alias, seen>>

\* SignJWS with caller supplied headers; j = class of the jwk header
SignJWS(k, j) ==
    /\ Step /\ Usable(k)
    /\ IF j = "private" /\ ~PrivateJwkEchoed
       THEN \* refused: "refusing to sign JWS with private key in JWK header"
            /\ chan' = Emit("auditLog", {Kid(k)}) /\ UNCHANGED sigs
       ELSE /\ chan' = EmitAll([jwsHeader |-> (CASE j = "public" -> {Pub(k)}
                                                 [] j = "private" -> {CallerSec}
                                                 [] j = "symmetric" -> {CallerSym}
                                                 [] OTHER -> {Kid(k)}),
                                httpResponse |-> {Kid(k)}, auditLog |-> {Kid(k)}])
            /\ sigs' = sigs \cup Signed(k)
    /\ Log([a |-> "SignJWS", k |-> k, jwk |-> j])
    /\ UNCHANGED <<keys, ref, alias, seen>>

\* DPoP proof: the public key travels in the jwk header
SignDPoP(k) ==
    /\ Step /\ Usable(k)
    /\ chan' = EmitAll([jwsHeader |-> {Pub(k)}, token |-> {Kid(k)}, httpResponse |-> {Pub(k)}, auditLog |-> {Kid(k)}])
    /\ sigs' = sigs \cup Signed(k)
    /\ Log([a |-> "SignDPoP", k |-> k])
    /\ UNCHANGED <<keys, ref, alias, seen>>

\* JSON-LD proof (credential issued by the subject of k): proof.verificationMethod names the kid
SignLD(k) ==
    /\ Step /\ Usable(k)
    /\ chan' = EmitAll([httpResponse |-> {Kid(k)}, jwsHeader |-> {Kid(k)}, sqlRow |-> {Kid(k)}, auditLog |-> {Kid(k)}])
    /\ sigs' = sigs \cup Signed(k)
    /\ Log([a |-> "SignLD", k |-> k])
    /\ UNCHANGED <<keys, ref, alias, seen>>

\* DAG transaction signed by k (DID document update of a did:nuts subject)
SignTx(k) ==
    /\ Step /\ Usable(k)
    /\ chan' = EmitAll([jwsHeader |-> {Kid(k)}, httpResponse |-> {Kid(k), Pub(k)}, didDocument |-> {Pub(k), Kid(k)}, auditLog |-> {Kid(k)}])
    /\ sigs' = sigs \cup Signed(k)
    /\ Log([a |-> "SignTx", k |-> k])
    /\ UNCHANGED <<keys, ref, alias, seen>>

\* JWE addressed to k, decrypted by key id: the plaintext (caller data) comes back, nothing of the key
Decrypt(k) ==
    /\ Step /\ Usable(k)
    /\ chan' = EmitAll([httpResponse |-> {Kid(k)}, auditLog |-> {Kid(k)}])
    /\ Log([a |-> "Decrypt", k |-> k])
    /\ UNCHANGED <<keys, ref, alias, sigs, seen>>

Resolve(k) ==
    /\ Step /\ Usable(k)
    /\ chan' = EmitAll([httpResponse |-> {Pub(k), Kid(k)}, didDocument |-> {Pub(k), Kid(k)}])
    /\ Log([a |-> "Resolve", k |-> k])
    /\ UNCHANGED <<keys, ref, alias, sigs, seen>>

List ==
    /\ Step
    /\ chan' = EmitAll([httpResponse |-> {Kid(k) : k \in keys}, log |-> {Kid(k) : k \in keys}])
    /\ Log([a |-> "List"])
    /\ UNCHANGED <<keys, ref, alias, sigs, seen>>

Delete(k) ==
    /\ Step /\ Usable(k) /\ ref[k] = k
    /\ keys' = keys \ {k} /\ ref' = [q \in Kids |-> IF ref[q] = k THEN None ELSE ref[q]]
    /\ chan' = Emit("auditLog", {Kid(k)})
    /\ Log([a |-> "Delete", k |-> k])
    /\ UNCHANGED <<alias, sigs, seen>>

\* crypto.Link: a key reference row kid -> storage name of another existing key
LinkKey(k, q) ==
    /\ Step /\ ref[k] = None /\ q \in keys /\ q # k
    /\ ref' = [ref EXCEPT ![k] = q]
    /\ chan' = Emit("sqlRow", {Kid(k), Name(q)})
    /\ Log([a |-> "LinkKey", k |-> k, to |-> q])
    /\ UNCHANGED <<keys, alias, sigs, seen>>

\* a key reference row whose storage name is of class nc (rows are storage: not trusted)
LinkName(nc) ==
    /\ Step /\ nc \notin alias
    /\ alias' = alias \cup {nc}
    /\ Log([a |-> "LinkName", nc |-> nc])
    /\ UNCHANGED <<keys, ref, chan, sigs, seen>>

Admitted(nc) == PatternOK(nc) \/ (PatternAdmitsDotDot /\ nc = "dotdot")
\* using the reference (resolve / sign / decrypt / exists / delete): the wrapper validates, then the backend is addressed
UseName(b, nc) ==
    /\ Step /\ nc \in alias
    /\ seen' = IF Admitted(nc) THEN seen \cup {<<b, nc>>} ELSE seen
    /\ Log([a |-> "UseName", b |-> b, nc |-> nc])
    /\ UNCHANGED <<keys, ref, alias, chan, sigs>>

Next ==
    \/ \E k \in Kids : New(k) \/ SignJWT(k) \/ SignDPoP(k) \/ SignLD(k) \/ SignTx(k) \/ Decrypt(k) \/ Resolve(k) \/ Delete(k)
    \/ \E k \in Kids, j \in JwkClasses : SignJWS(k, j)
    \/ \E k, q \in Kids : LinkKey(k, q)
    \/ List
    \/ \E nc \in NameClasses : LinkName(nc)
    \/ \E b \in Backends, nc \in NameClasses : UseName(b, nc)

Spec == Init /\ [][Next]_vars

(***************************************************************************)
(* Properties                                                              *)
(***************************************************************************)
TypeOK == keys \subseteq Kids /\ ops \in 0..MaxOps /\ \A k \in Kids : ref[k] \in Kids \cup {None}
\* no secret of the node (and no private key a caller handed in) in any channel
NoSecretInAnyChannel == \A c \in Channels : chan[c] \cap (NodeSecrets \cup {CallerSec}) = {}
\* names that would address storage outside the namespace never reach a backend
NamespaceConfined == \A p \in seen : ~Outside(p[1], p[2])
\* a signature for kid k was made by, and verifies with, exactly the key resolvable for k
SignatureBoundToKid == \A s \in sigs : s.by = s.pub
\* the secret stays where it is: only New puts key material (under its name) into the backend namespace
OnlyNamesInNamespace == \A a \in chan["fileName"] : a[1] = "name"
=============================================================================
