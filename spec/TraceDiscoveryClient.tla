----------------------- MODULE TraceDiscoveryClient -----------------------
(***************************************************************************)
(* Trace validation for X05: executions of the REAL discovery.Module used  *)
(* as client (recorded by harness/drivers/discoveryclient: one event per   *)
(* model action with its arguments, the outcome the code produced, the     *)
(* presentations it handed to the HTTP client and the projected real       *)
(* state: refresh records, error rows, due records, parameters, the live   *)
(* registrations on the server and in the client's copy) must be           *)
(* behaviours of DiscoveryClient.tla.  Everything the code answered is     *)
(* TAKEN FROM THE LOG and compared with what the specification computes;   *)
(* the invariants the code has are evaluated on the reconstructed state.   *)
(* Traces are concatenated; "reset" starts the next one.                   *)
(***************************************************************************)
EXTENDS MCDiscoveryClient, IOUtils

TraceLog == ndJsonDeserialize(IOEnv.VERIF_TRACE)
VARIABLE l
tvars == <<vars, l>>

Ev == TraceLog[l]
IsEvent(e) == l <= Len(TraceLog) /\ Ev.ev = e /\ l' = l + 1
ToSet(q) == {q[i] : i \in 1..Len(q)}

CKey(c) == c[1] \o "/" \o c[2]
\* the projection of the model state that the driver logs from the real observables
ActSet  == {CKey(c) : c \in {x \in CS : rec'[x].on}}
ErrSet  == {CKey(c) : c \in {x \in CS : err'[x]}}
DueSet  == {CKey(c) : c \in {x \in CS : rec'[x].on /\ rec'[x].next < now'}}
ParSet  == {CKey(c) \o "=" \o rec'[c].par : c \in {x \in CS : rec'[x].on}}
SrvLive == {CKey(k) : k \in {x \in SD : srv'[x].kind = "reg" /\ srv'[x].exp > now'}}
LocLive == {CKey(k) : k \in {x \in SD : loc'[x].kind = "reg" /\ loc'[x].exp > now'}}
SentSet == {m.svc \o "/" \o m.did \o "/" \o m.kind \o "/" \o (IF m.ok THEN "accepted" ELSE "rejected") : m \in out'}
Projection ==
    /\ ActSet = ToSet(Ev.act) /\ ErrSet = ToSet(Ev.errs) /\ DueSet = ToSet(Ev.due) /\ ParSet = ToSet(Ev.pars)
    /\ SrvLive = ToSet(Ev.srv) /\ LocLive = ToSet(Ev.loc)
    /\ SentSet = ToSet(Ev.sent)
ResClass(o) == IF o \in {"nomethod", "notfound"} THEN "removed" ELSE o

TReset == /\ IsEvent("reset")
          /\ now' = 0 /\ regUp' = TRUE /\ getUp' = TRUE /\ refuse' = {}
          /\ wallet' = [d \in DIDs |-> d \in InitWallet]
          /\ dead' = {} /\ gone' = {}
          /\ rec' = [c \in CS |-> NoRec] /\ err' = [c \in CS |-> FALSE]
          /\ srv' = [k \in SD |-> None] /\ loc' = [k \in SD |-> None]
          /\ loop' = Idle /\ api' = 0 /\ env' = 0 /\ rounds' = 0 /\ ticked' = FALSE
          /\ out' = {} /\ res' = "-" /\ deact' = {}
          /\ lastRes' = [c \in CS |-> "none"] /\ lastPar' = [c \in CS |-> NoPar]
          /\ fails' = [k \in SD |-> Cap] /\ orphan' = FALSE
          /\ hist' = <<>>

TActivate   == IsEvent("activate") /\ Activate(Ev.svc, Ev.s, Ev.p) /\ res' = Ev.res /\ Projection
TDeactivate == IsEvent("deactivate") /\ Deactivate(Ev.svc, Ev.s) /\ res' = Ev.res /\ Projection
\* the candidates the real loop is going to process
TRefreshStart == /\ IsEvent("refresh.start") /\ RefreshStart
                 /\ {CKey(t.c) : t \in loop'.todo} = ToSet(Ev.cands)
\* the candidate is the one the real loop processed (any order is a behaviour of the specification)
TRefreshOne == /\ IsEvent("refresh.one")
               /\ \E t \in loop.todo : t.c = <<Ev.svc, Ev.s>> /\ RefreshOne(t)
               /\ ResClass(res') = Ev.res /\ Projection
TRefreshSync == IsEvent("refresh.sync") /\ RefreshSync /\ Projection
TRestart == IsEvent("restart") /\ Restart /\ Projection
TAdvance == IsEvent("advance") /\ Advance /\ Projection
TEnv == \/ IsEvent("toggle.reg") /\ ToggleReg
        \/ IsEvent("toggle.get") /\ ToggleGet
        \/ IsEvent("refuse") /\ Refuse(Ev.d)
        \/ IsEvent("wallet.flip") /\ WalletFlip(Ev.d)
        \/ IsEvent("kill.did") /\ KillDID(Ev.d)
        \/ IsEvent("remove.subject") /\ RemoveSubject(Ev.s)

TraceNext == TReset \/ TActivate \/ TDeactivate \/ TRefreshStart \/ TRefreshOne \/ TRefreshSync \/ TRestart \/ TAdvance \/ TEnv
TraceInit == Init /\ l = 1 /\ TLCSet(1, 1)
TraceSpec == TraceInit /\ [][TraceNext]_tvars

\* acceptance: the whole file was consumed (high-water mark kept in a TLC register; -workers 1)
Progress == TLCSet(1, IF l > TLCGet(1) THEN l ELSE TLCGet(1))
TraceAccepted ==
    \/ TLCGet(1) = Len(TraceLog) + 1
    \/ Print(<<"TRACE-REJECTED-AT", TLCGet(1), TraceLog[TLCGet(1)]>>, FALSE)
=============================================================================
