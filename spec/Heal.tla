-------------------------------- MODULE Heal --------------------------------
(***************************************************************************)
(* Self-healing of a corrupted XOR digest through the network              *)
(* (extension X08): network/dag/consistency.go (xorTreeRepair: circuit,    *)
(* page cursor, checkPage) together with its only trigger,                 *)
(* network/transport/v2/handlers.go handleGossip                           *)
(* (CorrectStateDetected / IncorrectStateDetected).                        *)
(*                                                                         *)
(* Scope: nodes that hold the SAME transactions (nothing to reconcile; the *)
(* reconciliation itself is Sync.tla) but whose XOR leaves may have been   *)
(* corrupted by a storage fault or an old defect. A page's leaf is either  *)
(* right or carries a garbage tag; two digests are equal iff they carry    *)
(* the same tags. One action per critical section:                         *)
(*   Corrupt       environment: a leaf of one node gets a garbage tag      *)
(*   GossipTick    gossip manager tick: XOR + clock, no references (the    *)
(*                 transactions predate the connection). The XOR is NOT    *)
(*                 read from the tree: it is the value the gossip manager  *)
(*                 cached when the peer connected or when the last local   *)
(*                 transaction was registered (gossip/manager.go            *)
(*                 PeerConnected / TransactionRegistered)                  *)
(*   Announce      the cache is refreshed with the current XOR: the node   *)
(*                 restarted / the connection was re-established / a new   *)
(*                 transaction was registered                              *)
(*   HandleGossip  XOR equal -> stateOK (circuit green); XOR differs, no   *)
(*                 unknown reference, clocks equal -> incrementCount; the  *)
(*                 State / TransactionSet exchange that follows finds      *)
(*                 nothing to fetch (equal IBLTs) and is not modelled      *)
(*   Lose          the gossip message is lost                              *)
(*   RepairTick    10 s ticker: nothing unless the circuit is red; else    *)
(*                 recompute the page under the cursor, replace the leaf   *)
(*                 if it differs, advance the cursor (wrap after the page  *)
(*                 that holds the highest clock)                           *)
(* Deviation constants (TRUE = code):                                      *)
(*   RepairNeedsRed   checkPage returns at once while the circuit is not   *)
(*                    red                                                  *)
(*   EqualResets      an equal XOR resets the circuit to green             *)
(***************************************************************************)
EXTENDS Naturals, FiniteSets, Sequences, TLC

CONSTANTS
    Node, Link(_, _),   \* topology (symmetric)
    LastPage,           \* pages 0..LastPage hold transactions (LastPage = page of the highest clock)
    Tags,               \* garbage tags per node (distinct nodes never produce the same garbage)
    Red,                \* circuit value from which the repair runs (code: circuitRed = 2)
    MaxCorrupt, MaxLoss,
    RepairNeedsRed, EqualResets,
    Hist

Pages == 0..LastPage
None == "none"

VARIABLES
    bad,       \* bad[n]: function page -> tag | None: the garbage a leaf of n carries
    circuit,   \* circuit[n] \in 0..Red+1 (the code's counter is unbounded; values above Red behave like Red)
    cursor,    \* cursor[n]: page the next repair round looks at
    ann,       \* ann[n]: the digest the gossip manager of n announces (cached, see GossipTick)
    net,       \* gossip messages in flight: [from, to, dig]
    corrupts, losses,
    hist
vars == <<bad, circuit, cursor, ann, net, corrupts, losses, hist>>
view == <<bad, circuit, cursor, ann, net, corrupts, losses>>
Log(e) == hist' = IF Hist THEN Append(hist, e) ELSE hist

Clean == [pg \in Pages |-> None]
\* the digest a node announces: which leaves are wrong, and how (the right part is the same for everybody)
Digest(n) == {<<pg, bad[n][pg]>> : pg \in {q \in Pages : bad[n][q] # None}}
Cap(c) == IF c > Red + 1 THEN Red + 1 ELSE c

Init ==
    /\ bad = [n \in Node |-> Clean]
    /\ circuit = [n \in Node |-> 0]
    /\ cursor = [n \in Node |-> 0]
    /\ ann = [n \in Node |-> {}]
    /\ net = {}
    /\ corrupts = 0 /\ losses = 0
    /\ hist = <<>>

Corrupt(n, pg, g) ==
    /\ corrupts < MaxCorrupt /\ g \in Tags[n] /\ bad[n][pg] # g
    /\ corrupts' = corrupts + 1
    /\ bad' = [bad EXCEPT ![n][pg] = g]
    /\ Log([a |-> "Corrupt", n |-> n, pg |-> pg, g |-> g])
    /\ UNCHANGED <<circuit, cursor, ann, net, losses>>

\* at most one gossip in flight per direction (gossip interval >> round trip)
GossipTick(n, p) ==
    /\ Link(n, p) /\ ~\E m \in net : m.from = n /\ m.to = p
    /\ net' = net \cup {[from |-> n, to |-> p, dig |-> ann[n]]}
    /\ Log([a |-> "GossipTick", n |-> n, p |-> p])
    /\ UNCHANGED <<bad, circuit, cursor, ann, corrupts, losses>>

\* the gossip manager's cached XOR is refreshed (restart, reconnect, or a new transaction)
Announce(n) ==
    /\ ann[n] # Digest(n)
    /\ ann' = [ann EXCEPT ![n] = Digest(n)]
    /\ Log([a |-> "Announce", n |-> n])
    /\ UNCHANGED <<bad, circuit, cursor, net, corrupts, losses>>

HandleGossip(m) ==
    /\ m \in net
    /\ net' = net \ {m}
    /\ LET me == m.to
           eq == Digest(me) = m.dig IN
       /\ circuit' = [circuit EXCEPT ![me] = IF eq THEN (IF EqualResets THEN 0 ELSE @) ELSE Cap(@ + 1)]
       /\ Log([a |-> "HandleGossip", from |-> m.from, to |-> me, eq |-> eq, circuit |-> circuit'[me]])
    /\ UNCHANGED <<bad, cursor, ann, corrupts, losses>>

Lose(m) ==
    /\ m \in net /\ losses < MaxLoss
    /\ losses' = losses + 1
    /\ net' = net \ {m}
    /\ Log([a |-> "Lose", from |-> m.from, to |-> m.to])
    /\ UNCHANGED <<bad, circuit, cursor, ann, corrupts>>

RepairTick(n) ==
    /\ IF RepairNeedsRed /\ circuit[n] < Red
       THEN /\ UNCHANGED <<bad, cursor>>
            /\ Log([a |-> "RepairTick", n |-> n, ran |-> FALSE, pg |-> cursor[n], fixed |-> FALSE])
       ELSE /\ bad' = [bad EXCEPT ![n][cursor[n]] = None]
            /\ cursor' = [cursor EXCEPT ![n] = IF @ >= LastPage THEN 0 ELSE @ + 1]
            /\ Log([a |-> "RepairTick", n |-> n, ran |-> TRUE, pg |-> cursor[n], fixed |-> bad[n][cursor[n]] # None])
    /\ UNCHANGED <<circuit, ann, net, corrupts, losses>>

DoHandle == \E m \in net : HandleGossip(m)
DoLose == \E m \in net : Lose(m)
Next ==
    \/ \E n \in Node, pg \in Pages, g \in UNION {Tags[x] : x \in Node} : Corrupt(n, pg, g)
    \/ \E n, p \in Node : GossipTick(n, p)
    \/ \E n \in Node : Announce(n)
    \/ DoHandle
    \/ DoLose
    \/ \E n \in Node : RepairTick(n)

Spec == Init /\ [][Next]_vars
\* fairness: every link keeps gossiping, messages that keep being sent are eventually handled (loss is bounded),
\* the repair ticker keeps ticking
FairSpec == /\ Spec
            /\ \A n, p \in Node : WF_vars(GossipTick(n, p))
            /\ \A n, p \in Node : SF_vars(\E m \in net : m.from = n /\ m.to = p /\ HandleGossip(m))
            /\ \A n \in Node : WF_vars(RepairTick(n))
\* ... and, for calming down, new transactions keep arriving (or nodes reconnect): stale announcements are refreshed
FairAnnounce == \A n \in Node : WF_vars(Announce(n))
FairSpecA == FairSpec /\ FairAnnounce

(***************************************************************************)
(* Properties                                                              *)
(***************************************************************************)
TypeOK ==
    /\ \A n \in Node : circuit[n] \in 0..Red + 1 /\ cursor[n] \in Pages
    /\ \A n \in Node, pg \in Pages : bad[n][pg] \in {None} \cup Tags[n]

\* a repair round changes at most the leaf under the cursor, and only towards the right value
RepairLocal ==
    [][\A n \in Node : \A pg \in Pages : bad'[n][pg] # bad[n][pg] =>
          \/ bad'[n][pg] = None /\ pg = cursor[n] /\ circuit[n] >= Red
          \/ bad'[n][pg] \in Tags[n] /\ corrupts' = corrupts + 1]_vars
\* the cursor only moves when the repair ran, and visits the pages in order
CursorInOrder ==
    [][\A n \in Node : cursor'[n] # cursor[n] =>
          /\ circuit[n] >= Red
          /\ cursor'[n] = (IF cursor[n] >= LastPage THEN 0 ELSE cursor[n] + 1)]_vars
\* a node whose neighbours all announce its own digest is (or becomes, with the next gossip) green: the circuit only
\* rises on a mismatch
RisesOnlyOnMismatch ==
    [][\A n \in Node : circuit'[n] > circuit[n] => \E m \in net : m.to = n /\ m.dig # Digest(n)]_vars

AllClean == \A n \in Node : bad[n] = Clean
\* liveness: once the environment stops corrupting, every node that has a neighbour gets its digests right again, and
\* stays so (FairSpec); the circuits return to green only if stale announcements get refreshed as well (FairSpecA): a
\* node that announced a corrupted digest keeps announcing it after its repair until its next transaction / reconnect,
\* and its neighbours' repair loops keep running for that long (Heal.dev.quiet.cfg shows it)
Heals == <>[]AllClean
Calms == <>[](\A n \in Node : (\E p \in Node : Link(p, n)) => circuit[n] < Red)
=============================================================================
