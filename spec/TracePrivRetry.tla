--------------------------- MODULE TracePrivRetry ---------------------------
(***************************************************************************)
(* Trace validation: executions of the REAL requester node (dag.State, v2  *)
(* protocol with its persistent "private" notifier over a gated job shelf, *)
(* real holders) must be behaviours of PrivRetry.tla. One event per action *)
(* at its linearization point, with its arguments, the class of the        *)
(* attempt's answer, the peers that were asked, and after every step the   *)
(* projected state (stored jobs with their retry counts, payload presence, *)
(* payload_fetch_dlq), which must EQUAL the state of the model.            *)
(* Traces are concatenated; a "reset" event starts the next one.           *)
(***************************************************************************)
EXTENDS MCPrivRetry, IOUtils

TraceLog == ndJsonDeserialize(IOEnv.VERIF_TRACE)
VARIABLE l
tvars == <<vars, l>>

Ev == TraceLog[l]
IsEvent(e) == l <= Len(TraceLog) /\ Ev.ev = e /\ l' = l + 1
Rng(s) == {s[i] : i \in 1..Len(s)}

\* the projected state logged after the step equals the state of the model
ObsMatch == /\ \A t \in Tx : job'[t] = Ev.job[t] /\ pay'[t] = Ev.pay[t]
            /\ up' = Ev.up
            /\ Ev.up => Rng(Ev.dlq) = {t \in Tx : job'[t] >= Threshold}

TReset == /\ IsEvent("reset")
          /\ up' = TRUE /\ dag' = [t \in Tx |-> FALSE] /\ pay' = [t \in Tx |-> FALSE]
          /\ job' = [t \in Tx |-> -1] /\ loop' = [t \in Tx |-> Off]
          /\ conn' = [p \in Peer |-> "down"] /\ net' = {}
          /\ cnt' = [crash |-> 0, conn |-> 0, inj |-> 0, lose |-> 0, dup |-> 0]
          /\ hist' = <<>>
TWorld == IsEvent("world") /\ Rng(Ev.member) = Member /\ Rng(Ev.holder) = Holder /\ UNCHANGED vars
TAdd == IsEvent("add") /\ Ev.t \in Tx /\ AddTx(Ev.t, Ev.wp) /\ ObsMatch
TBegin == /\ IsEvent("begin") /\ Ev.t \in Tx /\ Begin(Ev.t)
          /\ Ev.stale = (job[Ev.t] = -1)
          /\ ~Ev.stale => /\ loop'[Ev.t].res = Ev.res
                          /\ Rng(Ev.to) = (IF Ev.res = "inc" THEN Targets ELSE {})
          /\ ObsMatch
TEnd == IsEvent("end") /\ Ev.t \in Tx /\ End(Ev.t) /\ ObsMatch
TServe == /\ IsEvent("serve") /\ Ev.p \in Peer /\ Ev.t \in Tx /\ Serve(Ev.p, Ev.t, Ev.keep)
          /\ Ev.c = ServeAns(Ev.p, Ev.t) /\ ObsMatch
TDeliver == /\ IsEvent("deliver") /\ Ev.p \in Peer /\ Ev.t \in Tx /\ Ev.c \in {"data", "empty"}
            /\ Deliver(A(Ev.p, Ev.t, Ev.c), Ev.keep) /\ ObsMatch
TLose == /\ IsEvent("lose") /\ [k |-> Ev.k, p |-> Ev.p, t |-> Ev.t, c |-> Ev.c] \in Msg
         /\ Lose([k |-> Ev.k, p |-> Ev.p, t |-> Ev.t, c |-> Ev.c]) /\ ObsMatch
TInject == /\ IsEvent("inject") /\ Ev.p \in Peer /\ Ev.t \in Tx /\ Ev.c \in {"good", "wrong", "empty"}
           /\ Inject(Ev.p, Ev.t, Ev.c) /\ ObsMatch
TUp == IsEvent("up") /\ Ev.p \in Peer /\ Ev.m \in {"anon", "auth"} /\ Up(Ev.p, Ev.m) /\ ObsMatch
TDown == IsEvent("down") /\ Ev.p \in Peer /\ Down(Ev.p) /\ ObsMatch
TCrash == IsEvent("crash") /\ Crash /\ ObsMatch
TRestart == IsEvent("restart") /\ Restart /\ ObsMatch

TraceNext == \/ TReset \/ TWorld \/ TAdd \/ TBegin \/ TEnd \/ TServe \/ TDeliver \/ TLose \/ TInject
             \/ TUp \/ TDown \/ TCrash \/ TRestart
TraceInit == Init /\ l = 1 /\ TLCSet(1, 1)
TraceSpec == TraceInit /\ [][TraceNext]_tvars

\* the action properties of the statement on the steps of a real execution (the reset between two traces excepted)
NotReset == ~(l <= Len(TraceLog) /\ TraceLog[l].ev = "reset")
TJobEndsOnlyDone == [][NotReset => \A t \in Tx : (job[t] # -1 /\ job'[t] = -1) => (pay'[t] \/ t \notin Mine)]_tvars
TPayloadKept == [][NotReset => \A t \in Tx : pay[t] => pay'[t]]_tvars
TNoQueryWhenPresent == [][NotReset => \A m \in net' \ net : m.k = "q" => ~pay[m.t]]_tvars
TRetriesMonotone == [][NotReset => \A t \in Tx : (job[t] # -1 /\ job'[t] # -1) => job'[t] >= job[t]]_tvars

Progress == TLCSet(1, IF l > TLCGet(1) THEN l ELSE TLCGet(1))
TraceAccepted ==
    \/ TLCGet(1) = Len(TraceLog) + 1
    \/ Print(<<"TRACE-REJECTED-AT", TLCGet(1), TraceLog[TLCGet(1)]>>, FALSE)
=============================================================================
