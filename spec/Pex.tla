------------------------------- MODULE Pex -------------------------------
(* C12 -- Presentation Exchange (vcr/pe): wallet and verifier agree, mappings cannot be forged.

   The REFERENCE MATCHER lives here.  Credentials are attribute vectors, an input descriptor is a list of
   field filters (type/const/enum/pattern, optional) + format + groups from which  RefSat  (its `sat` set) is
   derived, a submission requirement is [rule, count/min/max (sets: {} = absent), from | nested].
   Set-theoretic definitions: RefField (a field over its LIST of paths), RefSat, ValidSel (ValidSelection), CompleteExists (ExistsCompleteSelection),
   Expected (ExpectedMapping), Adm (Extract).
   Implementation-shaped model of vcr/pe: MatchModel (Match), BuildSub (Build), CodeVerdict (Validate), MutSet.
   Deviations of the code from the prescriptive design are boolean constants (TRUE = prescriptive):
     PickMaxOptional          pick without count and max: take every match     (code: nil *Max dereference)
     ArrayNoFallThrough       array value, no element matches => no match      (code: falls through to the scalar
                              checks: type-only => match, pattern => value.(string) panics)
     MapEveryDescriptor       every selected descriptor gets a mapping         (code: maps each unique VC to the first
                              descriptor having it as candidate, so a descriptor sharing a VC is dropped)
     MaxBoundsSelection       max=0 selects nothing, min>max is unsatisfiable  (code before the repairs of F9f/F9g: max=0
                              took all, min>max took max; TRUE in the descriptive configuration since)
     ResolveChecksEveryEntry  verifier checks every descriptor_map entry       (code before the repair of F9h: last entry per id
                              won; TRUE in the descriptive configuration since)
     WalletNormalises         the wallet re-matches its own selection until it is reproduced (code: one pass; the
                              verifier re-runs the greedy first-match on the PRESENTED order and may pick otherwise)
     PathsIncremental         a field lists SEVERAL paths and more than one of them may select a value in the same
                              credential: a path whose value fails the filter is passed over and the next one is tried
                              (code: does so; FALSE = "the first path that selects a value decides", the defect class the
                              family `paths` and the invariant NoFalseMissing exist for; only Pex.vac.PathsIncremental.cfg)
   TLC proves the invariants for the prescriptive configuration; cases are generated from the descriptive one. *)
EXTENDS Naturals, Sequences, FiniteSets, TLC

CONSTANTS Families,                \* families of cases explored in this configuration
          DefsOf(_), WalletsOf(_), ShapesOf(_), MutKindsOf(_),
          EnvKindsOf(_),           \* hostile additions to the presented envelope (twins of a presented credential)
          TamperMutKinds,          \* mutation kinds applied to submissions over such an envelope
          TamperShapes,            \* envelope shapes in which hostile envelopes are explored
          IncKindsOf(_),           \* incomplete envelopes a holder may present (empty / decoy-only / no / partial presentation)
          Explore,                 \* FALSE: stop after WalletMatch (case generation only needs the matched states)
          PatRes(_, _),            \* regular-expression table: [m |-> "no"|"whole"|"group"|"multi", cap |-> STRING]
          DecoyCred,               \* the credential inside the unrelated presentation of the *-arr2 envelopes
          PickMaxOptional, ArrayNoFallThrough, MapEveryDescriptor, MaxBoundsSelection, ResolveChecksEveryEntry,
          WalletNormalises, PathsIncremental

VARIABLES phase, fam, def, wallet, out, shape, env, ek, sub, mut, verdict
vars == <<phase, fam, def, wallet, out, shape, env, ek, sub, mut, verdict>>

Dev == [pmo |-> PickMaxOptional, anf |-> ArrayNoFallThrough, med |-> MapEveryDescriptor,
        mbs |-> MaxBoundsSelection, rce |-> ResolveChecksEveryEntry, norm |-> WalletNormalises]

Min(S) == CHOOSE x \in S : \A y \in S : x <= y
Max(S) == CHOOSE x \in S : \A y \in S : x >= y
Only(S) == CHOOSE x \in S : TRUE

\* ------------------------------------------------------------ values and filters
S(x) == [k |-> "s", s |-> x, n |-> 0, a |-> <<>>]
N(x) == [k |-> "n", s |-> "", n |-> x, a |-> <<>>]
B(x) == [k |-> "b", s |-> "", n |-> IF x THEN 1 ELSE 0, a |-> <<>>]
A(x) == [k |-> "a", s |-> "", n |-> 0, a |-> x]
Absent == [k |-> "none", s |-> "", n |-> 0, a |-> <<>>]

TypeName(v) == CASE v.k = "s" -> "string" [] v.k = "n" -> "number" [] v.k = "b" -> "boolean"
                 [] v.k = "a" -> "array" [] OTHER -> "none"

\* value found by the JSON paths of abstract path p in credential c ($.type is array valued; h is a claim no
\* credential of the universe carries)
AttrVal(c, p) == CASE p = "f" -> c.f [] p = "g" -> c.g [] p = "h" -> Absent
                   [] OTHER -> A(<<S("VerifiableCredential"), S(c.typ)>>)

R(r, x) == [r |-> r, x |-> x]          \* r: yes | no | err | panic ; x: extracted value
No == R("no", Absent)

\* filter against a scalar (JSON-Schema subset of vcr/pe: type, const, enum, pattern on strings)
Scalar(flt, v) ==
    IF flt.enum # <<>> THEN
        IF v.k = "s" /\ \E i \in 1..Len(flt.enum) : flt.enum[i] = v.s THEN R("yes", v) ELSE No
    ELSE IF TypeName(v) # flt.type THEN No
    ELSE IF flt.const # <<>> /\ ~(v.k = "s" /\ v.s = flt.const[1]) THEN No
    ELSE IF flt.pat # <<>> /\ flt.type = "string" THEN
        LET p == PatRes(flt.pat[1], v.s) IN
        CASE p.m = "no" -> No
          [] p.m = "multi" -> R("err", Absent)       \* more than one capture group: cannot extract
          [] OTHER -> R("yes", S(p.cap))
    ELSE R("yes", v)

RECURSIVE FirstHit(_, _, _)
FirstHit(flt, arr, i) == IF i > Len(arr) THEN "none"
                         ELSE LET r == Scalar(flt, arr[i]).r IN IF r = "no" THEN FirstHit(flt, arr, i + 1) ELSE r

\* an array value satisfies a filter iff one of its elements does (how $.type is matched); strict = reference
Filter(flt, v, strict) ==
    IF v.k # "a" THEN Scalar(flt, v)
    ELSE LET h == FirstHit(flt, v.a, 1) IN
         IF h = "yes" THEN R("yes", v)
         ELSE IF h = "err" THEN R("err", Absent)
         ELSE IF flt.enum # <<>> THEN No
         ELSE IF strict THEN (IF flt.type = "array" THEN R("yes", v) ELSE No)
         ELSE IF flt.const # <<>> THEN No
         ELSE IF flt.pat # <<>> /\ flt.type = "string" THEN R("panic", Absent)
         ELSE R("yes", v)

\* ----- a field lists its paths as a SEQUENCE (fl.path); several of them may select a value in one credential
\* verdict of the field's filter on what ONE path selects ("none": the path selects nothing in c)
AtPath(fl, c, p, strict) ==
    LET v == AttrVal(c, p) IN
    IF v.k = "none" THEN R("none", Absent)
    ELSE IF fl.flt = <<>> THEN R("yes", v)
    ELSE Filter(fl.flt[1], v, strict)

\* presentation_definition.go matchField: the paths are tried in order; the first value that passes the filter is the
\* field's value; a value that fails is passed over (inc) but spoils `optional`; an error / panic ends the loop
RECURSIVE FieldFrom(_, _, _, _, _, _)
FieldFrom(fl, c, strict, inc, i, failed) ==
    IF i > Len(fl.path) THEN (IF fl.opt /\ ~failed THEN R("yes", Absent) ELSE No)
    ELSE LET r == AtPath(fl, c, fl.path[i], strict) IN
         IF r.r = "none" THEN FieldFrom(fl, c, strict, inc, i + 1, failed)
         ELSE IF r.r = "no" THEN (IF inc THEN FieldFrom(fl, c, strict, inc, i + 1, TRUE) ELSE No)
         ELSE r
Field(fl, c, strict) == FieldFrom(fl, c, strict, PathsIncremental, 1, FALSE)

\* REFERENCE (Presentation Exchange, input evaluation): a field is satisfied by a credential iff one of its paths selects
\* a value that passes the filter, or it is optional and none of its paths selects anything
RefField(fl, c) ==
    LET P == 1..Len(fl.path) IN
    \/ \E i \in P : AtPath(fl, c, fl.path[i], TRUE).r \in {"yes", "err"}
    \/ fl.opt /\ \A i \in P : AtPath(fl, c, fl.path[i], TRUE).r = "none"

RECURSIVE Cons(_, _, _, _)      \* fields in order, the first one that is not satisfied decides
Cons(fs, c, strict, i) == IF i > Len(fs) THEN "yes"
                          ELSE LET r == Field(fs[i], c, strict).r IN IF r = "yes" THEN Cons(fs, c, strict, i + 1) ELSE r

FmtOK(f, c) == CASE f = "none" -> TRUE [] f = "both" -> TRUE [] f = "ldp" -> c.fmt = "ldp" [] f = "jwt" -> c.fmt = "jwt"
                 [] OTHER -> FALSE     \* ldpx / jwtx: designations no credential of the universe fulfils

\* ----- the `sat` set of a descriptor (reference)
RefSat(df, d, c) == /\ FmtOK(df.fmt, c) /\ FmtOK(d.fmt, c)
                    /\ \A i \in 1..Len(d.fields) : RefField(d.fields[i], c)
CodeSat(df, d, c) == FmtOK(df.fmt, c) /\ FmtOK(d.fmt, c) /\ Cons(d.fields, c, FALSE, 1) = "yes"

\* ----- Extract(field): admissible values of a named field for credential c
\* (the value one of the field's paths selects and the filter passes, or its single capture; nothing selected: Absent)
AdmAt(fl, v) ==
    IF v.k = "s" /\ fl.flt # <<>> /\ fl.flt[1].pat # <<>> /\ fl.flt[1].enum = <<>> /\ fl.flt[1].type = "string"
         /\ PatRes(fl.flt[1].pat[1], v.s).m \in {"whole", "group"}
    THEN <<v, S(PatRes(fl.flt[1].pat[1], v.s).cap)>>
    ELSE <<v>>
RECURSIVE AdmFrom(_, _, _)
AdmFrom(fl, c, i) ==
    IF i > Len(fl.path) THEN <<>>
    ELSE (IF AtPath(fl, c, fl.path[i], TRUE).r = "yes" THEN AdmAt(fl, AttrVal(c, fl.path[i])) ELSE <<>>) \o AdmFrom(fl, c, i + 1)
Adm(fl, c) == IF AdmFrom(fl, c, 1) = <<>> THEN <<Absent>> ELSE AdmFrom(fl, c, 1)
Extracted(fl, c) == Field(fl, c, ArrayNoFallThrough).x

\* ------------------------------------------------------------ wallet: Match
RECURSIVE Scan(_, _, _, _, _)
Scan(df, d, w, strict, j) ==
    IF j > Len(w) THEN [r |-> "miss", j |-> 0]
    ELSE LET r == Cons(d.fields, w[j], strict, 1) IN
         IF r \in {"panic", "err"} THEN [r |-> r, j |-> j]
         ELSE IF r = "yes" /\ FmtOK(df.fmt, w[j]) /\ FmtOK(d.fmt, w[j]) THEN [r |-> "hit", j |-> j]
         ELSE Scan(df, d, w, strict, j + 1)

Res(st, sel, why) == [st |-> st, sel |-> sel, why |-> why]
NonEmpty(ms) == {k \in 1..Len(ms) : ms[k] # <<>>}
RECURSIVE TakeFirst(_, _, _)
TakeFirst(ms, k, n) == IF k > Len(ms) \/ n = 0 THEN <<>>
                       ELSE IF ms[k] = <<>> THEN TakeFirst(ms, k + 1, n)
                       ELSE ms[k] \o TakeFirst(ms, k + 1, n - 1)
TakeAll(ms) == TakeFirst(ms, 1, Len(ms))

\* submission_requirement.go apply(): ms = members (sequences of descriptor indices, <<>> = empty member)
Apply(r, ms, dv) ==
    LET cnt == Cardinality(NonEmpty(ms)) IN
    IF r.rule = "all" THEN (IF cnt # Len(ms) THEN Res("err", <<>>, "all") ELSE Res("ok", TakeAll(ms), ""))
    ELSE IF r.count # {} THEN
        (IF cnt < Only(r.count) THEN Res("err", <<>>, "count") ELSE Res("ok", TakeFirst(ms, 1, Only(r.count)), ""))
    ELSE IF r.min # {} /\ cnt < Only(r.min) THEN Res("err", <<>>, "min")
    ELSE IF r.max = {} THEN
        (IF dv.pmo \/ Len(ms) = 0 THEN Res("ok", TakeAll(ms), "")
         ELSE Res("panic", <<>>, IF r.min # {} THEN "pick-min-only" ELSE "pick-no-count-min-max"))
    ELSE LET m == Only(r.max) IN
        IF dv.mbs THEN (IF r.min # {} /\ Only(r.min) > m THEN Res("err", <<>>, "min>max") ELSE Res("ok", TakeFirst(ms, 1, m), ""))
        ELSE IF m = 0 THEN (IF Len(ms) = 0 \/ ms[1] = <<>> THEN Res("ok", <<>>, "") ELSE Res("ok", TakeAll(ms), ""))
        ELSE Res("ok", TakeFirst(ms, 1, m), "")

GroupSeq(df, g) == SelectSeq([i \in 1..Len(df.ds) |-> i], LAMBDA i : g \in df.ds[i].grp)

RECURSIVE MatchReq(_, _, _, _)
MatchReq(df, r, cand, dv) ==
    IF r.nested = <<>> THEN
        LET G == GroupSeq(df, r.from) IN
        Apply(r, [k \in 1..Len(G) |-> IF cand[G[k]] # 0 THEN <<G[k]>> ELSE <<>>], dv)
    ELSE
        LET cr == [k \in 1..Len(r.nested) |-> MatchReq(df, r.nested[k], cand, dv)]
            pk == {k \in 1..Len(r.nested) : cr[k].st = "panic"} IN
        IF pk # {} THEN cr[Min(pk)]
        ELSE Apply(r, [k \in 1..Len(r.nested) |-> IF cr[k].st = "ok" THEN cr[k].sel ELSE <<>>], dv)

RECURSIVE MatchReqs(_, _, _, _, _)
MatchReqs(df, cand, dv, i, acc) ==
    IF i > Len(df.reqs) THEN Res("ok", acc, "")
    ELSE LET x == MatchReq(df, df.reqs[i], cand, dv) IN
         IF x.st # "ok" THEN x ELSE MatchReqs(df, cand, dv, i + 1, acc \o x.sel)

RECURSIVE ReqGroups(_)
ReqGroups(r) == IF r.nested = <<>> THEN {r.from} ELSE UNION {ReqGroups(r.nested[k]) : k \in 1..Len(r.nested)}
AllReqGroups(df) == UNION {ReqGroups(df.reqs[k]) : k \in 1..Len(df.reqs)}
DefGroups(df) == UNION {df.ds[i].grp : i \in 1..Len(df.ds)}

RECURSIVE Dedupe(_, _)
Dedupe(s, seen) == IF s = <<>> THEN <<>>
                   ELSE IF Head(s) \in seen THEN Dedupe(Tail(s), seen)
                   ELSE <<Head(s)>> \o Dedupe(Tail(s), seen \cup {Head(s)})
IndexOf(s, x) == Min({i \in 1..Len(s) : s[i] = x})

\* result: res ok|error|panic, why, vcs = wallet indices of the presented credentials, map = <<[d, p]>> (descriptor
\* index -> position in vcs)
Out(res, why, vcs, mp) == [res |-> res, why |-> why, vcs |-> vcs, map |-> mp]

MatchModel(df, w, dv) ==
    LET n  == Len(df.ds)
        sc == [i \in 1..n |-> Scan(df, df.ds[i], w, dv.anf, 1)]
        bad == {i \in 1..n : sc[i].r \in {"panic", "err"}}
    IN
    IF bad # {} THEN
        (IF sc[Min(bad)].r = "panic" THEN Out("panic", "pattern-on-array", <<>>, <<>>) ELSE Out("error", "filter-error", <<>>, <<>>))
    ELSE LET cand == [i \in 1..n |-> sc[i].j] IN
      IF df.reqs = <<>> THEN
         (IF \E i \in 1..n : cand[i] = 0 THEN Out("error", "no-candidate", <<>>, <<>>)
          ELSE Out("ok", "", [i \in 1..n |-> cand[i]], [i \in 1..n |-> [d |-> i, p |-> i]]))
      ELSE IF ~(DefGroups(df) \subseteq AllReqGroups(df)) THEN Out("error", "group-unavailable", <<>>, <<>>)
      ELSE LET x == MatchReqs(df, cand, dv, 1, <<>>) IN
         IF x.st = "panic" THEN Out("panic", x.why, <<>>, <<>>)
         ELSE IF x.st = "err" THEN Out("error", "requirement-" \o x.why, <<>>, <<>>)
         ELSE IF dv.med THEN
              LET sd == Dedupe(x.sel, {})
                  vs == Dedupe([k \in 1..Len(sd) |-> cand[sd[k]]], {})
              IN Out("ok", "", vs, [k \in 1..Len(sd) |-> [d |-> sd[k], p |-> IndexOf(vs, cand[sd[k]])]])
         ELSE LET vs == Dedupe([k \in 1..Len(x.sel) |-> cand[x.sel[k]]], {})
              IN Out("ok", "", vs, [k \in 1..Len(vs) |-> [d |-> Min({i \in 1..n : cand[i] = vs[k]}), p |-> k]])

Mapped(o) == {o.map[k].d : k \in 1..Len(o.map)}

\* the wallet's Match: with WalletNormalises the selection is re-matched until matching it again reproduces it
RECURSIVE Norm(_, _, _, _, _)
Norm(df, w, idx, dv, fuel) ==
    LET o  == MatchModel(df, [k \in 1..Len(idx) |-> w[idx[k]]], dv)
        nx == [k \in 1..Len(o.vcs) |-> idx[o.vcs[k]]] IN
    IF o.res # "ok" THEN o
    ELSE IF nx = idx THEN [o EXCEPT !.vcs = nx]
    ELSE IF fuel = 0 THEN Out("error", "unstable-selection", <<>>, <<>>)
    ELSE Norm(df, w, nx, dv, fuel - 1)
MatchWallet(df, w, dv) == IF dv.norm THEN Norm(df, w, [k \in 1..Len(w) |-> k], dv, 4) ELSE MatchModel(df, w, dv)

\* ------------------------------------------------------------ reference: valid selections
RECURSIVE ReqDs(_, _)
ReqDs(df, r) == IF r.nested = <<>> THEN {i \in 1..Len(df.ds) : r.from \in df.ds[i].grp}
                ELSE UNION {ReqDs(df, r.nested[k]) : k \in 1..Len(r.nested)}

Bounds(r, n) == (\A c \in r.count : n = c) /\ (\A m \in r.min : n >= m) /\ (\A m \in r.max : n <= m)

\* mode: how nested requirements are counted by a `pick` ("touched": those contributing a descriptor; "sat": those
\* satisfied).  Presentation Exchange leaves this open; a selection is valid if it is under either reading.
RECURSIVE SatReq(_, _, _, _)
SatReq(df, r, M, mode) ==
    IF r.nested = <<>> THEN
        LET G == ReqDs(df, r) IN
        IF r.rule = "all" THEN G \subseteq M ELSE Bounds(r, Cardinality(M \cap G))
    ELSE
        LET K == 1..Len(r.nested)
            touched == {k \in K : M \cap ReqDs(df, r.nested[k]) # {}}
            sat == {k \in K : SatReq(df, r.nested[k], M, mode)}
        IN IF r.rule = "all" THEN sat = K
           ELSE touched \subseteq sat /\ Bounds(r, Cardinality(IF mode = "touched" THEN touched ELSE sat))

\* ValidSelection: M = set of descriptors that received a mapping
ValidSel(df, M) ==
    IF df.reqs = <<>> THEN M = 1..Len(df.ds)
    ELSE /\ M \subseteq UNION {ReqDs(df, df.reqs[k]) : k \in 1..Len(df.reqs)}
         /\ \E mode \in {"touched", "sat"} : \A k \in 1..Len(df.reqs) : SatReq(df, df.reqs[k], M, mode)
ValidSets(df) == {M \in SUBSET (1..Len(df.ds)) : ValidSel(df, M)}

\* ExistsCompleteSelection
CompleteExists(df, w) == \E M \in ValidSets(df) : \A i \in M : \E j \in 1..Len(w) : RefSat(df, df.ds[i], w[j])

\* ------------------------------------------------------------ envelope, Build, Validate
IsArray(sh) == sh \in {"ldp-arr", "jwt-arr", "ldp-arr2", "jwt-arr2", "no-vp"}
IsArr2(sh) == sh \in {"ldp-arr2", "jwt-arr2"}
VPs(sh, creds) == IF sh = "no-vp" THEN <<>>      \* the envelope is the empty JSON array: no presentation at all
                  ELSE IF IsArr2(sh) THEN <<<<DecoyCred>>, creds>> ELSE <<creds>>      \* credential lists of the presentations
RealVP(sh) == IF IsArr2(sh) THEN 1 ELSE 0

\* presentation_submission.go Build (+ the wrapping path_nested needs for array envelopes)
BuildSub(df, o, w, sh, dv) ==
    LET single == IF dv.med THEN Len(o.vcs) = 1 ELSE Len(o.map) = 1
        base(k) == [id |-> df.ds[o.map[k].d].id,
                    p |-> IF single THEN [k |-> "single", i |-> 0] ELSE [k |-> "idx", i |-> o.map[k].p - 1],
                    fmt |-> w[o.vcs[o.map[k].p]].fmt, nested |-> <<>>]
    IN [k \in 1..Len(o.map) |->
          IF IsArray(sh) THEN [id |-> base(k).id, p |-> [k |-> "vp", i |-> RealVP(sh)], fmt |-> "ldpvp", nested |-> <<base(k)>>]
          ELSE base(k)]

\* ----- hostile envelopes: the holder adds to its presentation a TWIN of the first presented credential
\*   same-id       same credential id, other claims (does not satisfy what the original satisfies)
\*   same-id-fmt   same credential id, other claims, other proof format
\*   same-content  same claims, type and format, other credential id
\* Credentials are identified by `name` in this model (= the exact credential); cid is the id member they carry.
Twin(c, kind) ==
    CASE kind = "same-id"      -> [c EXCEPT !.name = c.name \o "~sameid", !.f = [k |-> "s", s |-> "zzz", n |-> 0, a |-> <<>>]]
      [] kind = "same-id-fmt"  -> [c EXCEPT !.name = c.name \o "~sameidfmt", !.f = [k |-> "s", s |-> "zzz", n |-> 0, a |-> <<>>],
                                            !.fmt = IF c.fmt = "ldp" THEN "jwt" ELSE "ldp"]
      [] OTHER                 -> [c EXCEPT !.name = c.name \o "~copy", !.cid = c.cid \o "-copy"]
Tamper(creds, e) ==
    IF e = "plain" \/ creds = <<>> THEN creds
    ELSE CASE e = "same-id-back"       -> creds \o <<Twin(creds[1], "same-id")>>
           [] e = "same-id-front"      -> <<Twin(creds[1], "same-id")>> \o creds
           [] e = "same-id-fmt-back"   -> creds \o <<Twin(creds[1], "same-id-fmt")>>
           [] e = "same-content-back"  -> creds \o <<Twin(creds[1], "same-content")>>
           [] e = "same-content-front" -> <<Twin(creds[1], "same-content")>> \o creds
           [] OTHER -> creds

\* the correct submission over a presentation holding `presented` (which may hold credentials matching does not select):
\* every descriptor matching selects, with the path of the selected credential inside the presentation
BuildOver(df, presented, sh, dv) ==
    LET o == MatchModel(df, presented, dv)
        base(k) == [id |-> df.ds[o.map[k].d].id,
                    p |-> IF Len(presented) = 1 THEN [k |-> "single", i |-> 0] ELSE [k |-> "idx", i |-> o.vcs[o.map[k].p] - 1],
                    fmt |-> presented[o.vcs[o.map[k].p]].fmt, nested |-> <<>>]
    IN IF o.res # "ok" THEN <<>>
       ELSE [k \in 1..Len(o.map) |->
          IF IsArray(sh) THEN [id |-> base(k).id, p |-> [k |-> "vp", i |-> RealVP(sh)], fmt |-> "ldpvp", nested |-> <<base(k)>>]
          ELSE base(k)]

NoCred == [name |-> "-", fmt |-> "-"]
Node(t, cs, c) == [t |-> t, vcs |-> cs, c |-> c]
NoneNode == Node("none", <<>>, NoCred)

\* what an abstract JSON path selects below a node of the decoded envelope
Step(node, p, vps) ==
    CASE node.t = "arr" -> IF p.k = "vp" /\ p.i < Len(vps) THEN Node("vp", vps[p.i + 1], NoCred) ELSE NoneNode
      [] node.t = "vp" ->
            LET cs == node.vcs IN
            CASE p.k = "single" -> IF Len(cs) = 1 THEN Node("cred", <<>>, cs[1]) ELSE NoneNode
              [] p.k = "idx"    -> IF Len(cs) >= 2 /\ p.i < Len(cs) THEN Node("cred", <<>>, cs[p.i + 1]) ELSE NoneNode
              [] p.k = "root"   -> node
              \* the subject of a JSON-LD credential decodes (as a credential that is none of the presented ones);
              \* a JWT credential is a string, nothing below it can be addressed
              [] p.k = "subj1"  -> IF Len(cs) = 1 /\ cs[1].fmt = "ldp" THEN Node("junk", <<>>, NoCred) ELSE NoneNode
              [] p.k = "subj"   -> IF Len(cs) >= 2 /\ p.i < Len(cs) /\ cs[p.i + 1].fmt = "ldp" THEN Node("junk", <<>>, NoCred) ELSE NoneNode
              [] OTHER -> NoneNode
      [] node.t = "cred" -> IF p.k = "root" /\ node.c.fmt = "ldp" THEN node ELSE NoneNode
      [] OTHER -> NoneNode

\* can the value be decoded with the format designation of the mapping entry?  (lenient: the reference does not care
\* which presentation format label a hop carries; the code only decodes ldp_vp because it sees decoded maps)
Decodable(node, f, lenient) ==
    CASE node.t = "cred" -> f = node.c.fmt
      [] node.t = "vp"   -> IF lenient THEN f \in {"ldpvp", "jwtvp"} ELSE f = "ldpvp"
      [] node.t = "junk" -> f = "ldp"
      [] OTHER -> FALSE

RECURSIVE Walk(_, _, _, _)
Walk(node, e, vps, lenient) ==
    LET nx == Step(node, e.p, vps) IN
    IF ~Decodable(nx, e.fmt, lenient) THEN "none"
    ELSE IF e.nested = <<>> THEN (IF nx.t = "cred" THEN nx.c.name ELSE IF nx.t = "junk" THEN "junk" ELSE "none")
    ELSE IF nx.t = "junk" THEN "none" ELSE Walk(nx, e.nested[1], vps, lenient)

\* credential an entry resolves to inside the presented envelope: a name, "junk" (decodes, but is no credential of the
\* presentation) or "none"
Resolve(e, sh, vps, lenient) ==
    Walk(IF IsArray(sh) THEN Node("arr", <<>>, NoCred) ELSE Node("vp", vps[1], NoCred), e, vps, lenient)

\* ExpectedMapping: what matching itself selects from the presented credentials (first presentation that matches)
RECURSIVE ExpectedFrom(_, _, _, _)
ExpectedFrom(df, vps, dv, i) ==
    IF i > Len(vps) THEN [st |-> "error", m |-> <<>>]
    ELSE LET o == MatchModel(df, vps[i], dv) IN
         IF o.res = "panic" THEN [st |-> "panic", m |-> <<>>]
         ELSE IF o.res = "ok" THEN
              [st |-> "ok", m |-> [id \in {df.ds[o.map[k].d].id : k \in 1..Len(o.map)} |->
                   LET k == CHOOSE k \in 1..Len(o.map) : df.ds[o.map[k].d].id = id IN vps[i][o.vcs[o.map[k].p]].name]]
         ELSE ExpectedFrom(df, vps, dv, i + 1)
Expected(df, vps, dv) == ExpectedFrom(df, vps, dv, 1)

Ids(sb) == {sb[k].id : k \in 1..Len(sb)}

\* the verifier the statement asks for: every entry resolves to exactly the expected credential; nothing missing/surplus
RefOK(df, sb, sh, vps, dv) ==
    LET ex == Expected(df, vps, dv) IN
    /\ ex.st = "ok"
    /\ Ids(sb) = DOMAIN ex.m
    /\ \A k \in 1..Len(sb) : Resolve(sb[k], sh, vps, TRUE) = ex.m[sb[k].id]

\* presentation_submission.go Validate
CodeVerdict(df, sb, sh, vps, dv) ==
    LET rs == [k \in 1..Len(sb) |-> Resolve(sb[k], sh, vps, FALSE)] IN
    IF \E k \in 1..Len(sb) : rs[k] = "none" THEN "reject"
    ELSE LET ex == Expected(df, vps, dv) IN
         IF ex.st = "panic" THEN "panic"
         ELSE IF ex.st # "ok" THEN "reject"
         ELSE IF Cardinality(Ids(sb)) # Cardinality(DOMAIN ex.m) THEN "reject"
         ELSE IF ~(\A id \in DOMAIN ex.m : id \in Ids(sb) /\ rs[Max({k \in 1..Len(sb) : sb[k].id = id})] = ex.m[id]) THEN "reject"
         ELSE IF dv.rce /\ ~(\A k \in 1..Len(sb) : sb[k].id \in DOMAIN ex.m /\ rs[k] = ex.m[sb[k].id]) THEN "reject"
         ELSE "accept"

\* ------------------------------------------------------------ mutations of a submission
Leaf(e) == IF e.nested = <<>> THEN e ELSE e.nested[1]
SetLeaf(e, l) == IF e.nested = <<>> THEN l ELSE [e EXCEPT !.nested = <<l>>]
RemoveAt(s, i) == [k \in 1..(Len(s) - 1) |-> IF k < i THEN s[k] ELSE s[k + 1]]
Flip(f) == IF f = "ldp" THEN "jwt" ELSE "ldp"
M(name, es) == [mut |-> name, entries |-> es]

\* creds = credentials of the holder's presentation; descs = ids of all descriptors
MutSet(sb, sh, creds, descs, kinds) ==
    LET n  == Len(sb)
        nv == Len(creds)
        I  == 1..n
        subjOf(e) == IF Leaf(e).p.k = "single" THEN [k |-> "subj1", i |-> 0] ELSE [k |-> "subj", i |-> Leaf(e).p.i]
        junk(e) == SetLeaf(e, [Leaf(e) EXCEPT !.p = subjOf(e), !.fmt = "ldp"])
        toCred(e, t) == SetLeaf(e, [Leaf(e) EXCEPT !.p = [k |-> "idx", i |-> t], !.fmt = creds[t + 1].fmt])
        own(e) == IF Leaf(e).p.k = "idx" THEN Leaf(e).p.i ELSE 0
        others(e) == IF nv >= 2 THEN {t \in 0..(nv - 1) : t # own(e)} ELSE {}
        withPath(e, k) == SetLeaf(e, [Leaf(e) EXCEPT !.p = [k |-> k, i |-> 0]])
        \* pointing an entry at another presented credential: named after what that credential shares with the right one
        forgeName(e, t) == LET x == creds[own(e) + 1]  y == creds[t + 1] IN
                           IF x.cid = y.cid THEN "forge-path-same-id"
                           ELSE IF x.f = y.f /\ x.g = y.g /\ x.typ = y.typ /\ x.fmt = y.fmt THEN "forge-path-same-content"
                           ELSE "forge-path"
        K(k) == k \in kinds
    IN
    {M("none", sb)}
    \cup (IF K("drop") THEN {M("drop", RemoveAt(sb, i)) : i \in I} ELSE {})
    \cup (IF K("empty") /\ n >= 1 THEN {M("empty", <<>>)} ELSE {})
    \cup (IF K("permute") THEN
            {M("permute", [k \in I |-> IF k = i THEN SetLeaf(sb[i], [Leaf(sb[j]) EXCEPT !.id = Leaf(sb[i]).id])
                                       ELSE IF k = j THEN SetLeaf(sb[j], [Leaf(sb[i]) EXCEPT !.id = Leaf(sb[j]).id])
                                       ELSE sb[k]]) : <<i, j>> \in {x \in I \X I : x[1] < x[2]}}
          ELSE {})
    \cup (IF K("forge-path") THEN UNION {{M(forgeName(sb[i], t), [sb EXCEPT ![i] = toCred(sb[i], t)]) : t \in others(sb[i])} : i \in I} ELSE {})
    \cup (IF K("subject") THEN {M("subject", [sb EXCEPT ![i] = junk(sb[i])]) : i \in I} ELSE {})
    \cup (IF K("bad-path") /\ n >= 1 THEN {M("bad-path-" \o k, [sb EXCEPT ![1] = withPath(sb[1], k)]) : k \in {"oob", "desc", "holder"}} ELSE {})
    \cup (IF K("dup-shadow") THEN
            {M("dup-shadow", <<junk(sb[i])>> \o sb) : i \in I}
            \cup UNION {{M("dup-shadow", <<toCred(sb[i], t)>> \o sb) : t \in others(sb[i])} : i \in I}
          ELSE {})
    \cup (IF K("dup-trail") THEN
            {M("dup-trail", sb \o <<junk(sb[i])>>) : i \in I}
            \cup UNION {{M("dup-trail", sb \o <<toCred(sb[i], t)>>) : t \in others(sb[i])} : i \in I}
          ELSE {})
    \cup (IF K("dup-same") THEN {M("dup-same", sb \o <<sb[i]>>) : i \in I} ELSE {})
    \cup (IF K("surplus") /\ n >= 1 THEN
            {M("surplus-ghost", sb \o <<[sb[1] EXCEPT !.id = "ghost"]>>)}
            \cup {M("surplus-known", sb \o <<[sb[1] EXCEPT !.id = d]>>) : d \in descs \ Ids(sb)}
          ELSE {})
    \cup (IF K("wrong-format") THEN {M("wrong-format", [sb EXCEPT ![i] = SetLeaf(sb[i], [Leaf(sb[i]) EXCEPT !.fmt = Flip(Leaf(sb[i]).fmt)])]) : i \in I}
                                    \cup {M("as-presentation", [sb EXCEPT ![i] = SetLeaf(sb[i], [Leaf(sb[i]) EXCEPT !.fmt = "ldpvp"])]) : i \in I}
          ELSE {})
    \cup (IF K("nested") THEN
            {M("cred-nested", [sb EXCEPT ![i] = SetLeaf(sb[i], [Leaf(sb[i]) EXCEPT !.nested =
                    <<[id |-> Leaf(sb[i]).id, p |-> [k |-> "root", i |-> 0], fmt |-> Leaf(sb[i]).fmt, nested |-> <<>>]>>])]) : i \in I}
            \cup {M("cred-nested-subject", [sb EXCEPT ![i] = SetLeaf(sb[i], [Leaf(sb[i]) EXCEPT !.nested =
                    <<[id |-> Leaf(sb[i]).id, p |-> [k |-> "subj1", i |-> 0], fmt |-> "ldp", nested |-> <<>>]>>])]) : i \in I}
            \cup (IF IsArray(sh) THEN {} ELSE
                    {M("root-hop-" \o f, [sb EXCEPT ![i] = [id |-> sb[i].id, p |-> [k |-> "root", i |-> 0], fmt |-> f, nested |-> <<sb[i]>>]]) :
                        <<i, f>> \in I \X {"ldpvp", "jwtvp"}})
          ELSE {})
    \cup (IF K("shape") /\ n >= 1 THEN
            (IF IsArray(sh) THEN
                {M("other-shape", [k \in I |-> Leaf(sb[k])])}
                \cup {M("hop-format", [sb EXCEPT ![i] = [sb[i] EXCEPT !.fmt = "jwtvp"]]) : i \in I}
                \cup {M("hop-out-of-range", [sb EXCEPT ![i] = [sb[i] EXCEPT !.p = [k |-> "vp", i |-> 5]]]) : i \in I}
                \cup (IF IsArr2(sh) THEN {M("other-presentation", [sb EXCEPT ![i] = [sb[i] EXCEPT !.p = [k |-> "vp", i |-> 0]]]) : i \in I}
                                         \cup {M("all-other-presentation", [k \in I |-> [sb[k] EXCEPT !.p = [k |-> "vp", i |-> 0]]])}
                      ELSE {})
             ELSE {M("other-shape", [k \in I |-> [id |-> sb[k].id, p |-> [k |-> "vp", i |-> 0], fmt |-> "ldpvp", nested |-> <<sb[k]>>]])})
          ELSE {})

\* ------------------------------------------------------------ state machine
Dummy == [fmt |-> "none", ds |-> <<>>, reqs |-> <<>>]
NoOut == Out("-", "", <<>>, <<>>)

Init == /\ phase = "start" /\ fam = "-" /\ def = Dummy /\ wallet = <<>> /\ out = NoOut
        /\ shape = "-" /\ env = <<>> /\ ek = "-" /\ sub = <<>> /\ mut = "-" /\ verdict = "-"

ChooseDef == /\ phase = "start"
             /\ \E f \in Families : \E d \in DefsOf(f) : fam' = f /\ def' = d
             /\ phase' = "def"
             /\ UNCHANGED <<wallet, out, shape, env, ek, sub, mut, verdict>>

ChooseWallet == /\ phase = "def"
                /\ \E w \in WalletsOf(fam) : wallet' = w
                /\ phase' = "wallet"
                /\ UNCHANGED <<fam, def, out, shape, env, ek, sub, mut, verdict>>

WalletMatch == /\ phase = "wallet"
               /\ out' = MatchWallet(def, wallet, Dev)
               /\ phase' = "matched"
               /\ UNCHANGED <<fam, def, wallet, shape, env, ek, sub, mut, verdict>>

PresentedCreds == [k \in 1..Len(out.vcs) |-> wallet[out.vcs[k]]]
DescIds == {def.ds[i].id : i \in 1..Len(def.ds)}

\* Build: the wallet's own presentation ("plain"), or a hostile holder's presentation that additionally holds a twin
SubFor(sh, e) == IF e = "plain" THEN BuildSub(def, out, wallet, sh, Dev) ELSE BuildOver(def, Tamper(PresentedCreds, e), sh, Dev)
EnvOK(sh, e) == e = "plain" \/ (PresentedCreds # <<>> /\ MatchModel(def, Tamper(PresentedCreds, e), Dev).res = "ok")
MutKindsFor(e) == IF e = "plain" THEN MutKindsOf(fam) ELSE MutKindsOf(fam) \cap TamperMutKinds
\* ----- incomplete envelopes: whatever the wallet did, a holder may present an envelope that does not hold a complete
\* selection (the verifier side of "incomplete is rejected"): an empty presentation, one with a decoy only, no
\* presentation at all, or the wallet's presentation minus its last credential (with the mappings that still resolve)
IncEnv(e) == CASE e = "decoy-vp" -> <<DecoyCred>>
               [] e = "partial-vp" -> SubSeq(PresentedCreds, 1, Len(PresentedCreds) - 1)
               [] OTHER -> <<>>
IncShape(e) == CASE e = "no-vp" -> "no-vp" [] e = "empty-vp-jwt" -> "jwt" [] OTHER -> "ldp"
IncEnabled(e) == e # "partial-vp" \/ (out.res = "ok" /\ Len(out.vcs) >= 2)
IncSub(e) ==
    IF e # "partial-vp" THEN <<>>
    ELSE LET n == Len(out.vcs) - 1
             keep == SelectSeq(out.map, LAMBDA m : m.p <= n) IN
         [k \in 1..Len(keep) |-> [id |-> def.ds[keep[k].d].id,
                                  p |-> IF n = 1 THEN [k |-> "single", i |-> 0] ELSE [k |-> "idx", i |-> keep[k].p - 1],
                                  fmt |-> wallet[out.vcs[keep[k].p]].fmt, nested |-> <<>>]]

PresentIncomplete == /\ phase = "matched" /\ Explore
                     /\ \E e \in IncKindsOf(fam) :
                           /\ IncEnabled(e)
                           /\ shape' = IncShape(e) /\ ek' = e /\ env' = IncEnv(e) /\ sub' = IncSub(e)
                     /\ mut' = "incomplete"
                     /\ phase' = "mutated"
                     /\ UNCHANGED <<fam, def, wallet, out, verdict>>

Build == /\ phase = "matched" /\ out.res = "ok" /\ Explore
         /\ \E sh \in ShapesOf(fam) : \E e \in EnvKindsOf(fam) :
               /\ EnvOK(sh, e) /\ (e = "plain" \/ sh \in TamperShapes)
               /\ shape' = sh /\ ek' = e /\ env' = Tamper(PresentedCreds, e) /\ sub' = SubFor(sh, e)
         /\ mut' = "none"
         /\ phase' = "built"
         /\ UNCHANGED <<fam, def, wallet, out, verdict>>

MutateSubmission == /\ phase = "built"
                    /\ \E m \in MutSet(sub, shape, env, DescIds, MutKindsFor(ek)) : m.mut # "none" /\ mut' = m.mut /\ sub' = m.entries
                    /\ phase' = "mutated"
                    /\ UNCHANGED <<fam, def, wallet, out, shape, env, ek, verdict>>

VerifierValidate == /\ phase \in {"built", "mutated"}
                    /\ verdict' = CodeVerdict(def, sub, shape, VPs(shape, env), Dev)
                    /\ phase' = "validated"
                    /\ UNCHANGED <<fam, def, wallet, out, shape, env, ek, sub, mut>>

Next == ChooseDef \/ ChooseWallet \/ WalletMatch \/ Build \/ PresentIncomplete \/ MutateSubmission \/ VerifierValidate
Spec == Init /\ [][Next]_vars

\* ------------------------------------------------------------ properties (C12)
Matched == phase \in {"matched", "built", "mutated", "validated"}

WalletSelectsOnlySatisfying ==
    (Matched /\ out.res = "ok") => \A k \in 1..Len(out.map) : RefSat(def, def.ds[out.map[k].d], wallet[out.vcs[out.map[k].p]])

NoPartialSelection ==
    Matched => /\ (out.res = "ok" => ValidSel(def, Mapped(out)))
               /\ (~CompleteExists(def, wallet) => out.res # "ok")

\* "when no complete selection exists the wallet reports that": the report is the wallet's verdict `missing credentials`
\* (ErrNoCredentials), so it is given only when it is true.  Judged where the statement leaves no room about what a
\* complete selection is: no nested requirement (how a `pick`/`all` counts nested requirements that are satisfied by
\* nothing is open, see SatReq) and every group referenced.
Unambiguous(df) == /\ \A k \in 1..Len(df.reqs) : df.reqs[k].nested = <<>>
                   /\ (df.reqs # <<>> => DefGroups(df) \subseteq AllReqGroups(df))
MissingReport(o) == o.res = "error" /\ o.why \notin {"filter-error", "group-unavailable", "unstable-selection"}
MustFind(df, w) == Unambiguous(df) /\ CompleteExists(df, w)
NoFalseMissing == (Matched /\ MissingReport(out)) => ~MustFind(def, wallet)

NoPanic == out.res # "panic" /\ verdict # "panic"

WalletVerifierAgree == (phase = "validated" /\ mut = "none") => verdict = "accept"

ForgedMappingRejected ==
    (phase = "validated" /\ ~RefOK(def, sub, shape, VPs(shape, env), Dev)) => verdict = "reject"

ExtractedValueIsPresentValue ==
    (Matched /\ out.res = "ok") =>
        \A k \in 1..Len(out.map) : LET d == def.ds[out.map[k].d]  c == wallet[out.vcs[out.map[k].p]] IN
            \A i \in 1..Len(d.fields) : d.fields[i].id # "" =>
                \E a \in 1..Len(Adm(d.fields[i], c)) : Adm(d.fields[i], c)[a] = Extracted(d.fields[i], c)
=============================================================================
