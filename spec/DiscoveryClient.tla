-------------------------- MODULE DiscoveryClient --------------------------
(***************************************************************************)
(* The CLIENT-SIDE REGISTRATION MANAGER of the discovery service of a Nuts  *)
(* node: discovery/client.go (clientRegistrationManager: activate,          *)
(* deactivate, registerPresentation, deregisterPresentation, refresh,       *)
(* findCredentialsAndBuildPresentation), the entry points in                 *)
(* discovery/module.go (ActivateServiceForSubject, DeactivateService-        *)
(* ForSubject, GetServiceActivation, the update() loop) and the store        *)
(* methods they use (discovery/store.go: updatePresentationRefreshTime,      *)
(* getPresentationRefreshRecord, getSubjectsToBeRefreshed,                   *)
(* setPresentationRefreshError, getSubjectVPsOnService).                     *)
(*                                                                           *)
(* The server side and the list synchronisation are specified in            *)
(* Discovery.tla (C16); here the server is the abstract list `srv` (latest  *)
(* accepted presentation per service and DID) and a synchronisation is one  *)
(* copy step `loc := srv`.                                                   *)
(*                                                                           *)
(* One action per critical section / handler of the Go code:                *)
(*   Activate(svc,s,p)   Module.ActivateServiceForSubject: activate() for   *)
(*                       every DID of the subject, write the refresh record *)
(*                       and clear the error row, then updateService        *)
(*   Deactivate(svc,s)   Module.DeactivateServiceForSubject: delete the     *)
(*                       refresh record FIRST, then a retraction            *)
(*                       presentation for every DID that has an unexpired   *)
(*                       registration IN THE CLIENT'S LOCAL COPY of the list*)
(*   RefreshStart        refresh(): getSubjectsToBeRefreshed(now) - the     *)
(*                       candidates (with their parameters) are read ONCE   *)
(*   RefreshOne(c)       the body of the loop for one candidate: activate() *)
(*                       and the four outcome branches (ok / removed: no    *)
(*                       supported DID method / removed: unknown subject /  *)
(*                       error row written, record left due)                *)
(*   RefreshSync         the rest of Module.update()'s do(): the client     *)
(*                       updater fetches the lists                          *)
(*   Restart             a new Module on the same SQL database              *)
(*   Advance, ToggleReg, ToggleGet, Refuse, WalletFlip, KillDID,            *)
(*   RemoveSubject      the environment: the clock, the server's POST / GET *)
(*                      endpoints, a server that refuses one DID, the       *)
(*                      matching credential entering / leaving a wallet, a  *)
(*                      DID being deactivated, a subject disappearing       *)
(* GetServiceActivation is a pure function of rec, err and loc.            *)
(*                                                                           *)
(* Time is in SECONDS and computed exactly as the code does:                *)
(*   next_refresh = now + trunc(0.45 * presentation_max_validity)           *)
(*   expiration   = now + presentation_max_validity - 1                     *)
(*   due      <=>  next_refresh < now          (getSubjectsToBeRefreshed)   *)
(*   live     <=>  expiration   > now          (sqlStore.search)            *)
(* The clock advances in steps of TickLen.                                  *)
(*                                                                           *)
(* Deviations of the code from the properties are boolean constants         *)
(* (FALSE = as implemented, TRUE = the repaired design TLC proves correct): *)
(*   RefreshRechecks       the loop body works on the candidate as read at  *)
(*                         the start of the round (stale after an API call) *)
(*   PartialIsFailure      a failure of SOME DIDs is only logged and the    *)
(*                         whole subject is rescheduled 0.45 x validity on  *)
(*   DeactivateSyncsFirst  deactivate() trusts the local copy of the list   *)
(* Design decisions the properties depend on are constants too (TRUE = as   *)
(* implemented), so every invariant can be shown to be able to fail.        *)
(* `out`, `res` and the variables after them are observation / history      *)
(* variables: the properties talk about what a step SENT.                   *)
(***************************************************************************)
EXTENDS Integers, FiniteSets, Sequences, TLC

CONSTANTS
    Services, Subjects, DIDs,
    Owner(_),             \* DID -> subject (didsubject.Manager.ListDIDs)
    Method(_),            \* DID -> DID method
    Methods(_),           \* service -> supported DID methods ({} = all, ServiceDefinition.DIDMethods)
    Validity(_),          \* service -> presentation_max_validity (seconds)
    Params,               \* registration parameter values an API caller may pass
    TickLen, MaxTime,     \* the clock advances by TickLen up to MaxTime
    MaxRounds,            \* bound on the refresh rounds per clock slot
    MaxApi, MaxEnv,       \* bounds on API calls and on environment events
    Refusable, WalletVar, Killable, Removable,   \* what the environment may touch
    InitWallet,           \* DIDs that hold a matching credential initially
    TimelyTicks,          \* ASSUMPTION switch: a complete refresh round runs in every clock slot
    \* design decisions (TRUE = as implemented)
    ContinueAfterFailure, \* activate(): the loop over the DIDs goes on after a failed registration
    PresentOnlyMatching,  \* findCredentialsAndBuildPresentation: only what PresentationDefinition.Match selects
    WalletPerDID,         \* ... from Wallet().List(subjectDID): the wallet of THAT DID only
    ErrorOnFailure,       \* refresh(): setPresentationRefreshError when activate failed
    KeepDueOnFailure,     \* refresh(): a failed candidate keeps its next_refresh (so the next round retries)
    DeleteRecordOnDeactivate, \* deactivate(): updatePresentationRefreshTime(..., nil)
    RefreshFactorPct,     \* 45: refreshVPAfter = 0.45 * PresentationMaxValidity
    \* deviations (FALSE = as implemented)
    RefreshRechecks,      \* RefreshOne re-reads the record: skipped when deleted / no longer due, current parameters
    PartialIsFailure,     \* a registration error of SOME DID is recorded and retried in the next round
    DeactivateSyncsFirst, \* deactivate() fetches the list before it decides what to retract
    Hist

NoPar == "-"
None  == [id |-> 0, exp |-> 0, kind |-> "none", par |-> NoPar]
NoRec == [on |-> FALSE, next |-> 0, par |-> NoPar]
CS == Services \X Subjects
SD == Services \X DIDs
Idle == [phase |-> "idle", todo |-> {}]
Cap == 3                  \* "exempt" value of the consecutive-failure counter (> every Slack)

VARIABLES
    now,
    regUp, getUp,         \* the server's POST / GET endpoints are reachable
    refuse,               \* DIDs whose presentations the server currently refuses
    wallet,               \* DID -> holds a credential matching the presentation definition
    dead,                 \* deactivated DIDs (didResolver.Resolve returns ErrDeactivated)
    gone,                 \* subjects the subject manager does not know (any more)
    rec,                  \* <<svc,subject>> -> discovery_presentation_refresh row
    err,                  \* <<svc,subject>> -> a discovery_presentation_error row exists
    srv,                  \* <<svc,did>> -> the server's entry: the latest presentation it accepted (id = how many)
    loc,                  \* <<svc,did>> -> the client's local copy of the entry
    loop,                 \* the refresh round in flight: candidates read, not yet processed
    api, env,             \* budgets
    rounds,               \* refresh rounds started in this clock slot
    ticked,               \* a refresh round has completed in this clock slot
    \* observation / history variables
    out,                  \* presentations sent to the server by the LAST step
    res,                  \* result of the last API call / loop body
    deact,                \* <<svc,subject>> deactivated through the API and not activated again
    lastRes,              \* <<svc,subject>> -> outcome of the last refresh of an activated subject
    lastPar,              \* <<svc,subject>> -> parameters of the last successful API activation
    fails,                \* <<svc,did>> -> consecutive failed renewal attempts (Cap = lapse is intended)
    orphan,               \* Deactivate answered "ok" while a registration of the subject stayed listed
    hist

vars == <<now, regUp, getUp, refuse, wallet, dead, gone, rec, err, srv, loc, loop, api, env, rounds, ticked,
          out, res, deact, lastRes, lastPar, fails, orphan, hist>>
view == <<now, regUp, getUp, refuse, wallet, dead, gone, rec, err, srv, loc, loop, api, env, rounds, ticked,
          out, res, deact, lastRes, lastPar, fails, orphan>>

Log(e) == hist' = IF Hist THEN Append(hist, e) ELSE hist

Min(a, b) == IF a < b THEN a ELSE b

(***************************************************************************)
(* The arithmetic of the code                                              *)
(***************************************************************************)
RefreshOffset(v) == (v * RefreshFactorPct) \div 100     \* time.Duration(float64(v)*0.45) * time.Second
ExpiryOffset(v)  == v - 1                               \* Add((v-1) * time.Second).Truncate(time.Second)
Refresh(svc) == RefreshOffset(Validity(svc))
Due(r)      == r.on /\ r.next < now
LiveReg(e)  == e.kind = "reg" /\ e.exp > now
\* renewal attempts a registration gets before it expires when one round runs per clock slot
Slack(svc)  == (ExpiryOffset(Validity(svc)) - Refresh(svc)) \div TickLen

Init ==
    /\ now = 0 /\ regUp = TRUE /\ getUp = TRUE /\ refuse = {}
    /\ wallet = [d \in DIDs |-> d \in InitWallet]
    /\ dead = {} /\ gone = {}
    /\ rec = [c \in CS |-> NoRec] /\ err = [c \in CS |-> FALSE]
    /\ srv = [k \in SD |-> None] /\ loc = [k \in SD |-> None]
    /\ loop = Idle /\ api = 0 /\ env = 0 /\ rounds = 0 /\ ticked = FALSE
    /\ out = {} /\ res = "-" /\ deact = {}
    /\ lastRes = [c \in CS |-> "none"] /\ lastPar = [c \in CS |-> NoPar]
    /\ fails = [k \in SD |-> Cap] /\ orphan = FALSE
    /\ hist = <<>>

(***************************************************************************)
(* clientRegistrationManager.activate(service, subject, parameters)        *)
(***************************************************************************)
DidsOf(s)        == {d \in DIDs : Owner(d) = s}
MethodOK(svc, d) == Methods(svc) = {} \/ Method(d) \in Methods(svc)
\* the DIDs left after the DID-method filter and the deactivation filter
Eligible(svc, s) == {d \in DidsOf(s) : MethodOK(svc, d) /\ d \notin dead}
\* the server's answer to a presentation of d
Accepts(svc, d)  == regUp /\ d \notin refuse
\* DIDs for which Match finds the credentials (the others end with pe.ErrNoCredentials, which is ignored)
WithCreds(svc, s) == {d \in Eligible(svc, s) : wallet[d]}
Failing(svc, s)   == {d \in WithCreds(svc, s) : ~Accepts(svc, d)}
\* DIDs for which a presentation is built and POSTed
Attempted(svc, s) == IF ContinueAfterFailure \/ Failing(svc, s) = {} THEN WithCreds(svc, s)
                     ELSE Failing(svc, s)            \* (not as implemented) the loop stops at the failure
Accepted(svc, s)  == {d \in Attempted(svc, s) : Accepts(svc, d)}
Rejected(svc, s)  == Attempted(svc, s) \ Accepted(svc, s)

Outcome(svc, s) ==
    IF s \in gone THEN "notfound"                    \* didsubject.ErrSubjectNotFound
    ELSE IF Eligible(svc, s) = {} THEN "nomethod"    \* ErrNoSupportedDIDMethods
    ELSE IF Accepted(svc, s) = {} THEN "failed"      \* ErrPresentationRegistrationFailed
    ELSE IF Rejected(svc, s) # {} THEN "partial"     \* logged only: activate returns nil
    ELSE "ok"
Sends(o) == o \in {"failed", "partial", "ok"}

\* the credentials of the presentation built for d: <<holder, kind>>
Cred(h, k) == <<h, k>>
WalletOf(d) == {Cred(d, "other")} \cup (IF wallet[d] THEN {Cred(d, "match")} ELSE {})
Listed(d)   == IF WalletPerDID THEN WalletOf(d) ELSE UNION {WalletOf(x) : x \in DidsOf(Owner(d))}
Presented(d) == IF PresentOnlyMatching THEN {c \in Listed(d) : c[2] = "match"} ELSE Listed(d)

RegMsgs(svc, s, p) ==
    {[svc |-> svc, did |-> d, kind |-> "reg", ok |-> Accepts(svc, d), creds |-> Presented(d), par |-> p, jti |-> 0]
        : d \in Attempted(svc, s)}

NewReg(svc, d, p) == [id |-> srv[<<svc, d>>].id + 1, exp |-> now + ExpiryOffset(Validity(svc)), kind |-> "reg", par |-> p]

\* effect of the POSTs of one activate() on the server and on the failure counters
Register(svc, s, p, o) ==
    LET acc == IF Sends(o) THEN Accepted(svc, s) ELSE {}
        rej == IF Sends(o) THEN Rejected(svc, s) ELSE {}
    IN /\ srv' = [k \in SD |-> IF k[1] = svc /\ k[2] \in acc THEN NewReg(svc, k[2], p) ELSE srv[k]]
       /\ fails' = [k \in SD |->
                      IF k[1] # svc \/ Owner(k[2]) # s \/ o = "skipped" THEN fails[k]
                      ELSE IF k[2] \in acc THEN 0
                      ELSE IF k[2] \in rej THEN Min(fails[k] + 1, Cap)
                      ELSE Cap]                      \* no credentials / filtered out / nothing sent: a lapse is intended
       /\ out' = IF Sends(o) THEN RegMsgs(svc, s, p) ELSE {}

Sync(svc, l) == IF getUp THEN [k \in SD |-> IF k[1] = svc THEN srv'[k] ELSE l[k]] ELSE l

(***************************************************************************)
(* API                                                                     *)
(***************************************************************************)
Activate(svc, s, p) ==
    /\ api < MaxApi /\ api' = api + 1
    /\ LET c == <<svc, s>>
           o == Outcome(svc, s)
           success == o = "ok" \/ o = "partial"
       IN /\ Register(svc, s, p, o)
          /\ rec' = IF ~success THEN rec
                    ELSE IF o = "partial" /\ PartialIsFailure    \* due in the next slot at the latest; an earlier next_refresh stays
                         THEN [rec EXCEPT ![c] = [on |-> TRUE, next |-> IF Due(rec[c]) THEN rec[c].next ELSE now, par |-> p]]
                         ELSE [rec EXCEPT ![c] = [on |-> TRUE, next |-> now + Refresh(svc), par |-> p]]
          /\ err' = IF ~success THEN err ELSE [err EXCEPT ![c] = (o = "partial" /\ PartialIsFailure)]
          /\ loc' = IF success THEN Sync(svc, loc) ELSE loc      \* clientUpdater.updateService, errors are logged only
          /\ deact' = deact \ {c}
          /\ lastRes' = IF success THEN [lastRes EXCEPT ![c] = o] ELSE lastRes
          /\ lastPar' = IF success THEN [lastPar EXCEPT ![c] = p] ELSE lastPar
          /\ res' = o
          /\ Log([a |-> "Activate", svc |-> svc, s |-> s, p |-> p, res |-> o])
    /\ UNCHANGED <<now, regUp, getUp, refuse, wallet, dead, gone, loop, env, rounds, ticked, orphan>>

\* what deactivate() retracts: unexpired registrations in the local copy, signed by a DID with a supported method
RetractTargets(svc, s) == {d \in DidsOf(s) : MethodOK(svc, d)}

Deactivate(svc, s) ==
    /\ api < MaxApi /\ api' = api + 1
    /\ LET c == <<svc, s>>
           known == s \notin gone
           synced == DeactivateSyncsFirst /\ getUp
           l == IF synced THEN [k \in SD |-> IF k[1] = svc THEN srv[k] ELSE loc[k]] ELSE loc
           targets == RetractTargets(svc, s)
           toRetract == {d \in targets : LiveReg(l[<<svc, d>>])}
           \* Module.validateRetraction: the server still lists exactly that presentation
           okd == {d \in toRetract : Accepts(svc, d) /\ srv[<<svc, d>>].kind = "reg" /\ srv[<<svc, d>>].id = l[<<svc, d>>].id}
           r == IF ~known THEN "notfound"
                ELSE IF targets = {} THEN "incomplete"
                ELSE IF DeactivateSyncsFirst /\ ~getUp THEN "incomplete"
                ELSE IF okd # toRetract THEN "incomplete" ELSE "ok"
       IN /\ rec' = IF known /\ DeleteRecordOnDeactivate THEN [rec EXCEPT ![c] = NoRec] ELSE rec
          /\ err' = IF known /\ DeleteRecordOnDeactivate THEN [err EXCEPT ![c] = FALSE] ELSE err   \* foreign key, on delete cascade
          /\ srv' = IF ~known THEN srv
                    ELSE [k \in SD |-> IF k[1] = svc /\ k[2] \in okd
                                       THEN [id |-> srv[k].id + 1, exp |-> now + ExpiryOffset(Validity(svc)), kind |-> "ret", par |-> NoPar]
                                       ELSE srv[k]]
          /\ loc' = IF known THEN l ELSE loc
          /\ out' = IF ~known THEN {}
                    ELSE {[svc |-> svc, did |-> d, kind |-> "ret", ok |-> d \in okd, creds |-> {}, par |-> NoPar, jti |-> l[<<svc, d>>].id]
                            : d \in toRetract}
          /\ deact' = IF known THEN deact \cup {c} ELSE deact
          /\ lastRes' = IF known THEN [lastRes EXCEPT ![c] = "none"] ELSE lastRes
          /\ fails' = IF ~known THEN fails ELSE [k \in SD |-> IF k[1] = svc /\ Owner(k[2]) = s THEN Cap ELSE fails[k]]
          /\ orphan' = (orphan \/ (r = "ok" /\ \E d \in DidsOf(s) : LiveReg(srv'[<<svc, d>>])))
          /\ res' = r
          /\ Log([a |-> "Deactivate", svc |-> svc, s |-> s, res |-> r])
    /\ UNCHANGED <<now, regUp, getUp, refuse, wallet, dead, gone, loop, env, rounds, ticked, lastPar>>

(***************************************************************************)
(* The refresh loop: Module.update() -> do()                               *)
(***************************************************************************)
RefreshStart ==
    /\ loop.phase = "idle" /\ rounds < MaxRounds /\ rounds' = rounds + 1
    /\ loop' = [phase |-> "running", todo |-> {[c |-> c, par |-> rec[c].par] : c \in {x \in CS : Due(rec[x])}}]
    /\ out' = {} /\ res' = "-"
    /\ Log([a |-> "RefreshStart"])
    /\ UNCHANGED <<now, regUp, getUp, refuse, wallet, dead, gone, rec, err, srv, loc, api, env, ticked,
                   deact, lastRes, lastPar, fails, orphan>>

RefreshOne(t) ==
    /\ loop.phase = "running" /\ t \in loop.todo
    /\ loop' = [loop EXCEPT !.todo = @ \ {t}]
    /\ LET c == t.c
           svc == c[1]
           s == c[2]
           skip == RefreshRechecks /\ ~Due(rec[c])
           p == IF RefreshRechecks THEN rec[c].par ELSE t.par
           o == IF skip THEN "skipped" ELSE Outcome(svc, s)
           bad == o = "failed" \/ (o = "partial" /\ PartialIsFailure)
       IN /\ Register(svc, s, p, o)
          /\ rec' = CASE o = "ok" \/ (o = "partial" /\ ~PartialIsFailure)
                           -> [rec EXCEPT ![c] = [on |-> TRUE, next |-> now + Refresh(svc), par |-> p]]
                      [] o \in {"nomethod", "notfound"} -> [rec EXCEPT ![c] = NoRec]
                      [] bad /\ ~KeepDueOnFailure /\ rec[c].on
                           -> [rec EXCEPT ![c] = [on |-> TRUE, next |-> now + Refresh(svc), par |-> p]]
                      [] OTHER -> rec
          /\ err' = CASE o = "ok" \/ (o = "partial" /\ ~PartialIsFailure) -> [err EXCEPT ![c] = FALSE]
                      [] o \in {"nomethod", "notfound"} -> [err EXCEPT ![c] = FALSE]
                      \* the error row references the refresh record (foreign key): no record, no row
                      [] bad /\ ErrorOnFailure /\ rec[c].on -> [err EXCEPT ![c] = TRUE]
                      [] OTHER -> err
          /\ lastRes' = CASE o \in {"ok", "partial", "failed"} /\ rec'[c].on -> [lastRes EXCEPT ![c] = o]
                          [] o \in {"nomethod", "notfound"} -> [lastRes EXCEPT ![c] = "none"]
                          [] OTHER -> lastRes
          /\ res' = o
          /\ Log([a |-> "RefreshOne", svc |-> svc, s |-> s, res |-> o])
    /\ UNCHANGED <<now, regUp, getUp, refuse, wallet, dead, gone, loc, api, env, rounds, ticked, deact, lastPar, orphan>>

RefreshAny == \E t \in loop.todo : RefreshOne(t)

RefreshSync ==
    /\ loop.phase = "running" /\ loop.todo = {}
    /\ loop' = Idle
    /\ loc' = IF getUp THEN srv ELSE loc              \* clientUpdater.update: every service
    /\ ticked' = TRUE
    /\ out' = {} /\ res' = "-"
    /\ Log([a |-> "RefreshSync"])
    /\ UNCHANGED <<now, regUp, getUp, refuse, wallet, dead, gone, rec, err, srv, api, env, rounds,
                   deact, lastRes, lastPar, fails, orphan>>

\* all state is in SQL: a new Module on the same database only loses the round in flight
Restart ==
    /\ env < MaxEnv /\ env' = env + 1
    /\ loop.phase = "idle"
    /\ out' = {} /\ res' = "-"
    /\ Log([a |-> "Restart"])
    /\ UNCHANGED <<now, regUp, getUp, refuse, wallet, dead, gone, rec, err, srv, loc, loop, api, rounds, ticked,
                   deact, lastRes, lastPar, fails, orphan>>

(***************************************************************************)
(* Environment                                                             *)
(***************************************************************************)
Quiet == /\ out' = {} /\ res' = "-"
EnvStep == env < MaxEnv /\ env' = env + 1

Advance ==
    /\ now + TickLen <= MaxTime
    /\ TimelyTicks => (ticked /\ loop.phase = "idle")
    /\ now' = now + TickLen /\ ticked' = FALSE /\ rounds' = 0
    /\ Quiet /\ Log([a |-> "Advance"])
    /\ UNCHANGED <<regUp, getUp, refuse, wallet, dead, gone, rec, err, srv, loc, loop, api, env,
                   deact, lastRes, lastPar, fails, orphan>>

ToggleReg ==
    /\ EnvStep /\ regUp' = ~regUp
    /\ Quiet /\ Log([a |-> "ToggleReg"])
    /\ UNCHANGED <<now, getUp, refuse, wallet, dead, gone, rec, err, srv, loc, loop, api, rounds, ticked,
                   deact, lastRes, lastPar, fails, orphan>>

ToggleGet ==
    /\ EnvStep /\ getUp' = ~getUp
    /\ Quiet /\ Log([a |-> "ToggleGet"])
    /\ UNCHANGED <<now, regUp, refuse, wallet, dead, gone, rec, err, srv, loc, loop, api, rounds, ticked,
                   deact, lastRes, lastPar, fails, orphan>>

Refuse(d) ==
    /\ EnvStep /\ d \in Refusable
    /\ refuse' = IF d \in refuse THEN refuse \ {d} ELSE refuse \cup {d}
    /\ Quiet /\ Log([a |-> "Refuse", d |-> d])
    /\ UNCHANGED <<now, regUp, getUp, wallet, dead, gone, rec, err, srv, loc, loop, api, rounds, ticked,
                   deact, lastRes, lastPar, fails, orphan>>

WalletFlip(d) ==
    /\ EnvStep /\ d \in WalletVar
    /\ wallet' = [wallet EXCEPT ![d] = ~@]
    /\ Quiet /\ Log([a |-> "WalletFlip", d |-> d])
    /\ UNCHANGED <<now, regUp, getUp, refuse, dead, gone, rec, err, srv, loc, loop, api, rounds, ticked,
                   deact, lastRes, lastPar, fails, orphan>>

KillDID(d) ==
    /\ EnvStep /\ d \in Killable \ dead
    /\ dead' = dead \cup {d}
    /\ Quiet /\ Log([a |-> "KillDID", d |-> d])
    /\ UNCHANGED <<now, regUp, getUp, refuse, wallet, gone, rec, err, srv, loc, loop, api, rounds, ticked,
                   deact, lastRes, lastPar, fails, orphan>>

RemoveSubject(s) ==
    /\ EnvStep /\ s \in Removable \ gone
    /\ gone' = gone \cup {s}
    /\ Quiet /\ Log([a |-> "RemoveSubject", s |-> s])
    /\ UNCHANGED <<now, regUp, getUp, refuse, wallet, dead, rec, err, srv, loc, loop, api, rounds, ticked,
                   deact, lastRes, lastPar, fails, orphan>>

Next ==
    \/ \E svc \in Services, s \in Subjects, p \in Params : Activate(svc, s, p)
    \/ \E svc \in Services, s \in Subjects : Deactivate(svc, s)
    \/ RefreshStart
    \/ RefreshAny
    \/ RefreshSync
    \/ Restart
    \/ Advance \/ ToggleReg \/ ToggleGet
    \/ \E d \in DIDs : Refuse(d) \/ WalletFlip(d) \/ KillDID(d)
    \/ \E s \in Subjects : RemoveSubject(s)

Spec == Init /\ [][Next]_vars
\* time passes, the refresh loop keeps running (time.Ticker) and every started round finishes
FairSpec == Spec /\ WF_vars(Advance) /\ WF_vars(RefreshStart) /\ WF_vars(RefreshAny) /\ WF_vars(RefreshSync)

(***************************************************************************)
(* Properties                                                              *)
(***************************************************************************)
Entry == [id : Nat, exp : Nat, kind : {"none", "reg", "ret"}, par : Params \cup {NoPar}]
TypeOK ==
    /\ now \in 0..MaxTime /\ regUp \in BOOLEAN /\ getUp \in BOOLEAN
    /\ refuse \subseteq DIDs /\ dead \subseteq DIDs /\ gone \subseteq Subjects
    /\ wallet \in [DIDs -> BOOLEAN]
    /\ \A c \in CS : rec[c] \in [on : BOOLEAN, next : Nat, par : Params \cup {NoPar}]
    /\ err \in [CS -> BOOLEAN]
    /\ \A k \in SD : srv[k] \in Entry /\ loc[k] \in Entry /\ fails[k] \in 0..Cap
    /\ loop.phase \in {"idle", "running"}
    /\ deact \subseteq CS

\* (timing) whenever the code schedules a refresh together with a registration, the refresh is strictly
\* before the expiry of that registration: next_refresh and expiration computed from the same `now`
RefreshBeforeExpiry ==
    \A svc \in Services, d \in DIDs :
        LET r == rec[<<svc, Owner(d)>>]
            e == srv[<<svc, d>>]
        IN (r.on /\ e.kind = "reg" /\ e.exp - ExpiryOffset(Validity(svc)) = r.next - Refresh(svc)) => r.next < e.exp
\* the formula of the code for a whole range of validities (evaluated once, see MCDiscoveryClient)
TimingFormulaOK(lo, hi) == \A v \in lo..hi : RefreshOffset(v) < ExpiryOffset(v)

\* (timing, under TimelyTicks) a registration of an activated subject does not expire unless Slack consecutive
\* renewal attempts failed ("a refresh can fail once without consequence", client.go:132)
NoLapse ==
    \A svc \in Services, d \in DIDs :
        LET e == srv[<<svc, d>>]
        IN (rec[<<svc, Owner(d)>>].on /\ e.kind = "reg" /\ e.exp <= now) => fails[<<svc, d>>] >= Min(Slack(svc), Cap)

\* a failed refresh is visible through GetServiceActivation and is retried by the next round
\* (FailureRetried is NOT as implemented when an API activation raced with the round: the stale candidate then records an
\* error for a subject that is not due any more, see RefreshRechecks)
FailureVisible == \A c \in CS : (rec[c].on /\ lastRes[c] = "failed") => err[c]
FailureRetried == \A c \in CS : (rec[c].on /\ lastRes[c] = "failed") => Due(rec[c])
\* ... also when only some of the DIDs failed (NOT as implemented)
PartialVisible == \A c \in CS : (rec[c].on /\ lastRes[c] = "partial") => err[c]
\* no error is shown for a subject whose last refresh worked
NoStaleError == \A c \in CS : (rec[c].on /\ lastRes[c] = "ok") => ~err[c]
\* the error row never outlives the activation
ErrorOnlyIfActivated == \A c \in CS : err[c] => rec[c].on

\* after Deactivate the subject stays deactivated and nothing is registered for it until it is activated again
StaysDeactivated == \A c \in deact : ~rec[c].on
NoRegistrationAfterDeactivate ==
    \A m \in out : m.kind = "reg" => <<m.svc, Owner(m.did)>> \notin deact
\* a retraction goes out for every DID of the subject that has a live registration in the client's copy of the list,
\* naming that registration (action property)
RetractionSent ==
    [][\A svc \in Services, s \in Subjects : Deactivate(svc, s) /\ s \notin gone =>
          \A d \in RetractTargets(svc, s) : LiveReg(loc'[<<svc, d>>]) =>
              \E m \in out' : m.kind = "ret" /\ m.svc = svc /\ m.did = d /\ m.jti = loc'[<<svc, d>>].id]_vars
\* Deactivate answers "ok" only when no registration of the subject stays listed (NOT as implemented)
NoSilentOrphan == ~orphan

\* a presentation only carries credentials of the DID that signs it, and only ones the definition asks for
OnlyOwnMatchingCredentials ==
    \A m \in out : /\ m.kind = "reg" => \A c \in m.creds : c[1] = m.did /\ c[2] = "match"
                   /\ m.kind = "ret" => m.creds = {}
\* registrations carry the parameters of the last successful API activation (NOT as implemented: refresh race)
ParametersRespected ==
    /\ \A c \in CS : rec[c].on /\ c \notin deact => rec[c].par = lastPar[c]
    /\ \A m \in out : (m.kind = "reg" /\ m.ok /\ rec[<<m.svc, Owner(m.did)>>].on /\ <<m.svc, Owner(m.did)>> \notin deact)
                          => m.par = lastPar[<<m.svc, Owner(m.did)>>]
\* several DIDs: whenever anything is sent for a subject, every eligible DID with credentials is attempted
AllEligibleAttempted ==
    \A m \in out : m.kind = "reg" =>
        \A d \in WithCreds(m.svc, Owner(m.did)) : \E m2 \in out : m2.kind = "reg" /\ m2.svc = m.svc /\ m2.did = d
\* (service, subject) pairs are independent: a refresh record / error row only changes in a step for that pair
\* (action property)
RecordsIndependent ==
    [][\A c \in CS : (rec'[c] # rec[c] \/ err'[c] # err[c]) =>
          \/ \E p \in Params : Activate(c[1], c[2], p)
          \/ Deactivate(c[1], c[2])
          \/ \E t \in loop.todo : t.c = c /\ RefreshOne(t)]_vars

\* liveness (FairSpec): an error shown for an activated subject disappears once registration can succeed again,
\* i.e. the failed registration IS retried
CanSucceed(c) == /\ c[2] \notin gone
                 /\ \E d \in Eligible(c[1], c[2]) : wallet[d] /\ Accepts(c[1], d)
                 /\ (PartialIsFailure => \A x \in WithCreds(c[1], c[2]) : Accepts(c[1], x))
\* (now < MaxTime: the clock and the rounds per slot of the MODEL are bounded; at the end of time nothing can happen)
RetryClearsError == \A c \in CS : (rec[c].on /\ err[c] /\ now < MaxTime) ~> (~err[c] \/ ~CanSucceed(c))
=============================================================================
