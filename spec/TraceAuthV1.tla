--------------------------- MODULE TraceAuthV1 ---------------------------
(***************************************************************************)
(* Trace validation for X10: executions of the REAL node (v1 API handlers,  *)
(* authorization server, notary, employee-identity signer / web handler /   *)
(* session store, dummy means, self-signed validator) must be behaviours of *)
(* AuthV1.tla.  Grant and verification events carry the REAL answer; the    *)
(* property invariants are evaluated on the reconstructed state, so an      *)
(* answer that breaks P1 / P2 / P4 is reported as invariant:<Name>.         *)
(* Session events must match the specification's actions exactly (answer    *)
(* class AND the state of the session read back from the real store).       *)
(* Traces are concatenated; a "reset" event starts the next one.            *)
(***************************************************************************)
EXTENDS MCAuthV1, IOUtils

TraceLog == ndJsonDeserialize(IOEnv.VERIF_TRACE)
VARIABLE l
tvars == <<vars, l>>
Ev == TraceLog[l]
IsEvent(e) == l <= Len(TraceLog) /\ Ev.ev = e /\ l' = l + 1

TReset == /\ IsEvent("reset")
          /\ tokens' = <<>> /\ ngr' = 0 /\ now' = 0 /\ nin' = 0
          /\ st' = "none" /\ means' = "" /\ late' = 0 /\ vps' = 0 /\ shown' = 0 /\ dead' = FALSE /\ ops' = 0
          /\ vp' = "" /\ trust' = TRUE /\ last' = [a |-> "Init"] /\ hist' = <<>>

\* ---- grant: the real answer is taken as it is; P1 / P2 are evaluated on the result
ReqOf(e) == [a \in Attrs |-> e.req[a]]
TGrant == /\ IsEvent("grant") /\ Mode = "grant"
          /\ \A a \in Attrs : Ev.req[a] \in Vals(a)
          /\ Ev.res \in {"issued", "refused"}
          /\ Clean(ReqOf(Ev)) => Ev.res = "issued"          \* (a clean request that is refused is drift, not a violation)
          /\ ngr' = ngr + 1
          /\ tokens' = IF Ev.res = "issued" THEN Append(tokens, [req |-> ReqOf(Ev), iat |-> now]) ELSE tokens
          /\ last' = [a |-> "Grant", res |-> Ev.res, req |-> ReqOf(Ev)]
          /\ UNCHANGED <<now, nin, st, means, late, vps, shown, dead, ops, vp, trust, hist>>
TIntrospect == /\ IsEvent("introspect") /\ Mode = "grant" /\ Ev.k \in 1..Len(tokens)
               /\ nin' = nin + 1
               /\ last' = [a |-> "Introspect", k |-> Ev.k, active |-> Ev.active,
                           claims |-> IF Ev.active /\ Ev.faithful THEN tokens[Ev.k].req ELSE <<>>]
               /\ UNCHANGED <<tokens, ngr, now, st, means, late, vps, shown, dead, ops, vp, trust, hist>>
TForeign == /\ IsEvent("iforeign") /\ Mode = "grant" /\ Ev.f \in Foreign
            /\ nin' = nin + 1
            /\ last' = [a |-> "IntrospectForeign", k |-> Ev.f, active |-> Ev.active, claims |-> <<>>]
            /\ UNCHANGED <<tokens, ngr, now, st, means, late, vps, shown, dead, ops, vp, trust, hist>>
TTick == IsEvent("tick") /\ Tick
\* P1 on a real execution: every token the node issued belongs to a request the CODE's variant lets pass (the open
\* findings are the deviation constants of the trace config; any other defect that passes breaks this invariant)
IssuedOnlyIfAllHeldCode == \A k \in 1..Len(tokens) : Accepts(tokens[k].req)
TIntrospectFaithful ==
    (last.a \in {"Introspect", "IntrospectForeign"} /\ ~(last.a = "IntrospectForeign" /\ last.k = "grant" /\ ~TokenTyped)) =>
        /\ last.active => (last.a = "Introspect" /\ Fresh(last.k) /\ last.claims = tokens[last.k].req)
        /\ (last.a = "Introspect" /\ Fresh(last.k)) => last.active

\* ---- sess: exact match of the answer and of the session state read back from the store
TCreate == IsEvent("create") /\ Create(Ev.m) /\ st' = Ev.st
TPage == IsEvent("page") /\ Page /\ last'.res = Ev.res /\ st' = Ev.st
TSubmit == IsEvent("submit") /\ Submit(Ev.acc, Ev.sec) /\ last'.res = Ev.res /\ st' = Ev.st
TPoll == IsEvent("poll") /\ Poll /\ last'.res = Ev.res /\ last'.vp = Ev.vp /\ st' = Ev.st
TAge == IsEvent("age") /\ Age
\* the eviction loop: what the real store shows after the loop had time to run
TEvict == /\ IsEvent("evict")
          /\ \/ Ev.st = "deleted" /\ late = 2 /\ st \notin Gone /\ st' = "deleted" /\ last' = [a |-> "Evict"]
                /\ UNCHANGED <<tokens, ngr, now, nin, means, late, vps, shown, dead, ops, vp, trust, hist>>
             \/ Ev.st = st /\ ~EvictionRuns /\ UNCHANGED vars
TVpOnlyWhenCompleted == [][last'.a # "Init" => (vps' > vps => (st = "completed" /\ ~dead))]_tvars
TDeadStaysDead == [][last'.a # "Init" => (dead => (dead' /\ vps' = vps /\ st' \in Final \cup Gone))]_tvars
TSecretRequired == [][(last'.a # "Init" /\ st # "completed" /\ st' = "completed" /\ means = "employeeid") => (last'.a = "Submit" /\ last'.sec = "ok" /\ last'.acc = "true" /\ late = 0)]_tvars

\* ---- vp: the real verdict is taken as it is; P4 is evaluated on it
TSign == IsEvent("sign") /\ Sign(Ev.e)
TSetTrust == IsEvent("settrust") /\ SetTrust(Ev.b)
TVerify == /\ IsEvent("verify") /\ Mode = "vp" /\ vp # "" /\ Ev.tc \in TimeClasses /\ Ev.mu \in Mutations /\ Ev.res \in {"valid", "invalid"}
           /\ ops' = ops + 1
           /\ last' = [a |-> "Verify", tc |-> Ev.tc, mu |-> Ev.mu, res |-> Ev.res]
           /\ UNCHANGED <<tokens, ngr, now, nin, st, means, late, vps, shown, dead, vp, trust, hist>>
TValidIff == ValidIffInWindowAndTrusted

TraceNext == \/ TReset \/ TGrant \/ TIntrospect \/ TForeign \/ TTick
             \/ TCreate \/ TPage \/ TSubmit \/ TPoll \/ TAge \/ TEvict
             \/ TSign \/ TSetTrust \/ TVerify
TraceInit == Init /\ l = 1 /\ TLCSet(1, 1)
TraceSpec == TraceInit /\ [][TraceNext]_tvars

Progress == TLCSet(1, IF l > TLCGet(1) THEN l ELSE TLCGet(1))
TraceAccepted ==
    \/ TLCGet(1) = Len(TraceLog) + 1
    \/ Print(<<"TRACE-REJECTED-AT", TLCGet(1), TraceLog[TLCGet(1)]>>, FALSE)
=============================================================================
