------------------------------ MODULE MCHeal ------------------------------
(* Constants and behaviour generation for Heal.tla *)
EXTENDS Heal, Json

MCTags == [n \in Node |-> IF n = "A" THEN {"gA1", "gA2"} ELSE IF n = "B" THEN {"gB1"} ELSE {"gC1"}]
\* line A - B - C (C only present in the three node configs)
MCLink(n, p) == <<n, p>> \in {<<"A", "B">>, <<"B", "A">>, <<"B", "C">>, <<"C", "B">>}

Quiet == net = {} /\ corrupts = MaxCorrupt
\* one witness per distinct quiet state (history is not part of the VIEW)
Emit == (Hist /\ Quiet) => PrintT(ToJson(hist))
HistBound == Len(hist) <= 26
=============================================================================
