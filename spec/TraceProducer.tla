--------------------------- MODULE TraceProducer ---------------------------
(***************************************************************************)
(* Trace validation for X04: executions of the REAL network.Network engine *)
(* (one event per linearization point, recorded by the gated KV store, the *)
(* gated key store, the callers and the fake peers) must be behaviours of  *)
(* Producer.tla.  The labels of the read events follow from the progress   *)
(* of the call in the code, not from the script that drove it.  Traces are *)
(* concatenated; a "reset" event starts the next one.                      *)
(***************************************************************************)
EXTENDS MCProducer, IOUtils

TraceLog == ndJsonDeserialize(IOEnv.VERIF_TRACE)
VARIABLE l
tvars == <<vars, l>>

Ev == TraceLog[l]
IsEvent(e) == l <= Len(TraceLog) /\ Ev.ev = e /\ l' = l + 1
SetOf(s) == {s[i] : i \in 1..Len(s)}

TReset == /\ IsEvent("reset")
          /\ attr' = (IF Base THEN [x \in {"g"} |-> GAttr] ELSE <<>>)
          /\ disk' = (IF Base THEN BaseDisk ELSE EmptyDisk)
          /\ mem' = [lcHigh |-> 0]
          /\ lock' = None /\ tmu' = None /\ tmuQ' = <<>> /\ cmu' = None
          /\ pc' = [p \in Procs |-> "idle"] /\ call' = [p \in Procs |-> NoCall]
          /\ wbuf' = [p \in Procs |-> EmptyDisk] /\ ncalls' = [p \in Procs |-> 0]
          /\ fails' = 0 /\ result' = <<>> /\ delivered' = {} /\ gossiped' = {}
          /\ rp' = [pc |-> "idle", ct |-> None, snap |-> {}, okAt |-> {}]
          /\ reproc' = {} /\ nreproc' = 0 /\ n2' = {} /\ rej2' = {} /\ wire' = {} /\ hist' = <<>>

TBegin == /\ IsEvent("create.begin") /\ Begin(Ev.p, Ev.tpl)
          /\ call'[Ev.p].id = Ev.id /\ call'[Ev.p].addl = SetOf(Ev.addl)
\* all isPayloadPresent reads of the call are done (ok), or one of them failed / found nothing (err)
TChk == /\ IsEvent("chkprev.done") /\ pc[Ev.p] = "chkprev"
        /\ IF Ev.res = "ok"
           THEN CheckPrevs(Ev.p) /\ (pc'[Ev.p] = "head" \/ result'[call[Ev.p].id].why = "nodedid")
           ELSE (CheckPrevs(Ev.p) /\ pc'[Ev.p] = "idle") \/ Fail(Ev.p)
THead == /\ IsEvent("head.done") /\ pc[Ev.p] = "head"
         /\ IF Ev.res = "ok" THEN ReadHead(Ev.p) ELSE Fail(Ev.p)
TClock == /\ IsEvent("clock.done") /\ pc[Ev.p] = "clock"
          /\ IF Ev.res = "ok" THEN CalcClock(Ev.p) ELSE Fail(Ev.p)
TSign == /\ IsEvent("sign") /\ pc[Ev.p] = "sign"
         /\ IF Ev.res = "ok" THEN Sign(Ev.p) /\ pc'[Ev.p] = "verify"
                             ELSE (Sign(Ev.p) /\ pc'[Ev.p] = "idle") \/ Fail(Ev.p)
TVerify == /\ IsEvent("verify.done") /\ pc[Ev.p] = "verify"
           /\ IF Ev.res = "ok" THEN ReadVerify(Ev.p) /\ pc'[Ev.p] \in {"wlock", "tmu"}
                               ELSE (ReadVerify(Ev.p) /\ pc'[Ev.p] = "idle") \/ Fail(Ev.p)
\* the write function returned inside the transaction; logged: its outcome and the transactions in its write set
TWrite == /\ IsEvent("write.fn") /\ LockWrite(Ev.p)
          /\ (Ev.res = "err") <=> (pc'[Ev.p] = "fnerr")
          /\ wbuf'[Ev.p].txs = SetOf(Ev.stored)
TCommit == IsEvent("commit") /\ Commit(Ev.p)
TRollback == IsEvent("rollback") /\ Rollback(Ev.p)
TOnRollback == IsEvent("rollback.hook.done") /\ OnRollback(Ev.p)
THook == IsEvent("commit.hook.begin") /\ AfterCommit(Ev.p)
\* CreateTransaction returned to its caller: outcome and the attributes of the REAL transaction must be the model's
TReturn == /\ IsEvent("create.return")
           /\ IF pc[Ev.p] = "idle"
              THEN /\ UNCHANGED vars
                   /\ Ev.id \in Returned
                   /\ (Ev.res = "ok") <=> (result[Ev.id].why = "ok")
                   /\ Ev.res = "ok" => /\ attr[Ev.id].lc = Ev.lc
                                       /\ attr[Ev.id].prevs = SetOf(Ev.prevs)
                                       /\ attr[Ev.id].priv = Ev.priv
                                       /\ attr[Ev.id].type = Ev.type
              ELSE \* a private template without node DID and without additional prevs fails before the first read
                   /\ pc[Ev.p] = "chkprev" /\ Ev.res = "err" /\ CheckPrevs(Ev.p) /\ pc'[Ev.p] = "idle"
TReprocScan == IsEvent("reproc.scan") /\ ReprocScan(Ev.ct)
TReprocRet == IsEvent("reproc.return") /\ ReprocPublish /\ rp.snap = SetOf(Ev.pub)
TSync == IsEvent("sync") /\ Sync(Ev.t) /\ ((Ev.res = "ok") <=> (Ev.t \in n2'))
TServe == IsEvent("serve") /\ Serve(Ev.t) /\ [t |-> Ev.t, pl |-> Ev.pl] \in wire'
TStutter == /\ l <= Len(TraceLog) /\ Ev.ev \in {"commit.hook.done"}
            /\ l' = l + 1 /\ UNCHANGED vars

TraceNext == TReset \/ TBegin \/ TChk \/ THead \/ TClock \/ TSign \/ TVerify \/ TWrite \/ TCommit \/ TRollback \/ TOnRollback
             \/ THook \/ TReturn \/ TReprocScan \/ TReprocRet \/ TSync \/ TServe \/ TStutter
TraceInit == Init /\ l = 1 /\ TLCSet(1, 1)
TraceSpec == TraceInit /\ [][TraceNext]_tvars

Progress == TLCSet(1, IF l > TLCGet(1) THEN l ELSE TLCGet(1))
TraceAccepted ==
    \/ TLCGet(1) = Len(TraceLog) + 1
    \/ Print(<<"TRACE-REJECTED-AT", TLCGet(1), TraceLog[TLCGet(1)]>>, FALSE)
=============================================================================
