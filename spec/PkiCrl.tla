------------------------------- MODULE PkiCrl -------------------------------
(***************************************************************************)
(* X06 (extension): certificate revocation checking of the PKI engine.     *)
(*                                                                         *)
(* Implementation-shaped model of /repo/pki/validator.go + denylist.go and *)
(* of the caller that acts on the verdict for LIVE connections             *)
(* (network/transport/grpc revalidatePeers, subscribed to the denylist).   *)
(*                                                                         *)
(* Granularity: the code has no locks; its shared state is two sync.Maps   *)
(* and two atomic pointers, and the only places where a goroutine can be   *)
(* held up for long are the HTTP downloads.  One action therefore is "run  *)
(* from one download boundary to the next":                                *)
(*   VBegin   CheckCRL/CheckCRLStrict/VerifyPeerCertificate is called and  *)
(*            runs until it needs a download (or returns)                  *)
(*   VFetch   the response of the endpoint is determined (httpClient.Get)  *)
(*   VStore   the response is parsed, verified, stored (updateCRL /        *)
(*            denylist.Update incl. the synchronous subscribers) and the   *)
(*            validation runs on to its next download or returns           *)
(*   VEnd     the caller receives the verdict (a connecting peer is        *)
(*            registered as live connection when it was accepted)          *)
(*   SyncStart / SyncFetch(e) / SyncStore(e) / SyncDlFetch / SyncDlStore / *)
(*   SyncEnd  one round of validator.sync(): snapshot of the endpoints     *)
(*            whose issuer is valid by time, one goroutine per endpoint +  *)
(*            one for the denylist, wg.Wait                                *)
(*   Serve / ServeDl / Tick   the environment: what an endpoint answers    *)
(*            (newer list, older list, list of another issuer, bad         *)
(*            signature, failure), the package clock                       *)
(* FineAdd = TRUE additionally splits addEndpoints into its check and its  *)
(* Store (the code's check-then-act on the sync.Map).  There is no seam in *)
(* the real code to stop a goroutine there, so these behaviours are not    *)
(* replayed step by step; the driver's stress probe (8 concurrent first    *)
(* validations) hits the lost update on the real code.                     *)
(*                                                                         *)
(* Deviations of the code from the properties, as boolean constants        *)
(* (TRUE = prescriptive design, FALSE = the code as it is):                *)
(*   KeepNewer            updateCRL keeps the stored list when the         *)
(*                        downloaded one is older (code: stores whatever   *)
(*                        it downloaded)                                   *)
(*   SoftfailChecksRest   a bypassed soft-fail condition (denylist missing,*)
(*                        CRL missing, CRL expired) does not end the       *)
(*                        checks of THAT certificate (code: validateCert   *)
(*                        returns at the first condition, checkCRL goes on *)
(*                        with the next certificate; a revocation known    *)
(*                        from a later list is never looked at)            *)
(*   IssuerAlwaysChecked  the issuer of a certificate is looked up in the  *)
(*                        trust store for every distribution point (code:  *)
(*                        only when the endpoint is not known yet)         *)
(*   AddIfAbsent          (with FineAdd) addEndpoints stores its empty list *)
(*                        only if the endpoint still has no entry          *)
(*                        (LoadOrStore; code: Load, then Store)            *)
(***************************************************************************)
EXTENDS Naturals, Sequences, FiniteSets, TLC

CONSTANTS
    Endpoints,          \* CRL distribution points
    Chains,             \* chains (sequences leaf .. root) that callers validate
    Vals,               \* validation goroutines
    Conns,              \* leaf certificates that may hold a live connection
    Trusted,            \* CA certificates in the trust store
    InitEndpoints,      \* endpoints named by the trust store certificates (AddTruststore)
    UseDenylist,        \* a denylist URL is configured
    SoftCfgs,           \* possible values of pki.softfail (chosen once per behaviour)
    Vias,               \* entry points: "check" (CheckCRL), "strict" (CheckCRLStrict), "tls" (VerifyPeerCertificate)
    MaxTime, MaxEnv, MaxVal, MaxRounds, CountRounds,
    KeepNewer, SoftfailChecksRest, IssuerAlwaysChecked, FineAdd, AddIfAbsent,
    VerifyLists, RevokedFirst, CAFirst, DenyChecked, StrictIsHard, BypassExpired,   \* design decisions of the code (TRUE); FALSE only in vacuity guards
    Hist,
    IssuerOf(_),        \* certificate -> its issuer
    DPs(_),             \* certificate -> sequence of its CRL distribution points
    EpIssuer(_),        \* endpoint -> the CA that really publishes there
    NotAfter(_),        \* CA -> last clock value at which it is valid
    CrlCat(_),          \* endpoint -> what it may answer
    DlCat,              \* what the denylist URL may answer
    InitSrv(_), InitDl  \* first answers

VARIABLES
    now,        \* package clock (nowFunc)
    srv,        \* endpoint -> object it answers with at the moment
    dlsrv,      \* what the denylist URL answers with
    crls,       \* validator.crls: endpoint -> [iss, obj]   (iss = "-": no entry; obj EmptyObj: lastUpdated is zero)
    dl,         \* denylist entries + lastUpdated (NoDl: never loaded)
    cfgsoft,    \* pki.softfail
    val,        \* validation goroutines
    syn,        \* the sync round
    conns,      \* live connections (leaf certificates)
    best,       \* ghost: endpoint -> newest correctly signed list of the right issuer whose download completed
    vcount, env, rounds,
    hist

vars == <<now, srv, dlsrv, crls, dl, cfgsoft, val, syn, conns, best, vcount, env, rounds, hist>>
view == <<now, srv, dlsrv, crls, dl, cfgsoft, val, syn, conns, best, vcount, env, rounds>>

EmptyObj == [id |-> "empty", kind |-> "empty", iss |-> "-", num |-> 0, nxt |-> 0, rev |-> {}]
NoEntry  == [iss |-> "-", obj |-> EmptyObj]
NoDl     == [id |-> "none", kind |-> "none", ban |-> {}]

Log(r) == IF Hist THEN Append(hist, r) ELSE hist
CertAt(ch, i) == IF CAFirst THEN ch[Len(ch) + 1 - i] ELSE ch[i]        \* chains are checked CA first
ToSet(q) == {q[j] : j \in 1..Len(q)}
Good(o, iss) == (o.kind = "good" \/ (~VerifyLists /\ o.kind = "badsig")) /\ o.iss = iss   \* parses, issuer name as expected, signature verifies
Genuine(o, iss) == o.kind = "good" /\ o.iss = iss          \* what the ghost variable best records
GoodDl(o) == o.kind = "good" \/ (~VerifyLists /\ o.kind = "badsig")
Newer(a, b) == IF a.kind = "good" /\ a.num >= b.num THEN a ELSE b
StoreObj(cur, o) == IF KeepNewer /\ cur.kind = "good" /\ cur.num > o.num THEN cur ELSE o
Mode(via) == IF via = "strict" /\ StrictIsHard THEN "hard" ELSE IF cfgsoft THEN "soft" ELSE "hard"

Idle == [pc |-> "idle", ch |-> <<>>, via |-> "-", m |-> "-", cn |-> FALSE, i |-> 0, k |-> 0, at |-> "-",
         gotc |-> EmptyObj, gotd |-> NoDl, res |-> "-", snap |-> [e \in Endpoints |-> EmptyObj], seen |-> {}, t0 |-> 0]

SynIdle == [run |-> FALSE, req |-> {}, got |-> {}, dlp |-> "done", gotd |-> NoDl]

(***************************************************************************)
(* The body of checkCRL / validateCert between two downloads.              *)
(* Walk runs from position (certificate i counted from the CA side,        *)
(* distribution point k, phase) until a download is needed or a verdict is *)
(* reached.  With atomic = TRUE downloads are performed inline (used for   *)
(* the synchronous revalidation of live connections inside Update()).      *)
(***************************************************************************)
Stop(pc, i, k, at, res, cr, bs) == [pc |-> pc, i |-> i, k |-> k, at |-> at, res |-> res, cr |-> cr, bs |-> bs]

RECURSIVE Walk(_, _, _, _, _, _, _, _, _)
RECURSIVE AfterSoft(_, _, _, _, _, _, _, _, _)
RECURSIVE NextCert(_, _, _, _, _, _, _)

NextCert(ch, m, i, cr, d, bs, atomic) ==
    IF i = Len(ch) THEN Stop("done", i, 0, "-", "ok", cr, bs)
    ELSE Walk(ch, m, i + 1, 0, "deny", cr, d, bs, atomic)

\* a soft-fail condition (denylist missing: k = 0; CRL missing / expired at distribution point k)
AfterSoft(ch, m, i, k, cond, cr, d, bs, atomic) ==
    IF m = "hard" \/ (cond = "crlexpired" /\ ~BypassExpired) THEN Stop("done", i, k, "-", cond, cr, bs)
    ELSE IF SoftfailChecksRest THEN Walk(ch, m, i, k + 1, "ep", cr, d, bs, atomic)
    ELSE NextCert(ch, m, i, cr, d, bs, atomic)

Walk(ch, m, i, k, ph, cr, d, bs, atomic) ==
    LET c == CertAt(ch, i) IN
    IF ph = "deny" THEN
        IF ~UseDenylist THEN Walk(ch, m, i, 1, "ep", cr, d, bs, atomic)
        ELSE IF d.kind = "none" THEN Stop("req", i, 0, "dl", "-", cr, bs)         \* ValidateCert: first download
        ELSE IF DenyChecked /\ c \in d.ban THEN Stop("done", i, 0, "-", "banned", cr, bs)
        ELSE Walk(ch, m, i, 1, "ep", cr, d, bs, atomic)
    ELSE IF k > Len(DPs(c)) THEN NextCert(ch, m, i, cr, d, bs, atomic)
    ELSE LET e == DPs(c)[k]
             known == cr[e].iss # "-"
             untrusted == IssuerOf(c) \notin Trusted
         IN
         IF ~known /\ untrusted THEN Stop("done", i, k, "-", "untrusted", cr, bs)
         ELSE IF known /\ IssuerAlwaysChecked /\ untrusted THEN Stop("done", i, k, "-", "untrusted", cr, bs)
         ELSE IF ~known /\ FineAdd /\ ~atomic THEN Stop("add", i, k, e, "-", cr, bs)      \* addEndpoints saw no entry
         ELSE LET cr1 == IF known THEN cr ELSE [cr EXCEPT ![e] = [iss |-> IssuerOf(c), obj |-> EmptyObj]]
                  ob == cr1[e].obj
              IN
              IF ob.kind = "empty" THEN
                  IF ~atomic THEN Stop("req", i, k, e, "-", cr1, bs)                \* updateCRL: download
                  ELSE LET o == srv[e]
                           ok == Good(o, cr1[e].iss)
                           cr2 == IF ok THEN [cr1 EXCEPT ![e].obj = StoreObj(@, o)] ELSE cr1
                           bs2 == IF Genuine(o, cr1[e].iss) THEN [bs EXCEPT ![e] = Newer(@, o)] ELSE bs
                       IN IF ok THEN Walk(ch, m, i, k, "ep", cr2, d, bs2, atomic)
                          ELSE AfterSoft(ch, m, i, k, "crlmissing", cr2, d, bs2, atomic)
              ELSE IF RevokedFirst /\ c \in ob.rev THEN Stop("done", i, k, "-", "revoked", cr1, bs)   \* takes precedence over expiry
              ELSE IF now >= ob.nxt THEN AfterSoft(ch, m, i, k, "crlexpired", cr1, d, bs, atomic)
              ELSE IF c \in ob.rev THEN Stop("done", i, k, "-", "revoked", cr1, bs)
              ELSE Walk(ch, m, i, k + 1, "ep", cr1, d, bs, atomic)

\* revalidatePeers: CheckCRL([leaf]) for every live connection, synchronously inside denylist.Update
RECURSIVE Reval(_, _, _, _, _)
Reval(todo, keep, cr, d, bs) ==
    IF todo = {} THEN [conns |-> keep, cr |-> cr, bs |-> bs]
    ELSE LET c == CHOOSE x \in todo : TRUE
             w == Walk(<<c>>, Mode("check"), 1, 0, "deny", cr, d, bs, TRUE)
         IN Reval(todo \ {c}, IF w.res = "ok" THEN keep \cup {c} ELSE keep, w.cr, d, w.bs)

(***************************************************************************)
(* Initial state: AddTruststore registered the endpoints of the CA         *)
(* certificates; nothing has been downloaded.                              *)
(***************************************************************************)
Init ==
    /\ now = 0
    /\ srv = [e \in Endpoints |-> InitSrv(e)]
    /\ dlsrv = InitDl
    /\ crls = [e \in Endpoints |-> IF e \in InitEndpoints THEN [iss |-> EpIssuer(e), obj |-> EmptyObj] ELSE NoEntry]
    /\ dl = NoDl
    /\ cfgsoft \in SoftCfgs
    /\ val = [t \in Vals |-> Idle]
    /\ syn = SynIdle
    /\ conns = {}
    /\ best = [e \in Endpoints |-> EmptyObj]
    /\ vcount = 0 /\ env = 0 /\ rounds = 0
    /\ hist = <<>>

\* ghost bookkeeping of the running validations when the denylist changes
SeenDl(v, d) == [t \in Vals |-> IF v[t].pc \in {"idle", "done"} THEN v[t] ELSE [v[t] EXCEPT !.seen = @ \cup {d}]]

Apply(t, w, extra) ==       \* thread t continues at the stop w
    val' = [extra EXCEPT ![t] = [extra[t] EXCEPT !.pc = w.pc, !.i = w.i, !.k = w.k, !.at = w.at, !.res = w.res]]

(***************************************************************************)
(* Validation goroutines                                                   *)
(***************************************************************************)
VBegin(t, ch, via, cn) ==
    /\ val[t].pc = "idle" /\ vcount < MaxVal
    /\ cn => (Head(ch) \in Conns /\ Head(ch) \notin conns /\ via # "strict")
    /\ LET m == Mode(via)
           w == Walk(ch, m, 1, 0, "deny", crls, dl, best, FALSE)
           v0 == [val EXCEPT ![t] = [Idle EXCEPT !.ch = ch, !.via = via, !.m = m, !.cn = cn, !.snap = best, !.seen = {dl}, !.t0 = now]]
       IN /\ Apply(t, w, v0)
          /\ crls' = w.cr
          /\ hist' = Log([a |-> "VBegin", t |-> t, ch |-> ch, via |-> via, cn |-> cn, soft |-> cfgsoft, at |-> w.at, pc |-> w.pc])
    /\ vcount' = vcount + 1
    /\ UNCHANGED <<now, srv, dlsrv, dl, cfgsoft, syn, conns, best, env, rounds>>

\* addEndpoints: the Store after the check (FineAdd only): whatever is in the map is replaced by an empty list
VAdd(t) ==
    /\ val[t].pc = "add"
    /\ LET v == val[t]  c == CertAt(v.ch, v.i) IN
       /\ crls' = IF AddIfAbsent /\ crls[v.at].iss # "-" THEN crls          \* LoadOrStore
                  ELSE [crls EXCEPT ![v.at] = [iss |-> IssuerOf(c), obj |-> EmptyObj]]
       /\ val' = [val EXCEPT ![t].pc = "req"]
       /\ hist' = Log([a |-> "VAdd", t |-> t])
    /\ UNCHANGED <<now, srv, dlsrv, dl, cfgsoft, syn, conns, best, vcount, env, rounds>>

VFetch(t) ==
    /\ val[t].pc = "req"
    /\ val' = [val EXCEPT ![t] = IF val[t].at = "dl" THEN [val[t] EXCEPT !.pc = "resp", !.gotd = dlsrv]
                                 ELSE [val[t] EXCEPT !.pc = "resp", !.gotc = srv[val[t].at]]]
    /\ hist' = Log([a |-> "VFetch", t |-> t, at |-> val[t].at])
    /\ UNCHANGED <<now, srv, dlsrv, crls, dl, cfgsoft, syn, conns, best, vcount, env, rounds>>

VStoreCrl(t) ==
    LET v == val[t]  e == v.at  o == v.gotc
        ok == Good(o, crls[e].iss)
        cr1 == IF ok THEN [crls EXCEPT ![e].obj = StoreObj(@, o)] ELSE crls
        bs1 == IF Genuine(o, crls[e].iss) THEN [best EXCEPT ![e] = Newer(@, o)] ELSE best
        w == IF ok THEN Walk(v.ch, v.m, v.i, v.k, "ep", cr1, dl, bs1, FALSE)
             ELSE AfterSoft(v.ch, v.m, v.i, v.k, "crlmissing", cr1, dl, bs1, FALSE)
    IN /\ v.pc = "resp" /\ v.at # "dl"
       /\ Apply(t, w, val)
       /\ crls' = w.cr /\ best' = w.bs
       /\ hist' = Log([a |-> "VStore", t |-> t, at |-> w.at, pc |-> w.pc])
       /\ UNCHANGED <<now, srv, dlsrv, dl, cfgsoft, syn, conns, vcount, env, rounds>>

VStoreDl(t) ==
    LET v == val[t]  o == v.gotd  c == CertAt(v.ch, v.i)
        ok == GoodDl(o)
        rv == IF ok THEN Reval(conns, {}, crls, o, best) ELSE [conns |-> conns, cr |-> crls, bs |-> best]
        d1 == IF ok THEN o ELSE dl
        w == IF ok THEN (IF DenyChecked /\ c \in d1.ban THEN Stop("done", v.i, 0, "-", "banned", rv.cr, rv.bs)
                         ELSE Walk(v.ch, v.m, v.i, 1, "ep", rv.cr, d1, rv.bs, FALSE))
             ELSE AfterSoft(v.ch, v.m, v.i, 0, "dlmissing", crls, dl, best, FALSE)
    IN /\ v.pc = "resp" /\ v.at = "dl"
       /\ Apply(t, w, IF ok THEN SeenDl(val, d1) ELSE val)
       /\ dl' = d1 /\ conns' = rv.conns
       /\ crls' = w.cr /\ best' = w.bs
       /\ hist' = Log([a |-> "VStore", t |-> t, at |-> w.at, pc |-> w.pc])
       /\ UNCHANGED <<now, srv, dlsrv, cfgsoft, syn, vcount, env, rounds>>

VStore(t) == VStoreCrl(t) \/ VStoreDl(t)

VEnd(t) ==
    /\ val[t].pc = "done"
    /\ conns' = IF val[t].cn /\ val[t].res = "ok" THEN conns \cup {Head(val[t].ch)} ELSE conns
    /\ val' = [val EXCEPT ![t] = Idle]
    /\ hist' = Log([a |-> "VEnd", t |-> t, res |-> val[t].res])
    /\ UNCHANGED <<now, srv, dlsrv, crls, dl, cfgsoft, syn, best, vcount, env, rounds>>

(***************************************************************************)
(* validator.sync()                                                        *)
(***************************************************************************)
SyncStart ==
    /\ ~syn.run /\ rounds < MaxRounds
    /\ syn' = [run |-> TRUE,
               req |-> {e \in Endpoints : crls[e].iss # "-" /\ now <= NotAfter(crls[e].iss)},   \* invalidByTime(issuer) is skipped
               got |-> {},
               dlp |-> IF UseDenylist THEN "req" ELSE "done", gotd |-> NoDl]
    /\ rounds' = IF CountRounds THEN rounds + 1 ELSE rounds
    /\ hist' = Log([a |-> "SyncStart", req |-> {e \in Endpoints : crls[e].iss # "-" /\ now <= NotAfter(crls[e].iss)}])
    /\ UNCHANGED <<now, srv, dlsrv, crls, dl, cfgsoft, val, conns, best, vcount, env>>

SyncFetch(e) ==
    /\ syn.run /\ e \in syn.req
    /\ syn' = [syn EXCEPT !.req = @ \ {e}, !.got = @ \cup {<<e, srv[e]>>}]
    /\ hist' = Log([a |-> "SyncFetch", e |-> e])
    /\ UNCHANGED <<now, srv, dlsrv, crls, dl, cfgsoft, val, conns, best, vcount, env, rounds>>

SyncStore(e) ==
    /\ syn.run
    /\ \E p \in syn.got :
        /\ p[1] = e
        /\ LET o == p[2]  ok == Good(o, crls[e].iss) IN
           /\ crls' = IF ok THEN [crls EXCEPT ![e].obj = StoreObj(@, o)] ELSE crls
           /\ best' = IF Genuine(o, crls[e].iss) THEN [best EXCEPT ![e] = Newer(@, o)] ELSE best
        /\ syn' = [syn EXCEPT !.got = @ \ {p}]
    /\ hist' = Log([a |-> "SyncStore", e |-> e])
    /\ UNCHANGED <<now, srv, dlsrv, dl, cfgsoft, val, conns, vcount, env, rounds>>

SyncDlFetch ==
    /\ syn.run /\ syn.dlp = "req"
    /\ syn' = [syn EXCEPT !.dlp = "resp", !.gotd = dlsrv]
    /\ hist' = Log([a |-> "SyncDlFetch"])
    /\ UNCHANGED <<now, srv, dlsrv, crls, dl, cfgsoft, val, conns, best, vcount, env, rounds>>

SyncDlStore ==
    /\ syn.run /\ syn.dlp = "resp"
    /\ LET o == syn.gotd  ok == GoodDl(o)
           rv == IF ok THEN Reval(conns, {}, crls, o, best) ELSE [conns |-> conns, cr |-> crls, bs |-> best]
       IN /\ dl' = IF ok THEN o ELSE dl          \* a list that does not verify leaves the last good one in place
          /\ conns' = rv.conns /\ crls' = rv.cr /\ best' = rv.bs
          /\ val' = IF ok THEN SeenDl(val, o) ELSE val
    /\ syn' = [syn EXCEPT !.dlp = "done", !.gotd = NoDl]
    /\ hist' = Log([a |-> "SyncDlStore"])
    /\ UNCHANGED <<now, srv, dlsrv, cfgsoft, vcount, env, rounds>>

SyncEnd ==
    /\ syn.run /\ syn.req = {} /\ syn.got = {} /\ syn.dlp = "done"
    /\ syn' = SynIdle
    /\ hist' = Log([a |-> "SyncEnd"])
    /\ UNCHANGED <<now, srv, dlsrv, crls, dl, cfgsoft, val, conns, best, vcount, env, rounds>>

(***************************************************************************)
(* Environment                                                             *)
(***************************************************************************)
Serve(e, o) ==
    /\ env < MaxEnv /\ o \in CrlCat(e) /\ srv[e] # o
    /\ srv' = [srv EXCEPT ![e] = o]
    /\ env' = env + 1
    /\ hist' = Log([a |-> "Serve", e |-> e, o |-> o.id])
    /\ UNCHANGED <<now, dlsrv, crls, dl, cfgsoft, val, syn, conns, best, vcount, rounds>>

ServeDl(o) ==
    /\ UseDenylist /\ env < MaxEnv /\ o \in DlCat /\ dlsrv # o
    /\ dlsrv' = o
    /\ env' = env + 1
    /\ hist' = Log([a |-> "ServeDl", o |-> o.id])
    /\ UNCHANGED <<now, srv, crls, dl, cfgsoft, val, syn, conns, best, vcount, rounds>>

Tick ==
    /\ now < MaxTime
    /\ now' = now + 1
    /\ hist' = Log([a |-> "Tick"])
    /\ UNCHANGED <<srv, dlsrv, crls, dl, cfgsoft, val, syn, conns, best, vcount, env, rounds>>

VNext(t) == \/ \E ch \in Chains, via \in Vias, cn \in BOOLEAN : VBegin(t, ch, via, cn)
            \/ VAdd(t) \/ VFetch(t) \/ VStore(t) \/ VEnd(t)
SyncNext == SyncStart \/ (\E e \in Endpoints : SyncFetch(e) \/ SyncStore(e)) \/ SyncDlFetch \/ SyncDlStore \/ SyncEnd
EnvNext == (\E e \in Endpoints : \E o \in CrlCat(e) : Serve(e, o)) \/ (\E o \in DlCat : ServeDl(o)) \/ Tick

Next == (\E t \in Vals : VNext(t)) \/ SyncNext \/ EnvNext
Spec == Init /\ [][Next]_vars

\* fairness: every started goroutine runs on, the sync loop keeps starting rounds; the environment is not fair (it
\* produces a finite pattern of failures and then stays as it is)
FairSpec == /\ Spec
            /\ \A t \in Vals : WF_vars(VAdd(t) \/ VFetch(t) \/ VStore(t) \/ VEnd(t))
            /\ WF_vars(SyncNext)

(***************************************************************************)
(* Properties                                                              *)
(***************************************************************************)
Results == {"ok", "revoked", "banned", "untrusted", "crlmissing", "crlexpired", "dlmissing"}
ObjOK(o) == o.kind \in {"empty", "good", "badsig", "fail"}
TypeOK ==
    /\ now \in 0..MaxTime
    /\ \A e \in Endpoints : srv[e] \in CrlCat(e) /\ ObjOK(crls[e].obj)
    /\ dlsrv \in DlCat \cup {InitDl}
    /\ \A t \in Vals : /\ val[t].pc \in {"idle", "add", "req", "resp", "done"}
                       /\ val[t].pc = "done" => val[t].res \in Results
                       /\ val[t].pc \in {"req", "resp", "add"} => val[t].at \in Endpoints \cup {"dl"}
    /\ conns \subseteq Conns

Done(t) == val[t].pc = "done"
WantHard(t) == val[t].via = "strict" \/ ~cfgsoft          \* what the caller asked for
Accepted(t) == Done(t) /\ val[t].res = "ok"
ChainCerts(t) == ToSet(val[t].ch)

\* P1: a certificate that the newest correctly signed list (downloaded before the validation began) lists as revoked is
\*     never accepted - in either mode, whatever was served afterwards
NeverAcceptRevoked ==
    \A t \in Vals : Accepted(t) =>
        \A c \in ChainCerts(t) : \A j \in 1..Len(DPs(c)) : c \notin val[t].snap[DPs(c)[j]].rev

\* P2: a certificate banned by the last good denylist is never accepted (a denylist that changed during the validation:
\*     the verdict is right for one of the lists that were current during the call)
NeverAcceptBanned ==
    \A t \in Vals : Accepted(t) => \E d \in val[t].seen : ChainCerts(t) \cap d.ban = {}

\* P3: an older or wrongly signed list never replaces a newer good one; nothing but good lists of the right issuer is stored
NoRollback ==
    \A e \in Endpoints : best[e].kind = "good" => (crls[e].obj.kind = "good" /\ crls[e].obj.num >= best[e].num)
OnlyGoodStored ==
    /\ \A e \in Endpoints : crls[e].obj.kind \in {"empty", "good"} /\ (crls[e].obj.kind = "good" => crls[e].obj.iss = crls[e].iss)
    /\ dl.kind \in {"none", "good"}

\* P4: hard-fail accepts only with an unexpired good list for every distribution point and a loaded denylist
HardfailSound ==
    \A t \in Vals : (Accepted(t) /\ WantHard(t)) =>
        /\ UseDenylist => dl.kind = "good"
        /\ \A c \in ChainCerts(t) : \A j \in 1..Len(DPs(c)) :
              LET e == DPs(c)[j] IN /\ IssuerOf(c) \in Trusted
                                    /\ best[e].kind = "good" /\ best[e].nxt > val[t].t0

\* P5: soft-fail bypasses exactly the three "cannot be established" conditions, and every rejection has its cause
Justified(t) ==
    LET r == val[t].res IN
    /\ r = "revoked" => \E c \in ChainCerts(t) : \E j \in 1..Len(DPs(c)) : c \in best[DPs(c)[j]].rev
    /\ r = "banned" => \E d \in val[t].seen : ChainCerts(t) \cap d.ban # {}
    /\ r = "untrusted" => \E c \in ChainCerts(t) : IssuerOf(c) \notin Trusted
SoftfailExact ==
    \A t \in Vals : Done(t) =>
        /\ Justified(t)
        /\ ~WantHard(t) => val[t].res \in {"ok", "revoked", "banned", "untrusted"}
\* ... and bypasses nothing else: a chain with a certificate of an unknown issuer (that names a distribution point) is not accepted
UnknownIssuerRejected ==
    \A t \in Vals : Accepted(t) => \A c \in ChainCerts(t) : (Len(DPs(c)) > 0 => IssuerOf(c) \in Trusted)

\* P6: a chain is checked CA first and a revoked CA fails every leaf below it: a validation never gets past a certificate
\*     that the lists known at its beginning revoke (so the verdict for a revoked CA is "revoked" even when the CRLs
\*     further down can no longer be obtained)
StopIdx(t) == IF CAFirst THEN Len(val[t].ch) + 1 - val[t].i ELSE val[t].i       \* index (leaf = 1) of the certificate the validation stopped at
RevSnap(t, c) == \E j \in 1..Len(DPs(c)) : c \in val[t].snap[DPs(c)[j]].rev
StopsAtRevoked ==
    \A t \in Vals : Done(t) => \A j \in (StopIdx(t) + 1)..Len(val[t].ch) : ~RevSnap(t, val[t].ch[j])

\* P7 (liveness): a live connection whose certificate is banned by the loaded denylist is eventually closed, provided the
\*     denylist URL keeps answering with a good list
BannedConn(c) == c \in conns /\ c \in dl.ban
BannedClosed ==
    (<>[](dlsrv.kind = "good")) => \A c \in Conns : (BannedConn(c) ~> ~BannedConn(c))
\* without the availability assumption the property does NOT hold (a peer validated before the ban and registered after the
\* revalidation stays connected until the next successful Update): used as vacuity guard
BannedClosedUncond == \A c \in Conns : (BannedConn(c) ~> ~BannedConn(c))
\* every validation returns, every round ends
Terminates == /\ \A t \in Vals : (val[t].pc # "idle") ~> (val[t].pc = "idle")
              /\ syn.run ~> ~syn.run
=============================================================================
