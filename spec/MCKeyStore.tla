----------------------------- MODULE MCKeyStore -----------------------------
(* Name classes and backends for model checking KeyStore.tla; mirrors harness/drivers/keystore (nameClasses). *)
EXTENDS KeyStore, Json

AllNameClasses == {"uuid", "kid", "dotdot", "dotted", "dotdotslash", "slash", "abs", "backslash", "pct2F", "pct2e2e", "space", "hash", "empty", "long300", "nul"}

\* crypto/storage/spi: KidPattern = ^(?:(?:[\da-zA-Z_\- :#.])|(?:%[0-9a-fA-F]{2}))+$
MCPatternOK(nc) == nc \in {"uuid", "kid", "dotted", "pct2F", "pct2e2e", "space", "hash", "long300"}

\* which admitted-or-not class would leave the namespace on which backend if it got there
\*   fs:    <dir>/<name>_private.pem : only a path separator leaves the directory
\*   vault: Clean(<prefix>/nuts-private-keys/Base(<name>)) : ".." climbs to <prefix>; a path separator is cut by Base()
MCOutside(b, nc) ==
    \/ b = "fs" /\ nc \in {"dotdotslash", "slash", "abs"}
    \/ b = "vault" /\ nc \in {"dotdot"}

\* every key family jwx knows; oct is symmetric only
Families == {"EC-P256", "EC-P384", "EC-P521", "RSA", "OKP-Ed25519", "OKP-X25519"}
AllFamilies == Families \cup {"oct"}
MCJwkClasses == {<<"none", "-">>, <<"sym", "oct">>} \cup {<<"pub", f>> : f \in Families} \cup {<<"priv", f>> : f \in Families}
\* smaller set for the longer configs: one public control, private keys of three families, the symmetric key
MCJwkClassesSmall == {<<"none", "-">>, <<"sym", "oct">>, <<"pub", "EC-P256">>, <<"priv", "EC-P256">>, <<"priv", "OKP-Ed25519">>, <<"priv", "RSA">>}
\* what the code refuses today: jwk.Raw() of the header key is assignable to crypto.Signer (measured by the driver, see keystore.py)
MCRefusedToday == AllFamilies   \* since 160898c (was: without OKP-X25519 and oct, findings F24)
MCRefusedOnlyEcRsa == {"EC-P256", "EC-P384", "EC-P521", "RSA"}

\* what util.PemToPrivateKey (fs / vault backends) can hold; X25519 (PKCS#8) is NOT supported by it: an operation on such a
\* file has to fail without disclosing anything
HeldFamilies == {"EC-P256", "EC-P384", "EC-P521", "RSA", "Ed25519"}
HeldFamiliesSmall == {"EC-P256", "RSA", "Ed25519"}
EcFamilies == {"EC-P256", "EC-P384", "EC-P521"}

\* request key ids no key is bound to (the driver derives the near misses from a kid / storage name that exists in the store)
MCKidClasses == {"empty", "unknown", "prefix", "suffixed", "upper", "padded", "sqlwild", "sqlany", "name", "pct"}
MCKidClassesSmall == {"empty", "unknown", "prefix", "sqlwild"}
\* caller supplied kid header that is not a kid of the model (the kids of the model are added by the spec: same / another key's)
MCHdrKidClasses == {"none", "unbound", "empty"}
MCHdrKidNone == {"none"}   \* for the descriptive generation config: the kids of the model only (KeyStore.gen.byid.cfg has all)

\* for the generation config of the by-key-id dimension: no jwk header / a public one (the artefact then carries no kid)
MCJwkClassesTiny == {<<"none", "-">>, <<"pub", "EC-P256">>}
EcOnly == {"EC-P256"}

AllDone == ops = MaxOps
EmitOps == (AllDone /\ Hist) => PrintT(ToJson(hist))
=============================================================================
