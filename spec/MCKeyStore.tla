----------------------------- MODULE MCKeyStore -----------------------------
(* Name classes and backends for model checking KeyStore.tla; mirrors harness/drivers/keystore (nameClasses). *)
EXTENDS KeyStore, Json

AllNameClasses == {"uuid", "kid", "dotdot", "dotted", "dotdotslash", "slash", "abs", "backslash", "pct2F", "pct2e2e", "space", "hash", "empty", "long300", "nul"}

\* crypto/storage/spi: KidPattern = ^(?:(?:[\da-zA-Z_\- :#.])|(?:%[0-9a-fA-F]{2}))+$
MCPatternOK(nc) == nc \in {"uuid", "kid", "dotted", "pct2F", "pct2e2e", "space", "hash", "long300"}

\* which admitted-or-not class would leave the namespace on which backend if it got there
\*   fs:    <dir>/<name>_private.pem : only a path separator leaves the directory
\*   vault: Clean(<prefix>/nuts-private-keys/Base(<name>)) : ".." climbs to <prefix>; a path separator is cut by Base()
MCOutside(b, nc) ==
    \/ b = "fs" /\ nc \in {"dotdotslash", "slash", "abs"}
    \/ b = "vault" /\ nc \in {"dotdot"}

AllDone == ops = MaxOps
EmitOps == (AllDone /\ Hist) => PrintT(ToJson(hist))
=============================================================================
