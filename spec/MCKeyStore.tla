----------------------------- MODULE MCKeyStore -----------------------------
(* Name classes and backends for model checking KeyStore.tla; mirrors harness/drivers/keystore (nameClasses). *)
EXTENDS KeyStore, Json

AllNameClasses == {"uuid", "kid", "dotdot", "dotted", "dotdotslash", "slash", "abs", "backslash", "pct2F", "pct2e2e", "space", "hash", "empty", "long300", "nul"}

\* crypto/storage/spi: KidPattern = ^(?:(?:[\da-zA-Z_\- :#.])|(?:%[0-9a-fA-F]{2}))+$
MCPatternOK(nc) == nc \in {"uuid", "kid", "dotted", "pct2F", "pct2e2e", "space", "hash", "long300"}

\* which admitted-or-not class would leave the namespace on which backend if it got there
\*   fs:    <dir>/<name>_private.pem : only a path separator leaves the directory
\*   vault: Clean(<prefix>/nuts-private-keys/Base(<name>)) : ".." climbs to <prefix>; a path separator is cut by Base()
MCOutside(b, nc) ==
    \/ b = "fs" /\ nc \in {"dotdotslash", "slash", "abs"}
    \/ b = "vault" /\ nc \in {"dotdot"}

\* every key family jwx knows; oct is symmetric only
Families == {"EC-P256", "EC-P384", "EC-P521", "RSA", "OKP-Ed25519", "OKP-X25519"}
AllFamilies == Families \cup {"oct"}
MCJwkClasses == {<<"none", "-">>, <<"sym", "oct">>} \cup {<<"pub", f>> : f \in Families} \cup {<<"priv", f>> : f \in Families}
\* smaller set for the longer configs: one public control, private keys of three families, the symmetric key
MCJwkClassesSmall == {<<"none", "-">>, <<"sym", "oct">>, <<"pub", "EC-P256">>, <<"priv", "EC-P256">>, <<"priv", "OKP-Ed25519">>, <<"priv", "RSA">>}
\* what the code refuses today: jwk.Raw() of the header key is assignable to crypto.Signer (measured by the driver, see keystore.py)
MCRefusedToday == AllFamilies   \* since 160898c (was: without OKP-X25519 and oct, findings F24)
MCRefusedOnlyEcRsa == {"EC-P256", "EC-P384", "EC-P521", "RSA"}

\* what util.PemToPrivateKey (fs / vault backends) can hold; X25519 (PKCS#8) is NOT supported by it: an operation on such a
\* file has to fail without disclosing anything
HeldFamilies == {"EC-P256", "EC-P384", "EC-P521", "RSA", "Ed25519"}
HeldFamiliesSmall == {"EC-P256", "RSA", "Ed25519"}
EcFamilies == {"EC-P256", "EC-P384", "EC-P521"}

AllDone == ops = MaxOps
EmitOps == (AllDone /\ Hist) => PrintT(ToJson(hist))
=============================================================================
