--------------------------- MODULE TraceSubject ---------------------------
(***************************************************************************)
(* Trace validation: executions of the REAL didsubject.SqlManager (one     *)
(* event per step and request goroutine p: tx1, commit, tx2, stop, tick,   *)
(* sweep; each with the                                                    *)
(* projected real state: DID rows, version numbers per DID, change-log     *)
(* size, number of did:nuts documents on the network, service / key count  *)
(* of the latest did:web document) must be behaviours of Subject.tla with  *)
(* the descriptive constants.  Traces are concatenated; "reset" starts the *)
(* next one; its first event "config" carries the configuration the real   *)
(* node ran with (enabled DID methods, naming of Create).                  *)
(***************************************************************************)
EXTENDS MCSubject, IOUtils

TraceLog == ndJsonDeserialize(IOEnv.VERIF_TRACE)
VARIABLE l
tvars == <<vars, l>>

Ev == TraceLog[l]
IsEvent(e) == l <= Len(TraceLog) /\ Ev.ev = e /\ l' = l + 1

SeqSet(q) == {q[i] : i \in DOMAIN q}
\* the projection logged by the driver equals the model state AFTER the step
ProjOK(s) ==
    LET p == Ev.st[s] IN
    \* the DIDs listed under the subject's name: one per enabled method and generation
    /\ p.rows = Cardinality(Methods) * Cardinality(rows'[s])
    /\ SeqSet(p.web) = {v.n : v \in vers'[s]["web"]}
    /\ SeqSet(p.nuts) = {v.n : v \in vers'[s]["nuts"]}
    /\ (rows'[s] # {} /\ "nuts" \in Methods => p.pub = Len(pub'[s]))   \* counted for the listed DID only
    \* service / key count of the latest document of the reference DID (did:web when enabled)
    /\ LET rm == IF "web" \in Methods THEN "web" ELSE "nuts" IN
       (vers'[s][rm] # {} =>
          LET c == CHOOSE v \in vers'[s][rm] : \A w \in vers'[s][rm] : w.n <= v.n IN
          p.svc = c.svc /\ p.nkeys = Cardinality(c.keys))
StateOK == /\ \A s \in Subjects : ProjOK(s)
           /\ Ev.log = Cardinality(log')

TReset == /\ IsEvent("reset")
          /\ rows' = [s \in Subjects |-> {}]
          /\ vers' = [s \in Subjects |-> [m \in AllMethods |-> {}]]
          /\ owner' = [s \in Subjects |-> NoOwner] /\ UNCHANGED cfg
          /\ log' = {} /\ pub' = [s \in Subjects |-> <<>>]
          /\ pc' = [p \in Procs |-> Idle] /\ nops' = 0 /\ faults' = 0 /\ ticks' = 0 /\ sweeps' = 0 /\ swept' = TRUE
          /\ pubtx' = {} /\ abandoned' = {} /\ pubkeys' = {} /\ retryOp' = [s \in Subjects |-> "none"]
          /\ phase' = "run" /\ todo' = {} /\ hist' = <<>>

\* first event of every real trace: the configuration the node ran with and the way the driver named the subjects
TConfig == /\ IsEvent("config") /\ nops = 0 /\ \A s \in Subjects : rows[s] = {}
           /\ cfg' = [ms |-> SeqSet(Ev.methods), nm |-> Ev.naming]
           /\ UNCHANGED <<rows, vers, log, pub, pc, nops, faults, ticks, sweeps, swept, pubtx, abandoned, pubkeys, retryOp, phase, todo, owner, hist>>

\* the first SQL transaction: refused / no change / changed, as the real call reported
TTx1 == /\ IsEvent("tx1") /\ Tx1Core(Ev.op, Ev.s, Ev.p)
        /\ Ev.out = (IF Rejected(Ev.op, Ev.s) THEN "reject" ELSE IF pc'[Ev.p].ph = "commit" THEN "changed" ELSE "noop")
        /\ StateOK
TCommit == /\ IsEvent("commit") /\ CommitMethod(Ev.p, Ev.m)
           /\ (Ev.res = "fail") <=> pc'[Ev.p].failed
           /\ StateOK
TTx2 == /\ IsEvent("tx2") /\ Tx2(Ev.p)
        /\ (Ev.kind = "abandon") <=> pc[Ev.p].failed
        /\ StateOK
TStop == IsEvent("stop") /\ Stop /\ StateOK
TTick == IsEvent("tick") /\ Tick /\ StateOK
TSweep == /\ IsEvent("sweep") /\ Sweep
          /\ Ev.aborted <=> (log' = log /\ \E x \in log : Old(x) /\ x.m = "nuts" /\ NutsErr(x))
          /\ StateOK

TraceNext == TReset \/ TConfig \/ TTx1 \/ TCommit \/ TTx2 \/ TStop \/ TTick \/ TSweep
TraceInit == Init /\ l = 1 /\ TLCSet(1, 1)
TraceSpec == TraceInit /\ [][TraceNext]_tvars

Progress == TLCSet(1, IF l > TLCGet(1) THEN l ELSE TLCGet(1))
TraceAccepted ==
    \/ TLCGet(1) = Len(TraceLog) + 1
    \/ Print(<<"TRACE-REJECTED-AT", TLCGet(1), TraceLog[TLCGet(1)]>>, FALSE)
=============================================================================
