------------------------------- MODULE OAuth -------------------------------
(***************************************************************************)
(* The OAuth2 authorization server of a Nuts node (auth/api/iam):          *)
(*                                                                         *)
(*   S2SToken       POST /oauth2/{subject}/token, grant vp_token-bearer    *)
(*                  = handleS2SAccessTokenRequest      (s2s_vptoken.go)    *)
(*   S2SReplay      the very same presentation is sent once more           *)
(*   Authorize      GET  /oauth2/{subject}/authorize (JAR, PKCE challenge) *)
(*                  = handleAuthorizeRequestFromHolder (openid4vp.go)      *)
(*   AuthzResponse  POST /oauth2/{subject}/response (direct_post)          *)
(*                  = handleAuthorizeResponseSubmission                    *)
(*   CodeToken      POST /oauth2/{subject}/token, grant authorization_code *)
(*                  = handleAccessTokenRequest                             *)
(*   Introspect     POST /internal/auth/v2/accesstoken/introspect[_ext..]  *)
(*                  = introspectAccessToken            (api.go)            *)
(*   Tick           5 seconds pass (presentation / nonce time scale)       *)
(*   Age            TokenTTL-th part of the token lifetime passes          *)
(*                                                                         *)
(* A request is a set of DEFECT FLAGS over a valid baseline request.  Each *)
(* action is the ORDERED pipeline of checks of the Go handler, as          *)
(* implemented: the first failing check determines the answer and which    *)
(* side effects (nonce burn, code burn) already happened.                  *)
(*                                                                         *)
(* Two clocks: `now` in units of one presentation validity period          *)
(* (s2sMaxPresentationValidity = s2sMaxClockSkew = 5 s, nonce retention    *)
(* 15 s; the harness uses a unit of 6 s and sends at 2.5 s into the unit,  *)
(* which makes every comparison of the node fall >= 1.5 s off a boundary   *)
(* and VPWindow = Skew = 1, NonceTTL = 3 the exact abstraction) and `age`  *)
(* in units of accessTokenValidity / TokenTTL.  The time scales are three  *)
(* orders of magnitude apart; the harness realises Tick by waiting and Age *)
(* by moving the stored token's timestamps.                                *)
(*                                                                         *)
(* Deviations of the code from the property are named constants:           *)
(*   Guarded      claim names refused when a token is introspected (code:  *)
(*                seven names; prescriptive: every response member)        *)
(*   NonceTTL     retention of a used s2s nonce (prescriptive: validity +  *)
(*                2 skews, the acceptance span of a JSON-LD presentation;  *)
(*                the code kept it for validity + 1 skew until the repair  *)
(*                of C02-replaywindow, now 3 as well)                      *)
(*   S2SAllDefs   vp_token-bearer requires every definition the scope maps *)
(*                to (code: FALSE, one submission is enough)               *)
(*   ExtClaims    introspect_extended answers with the claims established  *)
(*                at issuance (code: TRUE since the repair of              *)
(*                C02-extclaims; before, the generated response type had   *)
(*                no MarshalJSON and AdditionalProperties were dropped)    *)
(***************************************************************************)
EXTENDS Naturals, FiniteSets, Sequences, TLC

CONSTANTS
    Nonces,       \* nonce values a client may choose
    S2SDefects,   \* defect flags available to vp_token-bearer requests
    RespDefects,  \* defect flags available to authorization responses
    TokDefects,   \* defect flags available to authorization_code token requests
    AuthDefects,  \* defect flags available to authorization requests (the scope is fixed there)
    Shapes,       \* envelopes: [nvp |-> number of presentations (all of one holder), main |-> position of the presentation
                  \* with the credentials the submission maps, pos |-> position of the presentation that carries the
                  \* per-presentation defect flags of the request (wrong audience, dates, nonce, signature, credential)]
    WrongAuds,    \* audiences of a request WITH the flag "aud": not this authorization server
    OkAuds,       \* audiences of a request WITHOUT the flag "aud": this server ("exact", "array_with") or a URL derived from its
                  \* identifier (NearAuds: the statement does not say whether those address this server; the code refuses them)
    MaxDefects,   \* flags per request (2 = all pairs)
    Defs,         \* definition variants: "plain", or the name of a response member used as constraint-field id
    DPoPKeys,     \* "none" or the name of the key that signed the DPoP proof
    Clients,      \* client ids
    Formats,      \* proof formats of the presentation: "ldp" (proof dates checked with skew), "jwt" (no skew)
    Futures,      \* 0: presentation dated now, 1: post-dated by one unit (still accepted thanks to the skew)
    Flows,        \* subset of {"s2s", "code"}: which grant types the behaviours use
    MaxSteps,     \* bound on the length of a behaviour (requests, introspections, ticks)
    MaxSess,      \* bound on authorization-code sessions
    MaxNow, MaxAge, TokenTTL, NonceTTL, VPWindow, Skew,
    Guarded, Members, S2SAllDefs,
    ExtClaims,    \* TRUE: introspect_extended carries the credential-derived claims like introspect does (code: TRUE since the repair of C02-extclaims)
    Exts,         \* which endpoint variants are used: subset of BOOLEAN (TRUE = introspect_extended)
    Hist

None == "none"
NoTime == 99

VARIABLES
    now, age,
    burnt,     \* [Nonces -> time of the last burn | NoTime]            (s2s nonce store)
    lastp,     \* the last presentation sent (for S2SReplay), abstracted to what a replay depends on
    npres,     \* number of presentations built so far (names them)
    tokens,    \* issued tokens: sequence of records, token id = "t" \o index
    sess,      \* authorization-code sessions: sequence of records
    intro,     \* history: last introspection answer
    steps,
    last,      \* the last action (part of the VIEW of generation configs: one witness per transition)
    hist

vars == <<now, age, burnt, lastp, npres, tokens, sess, intro, steps, last, hist>>
view == <<now, age, burnt, lastp, tokens, sess, intro, steps>>
viewLast == <<now, age, burnt, lastp, tokens, sess, intro, steps, last>>

Log(e) == /\ hist' = (IF Hist THEN Append(hist, e) ELSE hist)
          /\ last' = e
          /\ steps' = steps + 1

TokId(i) == "t" \o ToString(i)
SessId(i) == "s" \o ToString(i)
PresId(i) == "p" \o ToString(i)
\* all sets of at most MaxDefects flags (written out for <= 2: SUBSET of 17 flags is too costly to filter per step)
DefectSets(D) == IF MaxDefects = 0 THEN {{}}
                 ELSE IF MaxDefects = 1 THEN {{}} \cup {{a} : a \in D}
                 ELSE IF MaxDefects = 2 THEN {{}} \cup {{a, b} : a \in D, b \in D}
                 ELSE {d \in SUBSET D : Cardinality(d) <= MaxDefects}

Init ==
    /\ now = 0 /\ age = 0
    /\ burnt = [n \in Nonces |-> NoTime]
    /\ lastp = [cls |-> None] /\ npres = 0
    /\ tokens = <<>> /\ sess = <<>>
    /\ intro = [kind |-> None]
    /\ steps = 0
    /\ last = [a |-> None]
    /\ hist = <<>>

(***************************************************************************)
(* Reference notions                                                       *)
(***************************************************************************)
\* the s2s nonce store remembers n
Remembered(n) == burnt[n] # NoTime /\ now < burnt[n] + NonceTTL
\* VerifyVP's time check of a presentation created at c (valid for VPWindow)
TimeValid(c, fmt) == IF fmt = "ldp" THEN c <= now + Skew /\ now < c + VPWindow + Skew
                                    ELSE c <= now /\ now < c + VPWindow
\* Audience of the presentation at position pos (JWT aud / JSON-LD proof domain).  This server's identifier is
\* <node URL>/oauth2/<subject>.
\*   exact          the identifier                       array_with     several audiences, the identifier among them
\*   missing        none                                 unrelated      another host
\*   other_tenant   another subject of this node         extends        a subject whose id EXTENDS this one's (as -> as2)
\*   prefix         a subject whose id is a PREFIX of this one's       array_without  several audiences, all foreign
\*   slash / path / query / hostcase   the identifier with a trailing slash / one more path segment / a query / HOST in capitals
AllWrongAuds == {"missing", "unrelated", "other_tenant", "extends", "prefix", "array_without"}
NearAuds == {"slash", "path", "query", "hostcase"}
AudsFor(d) == IF "aud" \in d THEN WrongAuds ELSE OkAuds
\* validatePresentationAudience: string equality with one of the audiences
AudAccepted(d, audv) == "aud" \notin d /\ audv \notin NearAuds
\* requested scope strings no presentation definition is configured for
ScopeDefects == {"scope", "multiscope"}
\* defects found by Verifier.VerifyVP
VerifyDefects == {"vpsig", "vcsig", "revoked", "expired", "stale"}
\* claim names a definition variant derives from the credentials
ClaimNames(def) == IF def = "plain" THEN {} ELSE {def}

NewToken(flow, client, cnf, def, n, clean) ==
    [flow |-> flow, iss |-> "as", client |-> client, scope |-> "s1", cnf |-> cnf, def |-> def,
     iat |-> age, exp |-> age + TokenTTL, n |-> n, at |-> now, clean |-> clean]

(***************************************************************************)
(* vp_token-bearer.  Order as implemented: per presentation validity,      *)
(* signer, audience; scope -> definitions; submission; nonce (burn);       *)
(* DPoP; VerifyVP; store.                                                  *)
(***************************************************************************)
\* the first check a defect set fails statically (nonce memory and time apart)
Class(d, audv) ==
    IF d \cap {"nodates", "validity"} # {} THEN "validity"
    ELSE IF "signer" \in d THEN "signer"
    ELSE IF ~AudAccepted(d, audv) THEN "audience"
    ELSE IF "mixed" \in d THEN "signer"                  \* the second presentation of the envelope
    \* "scope": a value no definition is configured for.  "multiscope": a space-delimited LIST of scope values (RFC 6749
    \* 3.3) - two configured values of which the submission fulfils one, or a configured and an unknown one.  The policy
    \* backend looks the whole string up: no definition is configured for it.
    ELSE IF d \cap ScopeDefects # {} THEN "scope"
    ELSE IF d \cap {"foreigndef", "unfulfilled", "forgedmap"} # {} THEN "submission"
    ELSE IF "partial" \in d /\ S2SAllDefs THEN "submission"
    ELSE IF "nononce" \in d THEN "nonce"
    ELSE IF "baddpop" \in d THEN "dpop"
    ELSE IF d \cap VerifyDefects # {} THEN "verify"
    ELSE "ok"
\* early: the presentation without nonce comes AFTER the one that carries nonce n, whose nonce the loop has burnt by then
S2SStage(cls, n, c, fmt, early) ==
    IF cls \in {"validity", "signer", "audience", "scope", "submission"} THEN cls
    ELSE IF cls = "nonce" /\ ~early THEN "nonce"
    ELSE IF Remembered(n) THEN "replay"
    ELSE IF cls = "nonce" THEN "nonce"
    ELSE IF cls = "dpop" THEN "dpop"
    ELSE IF cls = "verify" \/ ~TimeValid(c, fmt) THEN "verify"
    ELSE "issue"
Burns(stage, early) == stage \in {"replay", "dpop", "verify", "issue"} \/ (stage = "nonce" /\ early)
Early(d, sh) == "nononce" \in d /\ sh.main < sh.pos
\* does the request carry nonce n at all?
HasNonce(d, sh) == ~("nononce" \in d /\ sh.main = sh.pos)
ErrCode(stage) == CASE stage = "scope" -> "invalid_scope"
                    [] stage = "dpop" -> "invalid_dpop_proof"
                    [] stage = "issue" -> "issued"
                    [] OTHER -> "invalid_request"

\* the effect of one vp_token-bearer request carrying presentation p; clean = it has no defect flag
S2SEffect(p, stage, clean) ==
    /\ burnt' = IF Burns(stage, p.early) THEN [burnt EXCEPT ![p.n] = now] ELSE burnt
    /\ tokens' = IF stage = "issue"
                 THEN Append(tokens, NewToken("s2s", p.client, p.dpop, p.def, p.n, clean))
                 ELSE tokens

\* S2SDo: the request is answered as in `stage` (S2SToken: the stage the pipeline computes; the trace specification also
\* uses it to reconstruct what a real node did).  clean: no defect flag and the pipeline would issue.
S2SDo(d, n, fmt, fut, def, dpop, client, sh, audv, stage) ==
    /\ "s2s" \in Flows /\ steps < MaxSteps
    /\ LET p == [cls |-> Class(d, audv), n |-> n, c |-> now + fut, fmt |-> fmt, def |-> def, dpop |-> dpop, client |-> client,
                 early |-> Early(d, sh), acc |-> FALSE]
       IN /\ S2SEffect(p, stage, d = {} /\ S2SStage(p.cls, n, p.c, fmt, p.early) = "issue")
          /\ lastp' = [p EXCEPT !.acc = (stage = "issue")] /\ npres' = npres + 1
          /\ Log([a |-> "S2SToken", p |-> PresId(npres + 1), d |-> d, n |-> n, fmt |-> fmt, fut |-> fut, def |-> def,
                  dpop |-> dpop, client |-> client, nvp |-> sh.nvp, main |-> sh.main, pos |-> sh.pos, audv |-> audv,
                  res |-> ErrCode(stage), stage |-> stage,
                  tok |-> IF stage = "issue" THEN TokId(Len(tokens) + 1) ELSE None])
    /\ UNCHANGED <<now, age, sess, intro>>
S2SToken(d, n, fmt, fut, def, dpop, client, sh, audv) ==
    S2SDo(d, n, fmt, fut, def, dpop, client, sh, audv, S2SStage(Class(d, audv), n, now + fut, fmt, Early(d, sh)))

\* the identical bytes once more (an eavesdropper, or the client itself): a defect once the presentation was accepted
S2SReplayDo(stage) ==
    /\ "s2s" \in Flows /\ steps < MaxSteps /\ lastp.cls # None
    /\ LET p == lastp
       IN /\ S2SEffect(p, stage, p.cls = "ok" /\ ~p.acc /\ S2SStage(p.cls, p.n, p.c, p.fmt, p.early) = "issue")
          /\ lastp' = [p EXCEPT !.acc = @ \/ stage = "issue"]
          \* edge: only the remembered nonce stands between this replay and a token (the presentation is still accepted by
          \* VerifyVP) and the nonce is in the last tick of its retention - the behaviours on which a shorter retention shows
          /\ Log([a |-> "S2SReplay", p |-> PresId(npres), n |-> p.n, res |-> ErrCode(stage), stage |-> stage,
                  tok |-> IF stage = "issue" THEN TokId(Len(tokens) + 1) ELSE None,
                  edge |-> (stage = "replay" /\ p.cls = "ok" /\ TimeValid(p.c, p.fmt) /\ now + 1 = burnt[p.n] + NonceTTL)])
    /\ UNCHANGED <<now, age, npres, sess, intro>>
S2SReplay == lastp.cls # None /\ S2SReplayDo(S2SStage(lastp.cls, lastp.n, lastp.c, lastp.fmt, lastp.early))

(***************************************************************************)
(* authorization_code with OpenID4VP                                       *)
(***************************************************************************)
\* handleAuthorizeRequestFromHolder: the definitions of the requested scope are looked up first; a scope string nothing is
\* configured for ends the flow (error redirect).  AuthorizeDo(.., ok): the trace specification also uses it to reconstruct
\* a session a real node opened for such a scope - nothing issued from it is clean.
AuthorizeDo(client, def, d, ok) ==
    /\ "code" \in Flows /\ steps < MaxSteps /\ (ok => Len(sess) < MaxSess)
    /\ sess' = IF ok THEN Append(sess, [client |-> client, def |-> def, st |-> "open", clean |-> d = {}]) ELSE sess
    /\ Log([a |-> "Authorize", s |-> IF ok THEN SessId(Len(sess) + 1) ELSE None, client |-> client, def |-> def, d |-> d,
            res |-> IF ok THEN "ok" ELSE "invalid_scope"])
    /\ UNCHANGED <<now, age, burnt, lastp, npres, tokens, intro>>
Authorize(client, def, d) == AuthorizeDo(client, def, d, d \cap ScopeDefects = {})

\* order as implemented: state -> tenant -> nonce (burnt) -> signer -> audience -> VerifyVP -> fulfil -> code
\* validatePresentationNonce: all presentations must carry one and the same nonce; otherwise every nonce that was found
\* is deleted - with several presentations that includes the session's own nonce ("noncemix")
RespStage(d, st, audv, nvp) ==
    IF "state" \in d THEN "state"
    ELSE IF "tenant" \in d THEN "state"
    ELSE IF d \cap {"nononce", "badnonce"} # {} /\ nvp > 1 /\ st = "open" THEN "noncemix"
    ELSE IF "nononce" \in d THEN "nonce"                \* nothing to burn
    ELSE IF "badnonce" \in d THEN "nonce"               \* a nonce of nobody: nothing burnt
    ELSE IF st # "open" THEN "nonce"                    \* the session's nonce is gone
    ELSE IF d \cap {"signer", "mixed"} # {} THEN "signer"
    ELSE IF ~AudAccepted(d, audv) THEN "audience"
    ELSE IF d \cap VerifyDefects # {} THEN "verify"
    ELSE IF d \cap {"foreigndef", "unfulfilled", "forgedmap"} # {} THEN "submission"
    ELSE "code"
RespBurns(stage) == stage \in {"noncemix", "signer", "audience", "verify", "submission", "code"}

AuthzDo(i, d, fmt, sh, audv, stage) ==
    /\ "code" \in Flows /\ steps < MaxSteps /\ i \in 1..Len(sess)
    /\ sess' = [sess EXCEPT ![i].st = IF stage = "code" THEN "coded"
                                      ELSE IF RespBurns(stage) /\ @ = "open" THEN "dead" ELSE @,
                            ![i].clean = IF stage = "code" THEN @ /\ d = {} /\ RespStage(d, sess[i].st, audv, sh.nvp) = "code" ELSE @]
    /\ Log([a |-> "AuthzResponse", s |-> SessId(i), d |-> d, fmt |-> fmt, nvp |-> sh.nvp, main |-> sh.main, pos |-> sh.pos, audv |-> audv,
            res |-> IF stage = "code" THEN "code" ELSE "invalid_request", stage |-> stage])
    /\ UNCHANGED <<now, age, burnt, lastp, npres, tokens, intro>>
AuthzResponse(i, d, fmt, sh, audv) == i \in 1..Len(sess) /\ AuthzDo(i, d, fmt, sh, audv, RespStage(d, sess[i].st, audv, sh.nvp))

\* order as implemented: code present -> (code burnt from here on) -> lookup -> client_id -> PKCE -> DPoP -> store
TokStage(d, st) ==
    IF "nocode" \in d THEN "param"
    ELSE IF "code" \in d THEN "grant"                    \* a code nobody issued
    ELSE IF st # "coded" THEN "grant"                    \* no code yet / code already presented
    ELSE IF "client" \in d THEN "client"
    ELSE IF "verifier" \in d THEN "pkce"
    ELSE IF "baddpop" \in d THEN "dpop"
    ELSE "issue"
TokErr(stage) == CASE stage \in {"grant", "pkce"} -> "invalid_grant"
                   [] stage = "dpop" -> "invalid_dpop_proof"
                   [] stage = "issue" -> "issued"
                   [] OTHER -> "invalid_request"

CodeDo(i, d, dpop, stage) ==
    /\ "code" \in Flows /\ steps < MaxSteps /\ i \in 1..Len(sess)
    /\ LET burns == stage \in {"client", "pkce", "dpop", "issue"}
       IN /\ sess' = [sess EXCEPT ![i].st = IF burns THEN "used" ELSE @]
          /\ tokens' = IF stage = "issue"
                       THEN Append(tokens, NewToken("code", sess[i].client, dpop, sess[i].def, SessId(i),
                                                    sess[i].clean /\ d = {} /\ TokStage(d, sess[i].st) = "issue"))
                       ELSE tokens
          /\ Log([a |-> "CodeToken", s |-> SessId(i), d |-> d, dpop |-> dpop, res |-> TokErr(stage), stage |-> stage,
                  tok |-> IF stage = "issue" THEN TokId(Len(tokens) + 1) ELSE None])
    /\ UNCHANGED <<now, age, burnt, lastp, npres, intro>>
CodeToken(i, d, dpop) == i \in 1..Len(sess) /\ CodeDo(i, d, dpop, TokStage(d, sess[i].st))

(***************************************************************************)
(* Introspection.  t = 0 stands for a token this node never issued.        *)
(***************************************************************************)
Std(tk, m) == CASE m = "active" -> "true"
                [] m = "iss" -> tk.iss
                [] m = "client_id" -> tk.client
                [] m = "scope" -> tk.scope
                [] m = "cnf" -> tk.cnf
                [] m = "iat" -> ToString(tk.iat)
                [] m = "exp" -> ToString(tk.exp)
                [] OTHER -> "std"                         \* vps, presentation_definitions, ...: whatever issuance stored
Answer(t, ext) ==
    IF t = 0 \/ t > Len(tokens) THEN [kind |-> "inactive", t |-> t, at |-> age]
    ELSE LET tk == tokens[t]
             \* the claims the answer carries
             cl == IF ext /\ ~ExtClaims THEN {} ELSE ClaimNames(tk.def)
         IN
         IF ~(age < tk.exp) THEN [kind |-> "inactive", t |-> t, at |-> age]
         ELSE IF ClaimNames(tk.def) \cap Guarded # {} THEN [kind |-> "error", t |-> t, at |-> age]
         ELSE [kind |-> "active", t |-> t, at |-> age,
               \* AdditionalProperties are written AFTER the typed members (generated MarshalJSON)
               m |-> [m \in Members |-> IF m \in cl THEN "cred" ELSE Std(tk, m)],
               claims |-> cl \ Members,
               nclaims |-> IF ext /\ ~ExtClaims THEN "dropped" ELSE "all"]

IntrospectDo(t, ext, ans) ==
    /\ steps < MaxSteps /\ t \in 0..Len(tokens)
    /\ /\ intro' = ans
       /\ Log([a |-> "Introspect", t |-> IF t = 0 THEN "bogus" ELSE TokId(t), ext |-> ext, res |-> ans.kind,
               over |-> IF ans.kind = "active" THEN {m \in Members : ans.m[m] = "cred"} ELSE {}])
    /\ UNCHANGED <<now, age, burnt, lastp, npres, tokens, sess>>
Introspect(t, ext) == IntrospectDo(t, ext, Answer(t, ext))

Tick == /\ now < MaxNow /\ steps < MaxSteps /\ now' = now + 1 /\ Log([a |-> "Tick"])
        /\ UNCHANGED <<age, burnt, lastp, npres, tokens, sess, intro>>
Age ==  /\ age < MaxAge /\ steps < MaxSteps /\ age' = age + 1 /\ Log([a |-> "Age"])
        /\ UNCHANGED <<now, burnt, lastp, npres, tokens, sess, intro>>

Next ==
    \/ \E d \in DefectSets(S2SDefects), n \in Nonces, fmt \in Formats, fut \in Futures, def \in Defs, k \in DPoPKeys, c \in Clients, sh \in Shapes :
          \E audv \in AudsFor(d) : S2SToken(d, n, fmt, fut, def, k, c, sh, audv)
    \/ S2SReplay
    \/ \E c \in Clients, def \in Defs, d \in DefectSets(AuthDefects) : Authorize(c, def, d)
    \/ \E i \in 1..Len(sess), d \in DefectSets(RespDefects), fmt \in Formats, sh \in Shapes :
          \E audv \in AudsFor(d) : AuthzResponse(i, d, fmt, sh, audv)
    \/ \E i \in 1..Len(sess), d \in DefectSets(TokDefects), k \in DPoPKeys : CodeToken(i, d, k)
    \/ \E t \in 0..Len(tokens), ext \in Exts : Introspect(t, ext)
    \/ Tick \/ Age

Spec == Init /\ [][Next]_vars

(***************************************************************************)
(* Properties (C02)                                                        *)
(***************************************************************************)
TypeOK == /\ now \in 0..MaxNow /\ age \in 0..MaxAge
          /\ \A n \in Nonces : burnt[n] \in (0..MaxNow) \cup {NoTime}

\* a token exists only for a request without any defect flag (a replayed presentation counts as defective)
IssuedOnlyIfClean == \A i \in 1..Len(tokens) : tokens[i].clean

\* vp_token-bearer: two tokens for one nonce value are at least the retention time apart
OneTokenPerNonce ==
    \A i, j \in 1..Len(tokens) : (i < j /\ tokens[i].flow = "s2s" /\ tokens[j].flow = "s2s" /\ tokens[i].n = tokens[j].n)
                                     => tokens[j].at >= tokens[i].at + NonceTTL
\* authorization_code: no two tokens for one session / code
CodeSingleUse ==
    \A i, j \in 1..Len(tokens) : (i # j /\ tokens[i].flow = "code" /\ tokens[j].flow = "code") => tokens[i].n # tokens[j].n

\* the code's design decision: a request that got as far as the nonce check has used up its nonce,
\* also when DPoP or signature verification fails afterwards (`last` is the action that led to this state)
NonceBurntEvenOnLaterFailure ==
    (last.a \in {"S2SToken", "S2SReplay"} /\ last.stage \in {"replay", "dpop", "verify", "issue"}) => burnt[last.n] = now
\* every presentation of the envelope is checked: whatever the number of presentations, whichever of them carries the
\* defect and whatever the wrong audience looks like, the answer is the one of the single-presentation request
\* (holds by construction of the pipeline above; the real code is bound to it by replay and trace validation)

\* introspection is a function of the issuance record and the token clock only.
\* Sound: "active" only for a token this node issued and that has not expired, with the values established at issuance
IntrospectSound ==
    intro.kind = "active" =>
        LET t == intro.t IN
        /\ t \in 1..Len(tokens) /\ intro.at < tokens[t].exp
        /\ \A m \in {"iss", "client_id", "scope", "cnf", "iat", "exp"} \cap Members : intro.m[m] \in {Std(tokens[t], m), "cred"}
        \* the claims of the answer are the claims established at issuance (none taken away, none added)
        /\ intro.nclaims = "all" /\ intro.claims \subseteq ClaimNames(tokens[t].def)
\* Complete: a live token is reported active (not demanded by C02; the design satisfies it)
IntrospectComplete ==
    (intro.kind \notin {None, "error"} /\ intro.t \in 1..Len(tokens) /\ intro.at < tokens[intro.t].exp) => intro.kind = "active"
IntrospectFaithful == IntrospectSound /\ IntrospectComplete

\* no credential-derived claim takes the place of ANY top-level member of the answer
ReservedClaimsNotOverridable ==
    intro.kind = "active" => \A m \in Members : intro.m[m] # "cred"
=============================================================================
