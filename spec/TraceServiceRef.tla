-------------------------- MODULE TraceServiceRef --------------------------
(***************************************************************************)
(* Trace validation for X02: executions of the REAL DIDServiceResolver /   *)
(* didman / didnuts.Manager, recorded at the seams the code has (every     *)
(* DIDResolver.Resolve call = "read", every published document = "write",  *)
(* call and return of the handlers), must be behaviours of ServiceRef.tla. *)
(*   {"ev":"init","docs":{DID:{"st":..,"svc":{type:endpoint}}}}            *)
(*   {"ev":"resolve","d","t","f","max"} {"ev":"read","d","st"}             *)
(*   {"ev":"net","d","doc"} {"ev":"resolved","v","at":[d,t],"k"}           *)
(*   {"ev":"add","p","d","t","e"} {"ev":"delete","p","d","t"}              *)
(*   {"ev":"write","p","d"} {"ev":"opend","p","v","cause"}                 *)
(*   {"ev":"getc","p","d","ct","n","rr","v","cause","k","u"}               *)
(* A read while a resolution runs is a Hop that misses the cache (allowed  *)
(* whether or not the document is cached, so that executions of a resolver *)
(* that re-reads are followed too and judged by the invariants); a hop     *)
(* served from the cache leaves no event.  Reads of the didman handlers    *)
(* are not ordered by the model (their checks are one atomic step).        *)
(* Traces are concatenated; a "reset" event starts the next one.           *)
(***************************************************************************)
EXTENDS MCServiceRef, IOUtils

TraceLog == ndJsonDeserialize(IOEnv.VERIF_TRACE)
VARIABLE l
tvars == <<vars, l>>

Ev == TraceLog[l]
IsEvent(e) == l <= Len(TraceLog) /\ Ev.ev = e /\ l' = l + 1

ToE1(j) == IF j.k = "url" THEN Url(j.u) ELSE Ref(j.d, j.t, j.f)
ToE(j) == IF j.k = "map" THEN Map([n \in DOMAIN j.m |-> ToE1(j.m[n])]) ELSE ToE1(j)
ToDoc(j) == Doc(j.st, [t \in Types |-> IF t \in DOMAIN j.svc THEN ToE(j.svc[t]) ELSE NoSvc])

TReset == IsEvent("reset") /\ UNCHANGED vars
TInit == /\ IsEvent("init")
         /\ docs' = [d \in DIDs |-> IF d \in DOMAIN Ev.docs THEN ToDoc(Ev.docs[d]) ELSE NoDoc]
         /\ rs' = IdleRs /\ ops' = [p \in Procs |-> IdleOp]
         /\ nops' = 0 /\ nnet' = 0 /\ broken' = {} /\ hist' = <<>>

TResolve == IsEvent("resolve") /\ ResolveBegin([d |-> Ev.d, t |-> Ev.t, f |-> Ev.f, max |-> Ev.max])
TRead == /\ IsEvent("read") /\ rs.pc = "run"
         /\ rs.d = Ev.d /\ rs.depth < rs.q.max /\ docs[Ev.d].st = Ev.st
         /\ HopWith(FALSE)
TCached == /\ l <= Len(TraceLog) + 1 /\ UNCHANGED l /\ rs.pc = "run"
           /\ (rs.depth >= rs.q.max \/ rs.cache[rs.d].st # "nil")
           /\ HopWith(TRUE)
TResolved == /\ IsEvent("resolved") /\ rs.pc = "done"
             /\ rs.res.v = Ev.v
             /\ Ev.v = "ok" => (rs.res.d = Ev.at[1] /\ rs.res.t = Ev.at[2] /\ rs.res.e.k = Ev.k)
             /\ UNCHANGED vars
TNet == /\ IsEvent("net")
        /\ docs' = [docs EXCEPT ![Ev.d] = ToDoc(Ev.doc)] /\ nnet' = nnet + 1
        /\ UNCHANGED <<rs, ops, nops, broken, hist>>

TAdd == IsEvent("add") /\ AddCheck(Ev.p, [d |-> Ev.d, t |-> Ev.t, e |-> ToE(Ev.e)])
TDelete == IsEvent("delete") /\ DeleteCheck(Ev.p, [d |-> Ev.d, t |-> Ev.t])
TWrite == IsEvent("write") /\ ops[Ev.p].pc = "checked" /\ ops[Ev.p].d = Ev.d /\ OpWrite(Ev.p)
TOpEnd == /\ IsEvent("opend") /\ ops[Ev.p].pc = "done"
          /\ ops[Ev.p].v = Ev.v
          /\ Ev.v = "invalid" => Ev.cause \in ops[Ev.p].causes
          /\ UNCHANGED vars
TGetC == /\ IsEvent("getc")
         /\ LET c == [d |-> Ev.d, ct |-> Ev.ct, n |-> Ev.n, rr |-> Ev.rr]
                r == GetC(docs, c)
            IN /\ r.v = Ev.v
               /\ Ev.v = "not-an-endpoint" => r.cause = Ev.cause
               /\ Ev.v = "ok" => (r.e.k = Ev.k /\ (Ev.k = "url" => r.e.u = Ev.u))
               /\ GetCompound(Ev.p, c)
\* reads performed by the didman handlers (addService, validator, GetCompoundServiceEndpoint)
TOtherRead == IsEvent("read") /\ rs.pc # "run" /\ UNCHANGED vars

TraceNext == TReset \/ TInit \/ TResolve \/ TRead \/ TCached \/ TResolved \/ TNet
             \/ TAdd \/ TDelete \/ TWrite \/ TOpEnd \/ TGetC \/ TOtherRead
TraceInit == Init /\ l = 1 /\ TLCSet(1, 1)
TraceSpec == TraceInit /\ [][TraceNext]_tvars

Progress == TLCSet(1, IF l > TLCGet(1) THEN l ELSE TLCGet(1))
TraceAccepted ==
    \/ TLCGet(1) = Len(TraceLog) + 1
    \/ Print(<<"TRACE-REJECTED-AT", TLCGet(1), TraceLog[TLCGet(1)]>>, FALSE)
=============================================================================
