---------------------------- MODULE TraceOAuth ----------------------------
(***************************************************************************)
(* Trace validation: what a REAL node answered (one event per request,     *)
(* recorded by harness/drivers/oauth) must be a behaviour of OAuth.tla     *)
(* with the descriptive constants.  Traces are concatenated; a "reset"     *)
(* event starts the next one.                                              *)
(*                                                                         *)
(* Every request event is matched in one of two ways:                      *)
(*   - conformant: the model's pipeline gives the same answer and the same *)
(*     observable side effect (nonce store content);                       *)
(*   - reconstructed: the node issued a token / a code / answered "active" *)
(*     although the model refuses.  The state is rebuilt from what the     *)
(*     node did and the C02 invariants decide (IssuedOnlyIfClean, ...).    *)
(* Anything else (another error code, another side effect) matches no      *)
(* action: drift between specification and code, not a violation.          *)
(***************************************************************************)
EXTENDS MCOAuth, IOUtils

TraceLog == ndJsonDeserialize(IOEnv.VERIF_TRACE)
VARIABLE l
tvars == <<vars, l>>

Ev == TraceLog[l]
IsEvent(e) == l <= Len(TraceLog) /\ Ev.ev = e /\ l' = l + 1
SetOf(q) == {q[i] : i \in 1..Len(q)}

TReset == /\ IsEvent("reset")
          /\ now' = 0 /\ age' = 0 /\ burnt' = [n \in Nonces |-> NoTime]
          /\ lastp' = [cls |-> None] /\ npres' = 0 /\ tokens' = <<>> /\ sess' = <<>>
          /\ intro' = [kind |-> None] /\ steps' = 0 /\ last' = [a |-> None] /\ hist' = <<>>

\* is the nonce in the s2s nonce store after the step?
RememberedNext(n) == burnt'[n] # NoTime /\ now < burnt'[n] + NonceTTL

TS2S == /\ IsEvent("s2s")
        /\ LET d == SetOf(Ev.d)
               sh == [nvp |-> Ev.nvp, main |-> Ev.main, pos |-> Ev.pos]
               stage == S2SStage(Class(d, Ev.audv), Ev.n, now + Ev.fut, Ev.fmt, Early(d, sh))
           IN \/ /\ ErrCode(stage) = Ev.res                                   \* conformant
                 /\ S2SDo(d, Ev.n, Ev.fmt, Ev.fut, Ev.def, Ev.dpop, Ev.client, sh, Ev.audv, stage)
                 /\ (HasNonce(d, sh) => (Ev.burnt <=> RememberedNext(Ev.n)))
              \/ /\ ErrCode(stage) # Ev.res /\ Ev.res = "issued"              \* reconstructed
                 /\ S2SDo(d, Ev.n, Ev.fmt, Ev.fut, Ev.def, Ev.dpop, Ev.client, sh, Ev.audv, "issue")

TS2SReplay ==
        /\ IsEvent("s2sreplay") /\ lastp.cls # None
        /\ LET stage == S2SStage(lastp.cls, lastp.n, lastp.c, lastp.fmt, lastp.early)
           IN \/ /\ ErrCode(stage) = Ev.res
                 /\ S2SReplayDo(stage)
                 /\ ((lastp.cls # "nonce" \/ lastp.early) => (Ev.burnt <=> RememberedNext(lastp.n)))
              \/ /\ ErrCode(stage) # Ev.res /\ Ev.res = "issued"
                 /\ S2SReplayDo("issue")

SessIdx(s) == CHOOSE i \in 0..Len(sess) : (i > 0 /\ SessId(i) = s) \/ (i = 0 /\ \A j \in 1..Len(sess) : SessId(j) # s)
TokIdx(t) == CHOOSE i \in 0..Len(tokens) : (i > 0 /\ TokId(i) = t) \/ (i = 0 /\ \A j \in 1..Len(tokens) : TokId(j) # t)

\* refused: only conformant for a scope nothing is configured for; opened although the model refuses: reconstructed
TAuthorize == /\ IsEvent("authorize")
              /\ LET d == SetOf(Ev.d) IN
                 \/ Ev.res = "ok" /\ AuthorizeDo(Ev.client, Ev.def, d, TRUE)
                 \/ Ev.res = "refused" /\ d \cap ScopeDefects # {} /\ AuthorizeDo(Ev.client, Ev.def, d, FALSE)

TAuthzResp ==
        /\ IsEvent("authzresp")
        /\ LET d == SetOf(Ev.d)
               i == SessIdx(Ev.s)
               sh == [nvp |-> Ev.nvp, main |-> Ev.main, pos |-> Ev.pos]
               stage == RespStage(d, sess[i].st, Ev.audv, Ev.nvp)
           IN /\ i > 0
              /\ \/ /\ (stage = "code") = (Ev.res = "code")
                    /\ (stage # "code" => Ev.res = "invalid_request")
                    /\ AuthzDo(i, d, Ev.fmt, sh, Ev.audv, stage)
                 \/ /\ stage # "code" /\ Ev.res = "code"
                    /\ AuthzDo(i, d, Ev.fmt, sh, Ev.audv, "code")

TCodeToken ==
        /\ IsEvent("codetoken")
        /\ LET d == SetOf(Ev.d)
               i == SessIdx(Ev.s)
               stage == TokStage(d, sess[i].st)
           IN /\ i > 0
              /\ \/ /\ TokErr(stage) = Ev.res
                    /\ CodeDo(i, d, Ev.dpop, stage)
                 \/ /\ TokErr(stage) # Ev.res /\ Ev.res = "issued"
                    /\ CodeDo(i, d, Ev.dpop, "issue")

\* the answer of the node, in the vocabulary of the model
Abstract(v, std) == IF v = "std" THEN std ELSE v            \* "cred": credential-derived value, "other": anything else
RealAnswer(t) ==
    IF Ev.res # "active" THEN [kind |-> Ev.res, t |-> t, at |-> age]
    ELSE LET over == SetOf(Ev.over) IN
         [kind |-> "active", t |-> t, at |-> age,
          m |-> [m \in Members |-> IF m \in over THEN "cred"
                                   ELSE IF t = 0 THEN "std"
                                   ELSE CASE m = "iss" -> Abstract(Ev.iss, Std(tokens[t], m))
                                          [] m = "client_id" -> Abstract(Ev.client, Std(tokens[t], m))
                                          [] m = "scope" -> Abstract(Ev.scope, Std(tokens[t], m))
                                          [] m = "cnf" -> Abstract(Ev.cnf, Std(tokens[t], m))
                                          [] OTHER -> Std(tokens[t], m)],
          claims |-> SetOf(Ev.claims) \cap (Defs \ {"plain"}),
          nclaims |-> Ev.nclaims]
TIntrospect ==
        /\ IsEvent("introspect")
        /\ LET t == TokIdx(Ev.t) IN IntrospectDo(t, Ev.ext, RealAnswer(t))
\* drift detection for introspection: the model's answer and the node's answer are of the same kind
IntrospectConforms ==
    (last.a = "Introspect" /\ intro.kind # None) =>
        LET t == intro.t IN intro.kind = Answer(t, last.ext).kind

TTick == IsEvent("tick") /\ Tick
TAge == IsEvent("age") /\ Age

TraceNext == TReset \/ TS2S \/ TS2SReplay \/ TAuthorize \/ TAuthzResp \/ TCodeToken \/ TIntrospect \/ TTick \/ TAge
TraceInit == Init /\ l = 1 /\ TLCSet(1, 1)
TraceSpec == TraceInit /\ [][TraceNext]_tvars

\* "active" only for a token this node issued and that has not expired (evaluated on the reconstructed state)
ActiveOnlyIfLive ==
    intro.kind = "active" => (intro.t \in 1..Len(tokens) /\ intro.at < tokens[intro.t].exp)

\* acceptance: the whole file was consumed (high-water mark kept in a TLC register; -workers 1)
Progress == TLCSet(1, IF l > TLCGet(1) THEN l ELSE TLCGet(1))
TraceAccepted ==
    \/ TLCGet(1) = Len(TraceLog) + 1
    \/ Print(<<"TRACE-REJECTED-AT", TLCGet(1), TraceLog[TLCGet(1)]>>, FALSE)
=============================================================================
