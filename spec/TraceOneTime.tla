--------------------------- MODULE TraceOneTime ---------------------------
(***************************************************************************)
(* Trace validation: executions of the REAL handlers over the gated        *)
(* session cache (one event per primitive cache operation on the secret's  *)
(* key, recorded by harness/drivers/onetime) must be behaviours of the     *)
(* descriptive OneTime.tla, and the real verdict of every request ("end")  *)
(* must be the verdict the specification derives.  Traces are              *)
(* concatenated; "reset" + "init" start the next one.  A trace that leaves *)
(* the specification (TLeave) or breaks a property invariant (Judge) is    *)
(* REPORTED and the run goes on: one TLC run classifies the whole file     *)
(* (tools/props/onetime.py reads the TRACE-... lines).                     *)
(***************************************************************************)
EXTENDS MCOneTime, IOUtils

TraceLog == ndJsonDeserialize(IOEnv.VERIF_TRACE)
VARIABLES l,      \* next line of the log
          skip    \* TRUE: the current trace left the specification; its remaining events are consumed unchecked
tvars == <<vars, l, skip>>

Ev == TraceLog[l]
IsEvent(e) == l <= Len(TraceLog) /\ Ev.ev = e /\ l' = l + 1

TReset == IsEvent("reset") /\ skip' = FALSE /\ UNCHANGED vars

\* requests that do not take part in this trace are parked at control point "absent"
TInit == /\ IsEvent("init")
         /\ kind' = Ev.kind
         /\ flav' = [r \in Reqs |-> IF r \in DOMAIN Ev.flav THEN Ev.flav[r] ELSE "good"]
         \* the context every request was sent in is an input of the execution (older logs: all in the original context)
         /\ ctx' = [r \in Reqs |-> IF "ctx" \in DOMAIN Ev /\ r \in DOMAIN Ev.ctx THEN Ev.ctx[r] ELSE "c0"]
         /\ cache' = [c \in AllCtx |-> IF Ev.kind \in MarkerKinds \/ c # "c0" THEN "absent" ELSE "present"]
         /\ pc' = [r \in Reqs |-> IF r \in DOMAIN Ev.flav THEN "idle" ELSE "absent"]
         /\ seen' = [r \in Reqs |-> FALSE]
         /\ out' = [r \in Reqs |-> "pending"]
         /\ ticks' = 0
         /\ lateRef' = [r \in Reqs |-> FALSE]
         /\ lateTick' = [r \in Reqs |-> FALSE]
         /\ hist' = <<>>

\* one primitive cache operation on the secret's key, performed by request Ev.r
TOp == /\ IsEvent("op")
       /\ \/ /\ Ev.op = "get"
             /\ Ev.hit = Has(Ev.r)
             /\ GadGet(Ev.r) \/ S2SGet(Ev.r) \/ JtiGet(Ev.r) \/ PreExists(Ev.r) \/ PreGet(Ev.r)
          \/ /\ Ev.op = "delete"
             /\ GadDel(Ev.r) \/ CodeDeferredDelete(Ev.r) \/ NonceBurn(Ev.r) \/ PreDel(Ev.r)
          \/ /\ Ev.op = "set"
             /\ S2SPut(Ev.r) \/ JtiPut(Ev.r)

\* the handler returned: its real verdict is the one the specification derives
TEnd == /\ IsEvent("end")
        /\ pc[Ev.r] = "done" /\ out[Ev.r] = Ev.res
        /\ UNCHANGED vars

\* the validity window elapsed; logged: whether the cache really dropped the entry
TTick == /\ IsEvent("tick") /\ Tick
         /\ Ev.expired = (\E c \in AllCtx : cache[c] = "present" /\ cache'[c] = "absent")

\* events without a model counterpart: arrival of a request, primitives on other keys
TStutter == /\ l <= Len(TraceLog) /\ Ev.ev \in {"begin", "other"}
            /\ l' = l + 1 /\ UNCHANGED vars

Matching == TInit \/ TOp \/ TEnd \/ TTick \/ TStutter

\* the property invariants are evaluated on the state reconstructed from the REAL execution; a failure is reported
\* (one line per event) instead of stopping TLC, so that one run classifies every trace of the file
Report(name, ok) == IF ok THEN TRUE ELSE PrintT(<<"TRACE-INVARIANT", name, l>>)
Judge == /\ Report("AtMostOnce", AtMostOnce')
         /\ Report("DeadAfterFailedRedemption", DeadAfterFailedRedemption')
         /\ Report("NoSuccessAfterExpiry", NoSuccessAfterExpiry')

TFollow == ~skip /\ Matching /\ skip' = FALSE /\ Judge
\* no action of the specification explains the next real event: report it and skip the rest of this trace
TLeave == /\ ~skip /\ l <= Len(TraceLog) /\ Ev.ev # "reset" /\ ~ENABLED Matching
          /\ PrintT(<<"TRACE-DRIFT-AT", l>>)
          /\ skip' = TRUE /\ l' = l + 1 /\ UNCHANGED vars
TSkip == skip /\ l <= Len(TraceLog) /\ Ev.ev # "reset" /\ l' = l + 1 /\ UNCHANGED <<vars, skip>>

TraceNext == TReset \/ TFollow \/ TLeave \/ TSkip
TraceInit ==
    /\ kind = "code" /\ flav = [r \in Reqs |-> "good"] /\ ctx = [r \in Reqs |-> "c0"]
    /\ cache = [c \in AllCtx |-> IF c = "c0" THEN "present" ELSE "absent"]
    /\ pc = [r \in Reqs |-> "absent"] /\ seen = [r \in Reqs |-> FALSE] /\ out = [r \in Reqs |-> "pending"]
    /\ ticks = 0 /\ lateRef = [r \in Reqs |-> FALSE] /\ lateTick = [r \in Reqs |-> FALSE] /\ hist = <<>>
    /\ l = 1 /\ skip = FALSE /\ TLCSet(1, 1)
TraceSpec == TraceInit /\ [][TraceNext]_tvars

\* the whole file must have been consumed (high-water mark kept in a TLC register; -workers 1)
Progress == TLCSet(1, IF l > TLCGet(1) THEN l ELSE TLCGet(1))
TraceAccepted ==
    \/ TLCGet(1) = Len(TraceLog) + 1
    \/ Print(<<"TRACE-REJECTED-AT", TLCGet(1), TraceLog[TLCGet(1)]>>, FALSE)
=============================================================================
