--------------------------- MODULE TraceOid4vci ---------------------------
(***************************************************************************)
(* Trace validation for X03: executions of the REAL issuer / holder        *)
(* OpenID4VCI handlers (recorded by harness/drivers/oid4vci in the         *)
(* vocabulary of Oid4vci.tla: every value is named from what was observed  *)
(* on the wire and in the session database, every outcome is the real      *)
(* response) must be behaviours of the DESCRIPTIVE specification.          *)
(* Traces are concatenated; "reset" starts the next one.                   *)
(*  - an event that no action of the specification explains is reported    *)
(*    (TRACE-DRIFT-AT); if it is a credential request whose REAL outcome   *)
(*    differs from the specified one, the observed outcome is applied      *)
(*    (TRACE-FORCED-AT) so that                                            *)
(*  - the property invariants are judged on the state reconstructed from   *)
(*    the real execution (TRACE-INVARIANT name line).                      *)
(* One TLC run classifies the whole file (tools/props/oid4vci.py).         *)
(***************************************************************************)
EXTENDS MCOid4vci, IOUtils

TraceLog == ndJsonDeserialize(IOEnv.VERIF_TRACE)
VARIABLES l,      \* next line of the log
          skip    \* TRUE: the current trace left the specification; its remaining events are consumed unchecked
tvars == <<vars, l, skip>>

Ev == TraceLog[l]
IsEvent(e) == l <= Len(TraceLog) /\ Ev.ev = e /\ l' = l + 1

Fresh0 ==
    /\ off' = {} /\ now' = 0 /\ nflows' = 0
    /\ flows' = [f \in FlowSet |-> [subj |-> "none", exp |-> 0, st |-> "none"]]
    /\ codes' = {} /\ toks' = {} /\ nons' = {}
    /\ ntok' = [f \in FlowSet |-> 0] /\ nnon' = [f \in FlowSet |-> 0]
    /\ tr' = [p \in {"W", "A"} |-> IdleReq]
    /\ offers' = {}
    /\ w' = IdleW /\ wruns' = 0 /\ handled' = {} /\ stored' = {}
    /\ kcodes' = {} /\ ktoks' = {} /\ knons' = {} /\ kproofs' = {} /\ acreds' = {} /\ asteps' = 0
    /\ minted' = {} /\ issuedN' = {} /\ releases' = <<>> /\ redeemed' = {} /\ panics' = 0
    /\ cover' = {} /\ hist' = <<>>

TReset == IsEvent("reset") /\ skip' = FALSE /\ Fresh0

TInit == /\ IsEvent("init")
         /\ off' = {Ev.off[i] : i \in 1..Len(Ev.off)}
         /\ UNCHANGED <<now, nflows, flows, codes, toks, nons, ntok, nnon, tr, offers, w, wruns, handled, stored,
                        kcodes, ktoks, knons, kproofs, acreds, asteps, minted, issuedN, releases, redeemed, panics, cover, hist>>

TOffer == IsEvent("offer") /\ FlowSeq[nflows + 1] = Ev.f /\ OfferTo(Ev.subj)
TForge == IsEvent("forge") /\ ForgeDo(Ev.o.iss, Ev.o.claim, Ev.o.code, Ev.o.typ)
TRecv  == IsEvent("recv") /\ Recv(Ev.o) /\ (w'.pc = "idle") = Ev.abort      \* the wallet really gave up on the metadata

TTokBegin ==
    /\ IsEvent("tokbegin")
    /\ TokBegin(Ev.p, Ev.code)
    /\ (tr'[Ev.p].st = "found") = Ev.hit                       \* the real handler found / did not find the code
    /\ Ev.hit => tr'[Ev.p].tok = Ev.tok /\ tr'[Ev.p].non = Ev.non    \* and stored its references for the flow of that code
TTokEnd ==
    /\ IsEvent("tokend")
    /\ TokEnd(Ev.p, Ev.lost)
    /\ (tr[Ev.p].st = "found") = Ev.ok                          \* the real token response

WalletEvent == /\ w.tok = Ev.tok /\ WProof = Ev.proof /\ w.o.typ = Ev.rtyp
               /\ (stored' # stored) = Ev.stores
TWCred ==
    /\ IsEvent("wcred")
    /\ WCred(Ev.lost) /\ WalletEvent
    /\ CredOutcome(w.tok, WProof, w.o.typ) = Ev.out             \* the real response of the credential endpoint
    /\ Ev.out = "invalid_proof_n" => NextNon(w.tok.f) = Ev.newnon
TACred ==
    /\ IsEvent("acred")
    /\ AttackerRequest(Ev.tok, Ev.proof, Ev.rtyp, [shape |-> Ev.shape])
    /\ CredOutcome(Ev.tok, Ev.proof, Ev.rtyp) = Ev.out
    /\ Ev.out = "invalid_proof_n" => NextNon(Ev.tok.f) = Ev.newnon
TWTokX  == IsEvent("wtokx") /\ WTokXDo(Ev.non)
TWCredX ==
    /\ IsEvent("wcredx")
    /\ WCredX(Ev.cred)
    /\ WProof = Ev.proof /\ w.o.typ = Ev.otyp
    /\ HolderAccepts(Ev.cred, w.o.typ) = Ev.stores             \* what the wallet node's store really gained
TTick == IsEvent("tick") /\ Tick

Matching == TInit \/ TOffer \/ TForge \/ TRecv \/ TTokBegin \/ TTokEnd \/ TWCred \/ TACred \/ TWTokX \/ TWCredX \/ TTick

\* a credential request whose REAL outcome is not the specified one: apply what really happened
Outcomes == {"invalid_token", "server_error", "invalid_proof_n", "invalid_proof", "invalid_request", "released", "panic"}
Forcible == Ev.out \in Outcomes /\ (Ev.out \in {"released", "invalid_proof_n"} => Ev.tok.f \in FlowSet)
TForceA == /\ IsEvent("acred") /\ Forcible
           /\ AttackerRequestO(Ev.tok, Ev.proof, Ev.rtyp, [shape |-> Ev.shape], Ev.out)
TForceW == /\ IsEvent("wcred") /\ Forcible /\ w.tok = Ev.tok
           /\ WCredO(Ev.lost, Ev.out)
Forcing == TForceA \/ TForceW

\* the property invariants are evaluated on the state reconstructed from the REAL execution; a failure is reported
\* (one line per event) instead of stopping TLC, so that one run classifies every trace of the file
Report(name, ok) == IF ok THEN TRUE ELSE PrintT(<<"TRACE-INVARIANT", name, l>>)
Judge == /\ Report("ReleaseAuthorized", ReleaseAuthorized')
         /\ Report("TokenFromLiveCode", TokenFromLiveCode')
         /\ Report("HolderStoresVerified", HolderStoresVerified')
         /\ Report("CodeSingleUse", CodeSingleUse')
         /\ Report("AtMostOneRelease", AtMostOneRelease')
         /\ Report("ProofSingleUse", ProofSingleUse')
         /\ Report("OnlySubjectObtains", OnlySubjectObtains')
         /\ Report("HolderStoresOwn", HolderStoresOwn')
         /\ Report("NoPanic", NoPanic')

TFollow == ~skip /\ Matching /\ skip' = FALSE /\ Judge
TForced == /\ ~skip /\ ~ENABLED Matching /\ Forcing /\ skip' = FALSE
           /\ PrintT(<<"TRACE-FORCED-AT", l>>) /\ Judge
\* no action of the specification explains the next real event: report it and skip the rest of this trace
TLeave == /\ ~skip /\ l <= Len(TraceLog) /\ Ev.ev # "reset" /\ ~ENABLED Matching /\ ~ENABLED Forcing
          /\ PrintT(<<"TRACE-DRIFT-AT", l>>)
          /\ skip' = TRUE /\ l' = l + 1 /\ UNCHANGED vars
TSkip == skip /\ l <= Len(TraceLog) /\ Ev.ev # "reset" /\ l' = l + 1 /\ UNCHANGED <<vars, skip>>

TraceNext == TReset \/ TFollow \/ TForced \/ TLeave \/ TSkip
TraceInit == Init /\ l = 1 /\ skip = FALSE /\ TLCSet(1, 1)
TraceSpec == TraceInit /\ [][TraceNext]_tvars

\* the whole file must have been consumed (high-water mark kept in a TLC register; -workers 1)
Progress == TLCSet(1, IF l > TLCGet(1) THEN l ELSE TLCGet(1))
TraceAccepted ==
    \/ TLCGet(1) = Len(TraceLog) + 1
    \/ Print(<<"TRACE-REJECTED-AT", TLCGet(1), TraceLog[TLCGet(1)]>>, FALSE)
=============================================================================
