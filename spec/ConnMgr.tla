------------------------------ MODULE ConnMgr ------------------------------
(***************************************************************************)
(* The gRPC connection manager of the Nuts network layer                   *)
(*   network/transport/grpc/{connection_manager,addressbook,backoff,       *)
(*   connection,connection_list}.go, fed by network/network.go             *)
(*   (connectToKnownNodes / connectToDID).                                 *)
(*                                                                         *)
(* One action per critical section / handler of the Go code:               *)
(*   Feed          network.connectToDID -> Connect(addr, did, delay)       *)
(*                 (skips the node's own DID), Connect(addr, {}, nil) for  *)
(*                 bootstrap nodes: addressBook.update + backoff.Reset     *)
(*   Remove        Connect("", did, _): addressBook.remove                 *)
(*   Advance       time passes (one unit = 5 s, see below)                 *)
(*   Tick          one pass of connectLoop: addressBook.limit(10,          *)
(*                 isNotActive, backoffExpired, notDialing); calling:=true *)
(*   Register      connect(): connections.getOrRegister(outbound): an      *)
(*                 existing connection -> return without back-off          *)
(*   DialFail      dialer error: contact.backoff.Backoff()                 *)
(*   DialCancel    dialer returns codes.Canceled: no back-off              *)
(*   DialOK        dialer ok + protocol.CreateClientStream                 *)
(*   SrvAccept     handleInboundStream: SendHeader(peerID, nodeDID)        *)
(*   SrvAdmit      handleInboundStream: authenticate, getOrRegister        *)
(*                 (inbound), registerStream, notify Connected             *)
(*                 | ErrNodeDIDAuthFailed | ErrAlreadyConnected            *)
(*   CliHeaders    openOutboundStream: Header() (error | headers),         *)
(*                 verifyOrSetPeerID, node DID checks (ErrNodeDIDAuth-     *)
(*                 Failed, ErrUnexpectedNodeDID -> Reset(24h));            *)
(*                 bootstrap: + registerStream, notify Connected           *)
(*   CliAuth       openOutboundStream: authenticate, setPeer,              *)
(*                 registerStream | ErrAlreadyConnected; notify Connected  *)
(*   CliGone       goroutine of openOutboundStreams: stream context done,  *)
(*                 notify Disconnected, connection.disconnect()            *)
(*   CliClose      connect() epilogue: closeError Unauthenticated ->       *)
(*                 Backoff() | Reset(random 1..5 s); remove connection     *)
(*   SrvDown       handleInboundStream after waitUntilDisconnected:        *)
(*                 notify Disconnected, connections.remove                 *)
(*   Drop          transport failure (environment)                         *)
(*   Restart       Stop() + NewGRPCConnectionManager on the same bbolt     *)
(*                 store + Start(): persisted back-offs survive            *)
(*   Send / Take / Flush / Credit / CloseBox   conn.Send and startSending  *)
(*                                                                         *)
(* Deviations of the code are named constants: BootIdPlain, UnauthRace     *)
(* (genuine defects, known_findings.json ids F-X01-..), WatcherPrompt (a  *)
(* timing assumption), NoSelfGuard (where the guard lives).                *)
(*                                                                         *)
(* Time.  One model unit is 5 s of (fake) wall clock.  The reset after an  *)
(* orderly disconnect, RandomBackoff(1s,5s), is a value in [1s,5s): it is  *)
(* not expired before and always expired after one unit, hence Reset(1).   *)
(* BoundedBackoff(min,max) multiplies by 1.5: with BMin = 4, BMax = 9 the  *)
(* sequence 4,6,9,9.. is exact in integers (Delay = 6 -> 9 as well).       *)
(* Deadlines are kept as REMAINING time (no absolute clock, no horizon):   *)
(* rem <= 0 means expired for the in-memory back-off (deadline-now <= 0)   *)
(* and prem < 0 for a persisted one (moment-now < 0); Inf never expires    *)
(* within a behaviour (Reset(24h) after ErrUnexpectedNodeDID).             *)
(***************************************************************************)
EXTENDS Integers, FiniteSets, Sequences, TLC

CONSTANTS
    Nodes,         \* connection managers ("A","B",..); the address of a node is its name
    DidKeys,       \* node DIDs that can occur in contacts (did:nuts:<name>)
    BootKeys,      \* bootstrap contacts ("@B" = address of B, empty DID)
    BMin, BMax,    \* BoundedBackoff(min, max) in units
    Delay,         \* newNodeConnectionDelay in units
    DelayKinds,    \* subset of {"nil","zero","delay"}: the delay argument of Connect
    MaxFeed, MaxRemove, MaxDialFail, MaxCancel, MaxAuthFail, MaxDrop, MaxRestart,   \* environment budgets
    Soft, Hard, MaxMsgs, MaxCredit,   \* outbox: soft limit (100), hard limit (5000), messages offered, transport window
    NoSelfGuard,   \* TRUE = code: connectToDID skips the node's own DID
    BootIdPlain,   \* TRUE = code: an outbound bootstrap connection object takes the peer's plain peer ID from its headers, so the
                   \*        inbound stream of the same peer, when that peer has no node DID, matches it ("already connected" for ever);
                   \*        FALSE = repaired: the object is keyed <peer ID>-bootstrap, like the ID the dialler itself sends
    UnauthRace,    \* TRUE = code: when the peer ends the stream with Unauthenticated, the goroutine watching the stream context may
                   \*        cancel the connection before startReceiving stores the status (it then drops it): connect() sees no
                   \*        closeError and does Reset(1..5 s) instead of Backoff().  FALSE = the status is always seen
    WatcherPrompt, \* TRUE = timing assumption: the goroutine that reports Disconnected for an outbound stream has run before
                   \*        the contact is dialled again (>= 1 s later).  FALSE = no assumption (Alternation can then be violated)
    Hist
CONSTANTS DidOf(_), BootAddr(_)

None == "none"
Inf == 99
Keys == DidKeys \cup BootKeys
IsBoot(k) == k \in BootKeys

VARIABLES
    cst,      \* cst[m][k]: contact of the address book [on, to, calling, val, rem, hasP, prem]
    store,    \* store[m][d]: persisted back-off of DID d in the bbolt shelf "backoff": [set, rem, val]
    call,     \* call[m][k]: the connect() goroutine of contact k and the peer's inbound handler serving its stream
    conns,    \* conns[m]: connection objects of manager m
    inc,      \* incarnation of m (a restarted node has a new peer ID)
    obs,      \* obs[m]: peers for which the observer of m has seen Connected and not yet Disconnected
    due,      \* ghost: remaining time before which contact k of m must not be dialled
    bad,      \* ghost: set of property violations seen (history)
    budget,   \* environment budgets used
    box,      \* outbox of one connection: [q, hand, credit, open, next, got]
    hist

vars == <<cst, store, call, conns, inc, obs, due, bad, budget, box, hist>>
view == <<cst, store, call, conns, inc, obs, due, bad, budget, box>>

Log(e) == hist' = IF Hist THEN Append(hist, e) ELSE hist

Pid(m) == m \o "." \o ToString(inc[m])
OutId(m, k) == "o/" \o m \o "/" \o k
InId(m, k) == "i/" \o m \o "/" \o k
CTag(m, k) == "c/" \o m \o "/" \o k
STag(m, k) == "s/" \o m \o "/" \o k

NoContact == [on |-> FALSE, to |-> None, calling |-> FALSE, val |-> 0, rem |-> 0, hasP |-> FALSE, prem |-> 0]
NoSrv == [spc |-> "none", sst |-> None, dead |-> FALSE, srv |-> None, sp |-> ""]
NoKey == [pid |-> "", did |-> None, addr |-> None]
NoCall == [cpc |-> "idle", det |-> FALSE, dval |-> 0, to |-> None, w |-> "none", wk |-> NoKey] @@ NoSrv
NoBox == [q |-> <<>>, hand |-> 0, credit |-> 0, open |-> TRUE, next |-> 1, got |-> <<>>]
NoP == [set |-> FALSE, rem |-> 0, val |-> 0]
ZeroBudget == [feed |-> 0, remove |-> 0, dialfail |-> 0, cancel |-> 0, authfail |-> 0, drop |-> 0, restart |-> 0]

Init ==
    /\ cst = [m \in Nodes |-> [k \in Keys |-> NoContact]]
    /\ store = [m \in Nodes |-> [d \in DidKeys |-> NoP]]
    /\ call = [m \in Nodes |-> [k \in Keys |-> NoCall]]
    /\ conns = [m \in Nodes |-> {}]
    /\ inc = [m \in Nodes |-> 1]
    /\ obs = [m \in Nodes |-> {}]
    /\ due = [m \in Nodes |-> [k \in Keys |-> 0]]
    /\ bad = {}
    /\ budget = ZeroBudget
    /\ box = NoBox
    /\ hist = <<>>

(***************************************************************************)
(* Back-off (backoff.go).  b is a contact record.                          *)
(***************************************************************************)
Min2(a, b) == IF a < b THEN a ELSE b
NextVal(v) == IF v < BMin THEN BMin ELSE IF v >= Inf THEN BMax ELSE Min2(BMax, (v * 3) \div 2)
Expired(b) == IF b.hasP THEN b.prem < 0 ELSE b.rem <= 0
\* boundedRandomBackoff.Backoff + persistingBackoff.Backoff (write)
BackoffOf(b) == [b EXCEPT !.val = NextVal(b.val), !.rem = NextVal(b.val), !.hasP = FALSE]
ResetOf(b, v) == [b EXCEPT !.val = v, !.rem = v, !.hasP = FALSE]
Persist(m, k, b) == IF IsBoot(k) THEN store[m] ELSE [store[m] EXCEPT ![k] = [set |-> TRUE, rem |-> b.rem, val |-> b.val]]
\* addressBook.update for a new contact: NewPersistedBackoff reads the shelf
NewContact(m, k, to) ==
    IF ~IsBoot(k) /\ store[m][k].set
    THEN [on |-> TRUE, to |-> to, calling |-> FALSE, val |-> store[m][k].val, rem |-> store[m][k].val, hasP |-> TRUE, prem |-> store[m][k].rem]
    ELSE [on |-> TRUE, to |-> to, calling |-> FALSE, val |-> 0, rem |-> 0, hasP |-> FALSE, prem |-> 0]
Dec(r) == IF r >= Inf THEN r ELSE IF r > -1 THEN r - 1 ELSE r

(***************************************************************************)
(* Connection list (connection_list.go, predicate.go)                      *)
(***************************************************************************)
Listed(m) == {c \in conns[m] : c.listed}
OutExisting(m, k) == IF IsBoot(k) THEN {c \in Listed(m) : c.addr = BootAddr(k) /\ c.did = None}
                     ELSE {c \in Listed(m) : c.did = k}
\* grpcConnectionManager.hasActiveConnection
Active(m, k) == IF IsBoot(k) THEN OutExisting(m, k) # {}
                ELSE \E c \in Listed(m) : c.did = k /\ c.auth
InExisting(n, p, d) == {c \in Listed(n) : c.pid = p /\ c.did = d}
ConnOf(m, id) == CHOOSE c \in conns[m] : c.id = id
HasConn(m, id) == \E c \in conns[m] : c.id = id
Replace(m, id, c2) == {IF c.id = id THEN c2 ELSE c : c \in conns[m]}
Without(m, id) == {c \in conns[m] : c.id # id}

PeerKey(p, d, a) == [pid |-> p, did |-> d, addr |-> a]
\* observers (RegisterObserver): ghost bookkeeping of the alternation property
Notify(o, b, key, state) ==
    IF state = "connected"
    THEN <<o \cup {key}, IF key \in o THEN b \cup {"connected-twice"} ELSE b>>
    ELSE <<o \ {key}, IF key \notin o THEN b \cup {"disconnected-without-connected"} ELSE b>>

(***************************************************************************)
(* Feeding contacts (network.go) and the address book                      *)
(***************************************************************************)
DelayVal(dk) == IF dk = "delay" THEN Delay ELSE 0
Feed(m, k, to, dk) ==
    /\ budget.feed < MaxFeed /\ to \in Nodes /\ dk \in DelayKinds
    /\ to # m                                   \* assumption: nobody advertises our own address (see NoSelfConnection)
    /\ IsBoot(k) => (to = BootAddr(k) /\ dk = "nil")
    /\ budget' = [budget EXCEPT !.feed = @ + 1]
    /\ IF ~IsBoot(k) /\ NoSelfGuard /\ DidOf(m) = k
       THEN /\ UNCHANGED <<cst, store, due>>                      \* "Found local node, do not discover."
            /\ Log([a |-> "Feed", m |-> m, k |-> k, to |-> to, dk |-> dk, res |-> "self"])
       ELSE IF cst[m][k].on
       THEN IF cst[m][k].to = to
            THEN /\ UNCHANGED <<cst, store, due>>                 \* no change: the back-off is left alone
                 /\ Log([a |-> "Feed", m |-> m, k |-> k, to |-> to, dk |-> dk, res |-> "same"])
            ELSE LET b0 == [cst[m][k] EXCEPT !.to = to]
                     b1 == IF dk = "nil" THEN b0 ELSE ResetOf(b0, DelayVal(dk))
                 IN /\ cst' = [cst EXCEPT ![m][k] = b1]
                    /\ store' = IF dk = "nil" THEN store ELSE [store EXCEPT ![m] = Persist(m, k, b1)]
                    /\ due' = IF dk = "nil" THEN due ELSE [due EXCEPT ![m][k] = DelayVal(dk)]
                    /\ Log([a |-> "Feed", m |-> m, k |-> k, to |-> to, dk |-> dk, res |-> "moved"])
       ELSE \* (a call of a removed contact object may still be in flight, detached: the new object is not selected before it
            \*  ended - in the code it is selected, finds the existing connection and returns at once)
            /\ LET b0 == NewContact(m, k, to)
                   b1 == IF dk = "nil" THEN b0 ELSE ResetOf(b0, DelayVal(dk))
               IN /\ cst' = [cst EXCEPT ![m][k] = b1]
                  /\ store' = IF dk = "nil" THEN store ELSE [store EXCEPT ![m] = Persist(m, k, b1)]
                  /\ due' = IF dk # "nil" THEN [due EXCEPT ![m][k] = DelayVal(dk)]
                            ELSE IF IsBoot(k) THEN [due EXCEPT ![m][k] = 0] ELSE due
            /\ Log([a |-> "Feed", m |-> m, k |-> k, to |-> to, dk |-> dk, res |-> "new"])
    /\ UNCHANGED <<call, conns, inc, obs, bad, box>>

\* Connect("", did, _): the contact object is dropped; a call in flight continues on the detached object
Remove(m, k) ==
    /\ budget.remove < MaxRemove /\ ~IsBoot(k) /\ cst[m][k].on
    /\ budget' = [budget EXCEPT !.remove = @ + 1]
    /\ cst' = [cst EXCEPT ![m][k] = NoContact]
    /\ call' = [call EXCEPT ![m][k].det = (call[m][k].cpc # "idle"), ![m][k].dval = (IF call[m][k].cpc # "idle" THEN cst[m][k].val ELSE 0)]
    /\ Log([a |-> "Remove", m |-> m, k |-> k])
    /\ UNCHANGED <<store, conns, inc, obs, due, bad, box>>

Advance ==
    /\ \/ \E m \in Nodes, k \in Keys : (cst[m][k].on /\ ~Expired(cst[m][k])) \/ (due[m][k] > 0 /\ due[m][k] < Inf)
       \/ \E m \in Nodes, d \in DidKeys : store[m][d].set /\ store[m][d].rem > -1 /\ store[m][d].rem < Inf
    /\ cst' = [m \in Nodes |-> [k \in Keys |-> [cst[m][k] EXCEPT !.rem = Dec(@), !.prem = Dec(@)]]]
    /\ store' = [m \in Nodes |-> [d \in DidKeys |-> IF ~store[m][d].set THEN NoP ELSE [store[m][d] EXCEPT !.rem = Dec(@)]]]
    /\ due' = [m \in Nodes |-> [k \in Keys |-> IF due[m][k] > 0 /\ due[m][k] < Inf THEN due[m][k] - 1 ELSE due[m][k]]]
    /\ Log([a |-> "Advance"])
    /\ UNCHANGED <<call, conns, inc, obs, bad, budget, box>>

(***************************************************************************)
(* connectLoop / connect                                                   *)
(***************************************************************************)
Eligible(m) == {k \in Keys : cst[m][k].on /\ ~Active(m, k) /\ Expired(cst[m][k]) /\ ~cst[m][k].calling}
Tick(m) ==
    /\ Eligible(m) # {}
    /\ \A k \in Eligible(m) : call[m][k].cpc = "idle"
    /\ WatcherPrompt => \A k \in Eligible(m) : call[m][k].w # "armed"
    /\ cst' = [cst EXCEPT ![m] = [k \in Keys |-> IF k \in Eligible(m) THEN [cst[m][k] EXCEPT !.calling = TRUE] ELSE cst[m][k]]]
    /\ call' = [call EXCEPT ![m] = [k \in Keys |-> IF k \in Eligible(m) THEN [call[m][k] EXCEPT !.cpc = "sel", !.det = FALSE, !.to = cst[m][k].to] ELSE call[m][k]]]
    /\ bad' = bad \cup (IF \E k \in Eligible(m) : due[m][k] > 0 THEN {"dial-before-deadline"} ELSE {})
    /\ Log([a |-> "Tick", m |-> m, sel |-> Eligible(m)])
    /\ UNCHANGED <<store, conns, inc, obs, due, budget, box>>

\* the contact object the goroutine holds: the one in the book, unless it was removed meanwhile (detached)
EndCall(m, k, b) ==    \* calling := false, back-off state b written back
    IF call[m][k].det THEN cst[m][k] ELSE [b EXCEPT !.calling = FALSE]

\* getOrRegister(outbound) created a connection object
RegisterNew(m, k) ==
    /\ call[m][k].cpc = "sel"
    /\ conns' = [conns EXCEPT ![m] = @ \cup {[id |-> OutId(m, k), dir |-> "o", addr |-> call[m][k].to,
                                                 did |-> (IF IsBoot(k) THEN None ELSE k), pid |-> "", auth |-> FALSE, str |-> {}, cx |-> FALSE, listed |-> TRUE]}]
    /\ call' = [call EXCEPT ![m][k].cpc = "dial"]
    /\ Log([a |-> "Register", m |-> m, k |-> k, res |-> "new"])
    /\ UNCHANGED <<cst, store, inc, obs, due, bad, budget, box>>

Register(m, k) ==
    /\ call[m][k].cpc = "sel"
    /\ IF OutExisting(m, k) # {}
       THEN /\ cst' = [cst EXCEPT ![m][k] = EndCall(m, k, cst[m][k])]     \* "stop calling, already has a connection": no back-off
            /\ call' = [call EXCEPT ![m][k].cpc = "idle", ![m][k].det = FALSE, ![m][k].dval = 0, ![m][k].to = None]
            /\ Log([a |-> "Register", m |-> m, k |-> k, res |-> "existing"])
            /\ UNCHANGED <<store, conns, inc, obs, due, bad, budget, box>>
       ELSE RegisterNew(m, k)

\* the address the goroutine dials: contact.peer.Address read at dial time
Target(m, k) == IF HasConn(m, OutId(m, k)) THEN ConnOf(m, OutId(m, k)).addr ELSE None

\* the server half of a call record is forgotten once both goroutines are gone
Norm(cr) == IF cr.cpc = "idle" /\ cr.spc = "ret"
            THEN [cr EXCEPT !.spc = "none", !.sst = None, !.dead = FALSE, !.srv = None, !.sp = ""] ELSE cr

\* the back-off object the goroutine works on: the contact of the book, or the detached object of a removed contact
Bo(m, k) == IF call[m][k].det THEN [NoContact EXCEPT !.val = call[m][k].dval] ELSE cst[m][k]

\* shared epilogue of connect(): back-off operation b, deferred disconnect + remove of the own connection object,
\* grpcClient.Close() (the peer's handler sees the stream context end)
Epilogue(m, k, b, srvDead) ==
    LET own == OutId(m, k)
        shared == HasConn(m, own) /\ \E t \in ConnOf(m, own).str : t \notin {CTag(m, k), "x"}     \* a handler still waits on it
    IN /\ cst' = [cst EXCEPT ![m][k] = EndCall(m, k, b)]
       /\ store' = [store EXCEPT ![m] = Persist(m, k, b)]
       /\ due' = IF call[m][k].det THEN due ELSE [due EXCEPT ![m][k] = b.rem]     \* a detached object does not bind the new contact
       \* an inbound stream registered on this very object is disconnected with it; its handler still has to run SrvDown
       \* (the object lives on, unlisted and disconnected, under another identity until that handler has run)
       /\ conns' = [conns EXCEPT ![m] = IF shared
                                        THEN LET o == ConnOf(m, own)
                                                 t == CHOOSE t \in o.str : t \notin {CTag(m, k), "x"}
                                             IN Replace(m, own, [o EXCEPT !.id = "z/" \o t, !.cx = TRUE, !.listed = FALSE, !.str = @ \ {CTag(m, k)}])
                                        ELSE Without(m, own)]
       /\ call' = [call EXCEPT ![m][k] = Norm([call[m][k] EXCEPT !.cpc = "idle", !.det = FALSE, !.dval = 0, !.to = None,
                                                        !.dead = IF srvDead /\ call[m][k].spc \in {"new", "hdr", "up"} THEN TRUE ELSE @])]

DialFail(m, k) ==
    /\ call[m][k].cpc = "dial" /\ budget.dialfail < MaxDialFail
    /\ budget' = [budget EXCEPT !.dialfail = @ + 1]
    /\ Epilogue(m, k, BackoffOf(Bo(m, k)), FALSE)
    /\ Log([a |-> "DialFail", m |-> m, k |-> k, val |-> NextVal(Bo(m, k).val)])
    /\ UNCHANGED <<inc, obs, bad, box>>

DialCancel(m, k) ==
    /\ call[m][k].cpc = "dial" /\ budget.cancel < MaxCancel
    /\ budget' = [budget EXCEPT !.cancel = @ + 1]
    /\ cst' = [cst EXCEPT ![m][k] = EndCall(m, k, cst[m][k])]
    /\ conns' = [conns EXCEPT ![m] = Without(m, OutId(m, k))]
    /\ call' = [call EXCEPT ![m][k] = Norm([call[m][k] EXCEPT !.cpc = "idle", !.det = FALSE, !.dval = 0, !.to = None])]
    /\ Log([a |-> "DialCancel", m |-> m, k |-> k])
    /\ UNCHANGED <<store, inc, obs, due, bad, box>>

SentBoot(k) == IsBoot(k)                               \* constructMetadata(bootstrap): peerID-"bootstrap", no node DID
SentPid(m, k) == IF SentBoot(k) THEN Pid(m) \o "-bootstrap" ELSE Pid(m)
SentDid(m, k) == IF SentBoot(k) THEN None ELSE DidOf(m)

\* dialer succeeded and protocol.CreateClientStream opened the stream: the peer's handler goroutine exists
DialOK(m, k) ==
    /\ call[m][k].cpc = "dial" /\ call[m][k].spc \in {"none", "ret"}
    /\ Target(m, k) \in Nodes
    /\ call' = [call EXCEPT ![m][k].cpc = "whdr", ![m][k].spc = "new", ![m][k].sst = None, ![m][k].dead = FALSE,
                            ![m][k].srv = Target(m, k), ![m][k].sp = SentPid(m, k)]
    /\ Log([a |-> "DialOK", m |-> m, k |-> k, to |-> Target(m, k)])
    /\ UNCHANGED <<cst, store, conns, inc, obs, due, bad, budget, box>>

(***************************************************************************)
(* Inbound side: handleInboundStream on node n = call[m][k].srv            *)
(***************************************************************************)
\* a handler whose client is gone already may or may not notice it when sending the headers
SrvAccept(m, k, r) ==
    /\ call[m][k].spc = "new"
    /\ r \in (IF call[m][k].dead THEN {"dead", "headers"} ELSE {"headers"})
    /\ IF r = "dead"
       THEN call' = [call EXCEPT ![m][k] = Norm([call[m][k] EXCEPT !.spc = "ret", !.sst = "err"])]      \* "unable to send headers"
       ELSE call' = [call EXCEPT ![m][k].spc = "hdr"]
    /\ Log([a |-> "SrvAccept", m |-> m, k |-> k, res |-> r])
    /\ UNCHANGED <<cst, store, conns, inc, obs, due, bad, budget, box>>

SrvAdmit(m, k, ok) ==
    LET n == call[m][k].srv
        p == call[m][k].sp
        d == SentDid(m, k)
        ex == InExisting(n, p, d)
        key == PeerKey(p, d, "in")
        nt == Notify(obs[n], bad, key, "connected")
    IN
    /\ call[m][k].spc = "hdr"
    /\ (~ok) => (d # None /\ budget.authfail < MaxAuthFail)
    /\ IF ~ok
       THEN /\ budget' = [budget EXCEPT !.authfail = @ + 1]
            /\ call' = [call EXCEPT ![m][k] = Norm([call[m][k] EXCEPT !.spc = "ret", !.sst = "unauth"])]      \* ErrNodeDIDAuthFailed
            /\ UNCHANGED <<conns, obs, bad>>
            /\ Log([a |-> "SrvAdmit", m |-> m, k |-> k, res |-> "unauth"])
       ELSE IF ex # {} /\ (CHOOSE c \in ex : TRUE).str # {}
       THEN /\ call' = [call EXCEPT ![m][k] = Norm([call[m][k] EXCEPT !.spc = "ret", !.sst = "already"])]     \* ErrAlreadyConnected
            /\ UNCHANGED <<conns, obs, bad, budget>>
            /\ Log([a |-> "SrvAdmit", m |-> m, k |-> k, res |-> "already"])
       ELSE /\ IF ex # {}
               THEN LET c == CHOOSE c \in ex : TRUE IN     \* a connection object without stream matches: an OUTBOUND one being set up
                    conns' = [conns EXCEPT ![n] = Replace(n, c.id, [c EXCEPT !.str = @ \cup {STag(m, k)}])]
               ELSE conns' = [conns EXCEPT ![n] = @ \cup {[id |-> InId(m, k), dir |-> "i", addr |-> "in", did |-> d, pid |-> p,
                                                            auth |-> (d # None), str |-> {STag(m, k)}, cx |-> FALSE, listed |-> TRUE]}]
            /\ call' = [call EXCEPT ![m][k].spc = "up"]
            /\ obs' = [obs EXCEPT ![n] = nt[1]]
            /\ bad' = nt[2]
            /\ UNCHANGED budget
            /\ Log([a |-> "SrvAdmit", m |-> m, k |-> k, res |-> (IF ex # {} THEN "shared" ELSE "registered")])
    /\ UNCHANGED <<cst, store, inc, due, box>>

\* connection object of n holding the server side of the stream of call (m,k)
SrvConn(n, m, k) == {c \in conns[n] : STag(m, k) \in c.str}
OwnerBusy(n, c) == \E k2 \in Keys : OutId(n, k2) = c.id /\ call[n][k2].cpc \notin {"idle", "sel"}

\* waitUntilDisconnected returned: the stream context ended (peer gone) or the connection was disconnected locally
SrvDown(m, k) ==
    LET n == call[m][k].srv
        cs == SrvConn(n, m, k)
        key == PeerKey(call[m][k].sp, SentDid(m, k), "in")
        nt == Notify(obs[n], bad, key, "disconnected")
    IN
    /\ call[m][k].spc = "up" /\ cs # {}
    /\ call[m][k].dead \/ \E c \in cs : c.cx
    /\ LET c == CHOOSE c \in cs : TRUE IN
       conns' = [conns EXCEPT ![n] = IF c.dir = "i" \/ ~OwnerBusy(n, c) THEN Without(n, c.id)
                                     ELSE Replace(n, c.id, [c EXCEPT !.listed = FALSE, !.cx = TRUE, !.str = (@ \ {STag(m, k)}) \cup {"x"}])]   \* the dead stream stays in its map
    /\ obs' = [obs EXCEPT ![n] = nt[1]]
    /\ bad' = nt[2]
    /\ call' = [call EXCEPT ![m][k] = Norm([call[m][k] EXCEPT !.spc = "ret", !.sst = "ok"])]
    /\ Log([a |-> "SrvDown", m |-> m, k |-> k])
    /\ UNCHANGED <<cst, store, inc, due, budget, box>>

(***************************************************************************)
(* Outbound side: openOutboundStream                                       *)
(***************************************************************************)
\* r = "error": Header() fails (transport gone, peer could not send headers); r = "proceed": the peer's headers arrived
CliHeaders(m, k, r) ==
    LET n == call[m][k].srv
        own == ConnOf(m, OutId(m, k))
    IN
    /\ call[m][k].cpc = "whdr"
    /\ r = "error" => (call[m][k].dead \/ call[m][k].sst = "err")
    /\ r = "proceed" => (call[m][k].spc \in {"hdr", "up"} \/ (call[m][k].spc = "ret" /\ call[m][k].sst # "err"))
    /\ IF r = "error"
       THEN /\ Epilogue(m, k, BackoffOf(Bo(m, k)), TRUE)                        \* "failed to read gRPC headers"
            /\ UNCHANGED <<obs, bad>>
            /\ Log([a |-> "CliHeaders", m |-> m, k |-> k, res |-> "error"])
       ELSE IF IsBoot(k)
       THEN LET bp == IF BootIdPlain THEN Pid(n) ELSE Pid(n) \o "-bootstrap"
                key == PeerKey(bp, None, own.addr)
                nt == Notify(obs[m], bad, key, "connected")
            IN /\ conns' = [conns EXCEPT ![m] = Replace(m, own.id, [own EXCEPT !.pid = bp, !.str = {CTag(m, k)}])]
               /\ call' = [call EXCEPT ![m][k].cpc = "up", ![m][k].w = "armed", ![m][k].wk = key]
               /\ obs' = [obs EXCEPT ![m] = nt[1]] /\ bad' = nt[2]
               /\ UNCHANGED <<cst, store, due>>
               /\ Log([a |-> "CliHeaders", m |-> m, k |-> k, res |-> "connected"])
       ELSE IF DidOf(n) = None
       THEN /\ Epilogue(m, k, BackoffOf(Bo(m, k)), TRUE)                        \* ErrNodeDIDAuthFailed (peer sent no node DID)
            /\ UNCHANGED <<obs, bad>>
            /\ Log([a |-> "CliHeaders", m |-> m, k |-> k, res |-> "nodid"])
       ELSE IF DidOf(n) # k
       THEN /\ Epilogue(m, k, ResetOf(BackoffOf(Bo(m, k)), Inf), TRUE)          \* ErrUnexpectedNodeDID: Backoff(); Reset(24h)
            /\ UNCHANGED <<obs, bad>>
            /\ Log([a |-> "CliHeaders", m |-> m, k |-> k, res |-> "unexpected"])
       ELSE /\ conns' = [conns EXCEPT ![m] = Replace(m, own.id, [own EXCEPT !.pid = Pid(n)])]     \* verifyOrSetPeerID
            /\ call' = [call EXCEPT ![m][k].cpc = "cauth"]
            /\ UNCHANGED <<cst, store, due, obs, bad>>
            /\ Log([a |-> "CliHeaders", m |-> m, k |-> k, res |-> "auth"])
    /\ UNCHANGED <<inc, budget, box>>

CliAuth(m, k, ok) ==
    LET own == ConnOf(m, OutId(m, k)) IN
    /\ call[m][k].cpc = "cauth"
    /\ (~ok) => budget.authfail < MaxAuthFail
    /\ IF ~ok
       THEN /\ budget' = [budget EXCEPT !.authfail = @ + 1]
            /\ Epilogue(m, k, BackoffOf(Bo(m, k)), TRUE)
            /\ UNCHANGED <<obs, bad>>
            /\ Log([a |-> "CliAuth", m |-> m, k |-> k, res |-> "unauth"])
       ELSE IF own.str # {}
       THEN /\ Epilogue(m, k, BackoffOf(Bo(m, k)), TRUE)                        \* registerStream refused: ErrAlreadyConnected
            /\ UNCHANGED <<obs, bad, budget>>
            /\ Log([a |-> "CliAuth", m |-> m, k |-> k, res |-> "already"])
       ELSE LET key == PeerKey(own.pid, k, own.addr)
                nt == Notify(obs[m], bad, key, "connected")
            IN /\ conns' = [conns EXCEPT ![m] = Replace(m, own.id, [own EXCEPT !.auth = TRUE, !.str = {CTag(m, k)}])]
               /\ call' = [call EXCEPT ![m][k].cpc = "up", ![m][k].w = "armed", ![m][k].wk = key]
               /\ obs' = [obs EXCEPT ![m] = nt[1]] /\ bad' = nt[2]
               /\ UNCHANGED <<cst, store, due, budget>>
               /\ Log([a |-> "CliAuth", m |-> m, k |-> k, res |-> "connected"])
    /\ UNCHANGED <<inc, box>>

\* the stream ended (status from the peer's handler, transport error, local disconnect)
Ended(m, k) == call[m][k].cpc = "up" /\ (call[m][k].dead \/ call[m][k].spc = "ret" \/ ConnOf(m, OutId(m, k)).cx)

\* goroutine started by openOutboundStreams: <-clientStream.Context().Done(); notify Disconnected; connection.disconnect()
CliGone(m, k) ==
    LET nt == Notify(obs[m], bad, call[m][k].wk, "disconnected") IN
    /\ call[m][k].w = "armed"
    /\ call[m][k].cpc # "up" \/ Ended(m, k)
    /\ obs' = [obs EXCEPT ![m] = nt[1]] /\ bad' = nt[2]
    /\ call' = [call EXCEPT ![m][k].w = "none", ![m][k].wk = NoKey]
    /\ Log([a |-> "CliGone", m |-> m, k |-> k])
    /\ UNCHANGED <<cst, store, conns, inc, due, budget, box>>

\* connect() after waitUntilDisconnected: closeError Unauthenticated -> Backoff(), else Reset(random 1..5 s); remove
CliClose(m, k, lost) ==
    LET unauth == call[m][k].spc = "ret" /\ call[m][k].sst = "unauth" /\ ~lost IN
    /\ Ended(m, k)
    /\ lost => (UnauthRace /\ call[m][k].spc = "ret" /\ call[m][k].sst = "unauth")
    /\ Epilogue(m, k, IF unauth THEN BackoffOf(Bo(m, k)) ELSE ResetOf(Bo(m, k), 1), TRUE)
    /\ Log([a |-> "CliClose", m |-> m, k |-> k, res |-> (IF unauth THEN "backoff" ELSE "reset")])
    /\ UNCHANGED <<inc, obs, bad, budget, box>>

(***************************************************************************)
(* Environment faults                                                      *)
(***************************************************************************)
Drop(m, k) ==
    /\ budget.drop < MaxDrop
    /\ call[m][k].cpc \in {"whdr", "cauth", "up"} /\ ~call[m][k].dead /\ call[m][k].spc # "none"
    /\ budget' = [budget EXCEPT !.drop = @ + 1]
    /\ call' = [call EXCEPT ![m][k].dead = TRUE]
    /\ Log([a |-> "Drop", m |-> m, k |-> k])
    /\ UNCHANGED <<cst, store, conns, inc, obs, due, bad, box>>

\* Stop() (connect goroutines end: an established or authenticating call persists Reset(1), one waiting for headers persists Backoff())
\* followed by a new manager on the same store; the network layer feeds the contacts again
StopOp(m, k) ==
    IF call[m][k].cpc \in {"up", "cauth"} THEN ResetOf(Bo(m, k), 1)        \* the stream is (or gets) registered; its context is cancelled
    ELSE IF call[m][k].cpc = "whdr" THEN BackoffOf(Bo(m, k))              \* Header() fails with the cancelled context
    ELSE Bo(m, k)
Restart(m) ==
    /\ budget.restart < MaxRestart
    /\ budget' = [budget EXCEPT !.restart = @ + 1]
    /\ inc' = [inc EXCEPT ![m] = @ + 1]
    /\ cst' = [cst EXCEPT ![m] = [k \in Keys |-> NoContact]]
    /\ conns' = [conns EXCEPT ![m] = {}]
    /\ obs' = [obs EXCEPT ![m] = {}]
    /\ LET ns == [d \in DidKeys |->
                    IF call[m][d].cpc \in {"up", "whdr", "cauth"} THEN [set |-> TRUE, rem |-> StopOp(m, d).rem, val |-> StopOp(m, d).val] ELSE store[m][d]]
       IN /\ store' = [store EXCEPT ![m] = ns]
          \* after a restart the promise is what the store holds (bootstrap contacts are not persisted: dialled at start-up)
          /\ due' = [due EXCEPT ![m] = [k \in Keys |-> IF IsBoot(k) \/ ~ns[k].set THEN 0 ELSE IF ns[k].rem < 0 THEN 0 ELSE ns[k].rem]]
    /\ call' = [m2 \in Nodes |-> [k \in Keys |->
                  LET cr == call[m2][k] IN
                  IF m2 = m
                  THEN Norm([cr EXCEPT !.cpc = "idle", !.det = FALSE, !.dval = 0, !.to = None, !.w = "none", !.wk = NoKey,
                                       !.dead = IF cr.spc \in {"new", "hdr", "up"} THEN TRUE ELSE @])
                  ELSE IF cr.srv = m /\ cr.spc \in {"new", "hdr", "up"}
                  THEN Norm([cr EXCEPT !.spc = "ret", !.sst = "ok", !.dead = TRUE])
                  ELSE cr]]
    /\ Log([a |-> "Restart", m |-> m])
    /\ UNCHANGED <<bad, box>>

(***************************************************************************)
(* Outbox of one connection: conn.Send / startSending (connection.go)      *)
(***************************************************************************)
Send(ign) ==
    /\ box.next <= MaxMsgs
    /\ LET res == IF ~box.open THEN "closed"
                  ELSE IF Len(box.q) >= Hard THEN "hard"
                  ELSE IF Len(box.q) >= Soft /\ ~ign THEN "soft" ELSE "queued"
       IN /\ box' = [box EXCEPT !.next = @ + 1, !.q = IF res = "queued" THEN Append(@, box.next) ELSE @]
          /\ Log([a |-> "Send", ign |-> ign, res |-> res])
    /\ UNCHANGED <<cst, store, call, conns, inc, obs, due, bad, budget>>
Take ==
    /\ box.open /\ box.hand = 0 /\ box.q # <<>>
    /\ box' = [box EXCEPT !.hand = Head(box.q), !.q = Tail(box.q)]
    /\ Log([a |-> "Take"])
    /\ UNCHANGED <<cst, store, call, conns, inc, obs, due, bad, budget>>
Flush ==                                                \* stream.SendMsg returns: blocks while the transport window is full
    /\ box.hand # 0 /\ box.credit > 0
    /\ box' = [box EXCEPT !.hand = 0, !.credit = @ - 1, !.got = Append(@, box.hand)]
    /\ Log([a |-> "Flush"])
    /\ UNCHANGED <<cst, store, call, conns, inc, obs, due, bad, budget>>
Credit ==                                               \* the peer's receiver read a message
    /\ box.open /\ box.credit < MaxCredit /\ MaxMsgs > 0
    /\ box' = [box EXCEPT !.credit = @ + 1]
    /\ Log([a |-> "Credit"])
    /\ UNCHANGED <<cst, store, call, conns, inc, obs, due, bad, budget>>
CloseBox ==                                             \* disconnect(): outboxes closed and dropped
    /\ box.open /\ MaxMsgs > 0 /\ box.next > 1
    /\ box' = [box EXCEPT !.open = FALSE, !.q = <<>>]
    /\ Log([a |-> "CloseBox"])
    /\ UNCHANGED <<cst, store, call, conns, inc, obs, due, bad, budget>>

Next ==
    \/ \E m \in Nodes, k \in Keys, to \in Nodes, dk \in DelayKinds : Feed(m, k, to, dk)
    \/ \E m \in Nodes, k \in Keys : Remove(m, k)
    \/ Advance
    \/ \E m \in Nodes : Tick(m) \/ Restart(m)
    \/ \E m \in Nodes, k \in Keys :
          \/ Register(m, k) \/ DialFail(m, k) \/ DialCancel(m, k) \/ DialOK(m, k)
          \/ (\E r \in {"dead", "headers"} : SrvAccept(m, k, r)) \/ (\E ok \in BOOLEAN : SrvAdmit(m, k, ok)) \/ SrvDown(m, k)
          \/ (\E r \in {"error", "proceed"} : CliHeaders(m, k, r)) \/ (\E ok \in BOOLEAN : CliAuth(m, k, ok)) \/ (\E lost \in BOOLEAN : CliClose(m, k, lost)) \/ CliGone(m, k)
          \/ Drop(m, k)
    \/ (\E ign \in BOOLEAN : Send(ign)) \/ Take \/ Flush \/ Credit \/ CloseBox

Spec == Init /\ [][Next]_vars

\* every goroutine of the code runs; time passes; the transport keeps granting window
CliSide(m, k) == Register(m, k) \/ DialOK(m, k) \/ (\E r \in {"error", "proceed"} : CliHeaders(m, k, r)) \/ CliAuth(m, k, TRUE) \/ (\E lost \in BOOLEAN : CliClose(m, k, lost))
SrvSide(m, k) == (\E r \in {"dead", "headers"} : SrvAccept(m, k, r)) \/ SrvAdmit(m, k, TRUE) \/ SrvDown(m, k)
FairSpec == /\ Spec
            /\ \A m \in Nodes : WF_vars(Tick(m))
            /\ \A m \in Nodes, k \in Keys : WF_vars(CliSide(m, k)) /\ WF_vars(SrvSide(m, k)) /\ WF_vars(CliGone(m, k))
            /\ WF_vars(Advance) /\ WF_vars(Take) /\ WF_vars(Flush) /\ WF_vars(Credit)

(***************************************************************************)
(* Properties                                                              *)
(***************************************************************************)
Live(m) == {c \in Listed(m) : c.str # {}}

TypeOK ==
    /\ \A m \in Nodes, k \in Keys :
         /\ call[m][k].cpc \in {"idle", "sel", "dial", "whdr", "cauth", "up"}
         /\ call[m][k].spc \in {"none", "new", "hdr", "up", "ret"}
         /\ cst[m][k].rem \in -1..Inf /\ cst[m][k].val \in 0..Inf
    /\ \A m \in Nodes : \A c \in conns[m] : c.dir \in {"o", "i"}

\* P1  the connection list holds at most one connection per peer identity and direction, at most one outbound connection
\*     per contact, and an established outbound connection belongs to a call that is up
OnePerPeerAndDirection ==
    \A m \in Nodes : \A c1, c2 \in Live(m) :
        (c1.dir = c2.dir /\ c1.pid = c2.pid /\ c1.did = c2.did /\ c1.addr = c2.addr) => c1 = c2
OneOutboundPerDid ==
    \A m \in Nodes : \A c1, c2 \in Listed(m) : (c1.dir = "o" /\ c2.dir = "o" /\ c1.did # None /\ c1.did = c2.did) => c1 = c2
\* stricter wish (NOT promised by the code, Peer.Key: "2 connections may exist for a peer (inbound/outbound)"):
OnePerPeer ==
    \A m \in Nodes : \A c1, c2 \in Live(m) : (c1.pid = c2.pid /\ c1.did = c2.did /\ c1.did # None) => c1 = c2
\* no connection to oneself (node DID level; network.connectToDID skips the own DID)
NoSelfConnection == \A m \in Nodes : \A c \in conns[m] : c.did = None \/ c.did # DidOf(m)

\* P2  shape of the back-off: a failure never lowers it below min(previous, cap) and never exceeds the cap; checked on every step
BackoffShape ==
    [][\A m \in Nodes, k \in Keys :
         (cst[m][k].on /\ cst'[m][k].on /\ cst'[m][k].val # cst[m][k].val) =>
             \/ cst'[m][k].val = NextVal(cst[m][k].val)         \* failure: x1.5 up to the cap
             \/ cst'[m][k].val \in {0, 1, Delay, Inf}]_vars       \* reset (delay of Connect, orderly disconnect, unexpected DID)
\* a peer that refuses our node DID authentication is backed off from ("Otherwise, backoff isn't honored"); needs UnauthRace = FALSE
RefusalBacksOff ==
    [][\A m \in Nodes, k \in Keys :
         (call[m][k].cpc = "up" /\ call'[m][k].cpc = "idle" /\ call[m][k].spc = "ret" /\ call[m][k].sst = "unauth" /\ cst[m][k].on /\ ~call[m][k].det
            /\ inc' = inc)
            => cst'[m][k].val = NextVal(cst[m][k].val)]_vars
BackoffBounded == \A m \in Nodes, k \in Keys : cst[m][k].val <= BMax \/ cst[m][k].val = Inf \/ cst[m][k].val = Delay

\* P3/P5/P7  ghost flags raised by the actions
NoEarlyDial == "dial-before-deadline" \notin bad
Alternation == bad \cap {"connected-twice", "disconnected-without-connected"} = {}
\* P5  a removed contact is not selected: calling implies present or detached
CallingConsistent == \A m \in Nodes, k \in Keys : (call[m][k].cpc # "idle") => (cst[m][k].on \/ call[m][k].det)

\* P6  outbox
OutboxBounded == Len(box.q) <= Hard
OutboxFifo == \A i, j \in 1..Len(box.got) : i < j => box.got[i] < box.got[j]
SoftRespected == [][(Send(FALSE) /\ Len(box'.q) > Len(box.q)) => Len(box.q) < Soft]_vars
NoLossWhileOpen == box.open => (Len(box.got) + Len(box.q) + (IF box.hand # 0 THEN 1 ELSE 0) <= box.next - 1)

\* P4  liveness: a contact whose address is served by the expected node is eventually connected (in either direction)
Matches(m, k) == cst[m][k].on /\ (IF IsBoot(k) THEN TRUE ELSE DidOf(cst[m][k].to) = k) /\ cst[m][k].val < Inf
Linked(m, k) == IF IsBoot(k) THEN \E c \in Live(m) : c.addr = BootAddr(k) /\ c.did = None
                ELSE \E c \in Live(m) : c.did = k /\ c.auth
EventuallyConnected == \A m \in Nodes, k \in Keys : <>[](Matches(m, k) => Linked(m, k))
\* Under purely adversarial scheduling two nodes that keep dialling each other at the same moment can reject each other's
\* connection for ever (each side answers "already connected", see MutualReject); the random reset of 1..5 s and the
\* 1 s ticks make that a probability-zero schedule.  Assumption: eventually a handshake is not overlapped by another tick.
Settled == \A m \in Nodes, k \in Keys : call[m][k].cpc \in {"idle", "up"} /\ call[m][k].spc \in {"none", "up"} /\ ~call[m][k].dead
IsolatedTicks == <>[][\A m \in Nodes : Tick(m) => Settled]_vars
EventuallyConnectedIsolated == IsolatedTicks => EventuallyConnected
OutboxDrains == <>[](box.open => (box.q = <<>> /\ box.hand = 0))
=============================================================================
