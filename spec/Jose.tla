-------------------------------- MODULE Jose --------------------------------
(***************************************************************************)
(* C17 -- the table  Consumer x KeyFamily x Variant -> {accept, reject}    *)
(* as a small state machine: the verification pipeline of each consumer of *)
(* signed tokens, transcribed step by step                                 *)
(*   vcjwt, vpjwt  go-did parse + vcr/verifier (crypto.ParseJWT)           *)
(*   jar           auth/api/iam/jar.go validate (crypto.ParseJWT + client  *)
(*                 key set)                                                *)
(*   dpop          crypto/dpop Parse + Match(jkt)                          *)
(*   apitoken      http/tokenV2 middleware                                 *)
(*   dagtx-jwk/kid network/dag ParseTransaction + signature verifier       *)
(*   ldproof       vcr/verifier jsonldProof + proof.LDProof.Verify         *)
(* applied to every hostile variant of a valid token.  A variant is a      *)
(* record of SEMANTIC attributes (ground truth known to the forger); the   *)
(* invariant AcceptSound is the property statement evaluated on them.      *)
(*                                                                         *)
(* Deviation constants (TRUE = the code as read/observed, FALSE = the      *)
(* property):                                                              *)
(*   LenientBase64        jwx decodes padded / non-canonical base64 of the *)
(*                        protected header and payload and verifies over   *)
(*                        the RE-ENCODED text, not the received one        *)
(*   CurveBlindES         ES256/384/512 verification does not check that   *)
(*                        the key's curve is the one of the algorithm      *)
(*                        (F19-alg-curve; repaired in the code: the        *)
(*                        consumers call jwx.ValidateKeyForAlgorithm,      *)
(*                        FALSE in the descriptive configuration since)    *)
(*   ApiTokenAnySignature tokenV2 wants >= 1 secure signature, not = 1     *)
(*   DagAcceptsPrivateJWK ParseTransaction accepts an embedded private key *)
(*   LdAlgFromHeader      LDProof.Verify takes the verification algorithm  *)
(*                        from the alg member of the detached JWS header   *)
(*                        (when it is a supported one) instead of deriving *)
(*                        it from the resolved key; the raw jws verifier   *)
(*                        it then runs has no curve check.  FALSE in the   *)
(*                        code as read; Jose.ldhdr.cfg = TRUE shows which  *)
(*                        variants such a verifier wrongly accepts         *)
(*   DagIgnoresExtraSegments  jws.Parse/Verify read the first three        *)
(*                        dot-separated segments and ignore the rest, the  *)
(*                        transaction (and its ref) is the whole input     *)
(***************************************************************************)
EXTENDS Naturals, Sequences, FiniteSets, TLC, Json

CONSTANTS LenientBase64, CurveBlindES, ApiTokenAnySignature, DagAcceptsPrivateJWK, DagIgnoresExtraSegments, LdAlgFromHeader, Gen

Consumers == {"vcjwt", "vpjwt", "jar", "dpop", "apitoken", "dagtx-jwk", "dagtx-kid", "ldproof"}
Fams == {"p256", "p384", "p521", "ed25519", "rsa"}
Dag == {"dagtx-jwk", "dagtx-kid"}
SelfKeyed == {"dpop", "dagtx-jwk"}          \* the protocol mandates an embedded public key
KeyHasMembers == SelfKeyed \cup {"vcjwt", "vpjwt", "jar", "ldproof"}   \* the key is a JWK from the token / a DID document / a key set
NoKidHeader == SelfKeyed \cup {"ldproof"}   \* ldproof: the key id is proof.verificationMethod (part of the signed data)

\* the algorithm a valid token of this consumer uses with a key of the family
FitAlg(c, f) == CASE f = "p256" -> "ES256" [] f = "p384" -> "ES384" [] f = "p521" -> "ES512" [] f = "ed25519" -> "EdDSA"
                  [] OTHER -> IF c = "apitoken" THEN "PS512" ELSE "PS256"
\* allow-lists: crypto/jwx/algorithm.go SupportedAlgorithms, tokenV2 acceptableSignatureAlgorithm, dag allowedAlgos;
\* LDProof.Verify derives the algorithm from the resolved key (crypto.SignatureAlgorithm)
Allowed(c) == CASE c = "apitoken" -> {"ES256", "ES384", "ES512", "EdDSA", "RS512", "PS512"}
                [] c \in Dag -> {"ES256", "ES384", "ES512", "PS256", "PS384", "PS512"}
                [] OTHER -> {"ES256", "ES384", "ES512", "EdDSA", "PS256", "PS384", "PS512"}

(***************************************************************************)
(* Variants                                                                *)
(*  ser    compact | flattened | general          nsig   0 | 1 | 2         *)
(*  alg    fit | none | mac | otherfam | sibling | mismatch  (header label)*)
(*  signer legit | attacker | nobody   (who made the signature under test) *)
(*  sigok  the signature value is genuine for (signer, label) over the     *)
(*         canonical encoding of the header/payload the token now carries  *)
(*  keyref asvalid | other-party | attacker-known | lookalike              *)
(*         (kid / verification method)                                     *)
(*  keyhdr asvalid | jwk-attacker | jwk-private | jwk-private-own | jku |  *)
(*         x5u | x5c                                                       *)
(*  enc    canonical | {h,p,s}-pad | {h,p,s}-noncanon | s-stdalpha |       *)
(*         extra-seg                                                       *)
(***************************************************************************)
(*  actual the algorithm the signature was REALLY made with:               *)
(*         label (= the header's) | key-disallowed | key-other-allowed     *)
(*         (= the one named by the alg member of the verification key)     *)
D == [ser |-> "compact", nsig |-> 1, alg |-> "fit", signer |-> "legit", sigok |-> TRUE, keyref |-> "asvalid",
      keyhdr |-> "asvalid", enc |-> "canonical", actual |-> "label"]
VTab ==
    ("valid" :> D) @@
    ("alg-none" :> [D EXCEPT !.alg = "none", !.signer = "nobody", !.sigok = FALSE]) @@
    ("alg-hmac-pubkey" :> [D EXCEPT !.alg = "mac", !.signer = "nobody"]) @@
    ("alg-other-family" :> [D EXCEPT !.alg = "otherfam", !.signer = "attacker"]) @@
    ("alg-sibling" :> [D EXCEPT !.alg = "sibling", !.signer = "attacker"]) @@
    ("alg-label-only" :> [D EXCEPT !.alg = "sibling", !.sigok = FALSE]) @@
    ("legit-alg-mismatch" :> [D EXCEPT !.alg = "mismatch"]) @@
    \* the protected header names the algorithm TWICE (the fitting one and the one really used, either order): whichever
    \* member a parser keeps, the signature was made with an algorithm that does not fit the key
    ("hdr-dup-alg-mismatch-signed" :> [D EXCEPT !.alg = "mismatch"]) @@
    \* RSA: a genuine signature by the legitimate key with ANOTHER allowed algorithm that fits the key (PS384/PS512 next to
    \* PS256): sound wherever the label is on the allow-list; a verifier that derives the algorithm from the key refuses it
    ("legit-alg-sibling-fit" :> [D EXCEPT !.alg = "sibfit"]) @@
    ("sigs-0" :> [D EXCEPT !.ser = "general", !.nsig = 0, !.signer = "nobody", !.sigok = FALSE]) @@
    ("sigs-2-legit-first" :> [D EXCEPT !.ser = "general", !.nsig = 2]) @@
    ("sigs-2-attacker-first" :> [D EXCEPT !.ser = "general", !.nsig = 2]) @@
    ("flattened" :> [D EXCEPT !.ser = "flattened"]) @@
    ("general-1" :> [D EXCEPT !.ser = "general"]) @@
    ("inject-jwk" :> [D EXCEPT !.signer = "attacker", !.keyhdr = "jwk-attacker"]) @@
    ("inject-jku" :> [D EXCEPT !.signer = "attacker", !.keyhdr = "jku"]) @@
    ("inject-x5u" :> [D EXCEPT !.signer = "attacker", !.keyhdr = "x5u"]) @@
    ("inject-x5c" :> [D EXCEPT !.signer = "attacker", !.keyhdr = "x5c"]) @@
    ("embedded-private-key" :> [D EXCEPT !.signer = "attacker", !.keyhdr = "jwk-private"]) @@
    \* self-keyed tokens: the legitimate signer embeds its own PRIVATE key instead of the public one
    ("own-private-key-embedded" :> [D EXCEPT !.keyhdr = "jwk-private-own"]) @@
    ("kid-other-party" :> [D EXCEPT !.keyref = "other-party", !.sigok = FALSE]) @@
    ("kid-attacker-resigned" :> [D EXCEPT !.keyref = "attacker-known", !.signer = "attacker"]) @@
    \* a hostile party whose resolvable key id RESEMBLES the legitimate one signs in the legitimate party's name:
    \* its DID extends the legitimate DID as a string / is a proper prefix of it / its fragment contains the legitimate DID
    ("kid-lookalike-ext-resigned" :> [D EXCEPT !.keyref = "lookalike", !.signer = "attacker"]) @@
    ("kid-lookalike-pre-resigned" :> [D EXCEPT !.keyref = "lookalike", !.signer = "attacker"]) @@
    ("kid-lookalike-frag-resigned" :> [D EXCEPT !.keyref = "lookalike", !.signer = "attacker"]) @@
    ("key-swapped" :> [D EXCEPT !.signer = "attacker"]) @@
    \* the verification key (embedded jwk / published JWK) has an alg, use or key_ops member of its own; genuine signatures
    \* by the legitimate key:  header alg allowed, key alg (= the one used) not allowed or not fitting the key;
    \* header and key name different allowed algorithms; header alg not allowed, key alg allowed; key says "not for signing"
    ("keyalg-disallowed-signed" :> [D EXCEPT !.actual = "key-disallowed"]) @@
    ("keyalg-other-allowed-signed" :> [D EXCEPT !.actual = "key-other-allowed"]) @@
    ("hdr-badlabel-keyalg-fit" :> [D EXCEPT !.alg = "badlabel"]) @@
    ("key-members-contradict-signing" :> D) @@
    ("protected-altered" :> [D EXCEPT !.sigok = FALSE]) @@
    ("payload-altered" :> [D EXCEPT !.sigok = FALSE]) @@
    ("sig-altered" :> [D EXCEPT !.sigok = FALSE]) @@
    \* one used bit flipped at every character position of the segment (all positions in the thorough tier)
    ("sweep-h" :> [D EXCEPT !.sigok = FALSE]) @@ ("sweep-p" :> [D EXCEPT !.sigok = FALSE]) @@ ("sweep-s" :> [D EXCEPT !.sigok = FALSE]) @@
    ("pad-h" :> [D EXCEPT !.enc = "h-pad"]) @@ ("pad-p" :> [D EXCEPT !.enc = "p-pad"]) @@ ("pad-s" :> [D EXCEPT !.enc = "s-pad"]) @@
    ("noncanon-h" :> [D EXCEPT !.enc = "h-noncanon"]) @@ ("noncanon-p" :> [D EXCEPT !.enc = "p-noncanon"]) @@
    ("noncanon-s" :> [D EXCEPT !.enc = "s-noncanon"]) @@ ("stdalpha-s" :> [D EXCEPT !.enc = "s-stdalpha"]) @@
    ("extra-segment" :> [D EXCEPT !.enc = "extra-seg"])
Variants == DOMAIN VTab
Lookalikes == {"kid-lookalike-ext-resigned", "kid-lookalike-pre-resigned", "kid-lookalike-frag-resigned"}
AttackerRef == {"attacker-known", "lookalike"}      \* key references that resolve to a key of the hostile party

\* does the variant exist for this consumer / key family (mirrors the concretiser)
Applicable(c, f, v) ==
    CASE v \in {"alg-sibling", "legit-alg-mismatch"} -> f # "ed25519"
      [] v = "hdr-dup-alg-mismatch-signed" -> f \in {"p256", "p384", "p521"}
      [] v = "legit-alg-sibling-fit" -> f = "rsa"
      [] v = "own-private-key-embedded" -> c \in SelfKeyed
      [] v = "keyalg-disallowed-signed" -> c \in KeyHasMembers /\ f # "ed25519"
      [] v = "keyalg-other-allowed-signed" -> c \in KeyHasMembers /\ f = "rsa"
      [] v = "hdr-badlabel-keyalg-fit" -> c \in KeyHasMembers \ {"ldproof"}     \* an LD proof verifier never reads the header label
      [] v = "key-members-contradict-signing" -> c \in KeyHasMembers
      [] v = "kid-other-party" -> c \notin SelfKeyed
      [] v = "kid-attacker-resigned" -> c \notin SelfKeyed \cup {"apitoken"}   \* the attacker's key is not in authorized_keys
      [] v \in Lookalikes -> c \in {"vcjwt", "vpjwt", "jar", "dagtx-kid", "ldproof"}   \* consumers that bind a key id to a DID
      [] v \in {"pad-p", "noncanon-p", "sweep-p"} -> c # "ldproof"                         \* detached payload
      [] v \in {"pad-s", "noncanon-s"} -> f \notin {"p384", "p521"}             \* 96/132 signature bytes encode without remainder
      [] OTHER -> TRUE

\* ground truth: does the algorithm really used fit the key?  (mismatch: ES384+SHA-384 made with a P-256 key, ...; with an
\* RSA key "mismatch" is the deprecated RS256/RS384 of the same family, which fits the key but is on no allow-list)
Fits(f, a) == ~(a.alg = "mismatch" /\ f # "rsa")
LabelAllowed(c, f, a) ==
    CASE a.alg = "fit" -> FitAlg(c, f) \in Allowed(c)
      [] a.alg \in {"none", "mac", "badlabel"} -> FALSE
      [] a.alg = "mismatch" -> f # "rsa"
      [] a.alg = "sibfit" -> IF c = "apitoken" THEN FALSE ELSE TRUE     \* PS256/PS384 are not on tokenV2's list
      [] OTHER -> TRUE          \* otherfam / sibling: labels taken from the allow-list
HPEnc == {"h-pad", "p-pad", "h-noncanon", "p-noncanon", "extra-seg"}   \* the received header/payload TEXT is not what was signed

VARIABLES cs, phase, verdict, key, valg     \* valg: where the verifier takes its algorithm from (none | label | key)
vars == <<cs, phase, verdict, key, valg>>
A == VTab[cs.variant]
C == cs.consumer
F == cs.fam

Init == /\ cs \in {x \in [consumer : Consumers, fam : Fams, variant : Variants] : Applicable(x.consumer, x.fam, x.variant)}
        /\ phase = "parse" /\ verdict = "none" /\ key = "none" /\ valg = "none"

Reject == /\ verdict' = "reject" /\ phase' = "done" /\ UNCHANGED <<cs, key, valg>>
Go(p) == /\ phase' = p /\ UNCHANGED <<cs, verdict, key, valg>>

\* which serialisations / encodings get past the parser of the consumer
SerOK == \/ A.ser = "compact"
         \/ A.ser = "general" /\ C \in {"jar", "dpop", "apitoken"} \cup Dag      \* jws.Parse / jwt.Parse take the general form
         \/ A.ser = "flattened" /\ C \in Dag                                     \* jwt.Parse does not recognise the flattened form
EncOK == IF C = "ldproof"
         THEN A.enc \notin {"s-pad", "s-stdalpha", "extra-seg"}                  \* strings.Split(".."), RawURLEncoding (lenient on trailing bits)
         ELSE \/ A.enc = "canonical"
              \/ LenientBase64 /\ A.enc # "extra-seg"
              \/ DagIgnoresExtraSegments /\ A.enc = "extra-seg" /\ C \in Dag          \* jwt.Parse refuses extra segments, jws.Parse does not
Parse == /\ phase = "parse"
         /\ IF SerOK /\ EncOK THEN Go("count") ELSE Reject

Count == /\ phase = "count"
         /\ IF A.nsig = 1 \/ (C = "apitoken" /\ ApiTokenAnySignature /\ A.nsig >= 1) THEN Go("alg") ELSE Reject

\* allow-list on the header label, and the SOURCE of the verification algorithm: the jwx based consumers verify with the
\* algorithm of the protected header (after the allow-list and the key/algorithm consistency check); LDProof.Verify never
\* reads the header, it derives the algorithm from the resolved key (crypto.SignatureAlgorithm)
AlgSource == IF C = "ldproof" /\ ~(LdAlgFromHeader /\ LabelAllowed(C, F, A)) THEN "key" ELSE "label"
Alg == /\ phase = "alg"
       /\ IF C = "ldproof" \/ LabelAllowed(C, F, A)
          THEN /\ phase' = "key" /\ valg' = AlgSource /\ UNCHANGED <<cs, verdict, key>>
          ELSE Reject

\* where the verification key comes from
SelectKey ==
    /\ phase = "key"
    /\ CASE C = "dpop" ->
              IF A.keyhdr \in {"jwk-private", "jwk-private-own"} THEN Reject      \* jwkIsPrivateKey
              ELSE /\ key' = (IF A.keyhdr = "jwk-attacker" THEN "attacker" ELSE "legit")
                   /\ phase' = "verify" /\ UNCHANGED <<cs, verdict, valg>>
         [] C = "dagtx-jwk" ->
              IF A.keyhdr \in {"jwk-private", "jwk-private-own"} /\ ~DagAcceptsPrivateJWK THEN Reject
              ELSE /\ key' = (IF A.keyhdr \in {"jwk-attacker", "jwk-private"} THEN "attacker" ELSE "legit")
                   /\ phase' = "verify" /\ UNCHANGED <<cs, verdict, valg>>
         [] C = "dagtx-kid" ->
              IF A.keyhdr \in {"jwk-attacker", "jwk-private"} THEN Reject       \* kid and jwk are mutually exclusive
              ELSE /\ key' = (CASE A.keyref = "other-party" -> "other" [] A.keyref \in AttackerRef -> "attacker" [] OTHER -> "legit")
                   /\ phase' = "verify" /\ UNCHANGED <<cs, verdict, valg>>
         [] C = "apitoken" ->
              IF A.keyhdr # "asvalid" THEN Reject                                \* jwk / jku / x5c / x5u are forbidden
              ELSE /\ key' = (IF A.keyref = "other-party" THEN "other" ELSE "legit")
                   /\ phase' = "verify" /\ UNCHANGED <<cs, verdict, valg>>
         [] OTHER ->   \* vcjwt, vpjwt, jar: resolver(kid); ldproof: resolver(proof.verificationMethod); headers ignored
              /\ key' = (CASE A.keyref = "other-party" -> "other" [] A.keyref \in AttackerRef -> "attacker" [] OTHER -> "legit")
              /\ phase' = "verify" /\ UNCHANGED <<cs, verdict, valg>>

\* the signature verifies with the selected key
SigVerifies ==
    /\ A.sigok /\ A.signer = key
    /\ A.actual = "label"                               \* the verifier uses the algorithm of the protected header
    /\ A.alg \notin {"none", "mac", "otherfam"}
    /\ (A.alg = "sibling" => FALSE)                      \* made with a key of another curve / hash than the selected key allows
    /\ (Fits(F, A) \/ (CurveBlindES /\ C # "ldproof") \/ (C = "ldproof" /\ valg = "label"))   \* the raw jws verifier is curve blind
    /\ (C = "ldproof" => A.enc \notin {"h-pad", "h-noncanon"})   \* verified over the received header text
    /\ (valg = "key" => A.alg \notin {"mismatch", "sibfit"})    \* verifier algorithm = the one derived from the key
Verify == /\ phase = "verify"
          /\ IF SigVerifies THEN Go("bind") ELSE Reject

\* is the key holder the party the token speaks for?
Bind == /\ phase = "bind"
        /\ IF \/ key = "legit"
              \/ key = "attacker" /\ C \in {"vpjwt", "dagtx-kid"} /\ A.keyref \in AttackerRef      \* signer := DID of the kid
              \/ key = "attacker" /\ C = "dagtx-jwk"                                                \* self-keyed transaction
           THEN /\ verdict' = "accept" /\ phase' = "done" /\ UNCHANGED <<cs, key, valg>>
           ELSE Reject   \* vcjwt: kid DID # issuer; jar: key not in the client's key set; dpop: jkt mismatch; apitoken: iss # user

Next == Parse \/ Count \/ Alg \/ SelectKey \/ Verify \/ Bind
Spec == Init /\ [][Next]_vars

(***************************************************************************)
(* The property, on the ground truth of the variant                        *)
(***************************************************************************)
Sound(c, f, a) ==
    /\ a.nsig = 1                                                   \* exactly one signature
    /\ LabelAllowed(c, f, a) /\ a.alg \notin {"none", "mac"}        \* allowed asymmetric algorithm
    /\ Fits(f, a) /\ a.actual # "key-disallowed"                    \* ... that fits the verification key (the one really used)
    /\ a.sigok /\ a.enc \notin HPEnc                                \* verified over the exact bytes received
    /\ a.keyhdr \notin {"jwk-private", "jwk-private-own"}          \* embedded private keys are refused
    /\ \/ a.signer = "legit"                                        \* key taken from where the protocol says
       \/ a.signer = "attacker" /\ c \in {"vpjwt", "dagtx-kid"} /\ a.keyref \in AttackerRef    \* = a genuine token of that party
       \/ a.signer = "attacker" /\ c = "dagtx-jwk" /\ a.keyhdr = "jwk-attacker"                  \* = a genuine self-keyed tx
MustReject == ~Sound(C, F, A)
AcceptSound == verdict = "accept" => ~MustReject
\* the header of a detached JWS never decides how a JSON-LD proof is verified
LdAlgFromKey == (C = "ldproof" /\ valg # "none") => valg = "key"
\* non-vacuity: the valid token of every supported consumer/family is accepted
ValidAccepted == (phase = "done" /\ cs.variant = "valid" /\ FitAlg(C, F) \in Allowed(C)) => verdict = "accept"

Emit == (phase = "done" /\ Gen) =>
        PrintT(ToJson([consumer |-> C, fam |-> F, variant |-> cs.variant, attrs |-> A, expect |-> verdict, algsrc |-> valg,
                       must_reject |-> MustReject, bad |-> (verdict = "accept" /\ MustReject)]))
=============================================================================
