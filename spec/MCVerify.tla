----------------------------- MODULE MCVerify -----------------------------
(* Model-checking / generation wrapper of Verify.tla: prints every case with the verdict the pipeline as implemented *)
(* gives (impl) and the verdict the property statement requires (req).                                            *)
EXTENDS Verify, Json

Emit == (pc = "done" /\ Hist) => PrintT(ToJson([case |-> c, impl |-> verdict, req |-> Required(c), failing |-> IF c.fam = "mut" THEN {} ELSE Failing(c),
                                                sched |-> IF c.fam = "race" THEN hist ELSE <<>>]))
=============================================================================
