---------------------------- MODULE DidResolve ----------------------------
(***************************************************************************)
(* C18 - DID resolution binds the document to the identifier and to the    *)
(* right origin.  Decision logic of                                        *)
(*   vdr/vdr.go              method router; did:web = chain(local, web)    *)
(*   vdr/didsubject/resolver.go   local sqlite, ErrDeactivated / opt-in    *)
(*   vdr/didweb/util.go      DIDToURL / URLToDID                           *)
(*   vdr/didweb/web.go       GET <url>/did.json, status, content type, id  *)
(*   http/client/client.go   StrictHTTPClient (https only, 1 MiB, and the  *)
(*                           net/http redirect policy it inherits)         *)
(*   vdr/didjwk, vdr/didkey  documents computed from the identifier        *)
(* transcribed over ABSTRACT CLASSES of identifiers, server answers and    *)
(* local histories.  One resolution = one behaviour:                       *)
(*   Route -> Local -> Parse -> Fetch -> (Follow) -> Check -> done         *)
(* TLC enumerates the complete product of the classes (one initial state   *)
(* per case) and computes the verdict; tools/props/didresolve.py turns     *)
(* every case into concrete identifiers / server scripts and runs the real *)
(* resolvers (harness/drivers/didresolve).                                 *)
(*                                                                         *)
(* Deviations of the code from the property are named constants            *)
(* (DESIGN 2.6): the prescriptive configuration (all TRUE) satisfies every *)
(* invariant; the descriptive one mirrors the tree and is what cases and   *)
(* predictions are generated from.                                         *)
(***************************************************************************)
EXTENDS Naturals, FiniteSets, Sequences, TLC

CONSTANTS
    RedirectHttpsGuard,\* TRUE: a redirect to a plain http:// URL is refused in strict mode (checkRedirect, repaired in 32e5edf).
                       \*       FALSE: StrictHTTPClient checks the scheme of the first request only (F14 as found)
    RedirectHostGuard, \* TRUE: an https redirect to ANOTHER host (name or IP literal) is refused.  FALSE: net/http default policy, it is
                       \*       followed and the document of the foreign origin accepted (open part of F14)
    LiveRedirectPolicy,\* TRUE: the redirect policy of the StrictHTTPClient consults client.StrictMode when the redirect happens (the tree).
                       \*       FALSE: it is chosen once, with the value the flag had when the client was CONSTRUCTED - wrong for the did:web
                       \*       resolver of a node, which vdr.Configure builds before http.Engine.Configure (registered last) switches the flag on
    Builds,            \* when the resolver (and its HTTP client) is constructed relative to strict mode being switched on
    SlashKeptEncoded,  \* TRUE: "%2F" inside a path segment stays inside that segment of the fetched URL (the tree since the repair of
                       \*       F18-C18).  FALSE: web.go appends "/did.json" to URL.Path only, RawPath is lost and the slash becomes a separator
    EscapedRoundTrip,  \* TRUE: URLToDID re-escapes everything DIDToURL left escaped (the tree since the repair of F19-C18: URL.EscapedPath()).
                       \*       FALSE: it reads the decoded URL.Path and re-escapes only the sub-delims: an escaped space / non-ASCII octet /
                       \*       '?' / '#' / '%' comes back raw and the result is not a DID, or not the same DID
    DotSegmentsKept,   \* TRUE: "." and ".." path segments of the identifier reach the server as they are written (the tree: web.go appends
                       \*       "/did.json" to the path).  FALSE: the path is cleaned before the request (path.Join, ResolveReference ...), the fetch
                       \*       goes to the location that ANOTHER identifier encodes (did:web:h:a:..:b is fetched from the location of did:web:h:b)
    CurrentByVersion,  \* TRUE: the current version of a locally managed document is the one with the highest VERSION NUMBER (the tree).
                       \*       FALSE: the one with the highest timestamp - wrong whenever the wall clock did not grow with the version number
    FutureVersionsVisible, \* TRUE: every stored version counts.  FALSE: Latest() filters "updated_at <= now + 1h" also when no resolve time is
                       \*       asked for (the tree): a version written while the clock was more than an hour ahead of the clock at resolution
                       \*       time does not exist for the resolver
    HostClasses, PathClasses, Answers, KeyClasses, Metas,
    Histories,         \* local document histories: the sequence of the timestamps (ranks: equal = same second) of versions 0..n-1 in the
                       \* did_document_version table; for a deactivated DID the last version is the deactivation (empty document)
    Aheads             \* which versions carry a timestamp beyond the resolver's "now + 1h" window: "none" | "last" | "all"

(*--------------------------- identifier grammar classes -----------------*)
\* host part (method specific id up to the first ':'), after one round of percent-decoding
HostIsIP(h)       == h \in {"ipv4", "ipv4port", "ipv6", "ipv6port", "ipv6zone", "ipv4mapped"}
HostIsUserinfo(h) == h \in {"userinfo"}
\* characters that would move the authority boundary, or are no host characters at all
HostIsIllegal(h)  == h \in {"pctslash", "pcthash", "pctquery", "backslash", "badport", "dblenc", "control"}
\* a name (optionally with port) as DIDToURL sees it.  "numeric" (2130706433, 127.1, 0x7f000001) and "emptyhost" (%3A443) are
\* names to net.ParseIP / url.Parse, so the code accepts them; the property statement does not call them IP addresses either.
HostIsName(h)     == h \in {"name", "nameport", "mixedcase", "lowerhex", "pctalpha", "trailingdot", "idn", "emptyport",
                            "numeric", "emptyhost"}
HostAccepted(h)   == HostIsName(h)       \* util.go: url.Parse ok /\ parsed.Host = unescaped id /\ net.ParseIP(hostname) = nil

\* path part (':'-separated segments)
PathRejected(p)   == p \in {"empty", "trailing"}          \* util.go: HasSuffix "/" or Contains "//"
\* does the fetched path equal the path the identifier encodes?
PathFetchedAsEncoded(p) == CASE p = "pctslash" -> SlashKeptEncoded
                             [] p = "dot"      -> DotSegmentsKept
                             [] OTHER          -> TRUE
\* path classes for which a canonicalisation (decoding once more, cleaning dot segments, folding case) yields ANOTHER location on the
\* same host - on a shared host typically the location of somebody else's DID
DecoyPathClasses == {"segs", "dot", "pctslash", "dblenc"}
\* the sub-grammar of the round-trip law: domain name, optional port, segments free of query, fragment and doubly encoded characters
InSubGrammar(h, p) == /\ h \in {"name", "nameport", "mixedcase"}
                      /\ p \in {"none", "segs", "subdelims", "pctother", "pctslash", "dot"}
RoundTrips(h, p)  == /\ HostAccepted(h) /\ ~PathRejected(p)
                     /\ h \notin {"lowerhex", "pctalpha", "idn"}   \* not canonical / not expressible: comes back different
                     /\ CASE p = "pctother" -> EscapedRoundTrip
                          [] p = "pctqf"    -> EscapedRoundTrip   \* read from the decoded path '?' and '#' come back raw: not a DID
                          [] p = "dblenc"   -> EscapedRoundTrip   \* read from the decoded path "%25" comes back as "%": another DID
                          [] OTHER          -> TRUE

(*--------------------------- server answer classes ----------------------*)
IsRedirect(a)   == a \in {"redir-samehost", "redir-otherhost", "redir-http", "redir-http-ip", "redir-https-ip"}
RedirectLeaves(a) == a \in {"redir-otherhost", "redir-http", "redir-http-ip", "redir-https-ip"}
\* ps: the strict-mode value the client's redirect policy acts on
RedirectRefused(a, ps) == \/ (a \in {"redir-http", "redir-http-ip"} /\ RedirectHttpsGuard /\ ps)
                          \/ (a \in {"redir-otherhost", "redir-https-ip", "redir-http-ip"} /\ RedirectHostGuard /\ ps)
RedirOrigin(a)  == CASE a = "redir-samehost"  -> [scheme |-> "https", host |-> "enc",   path |-> "moved"]
                     [] a = "redir-otherhost" -> [scheme |-> "https", host |-> "other", path |-> "moved"]
                     [] a = "redir-http"      -> [scheme |-> "http",  host |-> "enc",   path |-> "moved"]
                     [] a = "redir-http-ip"   -> [scheme |-> "http",  host |-> "ip",    path |-> "moved"]
                     [] a = "redir-https-ip"  -> [scheme |-> "https", host |-> "ip",    path |-> "moved"]
\* web.go: 2xx, content type on the allow-list, body within the size cap, JSON document, id = requested id
AnswerYieldsDoc(a) == a \in {"ok", "ok-2xx"}
AnswerIdMatches(a) == a \notin {"id-mismatch", "id-missing"}

(*--------------------------- one resolution ------------------------------*)
VARIABLES
    c,        \* the case: [m, host, path, ans, local, meta, key, built, site, hist, ahead]
    pc,       \* control point
    fetches,  \* set of origins [scheme, host, path] an HTTP request was sent to
    outcome,  \* "none" | "doc" | "error"
    docid,    \* "none" | "requested" | "other"
    why,      \* reason of an error (prediction only; not part of the property)
    rt,       \* "na" | "ok" | "fail": URLToDID(DIDToURL(id)) = id
    flag,     \* client.StrictMode: FALSE when the process starts, TRUE once http.Engine.Configure of the (strict) node has run
    atBuild   \* the value the flag had when the resolver's HTTP client was constructed

vars == <<c, pc, fetches, outcome, docid, why, rt, flag, atBuild>>

NA == "na"
NoHist == [site : {"enc"}, hist : {<<>>}, ahead : {"none"}]
X(A, B) == {a @@ b : a \in A, b \in B}     \* records of A extended with the fields of B
WebRemote  == X([m : {"web"}, host : HostClasses, path : PathClasses, ans : Answers, local : {"none"}, meta : {"nil"}, key : {NA}, built : Builds], NoHist)
\* WHO SERVES WHAT WHERE.  site = "decoy": the location the identifier encodes answers 404; the answer c.ans (a well-formed document that
\* carries the requested id) is available only at the location(s) a canonicalisation of the path leads to.
WebDecoy   == [m : {"web"}, host : HostClasses, path : DecoyPathClasses \cap PathClasses, ans : {"ok"}, local : {"none"}, meta : {"nil"}, key : {NA},
               built : Builds, site : {"decoy"}, hist : {<<>>}, ahead : {"none"}]
\* DIDs managed by this node always have the shape <root did>:iam:<uuid>.  LOCAL HISTORIES: every weak order of the timestamps of up to
\* MaxVersions versions (the wall clock may stand still within a second and may be stepped back between two writes); the complete
\* product with the server answers only for the plain histories (one version / creation + deactivation one tick later).
Plain(l)   == IF l = "active" THEN <<0>> ELSE <<0, 1>>
WebManaged == {r \in [m : {"web"}, host : {"name"}, path : {"segs"}, ans : Answers, local : {"active", "deactivated"}, meta : Metas, key : {NA},
                      built : Builds, site : {"enc"}, hist : Histories, ahead : Aheads] :
                  /\ r.local = "deactivated" => Len(r.hist) >= 2          \* creation + deactivation at least
                  /\ r.ans = "ok" \/ (r.hist = Plain(r.local) /\ r.ahead = "none")
                  /\ r.ahead # "none" => r.hist = <<0, 1>>}               \* clock far ahead at write time: with growing timestamps only
Pure       == X([m : {"jwk", "key"}, host : {NA}, path : {NA}, ans : {NA}, local : {"none"}, meta : Metas, key : KeyClasses, built : Builds], NoHist)
Cases      == WebRemote \cup WebDecoy \cup WebManaged \cup Pure

Init == /\ c \in Cases
        /\ pc = "boot1" /\ fetches = {} /\ outcome = "none" /\ docid = "none" /\ why = "" /\ rt = NA
        /\ flag = FALSE /\ atBuild = FALSE

\* Start-up of a strict node: two things happen in an order that is a dimension of the case.
\*   "before-strict"  vdr.Configure (didweb.NewResolver -> client.NewWithCache) runs first, http.Engine.Configure afterwards: the
\*                    order of cmd.CreateSystem, i.e. the resolver every node really has
\*   "after-strict"   the flag is on before the resolver is built (what unit tests and ad-hoc constructions do)
BuildFirst == c.built = "before-strict"
Boot1 == /\ pc = "boot1" /\ pc' = "boot2"
         /\ IF BuildFirst THEN atBuild' = flag /\ UNCHANGED flag ELSE flag' = TRUE /\ UNCHANGED atBuild
         /\ UNCHANGED <<c, fetches, outcome, docid, why, rt>>
Boot2 == /\ pc = "boot2" /\ pc' = "route"
         /\ IF BuildFirst THEN flag' = TRUE /\ UNCHANGED atBuild ELSE atBuild' = flag /\ UNCHANGED flag
         /\ UNCHANGED <<c, fetches, outcome, docid, why, rt>>
PolicyStrict == IF LiveRedirectPolicy THEN flag ELSE atBuild

Done(o, d, w) == /\ pc' = "done" /\ outcome' = o /\ docid' = d /\ why' = w

\* vdr.go: DIDResolverRouter
Route == /\ pc = "route"
         /\ IF c.m = "web"
              THEN pc' = "local" /\ UNCHANGED <<outcome, docid, why>>
              ELSE \* didjwk / didkey: decode the identifier, build the document around it
                   IF c.key = "valid" THEN Done("doc", "requested", "") ELSE Done("error", "none", "key")
         /\ UNCHANGED <<c, fetches, rt, flag, atBuild>>

\* didsubject/did_document.go Latest(): the versions the resolver can see and the one it takes for the current one
AheadOfClock(i) == c.ahead = "all" \/ (c.ahead = "last" /\ i = Len(c.hist))
VisibleVersions == {i \in 1..Len(c.hist) : FutureVersionsVisible \/ ~AheadOfClock(i)}
Newer(i, j)     == IF CurrentByVersion THEN i > j
                   ELSE c.hist[i] > c.hist[j] \/ (c.hist[i] = c.hist[j] /\ i > j)
CurrentVersion  == CHOOSE i \in VisibleVersions : \A j \in VisibleVersions \ {i} : Newer(i, j)
\* the last operation on a deactivated DID is its deactivation: the last version is the empty document
CurrentIsDeactivation == c.local = "deactivated" /\ CurrentVersion = Len(c.hist)

\* didsubject/resolver.go, first element of the chain; only ErrNotFound falls through to the web resolver
Local == /\ pc = "local"
         /\ IF c.local = "none" \/ VisibleVersions = {}
              THEN pc' = "parse" /\ UNCHANGED <<outcome, docid, why>>
              ELSE IF ~CurrentIsDeactivation \/ c.meta = "true"
                     THEN Done("doc", "requested", "")
                     ELSE Done("error", "none", "deactivated")
         /\ UNCHANGED <<c, fetches, rt, flag, atBuild>>

\* didweb/util.go DIDToURL (and the round trip through URLToDID, evaluated on the side)
Parse == /\ pc = "parse"
         /\ rt' = IF RoundTrips(c.host, c.path) THEN "ok" ELSE "fail"
         /\ IF HostAccepted(c.host) /\ ~PathRejected(c.path)
              THEN pc' = "fetch" /\ UNCHANGED <<outcome, docid, why>>
              ELSE Done("error", "none", "identifier")
         /\ UNCHANGED <<c, fetches, flag, atBuild>>

\* the answer the first request gets: on a "decoy" site the encoded location has nothing (404), the document is elsewhere
Seen == IF c.site = "decoy" /\ PathFetchedAsEncoded(c.path) THEN "status-err" ELSE c.ans

\* web.go + StrictHTTPClient.Do: the first request always goes to https://<host>/<path>/did.json
Fetch == /\ pc = "fetch"
         /\ fetches' = fetches \cup {[scheme |-> "https", host |-> "enc",
                                      path |-> IF PathFetchedAsEncoded(c.path) THEN "enc" ELSE "other"]}
         /\ IF IsRedirect(Seen)
              THEN IF RedirectLeaves(Seen) /\ RedirectRefused(Seen, PolicyStrict)
                     THEN Done("error", "none", "redirect")
                     ELSE pc' = "follow" /\ UNCHANGED <<outcome, docid, why>>
              ELSE pc' = "check" /\ UNCHANGED <<outcome, docid, why>>
         /\ UNCHANGED <<c, rt, flag, atBuild>>

\* net/http follows the Location; the target answers with a well-formed document carrying the requested id (worst case)
Follow == /\ pc = "follow"
          /\ fetches' = fetches \cup {RedirOrigin(c.ans)}
          /\ Done("doc", "requested", "")
          /\ UNCHANGED <<c, rt, flag, atBuild>>

Check == /\ pc = "check"
         /\ IF AnswerYieldsDoc(Seen) THEN Done("doc", "requested", "")
            ELSE Done("error", "none", IF AnswerIdMatches(Seen) THEN "answer" ELSE "id")
         /\ UNCHANGED <<c, fetches, rt, flag, atBuild>>

Next == Boot1 \/ Boot2 \/ Route \/ Local \/ Parse \/ Fetch \/ Follow \/ Check
Spec == Init /\ [][Next]_vars

(*--------------------------- the property --------------------------------*)
Terminal == pc = "done"

TypeOK == /\ c \in Cases
          /\ flag \in BOOLEAN /\ atBuild \in BOOLEAN
          /\ pc \in {"boot1", "boot2", "route", "local", "parse", "fetch", "follow", "check", "done"}
          /\ outcome \in {"none", "doc", "error"} /\ docid \in {"none", "requested", "other"}
          /\ rt \in {NA, "ok", "fail"}

\* Resolving a DID yields a document whose id is exactly that DID
ResolvedIdIsRequested == outcome = "doc" => docid = "requested"
\* a document whose id differs is rejected
MismatchRejected == (Terminal /\ c.m = "web" /\ c.local = "none" /\ ~AnswerIdMatches(c.ans)) => outcome = "error"
\* did:web documents are fetched only over HTTPS from the host and path that the identifier encodes ("moved" = another path on the
\* same host after a same-origin redirect, which the statement does not exclude)
FetchOnlyFromEncodedOrigin == \A f \in fetches : f.scheme = "https" /\ f.host = "enc" /\ f.path \in {"enc", "moved"}
\* ... and only a document that IS at the encoded location can be the result: one that exists only where a canonicalised path leads is not found
ResolvedOnlyFromEncodedLocation == (Terminal /\ c.site = "decoy") => outcome # "doc"
\* never an IP address, user-info (or a host part that is no host name at all)
NeverIpOrUserinfo == (c.m = "web" /\ c.local = "none" /\ (HostIsIP(c.host) \/ HostIsUserinfo(c.host) \/ HostIsIllegal(c.host)))
                        => (fetches = {} /\ outcome # "doc")
\* DIDs managed by this node resolve from local storage without any network access
ManagedResolvesWithoutNetwork == c.local # "none" => fetches = {}
\* a deactivated DID does not resolve unless the caller explicitly allows it
DeactivatedNeedsOptIn == (c.local = "deactivated" /\ c.meta # "true") => outcome # "doc"
\* the two statements about managed DIDs for histories whose timestamps are within the resolver's window (what the tree guarantees;
\* FutureVersionsVisible = FALSE is the deviation for the rest)
ManagedNoNetworkClockSane == c.ahead = "none" => ManagedResolvesWithoutNetwork
DeactivatedNeedsOptInClockSane == c.ahead = "none" => DeactivatedNeedsOptIn
\* did:jwk and did:key documents are a function of the identifier alone
PureMethods == c.m \in {"jwk", "key"} => (fetches = {} /\ (outcome = "doc" => docid = "requested"))
\* DIDToURL / URLToDID round-trip on the stated sub-grammar
RoundTrip == (rt # NA /\ InSubGrammar(c.host, c.path)) => rt = "ok"

\* vacuity witnesses (expected to be VIOLATED in the witness config): the antecedents above are reachable
WitnessDoc        == ~(Terminal /\ outcome = "doc" /\ c.m = "web" /\ c.local = "none")
WitnessRedirect   == ~(Terminal /\ c.ans = "redir-samehost" /\ Cardinality(fetches) = 2)
WitnessDeactivated == ~(Terminal /\ c.local = "deactivated" /\ outcome = "doc")
WitnessSteppedBack == ~(Terminal /\ c.local = "deactivated" /\ c.meta = "nil" /\ outcome = "error" /\ \E i \in 1..(Len(c.hist) - 1) : c.hist[i] > c.hist[Len(c.hist)])
WitnessDecoy       == ~(Terminal /\ c.site = "decoy" /\ c.path = "dot" /\ fetches # {} /\ outcome = "error")
=============================================================================
