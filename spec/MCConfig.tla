----------------------------- MODULE MCConfig -----------------------------
(* Model-checking harness of Config.tla: option universes and case emission. *)
EXTENDS Config, Json

MCUrls       == {"https-name", "http-name", "https-ip", "http-ip", "reserved-tld", "reserved-addr", "empty"}
MCTls        == {"on", "off", "offload"}
MCCryptos    == {"unset", "fs"}
MCSqls       == {"unset", "sqlite"}
MCIrmas      == {"pbdf", "irma-demo"}
MCDidMethods == {"web,nuts", "web", "nuts"}
MCMoved      == {"none", "network.certfile", "network.certkeyfile", "network.truststorefile"}
MCSecrets    == {"none", "crypto.vault.token", "storage.redis.password", "storage.redis.sentinel.password", "storage.session.redis.password"}
MCSecretVia  == {"none", "flag", "env", "yaml"}
MCOutUrls    == {"https-name", "http-name", "https-ip", "http-ip", "https-reserved", "https-redirect-http"}
MCOutEntries == {"strict-client", "rfc003", "iam-clientmetadata", "iam-presentationdefinition", "iam-asmetadata", "iam-openidconfig",
                 "iam-issuermetadata", "iam-requestobject-get", "iam-requestobject-post", "iam-posterror", "iam-postresponse",
                 "iam-accesstoken", "iam-credentials",
                 \* long-lived clients of the engines, and clients built before anything was configured
                 "vdr-didweb", "vcr-statuslist", "vcr-openid4vci-wallet", "vcr-openid4vci-issuer", "discovery-get",
                 "early-new", "early-cache", "early-tls"}
MCContexts   == {"embedded", "listed", "unlisted"}
MCAllowLists == {"default", "with-url"}
MCNearRels   == AllNearRels
MCAnchors    == {"remote-mapped", "mapped-only", "operator"}

\* the action guards read v.strict and v.dummy only: emit the (vector x action) cases from one canonical vector per (strict, dummy)
MCActCanonical(vv) == /\ vv.url = "https-name" /\ vv.tls = "on" /\ vv.crypto = "fs" /\ vv.sql = "sqlite" /\ vv.irma = "pbdf" /\ vv.did = "web,nuts"
                      /\ vv.moved = None /\ vv.secret = None
MCActAll(vv) == TRUE
Canonical == MCActCanonical(v)
\* one JSON line per decided start-up and per (canonical vector, action)
Emit == /\ (Decided /\ act = NoAct) => PrintT(ToJson([t |-> "start", v |-> v, accepted |-> Accepted, by |-> by, why |-> why,
                                                       insecure |-> InsecureSetting(v), unusable |-> UrlUnusable(v.url)]))
        /\ (act # NoAct /\ Canonical) => PrintT(ToJson([t |-> "act", strict |-> v.strict, dummy |-> v.dummy, act |-> act, verdict |-> verdict,
                                                         plain |-> IF act.kind = "outbound" THEN PlainHttpSent(v, act.arg, act.entry, flag, snap) ELSE FALSE,
                                                         \* the same action on a client constructed directly with the strict flag
                                                         standalone |-> IF act.kind = "outbound" THEN OutboundVerdictWith(v, act.arg, act.entry, TRUE, flag, snap)
                                                                        ELSE verdict]))
=============================================================================
