--------------------------- MODULE TraceConnMgr ---------------------------
(***************************************************************************)
(* Trace validation: executions of REAL grpc connection managers (events   *)
(* recorded at the seams: dialer, authenticator, protocol acceptor,        *)
(* back-off decorator, observer, connect-loop canary) must be behaviours   *)
(* of ConnMgr.tla.  Steps of the code that no seam can see (getOrRegister  *)
(* finding an existing connection) are taken silently.  A dial that the    *)
(* specification does not allow (contact not selected by the pass) is      *)
(* accepted PERMISSIVELY and raises a ghost flag, so that it shows up as   *)
(* a violated invariant (NoEarlyDial / NoRemovedDial) on the real          *)
(* execution instead of a mere mismatch.                                   *)
(***************************************************************************)
EXTENDS MCConnMgr, IOUtils

TraceLog == ndJsonDeserialize(IOEnv.VERIF_TRACE)
VARIABLE l
tvars == <<vars, l>>

Ev == TraceLog[l]
IsEvent(e) == l <= Len(TraceLog) /\ Ev.ev = e /\ l' = l + 1
Stutter == UNCHANGED vars

TReset == /\ IsEvent("reset")
          /\ cst' = [m \in Nodes |-> [k \in Keys |-> NoContact]]
          /\ store' = [m \in Nodes |-> [d \in DidKeys |-> NoP]]
          /\ call' = [m \in Nodes |-> [k \in Keys |-> NoCall]]
          /\ conns' = [m \in Nodes |-> {}] /\ inc' = [m \in Nodes |-> 1] /\ obs' = [m \in Nodes |-> {}]
          /\ due' = [m \in Nodes |-> [k \in Keys |-> 0]] /\ bad' = {} /\ budget' = ZeroBudget /\ box' = NoBox /\ hist' = <<>>

TFeed == IsEvent("feed") /\ Feed(Ev.m, Ev.k, Ev.to, Ev.dk)
TRemove == IsEvent("remove") /\ Remove(Ev.m, Ev.k)
TAdvance == IsEvent("advance") /\ IF ENABLED Advance THEN Advance ELSE Stutter
\* one pass of the real connect loop (the canary contact was polled)
TTick == IsEvent("tick") /\ IF Eligible(Ev.m) # {} THEN Tick(Ev.m) ELSE Stutter

\* the dialer was called: getOrRegister created the connection object just before
TDialBegin ==
    /\ IsEvent("dial.begin")
    /\ IF call[Ev.m][Ev.k].cpc = "sel"
       THEN RegisterNew(Ev.m, Ev.k)      \* (the object was created some time before the dialer is entered: an inbound connection that
                                        \*  was registered in between does not make this dial wrong)
       ELSE \* PERMISSIVE: the code dials a contact that is not in the address book / whose back-off has not expired
            /\ call[Ev.m][Ev.k].cpc = "idle"
            /\ ~cst[Ev.m][Ev.k].on \/ due[Ev.m][Ev.k] > 0
            /\ bad' = bad \cup {IF ~cst[Ev.m][Ev.k].on THEN "removed-contact-dialled" ELSE "dial-before-deadline"}
            /\ call' = [call EXCEPT ![Ev.m][Ev.k].cpc = "dial", ![Ev.m][Ev.k].to = Ev.to]
            /\ conns' = [conns EXCEPT ![Ev.m] = @ \cup {[id |-> OutId(Ev.m, Ev.k), dir |-> "o", addr |-> Ev.to,
                             did |-> (IF IsBoot(Ev.k) THEN None ELSE Ev.k), pid |-> "", auth |-> FALSE, str |-> {}, cx |-> FALSE, listed |-> TRUE]}]
            /\ cst' = [cst EXCEPT ![Ev.m][Ev.k].calling = cst[Ev.m][Ev.k].on]
            /\ UNCHANGED <<store, inc, obs, due, budget, box, hist>>
\* silent: the goroutine found an existing connection and returned
TRegisterExisting ==
    /\ l <= Len(TraceLog) /\ UNCHANGED l
    /\ \E m \in Nodes, k \in Keys : call[m][k].cpc = "sel" /\ OutExisting(m, k) # {} /\ Register(m, k)

TDialEnd ==
    /\ IsEvent("dial.end")
    /\ CASE Ev.res = "ok" -> DialOK(Ev.m, Ev.k)
         [] Ev.res = "cancel" -> DialCancel(Ev.m, Ev.k)
         [] OTHER -> call[Ev.m][Ev.k].cpc = "dial" /\ Stutter          \* the Backoff() that follows is the linearization point

Units(ms) == ms \div 5000
\* a back-off operation recorded below the persisting layer
TBackoff ==
    /\ IsEvent("bo")
    /\ LET m == Ev.m  k == Ev.k  pc == call[m][k].cpc IN
       IF "init" \in DOMAIN Ev THEN Stutter
       ELSE IF Ev.op = "backoff"
       THEN /\ CASE pc = "dial" -> DialFail(m, k)
                 [] pc = "whdr" -> (\E r \in {"error", "proceed"} : CliHeaders(m, k, r)) /\ call'[m][k].cpc = "idle"
                 [] pc = "cauth" -> (CliAuth(m, k, FALSE) \/ CliAuth(m, k, TRUE)) /\ call'[m][k].cpc = "idle"
                 [] pc = "up" -> CliClose(m, k, FALSE)
                 [] OTHER -> FALSE
            \* the value the real BoundedBackoff produced is the one of the specification
            /\ (cst[m][k].on /\ ~call[m][k].det /\ cst'[m][k].val < Inf) => cst'[m][k].val * 5000 = Ev.ms
       ELSE IF Ev.ms >= 1000 /\ Ev.ms < 5000 /\ pc = "up"
       THEN (\E lost \in BOOLEAN : CliClose(m, k, lost)) /\ (cst[m][k].on /\ ~call[m][k].det => cst'[m][k].val = 1)
       ELSE \* Reset(delay) inside Connect, Reset(24h) after ErrUnexpectedNodeDID: already part of Feed / CliHeaders
            /\ \/ Ev.ms = 86400000 /\ (cst[m][k].on => cst[m][k].val = Inf)
               \/ Ev.ms # 86400000 /\ (cst[m][k].on /\ ~call[m][k].det => cst[m][k].val * 5000 = Ev.ms)
            /\ Stutter

TSrvAccept == IsEvent("srv.accept") /\ \E r \in {"dead", "headers"} : SrvAccept(Ev.m, Ev.k, r)

TAuth ==
    /\ IsEvent("auth.begin") \/ IsEvent("auth.end")
    /\ IF Ev.ev = "auth.begin" /\ Ev.side = "out"
       THEN CliHeaders(Ev.m, Ev.k, "proceed") /\ call'[Ev.m][Ev.k].cpc = "cauth"
       ELSE Stutter

TObserve ==
    /\ IsEvent("obs")
    /\ LET m == Ev.m  k == Ev.k IN
       CASE Ev.dir = "in" /\ Ev.state = "connected" -> SrvAdmit(m, k, TRUE) /\ call'[m][k].spc = "up"
         [] Ev.dir = "in" /\ Ev.state = "disconnected" -> SrvDown(m, k)
         [] Ev.dir = "out" /\ Ev.state = "connected" ->
                (IF IsBoot(k) THEN CliHeaders(m, k, "proceed") ELSE CliAuth(m, k, TRUE)) /\ call'[m][k].cpc = "up"
         [] OTHER -> CliGone(m, k)

TSrvReturn ==
    /\ IsEvent("srv.return")
    /\ LET m == Ev.m  k == Ev.k IN
       CASE Ev.res = "unauth" -> SrvAdmit(m, k, FALSE)
         [] Ev.res = "already" -> SrvAdmit(m, k, TRUE) /\ call'[m][k].spc \in {"ret", "none"}
         [] OTHER -> call[m][k].spc \in {"ret", "none"} /\ Stutter

TDrop == IsEvent("drop") /\ IF ENABLED Drop(Ev.m, Ev.k) THEN Drop(Ev.m, Ev.k) ELSE Stutter
TRestart == IsEvent("restart") /\ Restart(Ev.m)
TNoise == /\ l <= Len(TraceLog) /\ Ev.ev \in {"srv.begin", "restarted", "fair"} /\ l' = l + 1 /\ Stutter

TraceNext == TReset \/ TFeed \/ TRemove \/ TAdvance \/ TTick \/ TDialBegin \/ TRegisterExisting \/ TDialEnd \/ TBackoff
             \/ TSrvAccept \/ TAuth \/ TObserve \/ TSrvReturn \/ TDrop \/ TRestart \/ TNoise
TraceInit == Init /\ l = 1 /\ TLCSet(1, 1)
TraceSpec == TraceInit /\ [][TraceNext]_tvars

NoRemovedDial == "removed-contact-dialled" \notin bad

Progress == TLCSet(1, IF l > TLCGet(1) THEN l ELSE TLCGet(1))
TraceAccepted ==
    \/ TLCGet(1) = Len(TraceLog) + 1
    \/ Print(<<"TRACE-REJECTED-AT", TLCGet(1), TraceLog[TLCGet(1)]>>, FALSE)
=============================================================================
