---------------------------- MODULE MCOneTime ----------------------------
(* Model-checking / behaviour-generation wrapper of OneTime.tla *)
EXTENDS OneTime, Json

Req1 == <<"r1">>
Req2 == <<"r1", "r2">>
Req3 == <<"r1", "r2", "r3">>

\* behaviour generation (Hist = TRUE, hist is part of the state: every maximal path is a distinct terminal state)
Emit == (Terminal /\ Hist) => PrintT(ToJson(hist))
\* cap on the length of generated behaviours (3 primitives per request + ticks + Init record)
HistBound == Len(hist) <= 3 * Len(ReqSeq) + MaxTick + 1

\* per-site form of AtMostOnce: run with -continue on the DESCRIPTIVE model, the violated ones are the sites at which
\* the specification predicts a double success (= the deviation constants that are still FALSE)
AmoCode     == kind = "code"     => AtMostOnce
AmoReqObj   == kind = "reqobj"   => AtMostOnce
AmoVpNonce  == kind = "vpnonce"  => AtMostOnce
AmoRedirect == kind = "redirect" => AtMostOnce
AmoS2SNonce == kind = "s2snonce" => AtMostOnce
AmoDpopJti  == kind = "dpopjti"  => AtMostOnce
AmoPreAuth  == kind = "preauth"  => AtMostOnce
=============================================================================
