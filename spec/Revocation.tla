----------------------------- MODULE Revocation -----------------------------
(***************************************************************************)
(* C11: revocation of verifiable credentials in nuts-node.                  *)
(*   vcr/revocation/statuslist2021_{issuer,verifier}.go, bitstring.go       *)
(*   vcr/issuer/issuer.go (Issue with status entry, Revoke),                *)
(*   vcr/verifier/verifier.go (Verify, IsRevoked, RegisterRevocation),      *)
(*   vcr/ambassador.go (network revocations).                               *)
(*                                                                         *)
(* One issuer node hosts all Issuers (one sqlite database, tables           *)
(* status_list / status_list_entry / status_list_credential); the Nodes     *)
(* are remote verifier nodes with their own copy cache                      *)
(* (status_list_credential rows of lists they do not manage) and their own  *)
(* revocation store; "local" is the verifier of the issuer node itself.     *)
(*                                                                         *)
(* One action per critical section (= one SQL transaction; sqlite is pinned *)
(* to ONE connection by storage/engine.go, so transactions are atomic):     *)
(*   Issue(i,kind)      issuer.Issue; kind "sl": StatusList2021.Entry       *)
(*                      allocates (page, slot); kind "net": did:nuts        *)
(*   RevokeStatus(c)    issuer.Revoke -> StatusList2021.Revoke (set bit,    *)
(*                      re-sign the list credential in the same tx)         *)
(*   RevokeNet(c)       issuer.Revoke -> signed revocation -> network       *)
(*   Serve(l)           StatusList2021.Credential(issuer, page) (HTTP GET   *)
(*                      of the list): re-signed when <= 1/4 validity left   *)
(*   ServeBegin(s,l) / ServeResign(s)  the same GET by goroutine s, split   *)
(*                      where the code reads (stored list, is a re-sign     *)
(*                      needed?) and where it writes (transaction: lock,    *)
(*                      read revocations, sign, store), so that Revoke,     *)
(*                      other GETs and time can come in between             *)
(*   Deliver(c,k,n)     ambassador -> verifier.RegisterRevocation at node n *)
(*                      k = "genuine" or a FORGED document class, made by   *)
(*                      another party whose DID is in textual relation r    *)
(*                      to the issuer's DID (unrelated / a prefix / the     *)
(*                      parent / an extension: "lookalike" parties)         *)
(*   Verify(c,n,src)    verifier.Verify at node n; refreshes the cached     *)
(*                      copy first when it is missing/older than the TTL;   *)
(*                      src says what the GET returns: the genuine list, a  *)
(*                      failure, a FORGED list issued by another party, or  *)
(*                      a genuine list other than the one named             *)
(*   VerifyLocal(c)     verifier.Verify on the issuer node (managed list)   *)
(*   Tick               time passes (unit = a quarter of the list validity; *)
(*                      > maxAgeExternal, so every cached copy gets stale)  *)
(*   EntryRead/EntryWrite  the Entry transaction split at the row lock, for *)
(*                      databases with real concurrency (Procs # {})        *)
(*   IssueExt(e,pos)    a credential of an EXTERNAL issuer e (not hosted    *)
(*                      here; its list is served by e itself) with a status *)
(*                      entry at a position class of e's list. e is named   *)
(*                      after the size of its list: "min" (exactly the 16kB *)
(*                      minimum), "odd" (16kB + 1 byte), "double" (32kB);   *)
(*                      positions: 0 first, 1 last of a minimum list, 2     *)
(*                      first beyond it, 3 last of the list, 4 beyond the   *)
(*                      list.  Revocation by bit must be effective for      *)
(*                      every index the list covers.                        *)
(* The outsider's credential "fx" carries a status entry that points into   *)
(* the list of another issuer (forged entry).                               *)
(*                                                                         *)
(* Deviation constants name a check of the code; TRUE = check is made.      *)
(***************************************************************************)
EXTENDS Naturals, FiniteSets, Sequences, TLC

CONSTANTS
    Issuers,            \* issuers hosted on the issuer node
    Nodes,              \* remote verifier nodes
    MaxCreds,           \* credentials c1..cMaxCreds are issued in this order
    B,                  \* slots per page (real: 131072)
    Validity,           \* validity of a list credential in ticks (real: 24h = 4 x 6h)
    MinLeft,            \* re-sign when left <= MinLeft (real: statusListValidity/4)
    MaxTicks, MaxForge,
    Kinds,              \* subset of {"sl", "net"}
    RevForgeKinds,      \* forged revocation documents: subset of {"othersigner","otherissuer","wrongkey","resubject"}
    Rels,               \* textual relation of the forger's DID to the issuer's DID: subset of {"unrelated","prefix","parent","extension"}
    Srcs,               \* outcomes of a GET of a list: subset of {"up","down","forged-set","forged-clear","otherlist"}
    ForeignTarget,      \* issuer whose list <<i,1>> slot 0 the outsider's credential "fx" names, or "none"
    Local,              \* TRUE: verification on the issuer node is part of the behaviours
    ListIssuerChecked,  \* fetched list credential must be issued by the issuer of the credential under verification (F15)
    ListSubjectChecked, \* fetched list credential must have credentialSubject.id = the URL named in the entry
    RevIssuerChecked,   \* RegisterRevocation: issuer = credential id prefix = owner of the proof key, signature valid
    ExtSizes,           \* external issuers = sizes of their lists: subset of {"min", "odd", "double"}
    FullListRead,       \* the verifier keeps the WHOLE bitstring of a downloaded list (not only the first 16kB)
    ResignBeforeExpiry, \* Credential(): re-sign when no more than MinLeft is left
    ResignRereads,      \* Credential(): the revocations are read INSIDE the re-sign transaction (not taken from a snapshot read before it)
    Servers,            \* goroutines serving a list in two steps (ServeBegin / ServeResign)
    RenewCreatedAt,     \* a refreshed copy counts as new for the cache TTL. The code: FALSE - the upsert (gorm OnConflict UpdateAll) leaves
                        \* created_at of an existing row alone, so after the first TTL every verification downloads the list again
    Procs,              \* goroutines for the split Entry transaction ({} = atomic transactions only)
    RowLock,            \* Entry(): the issuer's page rows are locked (SELECT .. FOR UPDATE) until the transaction ends
    Hist

None == "none"
NoList == <<"-", 0>>
CredName(k) == "c" \o ToString(k)
Own == {CredName(k) : k \in 1..MaxCreds}
Creds == Own \cup (IF ForeignTarget = None THEN {} ELSE {"fx"})
MaxPages == (MaxCreds + B - 1) \div B
AllIssuers == Issuers \cup ExtSizes
Lists == (Issuers \X (1..MaxPages)) \cup (ExtSizes \X {1})
Slots == 0..(B - 1)
ExtPos == 0..4
\* positions a credential of external issuer e can be given; 4 (and for a minimum list everything above 1) is outside the list
Positions(e) == IF e = "min" THEN {0, 1, 4} ELSE ExtPos
InList(pos) == pos # 4
ForgedSrcs == {"forged-set", "forged-clear", "otherlist"}
Outsider == "x"

NoCred == [iss |-> "-", kind |-> "-", list |-> NoList, slot |-> 0]
NoCopy == [has |-> FALSE, bits |-> {}, fresh |-> FALSE, from |-> NoList, signer |-> "-"]

VARIABLES
    nIssued,   \* number of credentials issued so far
    cred,      \* [Creds -> [iss, kind, list, slot]]
    pages,     \* [Issuers -> Seq([last, bits, stored, left])]: status_list.last_issued_index, status_list_entry rows (the
               \* issuer's revocations), bitstring and remaining validity of the managed status_list_credential row
    revoked,   \* credentials the ISSUER has revoked (ground truth)
    known,     \* [Nodes -> SUBSET Creds]  revocations stored by the verifier of the node
    cache,     \* [Nodes -> [Lists -> copy]]  status_list_credential rows of external lists (+ provenance: from, signer)
    ticks, forges,
    must,      \* ghost: [Nodes -> SUBSET Creds] credentials the node is obliged to reject
               \*        (genuine revocation received / list refreshed from the issuer after the bit was set)
    epc, esnap,\* split Entry transaction: control point and the row read under the lock, per goroutine
    spc, ssnap,\* split GET of a list: control point and what was read before the transaction, per serving goroutine
    hist

vars == <<nIssued, cred, pages, revoked, known, cache, ticks, forges, must, epc, esnap, spc, ssnap, hist>>
view == <<nIssued, cred, pages, revoked, known, cache, ticks, forges, must, epc, esnap, spc, ssnap>>

Log(e) == hist' = IF Hist THEN Append(hist, e) ELSE hist

Init ==
    /\ nIssued = 0
    /\ cred = [c \in Creds |-> IF c = "fx" THEN [iss |-> Outsider, kind |-> "foreign", list |-> <<ForeignTarget, 1>>, slot |-> 0]
                                           ELSE NoCred]
    /\ pages = [i \in AllIssuers |-> <<>>]
    /\ revoked = {}
    /\ known = [n \in Nodes |-> {}]
    /\ cache = [n \in Nodes |-> [l \in Lists |-> NoCopy]]
    /\ ticks = 0 /\ forges = 0
    /\ must = [n \in Nodes |-> {}]
    /\ epc = [p \in Procs |-> "idle"]
    /\ esnap = [p \in Procs |-> [i |-> "-", page |-> 0, last |-> 0]]
    /\ spc = [s \in Servers |-> "idle"]
    /\ ssnap = [s \in Servers |-> [list |-> NoList, bits |-> {}]]
    /\ hist = <<>>

Issued(c) == cred[c].kind # "-"
Exists(l) == l[1] \in AllIssuers /\ l[2] >= 1 /\ l[2] <= Len(pages[l[1]])
Pg(l) == pages[l[1]][l[2]]
NewPage == [last |-> 0, bits |-> {}, stored |-> {}, left |-> Validity]
Quiet == \A p \in Procs : epc[p] = "idle"

(***************************************************************************)
(* StatusList2021.Entry: last page of the issuer, next index, a new page    *)
(* (and its signed empty list credential) when the page is full.            *)
(***************************************************************************)
NextAlloc(i) ==
    LET n == Len(pages[i]) IN
    IF n = 0 \/ pages[i][n].last >= B - 1 THEN [page |-> n + 1, slot |-> 0]
                                          ELSE [page |-> n, slot |-> pages[i][n].last + 1]
\* the page table after handing out (pg, sl): missing pages are created, the last index of pg is sl
Extend(s, pg) == IF Len(s) >= pg THEN s ELSE s \o [k \in 1..(pg - Len(s)) |-> NewPage]
AllocPages(i, pg, sl) == [pages EXCEPT ![i] = [Extend(@, pg) EXCEPT ![pg].last = sl]]

\* pg, sl: the position handed out (model: NextAlloc; trace validation: as observed)
IssueObs(i, kind, pg, sl) ==
    /\ Procs = {} /\ nIssued < MaxCreds /\ pg \in 1..MaxPages /\ sl \in Slots /\ kind \in {"sl", "net"}
    /\ LET c == CredName(nIssued + 1) IN
       /\ nIssued' = nIssued + 1
       /\ IF kind = "sl"
          THEN /\ cred' = [cred EXCEPT ![c] = [iss |-> i, kind |-> "sl", list |-> <<i, pg>>, slot |-> sl]]
               /\ pages' = AllocPages(i, pg, sl)
          ELSE /\ cred' = [cred EXCEPT ![c] = [iss |-> i, kind |-> "net", list |-> NoList, slot |-> 0]]
               /\ pages' = pages
       /\ Log([a |-> "Issue", i |-> i, kind |-> kind, c |-> c, page |-> IF kind = "sl" THEN pg ELSE 0, slot |-> IF kind = "sl" THEN sl ELSE 0])
    /\ UNCHANGED <<revoked, known, cache, ticks, forges, must, epc, esnap, spc, ssnap>>

Issue(i, kind) == IssueObs(i, kind, NextAlloc(i).page, NextAlloc(i).slot)

\* a credential of external issuer e with a status entry at position pos of e's list (e's own business: no Entry() involved)
IssueExt(e, pos) ==
    /\ Procs = {} /\ nIssued < MaxCreds /\ e \in ExtSizes /\ pos \in Positions(e) /\ "ext" \in Kinds
    /\ \A d \in Own : ~(cred[d].kind = "ext" /\ cred[d].iss = e /\ cred[d].slot = pos)
    /\ LET c == CredName(nIssued + 1) IN
       /\ nIssued' = nIssued + 1
       /\ cred' = [cred EXCEPT ![c] = [iss |-> e, kind |-> "ext", list |-> <<e, 1>>, slot |-> pos]]
       /\ pages' = [pages EXCEPT ![e] = IF Len(@) = 0 THEN <<NewPage>> ELSE @]
       /\ Log([a |-> "Issue", i |-> e, kind |-> "ext", c |-> c, page |-> 1, slot |-> pos])
    /\ UNCHANGED <<revoked, known, cache, ticks, forges, must, epc, esnap, spc, ssnap>>

(***************************************************************************)
(* issuer.Revoke                                                            *)
(***************************************************************************)
\* did:web credential: StatusList2021.Revoke sets the bit and re-signs the list in one transaction;
\* a second call fails with ErrRevoked (primary key of status_list_entry).
\* An external issuer does the same with its own list - for the positions the list has.
RevokeStatus(c) ==
    /\ c \in Own /\ cred[c].kind \in {"sl", "ext"} /\ (cred[c].kind = "ext" => InList(cred[c].slot)) /\ Quiet
    /\ LET l == cred[c].list IN
       IF cred[c].slot \in Pg(l).bits
       THEN /\ UNCHANGED <<pages, revoked>>
            /\ Log([a |-> "RevokeStatus", c |-> c, res |-> "already"])
       ELSE /\ pages' = [pages EXCEPT ![l[1]][l[2]].bits = @ \cup {cred[c].slot},
                                      ![l[1]][l[2]].stored = Pg(l).bits \cup {cred[c].slot},   \* all rows are read in the transaction
                                      ![l[1]][l[2]].left = Validity]
            /\ revoked' = revoked \cup {c}
            /\ Log([a |-> "RevokeStatus", c |-> c, res |-> "ok"])
    /\ UNCHANGED <<nIssued, cred, known, cache, ticks, forges, must, epc, esnap, spc, ssnap>>

\* did:nuts credential: signed revocation published on the network (and kept in the issuer store)
RevokeNet(c) ==
    /\ c \in Own /\ cred[c].kind = "net"
    /\ revoked' = revoked \cup {c}
    /\ Log([a |-> "RevokeNet", c |-> c, res |-> IF c \in revoked THEN "already" ELSE "ok"])
    /\ UNCHANGED <<nIssued, cred, pages, known, cache, ticks, forges, must, epc, esnap, spc, ssnap>>

(***************************************************************************)
(* StatusList2021.Credential (the GET handler of the list)                  *)
(***************************************************************************)
\* (an external issuer signs its list afresh for every GET)
NeedsResign(l) == l[1] \in ExtSizes \/ (ResignBeforeExpiry /\ Pg(l).left <= MinLeft)
LeftAfterServe(l) == IF NeedsResign(l) THEN Validity ELSE Pg(l).left
\* a GET in one piece: nothing comes between its reads and its transaction
ServePages(l) == [pages EXCEPT ![l[1]][l[2]].left = LeftAfterServe(l),
                               ![l[1]][l[2]].stored = IF NeedsResign(l) THEN Pg(l).bits ELSE @]

Serve(l) ==
    /\ Exists(l) /\ Quiet
    /\ pages' = ServePages(l)
    /\ Log([a |-> "Serve", i |-> l[1], p |-> l[2]])
    /\ UNCHANGED <<nIssued, cred, revoked, known, cache, ticks, forges, must, epc, esnap, spc, ssnap>>

\* the GET in two pieces. First the reads: is the list managed, the stored list, does it live long enough?
ServeBegin(s, l) ==
    /\ spc[s] = "idle" /\ Exists(l) /\ l[1] \in Issuers /\ Quiet
    /\ IF NeedsResign(l)
       THEN /\ spc' = [spc EXCEPT ![s] = "resign"]
            /\ ssnap' = [ssnap EXCEPT ![s] = [list |-> l, bits |-> Pg(l).bits]]
            /\ Log([a |-> "ServeBegin", s |-> s, i |-> l[1], p |-> l[2], res |-> "resign"])
       ELSE /\ UNCHANGED <<spc, ssnap>>                                   \* the stored list is returned
            /\ Log([a |-> "ServeBegin", s |-> s, i |-> l[1], p |-> l[2], res |-> "cached"])
    /\ UNCHANGED <<nIssued, cred, pages, revoked, known, cache, ticks, forges, must, epc, esnap>>
\* .. then the transaction: lock the row, read the revocations, sign, store
ServeResign(s) ==
    /\ spc[s] = "resign"
    /\ LET l == ssnap[s].list IN
       pages' = [pages EXCEPT ![l[1]][l[2]].stored = IF ResignRereads THEN Pg(l).bits ELSE ssnap[s].bits,
                              ![l[1]][l[2]].left = Validity]
    /\ spc' = [spc EXCEPT ![s] = "idle"]
    /\ Log([a |-> "ServeResign", s |-> s])
    /\ UNCHANGED <<nIssued, cred, revoked, known, cache, ticks, forges, must, epc, esnap, ssnap>>

(***************************************************************************)
(* network revocations: ambassador -> verifier.RegisterRevocation           *)
(***************************************************************************)
\* res: TRUE = the node stored the revocation (model: by the rule; trace validation: as observed)
\* a genuine revocation exists for did:nuts credentials only; a forged one can name any credential
DeliverObs(c, k, r, n, res) ==
    /\ c \in Own /\ Issued(c)
    /\ IF k = "genuine" THEN cred[c].kind = "net" /\ c \in revoked /\ r = "self"
                        ELSE k \in RevForgeKinds /\ r \in Rels /\ forges < MaxForge
    /\ forges' = IF k = "genuine" THEN forges ELSE forges + 1
    /\ known' = IF res THEN [known EXCEPT ![n] = @ \cup {c}] ELSE known
    /\ must' = IF k = "genuine" THEN [must EXCEPT ![n] = @ \cup {c}] ELSE must
    /\ Log([a |-> "Deliver", c |-> c, k |-> k, r |-> r, n |-> n])
    /\ UNCHANGED <<nIssued, cred, pages, revoked, cache, ticks, epc, esnap, spc, ssnap>>
Deliver(c, k, r, n) == DeliverObs(c, k, r, n, k = "genuine" \/ ~RevIssuerChecked)

(***************************************************************************)
(* verifier.Verify: IsRevoked(id), then credentialStatus.Verify             *)
(***************************************************************************)
\* "another list": the same issuer's other page if there is one, else page 1 of the other issuer
OtherPage(l) == <<l[1], IF l[2] = 1 THEN 2 ELSE 1>>
OtherIssuerList(l) == <<CHOOSE j \in Issuers : j # l[1], 1>>
Stale(n, l) == ~cache[n][l].has \/ ~cache[n][l].fresh
\* what the node keeps of a downloaded bitstring
Kept(l, bits) == IF FullListRead \/ l[1] \notin ExtSizes THEN bits ELSE bits \cap {0, 1}
\* what a client gets: the stored list after the GET's own (possible) re-sign
GenuineCopy(l) == [has |-> TRUE, bits |-> Kept(l, ServePages(l)[l[1]][l[2]].stored), fresh |-> TRUE, from |-> l, signer |-> l[1]]
\* the list credential the issuer node produces for this GET (NoList: 404 / unreachable / answered by the attacker)
Produced(l, src) ==
    CASE src = "up" -> IF Exists(l) THEN l ELSE NoList
      [] src = "otherlist" -> IF Exists(OtherPage(l)) THEN OtherPage(l)
                              ELSE IF Cardinality(Issuers) > 1 /\ Exists(OtherIssuerList(l)) THEN OtherIssuerList(l) ELSE NoList
      [] OTHER -> NoList
\* what the client receives
Answer(l, src) ==
    CASE src \in {"up", "otherlist"} -> IF Produced(l, src) = NoList THEN NoCopy ELSE GenuineCopy(Produced(l, src))
      [] src = "forged-set" -> [has |-> TRUE, bits |-> IF l[1] \in ExtSizes THEN Kept(l, 0..3) ELSE Slots, fresh |-> TRUE, from |-> l, signer |-> Outsider]
      [] src = "forged-clear" -> [has |-> TRUE, bits |-> {}, fresh |-> TRUE, from |-> l, signer |-> Outsider]
      [] OTHER -> NoCopy
\* update(): signature valid for the list's own issuer (always true here), subject id = URL, [issuer = issuer of c]
Accepts(c, l, a, lic) == a.has /\ (ListSubjectChecked => a.from = l) /\ (lic => a.signer = cred[c].iss)
CopyAfter(c, n, src, lic) ==
    LET l == cred[c].list IN
    IF Stale(n, l) /\ Accepts(c, l, Answer(l, src), lic) THEN Answer(l, src) ELSE cache[n][l]
VerdictWith(c, n, copy) ==
    IF c \in known[n] THEN "revoked"
    ELSE IF cred[c].kind = "net" THEN "valid"
    ELSE IF ~copy.has THEN "valid"                       \* soft fail: no list available
    ELSE IF cred[c].slot \in copy.bits THEN "revoked" ELSE "valid"
ModelVerdict(c, n, src, lic) ==
    VerdictWith(c, n, IF cred[c].kind = "net" THEN NoCopy ELSE CopyAfter(c, n, src, lic))
\* the verdict of a verification that needs no refresh (or whose refresh fails)
CurVerdict(c, n) == VerdictWith(c, n, IF cred[c].kind = "net" THEN NoCopy ELSE cache[n][cred[c].list])
RevokedOn(l) == {d \in Own : cred[d].kind \in {"sl", "ext"} /\ cred[d].list = l /\ cred[d].slot \in Pg(l).bits}

\* lic: whether the issuer of the fetched list is compared with the issuer of c
VerifyL(c, n, src, lic) ==
    /\ Issued(c) /\ Quiet
    /\ IF cred[c].kind = "net"
       THEN /\ src = "up"
            /\ UNCHANGED <<pages, cache, must, forges>>
       ELSE LET l == cred[c].list
                fetch == Stale(n, l)
                a == Answer(l, src)
                ok == fetch /\ Accepts(c, l, a, lic)
                pl == Produced(l, src)
            IN /\ (~fetch => src = "up")
               /\ (src \in ForgedSrcs => forges < MaxForge /\ c \in Own)
               /\ (src = "otherlist" => cred[c].kind # "ext")
               /\ forges' = IF src \in ForgedSrcs THEN forges + 1 ELSE forges
               /\ pages' = IF fetch /\ pl # NoList THEN ServePages(pl) ELSE pages
               /\ cache' = IF ok THEN [cache EXCEPT ![n][l] = [a EXCEPT !.fresh = RenewCreatedAt \/ ~cache[n][l].has]] ELSE cache
               \* obligation: the node refreshed the list from the issuer node for a credential of the list's own issuer
               \* (a download for the outsider's credential does not count: the node may refuse a list not issued by x)
               /\ must' = IF ok /\ src = "up" /\ cred[c].kind \in {"sl", "ext"} THEN [must EXCEPT ![n] = @ \cup RevokedOn(l)] ELSE must
    /\ Log([a |-> "Verify", c |-> c, n |-> n, src |-> src, v |-> ModelVerdict(c, n, src, lic)])
    /\ UNCHANGED <<nIssued, cred, revoked, known, ticks, epc, esnap, spc, ssnap>>

Verify(c, n, src) == VerifyL(c, n, src, ListIssuerChecked)

\* verifier of the issuer node: the managed list is always up to date
LocalVerdict(c) == IF Exists(cred[c].list) /\ cred[c].slot \in Pg(cred[c].list).stored THEN "revoked" ELSE "valid"
VerifyLocal(c) ==
    /\ Local /\ Issued(c) /\ cred[c].kind \notin {"net", "ext"} /\ Quiet
    /\ Log([a |-> "VerifyLocal", c |-> c, v |-> LocalVerdict(c)])
    /\ UNCHANGED <<nIssued, cred, pages, revoked, known, cache, ticks, forges, must, epc, esnap, spc, ssnap>>

Dec(x) == IF x = 0 THEN 0 ELSE x - 1
Tick ==
    /\ ticks < MaxTicks /\ Quiet
    /\ ticks' = ticks + 1
    /\ pages' = [i \in AllIssuers |-> [p \in 1..Len(pages[i]) |-> [pages[i][p] EXCEPT !.left = Dec(@)]]]
    /\ cache' = [n \in Nodes |-> [l \in Lists |-> [cache[n][l] EXCEPT !.fresh = FALSE]]]
    /\ Log([a |-> "Tick"])
    /\ UNCHANGED <<nIssued, cred, revoked, known, forges, must, epc, esnap, spc, ssnap>>

(***************************************************************************)
(* Entry() on a database with concurrent transactions: SELECT .. FOR UPDATE *)
(* of the issuer's pages (no row = no lock), then INSERT of a new page      *)
(* (fails on the primary key when another transaction created it: retry)    *)
(* or UPDATE of last_issued_index.  Not executable on sqlite (one           *)
(* connection); checked by TLC only.                                        *)
(***************************************************************************)
Locked(i) == \E q \in Procs : epc[q] = "locked" /\ esnap[q].i = i /\ esnap[q].page > 0
\* seen < Len(pages[i]): the page list is the one of the statement snapshot (a page inserted meanwhile is not seen)
EntryRead(p, i, seen) ==
    /\ epc[p] = "idle" /\ nIssued + Cardinality({q \in Procs : epc[q] = "locked"}) < MaxCreds
    /\ (RowLock => ~Locked(i))
    /\ seen \in 0..Len(pages[i]) /\ (seen < Len(pages[i]) => seen = Len(pages[i]) - 1 /\ seen > 0)
    /\ esnap' = [esnap EXCEPT ![p] = [i |-> i, page |-> seen, last |-> IF seen = 0 THEN 0 ELSE pages[i][seen].last]]
    /\ epc' = [epc EXCEPT ![p] = "locked"]
    /\ Log([a |-> "EntryRead", p |-> p, i |-> i, seen |-> seen])
    /\ UNCHANGED <<nIssued, cred, pages, revoked, known, cache, ticks, forges, must, spc, ssnap>>
EntryWrite(p) ==
    /\ epc[p] = "locked"
    /\ LET s == esnap[p]
           roll == s.page = 0 \/ s.last >= B - 1
           pg == IF roll THEN s.page + 1 ELSE s.page
           sl == IF roll THEN 0 ELSE s.last + 1
       IN IF roll /\ Len(pages[s.i]) >= pg
          THEN \* gorm.ErrDuplicatedKey: roll back, loop
               /\ UNCHANGED <<nIssued, cred, pages>>
               /\ Log([a |-> "EntryWrite", p |-> p, res |-> "duplicate"])
          ELSE /\ nIssued' = nIssued + 1
               /\ cred' = [cred EXCEPT ![CredName(nIssued + 1)] = [iss |-> s.i, kind |-> "sl", list |-> <<s.i, pg>>, slot |-> sl]]
               /\ pages' = AllocPages(s.i, pg, sl)
               /\ Log([a |-> "EntryWrite", p |-> p, res |-> "ok"])
    /\ epc' = [epc EXCEPT ![p] = "idle"]
    /\ UNCHANGED <<revoked, known, cache, ticks, forges, must, esnap, spc, ssnap>>

Next ==
    \/ \E i \in Issuers, k \in Kinds : Issue(i, k)
    \/ \E e \in ExtSizes, pos \in ExtPos : IssueExt(e, pos)
    \/ \E c \in Own : RevokeStatus(c) \/ RevokeNet(c)
    \/ \E l \in Lists : Serve(l) \/ \E s \in Servers : ServeBegin(s, l)
    \/ \E s \in Servers : ServeResign(s)
    \/ \E c \in Own, n \in Nodes : Deliver(c, "genuine", "self", n) \/ \E k \in RevForgeKinds, r \in Rels : Deliver(c, k, r, n)
    \/ \E c \in Creds, n \in Nodes, s \in Srcs : Verify(c, n, s)
    \/ \E c \in Creds : VerifyLocal(c)
    \/ Tick
    \/ \E p \in Procs, i \in Issuers : \E seen \in 0..MaxPages : EntryRead(p, i, seen)
    \/ \E p \in Procs : EntryWrite(p)

Spec == Init /\ [][Next]_vars

(***************************************************************************)
(* Properties (C11).  The verdict of every verification equals CurVerdict   *)
(* in the state it leads to (the refreshed copy is the cached copy), so the *)
(* verdict properties are state invariants over CurVerdict.                 *)
(***************************************************************************)
TypeOK ==
    /\ nIssued \in 0..MaxCreds /\ revoked \subseteq Own
    /\ \A i \in AllIssuers : Len(pages[i]) <= MaxPages
    /\ \A i \in AllIssuers : \A p \in 1..Len(pages[i]) : /\ pages[i][p].last \in Slots /\ pages[i][p].left \in 0..Validity
                                                       /\ pages[i][p].bits \subseteq (IF i \in ExtSizes THEN ExtPos ELSE Slots)
                                                       /\ pages[i][p].stored \subseteq pages[i][p].bits

\* status-list positions handed to credentials are never shared
SlotsUnique ==
    \A c, d \in Own : (c # d /\ cred[c].kind = "sl" /\ cred[d].kind = "sl") => <<cred[c].list, cred[c].slot>> # <<cred[d].list, cred[d].slot>>
\* .. and lie within the page the issuer node manages for that issuer
SlotsOwn == \A c \in Own : cred[c].kind = "sl" => cred[c].list[1] = cred[c].iss /\ Exists(cred[c].list) /\ cred[c].slot <= Pg(cred[c].list).last

\* a set bit is never cleared (lists only grow)
BitsMonotone ==
    [][\A i \in AllIssuers : \A p \in 1..Len(pages[i]) : /\ Len(pages'[i]) >= p
                                                        /\ pages[i][p].bits \subseteq pages'[i][p].bits
                                                        /\ pages[i][p].stored \subseteq pages'[i][p].stored]_vars

\* every verification on a node that received the revocation / refreshed the list after the bit was set says "revoked" - for ever
RevokedIsPermanent ==
    /\ \A n \in Nodes : \A c \in must[n] : CurVerdict(c, n) = "revoked"
    /\ \A c \in Own : (cred[c].kind = "sl" /\ c \in revoked) => LocalVerdict(c) = "revoked"
KnownMonotone == [][\A n \in Nodes : known[n] \subseteq known'[n] /\ must[n] \subseteq must'[n]]_vars

\* only the issuer of a credential makes it fail as revoked
Revocable(c) == IF cred[c].kind = "foreign" THEN Exists(cred[c].list) /\ cred[c].slot \in Pg(cred[c].list).bits
                ELSE c \in revoked
IssuerOnly ==
    /\ \A n \in Nodes : known[n] \subseteq revoked
    /\ \A c \in Own : cred[c].kind \in {"sl", "ext"} => (c \in revoked <=> cred[c].slot \in Pg(cred[c].list).bits)
    /\ \A i \in AllIssuers : \A p \in 1..Len(pages[i]) :
           pages[i][p].bits \subseteq {cred[c].slot : c \in {d \in Own : cred[d].kind \in {"sl", "ext"} /\ cred[d].list = <<i, p>>}}
    /\ \A i \in AllIssuers : \A p \in 1..Len(pages[i]) : pages[i][p].stored \subseteq pages[i][p].bits
    /\ \A n \in Nodes, l \in Lists : cache[n][l].has => cache[n][l].signer = l[1]    \* no copy issued by another party
    /\ \A n \in Nodes : \A c \in Creds : (Issued(c) /\ CurVerdict(c, n) = "revoked") => Revocable(c)
    /\ \A c \in Creds : (Issued(c) /\ cred[c].kind # "net" /\ LocalVerdict(c) = "revoked") => Revocable(c)

\* a status entry is honoured only from the list the credential names
EntryOnlyFromNamedList == \A n \in Nodes, l \in Lists : cache[n][l].has => cache[n][l].from = l

\* every list the issuer node serves is signed by the issuer it belongs to (by construction), current, and not about to expire
ServedListValidAndFresh == \A l \in Lists : Exists(l) => LeftAfterServe(l) > MinLeft
=============================================================================
