-------------------------- MODULE TraceRevocation --------------------------
(***************************************************************************)
(* Trace validation for C11: executions of the REAL issuer / status list /  *)
(* verifier / ambassador (one event per action, recorded by the driver      *)
(* harness/drivers/revocation) must be behaviours of Revocation.tla.        *)
(* What the real code OBSERVABLY did (slot handed out, verdict, served      *)
(* list, revocation stored) is taken from the log and judged by the         *)
(* property invariants; what the model predicts for it is compared in the   *)
(* drift invariants (VerdictAsModel, ServedAsModel).                        *)
(* Traces are concatenated; a "reset" event starts the next one.            *)
(***************************************************************************)
EXTENDS MCRevocation, IOUtils

TraceLog == ndJsonDeserialize(IOEnv.VERIF_TRACE)
NoV == [c |-> "-", n |-> "-", v |-> "-"]
NoS == [list |-> NoList, signer |-> "-", left |-> 0, bits |-> {}, sigok |-> TRUE, need |-> {}]

VARIABLES
    l,      \* next line of the log
    tV,     \* the verification reported by the last event: [c, n, v], or NoV
    tS,     \* the list credential served during the last event, or NoS
    srv,    \* [Lists -> bits of the previous served version]
    mono    \* FALSE once a served version lacked a bit of its predecessor

tvars == <<vars, l, tV, tS, srv, mono>>

Ev == TraceLog[l]
IsEvent(e) == l <= Len(TraceLog) /\ Ev.ev = e /\ l' = l + 1
SetOf(s) == {s[k] : k \in 1..Len(s)}

NoServe == tS' = NoS /\ UNCHANGED <<srv, mono>>
\* r: the "served" record of the log, ls: the list it is a version of, need: the bits the issuer had set when the GET began
Served(r, ls, need) ==
    /\ tS' = [list |-> ls, signer |-> r.signer, left |-> r.left, bits |-> SetOf(r.bits), sigok |-> r.sigok, need |-> need]
    /\ srv' = [srv EXCEPT ![ls] = SetOf(r.bits)]
    /\ mono' = (mono /\ srv[ls] \subseteq SetOf(r.bits))

TReset ==
    /\ IsEvent("reset")
    /\ nIssued' = 0
    /\ cred' = [c \in Creds |-> IF c = "fx" THEN [iss |-> Outsider, kind |-> "foreign", list |-> <<ForeignTarget, 1>>, slot |-> 0] ELSE NoCred]
    /\ pages' = [i \in AllIssuers |-> <<>>] /\ revoked' = {}
    /\ known' = [n \in Nodes |-> {}] /\ cache' = [n \in Nodes |-> [ls \in Lists |-> NoCopy]]
    /\ ticks' = 0 /\ forges' = 0 /\ must' = [n \in Nodes |-> {}]
    /\ spc' = [s \in Servers |-> "idle"] /\ ssnap' = [s \in Servers |-> [list |-> NoList, bits |-> {}]]
    /\ UNCHANGED <<epc, esnap, hist>>
    /\ tV' = NoV /\ tS' = NoS /\ srv' = [ls \in Lists |-> {}] /\ mono' = TRUE

TIssue ==
    /\ IsEvent("issue") /\ Ev.c = CredName(nIssued + 1)
    /\ CASE Ev.kind = "sl" -> IssueObs(Ev.i, "sl", Ev.page, Ev.slot)
         [] Ev.kind = "ext" -> IssueExt(Ev.i, Ev.slot)
         [] OTHER -> IssueObs(Ev.i, "net", 1, 0)
    /\ tV' = NoV /\ NoServe
TRevokeStatus ==
    /\ IsEvent("revoke.status") /\ RevokeStatus(Ev.c)
    /\ (Ev.res = "ok") <=> (Ev.c \notin revoked)
    /\ tV' = NoV /\ NoServe
TRevokeNet ==
    /\ IsEvent("revoke.net") /\ RevokeNet(Ev.c)
    /\ (Ev.res = "ok") <=> (Ev.c \notin revoked)
    /\ tV' = NoV /\ NoServe
TTick == IsEvent("tick") /\ Tick /\ tV' = NoV /\ NoServe
TServe ==
    /\ IsEvent("serve") /\ Serve(<<Ev.i, Ev.p>>)
    /\ Served(Ev, <<Ev.i, Ev.p>>, Pg(<<Ev.i, Ev.p>>).bits) /\ tV' = NoV
\* the GET stopped before its transaction (res = "resign") or returned the stored list (res = "cached")
TServeBegin ==
    /\ IsEvent("serve.begin") /\ ServeBegin(Ev.s, <<Ev.i, Ev.p>>)
    /\ (Ev.res = "resign") <=> NeedsResign(<<Ev.i, Ev.p>>)
    /\ IF "served" \in DOMAIN Ev THEN Served(Ev.served, <<Ev.i, Ev.p>>, Pg(<<Ev.i, Ev.p>>).bits) ELSE NoServe
    /\ tV' = NoV
\* .. and went on after other operations: it owes the bits that were set when it began
TServeEnd ==
    /\ IsEvent("serve.end") /\ ServeResign(Ev.s)
    /\ Served(Ev.served, ssnap[Ev.s].list, ssnap[Ev.s].bits) /\ tV' = NoV
\* res: a revocation of the credential is in the node's store afterwards
TDeliver ==
    /\ IsEvent("deliver")
    /\ DeliverObs(Ev.c, Ev.k, Ev.r, Ev.n, Ev.res)
    /\ (Ev.res \/ Ev.c \notin known[Ev.n])
    /\ tV' = NoV /\ NoServe
\* the issuer comparison (F15) is made or not, whichever explains the observed verdict; default: the constant
Lic(c, n, src, v) ==
    IF ModelVerdict(c, n, src, ListIssuerChecked) = v THEN ListIssuerChecked
    ELSE IF ModelVerdict(c, n, src, ~ListIssuerChecked) = v THEN ~ListIssuerChecked
    ELSE ListIssuerChecked
TVerify ==
    /\ IsEvent("verify")
    /\ Ev.fetched = (cred[Ev.c].kind # "net" /\ Stale(Ev.n, cred[Ev.c].list))
    /\ VerifyL(Ev.c, Ev.n, IF Ev.fetched THEN Ev.src ELSE "up", Lic(Ev.c, Ev.n, Ev.src, Ev.verdict))
    /\ tV' = [c |-> Ev.c, n |-> Ev.n, v |-> Ev.verdict]
    /\ IF "served" \in DOMAIN Ev
       THEN /\ Produced(cred[Ev.c].list, Ev.src) = <<Ev.served.i, Ev.served.p>>
            /\ Served(Ev.served, <<Ev.served.i, Ev.served.p>>, Pg(<<Ev.served.i, Ev.served.p>>).bits)
       ELSE /\ (Ev.fetched => Produced(cred[Ev.c].list, Ev.src) = NoList)
            /\ NoServe
TVerifyLocal ==
    /\ IsEvent("verify.local") /\ VerifyLocal(Ev.c)
    /\ tV' = [c |-> Ev.c, n |-> "local", v |-> Ev.verdict] /\ NoServe

TraceNext == TReset \/ TIssue \/ TRevokeStatus \/ TRevokeNet \/ TTick \/ TServe \/ TServeBegin \/ TServeEnd \/ TDeliver \/ TVerify
             \/ TVerifyLocal
TraceInit == Init /\ l = 1 /\ tV = NoV /\ tS = NoS /\ srv = [ls \in Lists |-> {}] /\ mono = TRUE /\ TLCSet(1, 1)
TraceSpec == TraceInit /\ [][TraceNext]_tvars

(***************************************************************************)
(* C11 on the observed values                                               *)
(***************************************************************************)
MustOfT(n) == IF n = "local" THEN {c \in Own : cred[c].kind = "sl" /\ c \in revoked} ELSE must[n]
T_RevokedIsPermanent == (tV # NoV /\ tV.c \in MustOfT(tV.n)) => tV.v = "revoked"
T_IssuerOnly == /\ (tV # NoV /\ tV.v = "revoked") => Revocable(tV.c)
                /\ \A n \in Nodes : known[n] \subseteq revoked       \* known: as observed (revocation found in the node's store)
T_ServedListValidAndFresh == tS # NoS => (tS.signer = tS.list[1] /\ tS.sigok /\ tS.left > MinLeft)
\* a set bit is never cleared: no bit of the previous served version is missing, nor one the issuer had set when the GET began
T_BitsMonotone == mono /\ tS.need \subseteq tS.bits
\* drift (spec and code disagree on something the property does not demand)
VerdictAsModel == tV # NoV => tV.v = (IF tV.n = "local" THEN LocalVerdict(tV.c) ELSE CurVerdict(tV.c, tV.n))
ServedAsModel == tS # NoS => (Exists(tS.list) /\ tS.bits = Pg(tS.list).stored /\ tS.left = Pg(tS.list).left)

\* acceptance: the whole file was consumed (high-water mark kept in a TLC register; -workers 1)
Progress == TLCSet(1, IF l > TLCGet(1) THEN l ELSE TLCGet(1))
TraceAccepted ==
    \/ TLCGet(1) = Len(TraceLog) + 1
    \/ Print(<<"TRACE-REJECTED-AT", TLCGet(1), TraceLog[TLCGet(1)]>>, FALSE)
=============================================================================
