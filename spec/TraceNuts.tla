----------------------------- MODULE TraceNuts -----------------------------
(***************************************************************************)
(* Trace validation: executions of the REAL node stacks (didnuts.Manager,  *)
(* Network.CreateTransaction, dag.State, v2 protocol over simulated        *)
(* connections, persistent notifier, ambassador, did store) must be        *)
(* behaviours of Nuts.tla.  One event per spec action; after every step an *)
(* "obs" event with, for every running node, the transactions on its DAG,  *)
(* the versions it resolves by source transaction and the document /       *)
(* metadata it resolves as latest, which must EQUAL the model's state and  *)
(* its canonical fold.  Traces are concatenated; "reset" starts the next.  *)
(***************************************************************************)
EXTENDS MCNuts, IOUtils

TraceLog == ndJsonDeserialize(IOEnv.VERIF_TRACE)
VARIABLE l
tvars == <<vars, l>>

Ev == TraceLog[l]
IsEvent(e) == l <= Len(TraceLog) /\ Ev.ev = e /\ l' = l + 1
Rng(s) == {s[i] : i \in 1..Len(s)}

TReset == /\ IsEvent("reset")
          /\ ntx' = 0 /\ tx' = [t \in Ids |-> Nil]
          /\ dag' = [n \in Nodes |-> {0}] /\ applied' = [n \in Nodes |-> {}]
          /\ job' = [n \in Nodes |-> [t \in Ids |-> "none"]]
          /\ up' = [n \in Nodes |-> TRUE] /\ replay' = [n \in Nodes |-> {}] /\ armed' = [n \in Nodes |-> 0]
          /\ acked' = {} /\ faults' = 0 /\ restarts' = 0 /\ lossy' = 0 /\ hist' = <<>>

\* what the manager publishes, from the version the node resolves at that moment
Expected(n, kind, m) ==
    LET cur == View(n) IN
    CASE kind = "create" -> {KeyOf(n)}
      [] kind = "addkey" -> cur.doc \cup {KeyOf(m)}
      [] kind = "service" -> cur.doc \cup {SvcOf(n)}
      [] kind = "deactivate" -> {}
      [] kind = "forge" -> cur.doc \cup {"evil"}
      [] OTHER -> {KeyOf(n)}

\* an operation: the transaction the node created (prevs, signing key, content as recorded from the REAL transaction),
\* the answer of the node's own subscriber and the answer to the caller
TOp == /\ IsEvent("op") /\ Ev.n \in Nodes /\ Running(Ev.n) /\ Ev.t = ntx + 1 /\ Ev.t \in Ids
       /\ LET n == Ev.n
              id == Ev.t
              dprev == Rng(Ev.dprev)
              docprev == Rng(Ev.docprev)
              content == Rng(Ev.content)
              m == IF "m" \in DOMAIN Ev THEN Ev.m ELSE n
              rec == [kind |-> Ev.kind, by |-> n, key |-> Ev.key, docprev |-> docprev, dprev |-> dprev, head |-> Ev.head, content |-> content,
                      deact |-> Ev.deact, lc |-> 1 + Max({LcOf(r) : r \in dprev}), ord |-> Ev.ord, auth |-> AuthOf(Ev.kind, Ev.key, docprev)]
          IN /\ dprev \subseteq dag[n] /\ dprev # {}
             /\ docprev = dprev \ {0}
             /\ Ev.head \in dprev /\ Ev.lc = rec.lc
             /\ Ev.kind # "create" => View(n).src \subseteq docprev
             /\ Ev.kind = "create" => ~Created
             /\ content = Expected(n, Ev.kind, m)
             /\ Ev.deact = (Ev.kind = "deactivate")
             /\ Ev.key = (IF Ev.kind = "forge" THEN "KY" ELSE KeyOf(n))
             /\ Ev.auth = rec.auth                      \* the driver's reference notion = the model's
             /\ Ev.acked = (Ev.kind \notin {"forge", "react"})
             /\ ntx' = id /\ tx' = [tx EXCEPT ![id] = rec]
             /\ dag' = [dag EXCEPT ![n] = @ \cup {id}]
             /\ acked' = IF Ev.acked THEN acked \cup {id} ELSE acked
             /\ LET ok == rec.kind = "create" \/ (applied[n] # {} /\ OwnBaseOK(n, rec)) IN
                /\ Ev.self = (IF ok THEN "ok" ELSE "fatal")
                /\ applied' = [applied EXCEPT ![n] = IF ok THEN @ \cup {id} ELSE @]
                /\ job' = [job EXCEPT ![n][id] = IF ok THEN "done" ELSE "dead"]
       /\ UNCHANGED <<up, replay, armed, faults, restarts, lossy, hist>>

\* an operation the node refused (nothing was published)
TOpFail == IsEvent("opfail") /\ UNCHANGED vars

\* one call of the ambassador's receiver
THandle ==
    /\ IsEvent("handle") /\ Ev.n \in Nodes /\ Ev.t \in 1..ntx /\ up[Ev.n]
    /\ LET p == Ev.n
           t == Ev.t
       IN /\ CASE Ev.mode = "first" -> /\ Admissible(p, t) /\ replay[p] = {}
                                        /\ Ev.from \in Nodes => (t \in dag[Ev.from] /\ up[Ev.from])
                                        /\ dag' = [dag EXCEPT ![p] = @ \cup {t}] /\ UNCHANGED replay
               [] Ev.mode = "retry" -> job[p][t] \in {"retry", "wait"} /\ UNCHANGED <<dag, replay>>
               [] Ev.mode = "replay" -> t \in replay[p] /\ replay' = [replay EXCEPT ![p] = @ \ {t}] /\ UNCHANGED dag
               [] OTHER -> FALSE
          /\ Ev.res = Outcome(p, t)
          /\ Handle(p, t, Ev.mode)
    /\ UNCHANGED <<ntx, tx, up, acked, faults, restarts, lossy, hist>>

TArm == /\ IsEvent("arm") /\ Ev.n \in Nodes /\ up[Ev.n] /\ Ev.k \in 0..2
        /\ armed' = [armed EXCEPT ![Ev.n] = Ev.k]
        /\ UNCHANGED <<ntx, tx, dag, applied, job, up, replay, acked, faults, restarts, lossy, hist>>

TStop == /\ IsEvent("stop") /\ Ev.n \in Nodes /\ Running(Ev.n) /\ \A t \in Ids : job[Ev.n][t] # "retry"
         /\ up' = [up EXCEPT ![Ev.n] = FALSE]
         /\ UNCHANGED <<ntx, tx, dag, applied, job, replay, armed, acked, faults, restarts, lossy, hist>>

TStart == /\ IsEvent("start") /\ Ev.n \in Nodes /\ ~up[Ev.n]
          /\ up' = [up EXCEPT ![Ev.n] = TRUE]
          /\ replay' = [replay EXCEPT ![Ev.n] = {t \in Ids : job[Ev.n][t] \in {"wait", "dead"}}]
          /\ UNCHANGED <<ntx, tx, dag, applied, job, armed, acked, faults, restarts, lossy, hist>>

\* Network.Start has returned: every job that was on the shelf has been delivered again
TStarted == IsEvent("started") /\ Ev.n \in Nodes /\ up[Ev.n] /\ replay[Ev.n] = {} /\ UNCHANGED vars

TSuffix == IsEvent("suffix") /\ UNCHANGED vars

\* what every running node shows equals the state of the model and its canonical fold
NodeMatch(n, o) ==
    /\ up[n]
    /\ Rng(o.dag) = dag[n]
    /\ Rng(o.applied) = applied[n]
    /\ o.found = (applied[n] # {})
    /\ o.found => /\ o.deact = View(n).deact
                  /\ o.active = ~View(n).deact
                  /\ Rng(o.doc) = View(n).doc
                  /\ Rng(o.src) = View(n).src
TObs == /\ IsEvent("obs")
        /\ \A n \in Nodes : n \in DOMAIN Ev.nodes => NodeMatch(n, Ev.nodes[n])
        /\ UNCHANGED vars

TraceNext == TReset \/ TOp \/ TOpFail \/ THandle \/ TArm \/ TStop \/ TStart \/ TStarted \/ TSuffix \/ TObs
TraceInit == Init /\ l = 1 /\ TLCSet(1, 1)
TraceSpec == TraceInit /\ [][TraceNext]_tvars

\* E4 on every step of a real execution
TE4 == [][(l' > l /\ TraceLog[l].ev # "reset") => \A n \in Nodes : Deact(n) => Deact(n)']_tvars

Progress == TLCSet(1, IF l > TLCGet(1) THEN l ELSE TLCGet(1))
TraceAccepted ==
    \/ TLCGet(1) = Len(TraceLog) + 1
    \/ Print(<<"TRACE-REJECTED-AT", TLCGet(1), TraceLog[TLCGet(1)]>>, FALSE)
=============================================================================
