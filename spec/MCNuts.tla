------------------------------ MODULE MCNuts ------------------------------
(* Model-checking companion of Nuts.tla: witness behaviours for the replay on the real node stacks. *)
EXTENDS Nuts, Json

\* one witness behaviour per distinct terminal state
Emit == (Hist /\ Terminal) => PrintT(ToJson([steps |-> hist]))
\* ... and per distinct state in which the code's variant departs from the statement
Bad == ~(E1 /\ E2 /\ AckedDurable /\ NoDrop)
EmitBad == (Hist /\ Bad) => PrintT(ToJson([steps |-> hist]))
HistBound == Len(hist) <= 40
=============================================================================
