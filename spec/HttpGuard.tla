------------------------------ MODULE HttpGuard ------------------------------
(***************************************************************************)
(* C04 -- the decision logic of the HTTP engine for ONE request, as a      *)
(* small state machine over abstract input classes                        *)
(*   http/engine.go   applyAuthMiddleware (skipper), matchesPath           *)
(*   http/echo.go     MultiEcho: bind table, one echo instance / address   *)
(*   http/tokenV2/middleware.go  checkConnectionAuthorization              *)
(*   net/http + echo  request-target parsing, router                       *)
(*                                                                         *)
(* A request target is a SEQUENCE OF ATOMS (strings); the concretiser just *)
(* concatenates them, so the spec and the bytes on the wire are the same   *)
(* object.  The code looks at the target through two different functions:  *)
(*   GuardView  = what the auth skipper inspects (Request.RequestURI),     *)
(*   RouteView  = what the router dispatches on (URL.RawPath / URL.Path).  *)
(* The deviation constants name the places where the code is more          *)
(* permissive than the property:                                           *)
(*   GuardOnParsedPath   = FALSE : skipper matches on RequestURI  (F2)     *)
(*   ExactlyOneSignature = FALSE : "secure signature count > 0"   (F12)    *)
(*   ZeroExpNeverExpires = TRUE  : exp = 0 is not checked against the clock *)
(*   GuardCleansPath     = TRUE  : the skipper decides on a NORMALISED path *)
(*       (dot segments / duplicate slashes resolved) while the router       *)
(*       dispatches on the path as it was sent                              *)
(*   RemembersVerified   = TRUE  : a grant is remembered (by credential or  *)
(*       by connection) and a later request is let through without being    *)
(*       validated at the time it arrives                                   *)
(* A behaviour is one request or, with FollowUp = TRUE, a HISTORY of two    *)
(* requests to the same node: the second one is related to the first       *)
(* (the same credential after its exp has passed, the same claims under a   *)
(* foreign signature, no credential on the same connection).               *)
(* The prescriptive configuration (both TRUE) satisfies the invariants;    *)
(* the cases are generated from the descriptive one.                      *)
(***************************************************************************)
EXTENDS Naturals, Sequences, FiniteSets, TLC, Json

CONSTANTS
    GuardOnParsedPath,
    ExactlyOneSignature,
    GuardCleansPath,     \* TRUE = deviation: matchesPath normalises (path.Clean) what it inspects; the code: FALSE
    RemembersVerified,   \* TRUE = deviation: the node remembers an earlier grant; the code: FALSE (every request is judged on its own)
    FollowUp,            \* TRUE: histories of two requests (TargetMode "one"); the first tokens are FirstTokens
    ZeroExpNeverExpires, \* TRUE = the code: jwx treats exp = 0 (1970-01-01T00:00:00Z) as "no exp claim" and skips the expiry check
    TargetMode,      \* "all" | "core" | "one"
    TokenDefects,    \* 0 = core token set, 1/2 = every token with at most n deviations from the valid one,
                     \* 3 = the complete product of the time claims (nbf x iat x exp) of an otherwise valid token
    Gen              \* TRUE: print every terminal state (case + expected verdict)

None == "none"

(***************************************************************************)
(* Routes the driver registers (atoms).  ":id" is an echo path parameter.  *)
(***************************************************************************)
\* ":id" is an echo path parameter (one segment), "*" the echo wildcard (the rest of the path)
RoutePattern == [
    internal |-> <<"/", "internal", "/", "x">>,
    iparam   |-> <<"/", "internal", "/", "p", "/", ":id">>,
    iwild    |-> <<"/", "internal", "/", "w", "/", "*">>,
    iroot    |-> <<"/", "internal">>,
    status   |-> <<"/", "status">>,
    metrics  |-> <<"/", "metrics">>,
    health   |-> <<"/", "health">>,
    public   |-> <<"/", "pub", "/", "x">> ]
RouteNames == DOMAIN RoutePattern
InternalAuth == {"internal", "iparam", "iwild", "iroot"}                       \* handlers registered under /internal
InternalBound == InternalAuth \cup {"status", "metrics", "health"}    \* bound to the internal listener

Canon(r) == [i \in 1..Len(RoutePattern[r]) |-> IF RoutePattern[r][i] \in {":id", "*"} THEN "v" ELSE RoutePattern[r][i]]
Multi(r) == Len(RoutePattern[r]) > 2

Enc == [internal |-> "%69nternal", status |-> "%73tatus", metrics |-> "%6Detrics", health |-> "%68ealth",
        pub |-> "%70ub", x |-> "%78", v |-> "%76"]
Upper == [internal |-> "INTERNAL", status |-> "STATUS", metrics |-> "METRICS", health |-> "HEALTH",
          pub |-> "PUB", x |-> "X", v |-> "V"]
\* percent-decoding of an atom (url.unescape)
DecTab == ("%69nternal" :> <<"internal">>) @@ ("%73tatus" :> <<"status">>) @@ ("%6Detrics" :> <<"metrics">>) @@
          ("%68ealth" :> <<"health">>) @@ ("%70ub" :> <<"pub">>) @@ ("%78" :> <<"x">>) @@ ("%76" :> <<"v">>) @@
          ("%2F" :> <<"/">>) @@ ("a%2Fb" :> <<"a", "/", "b">>) @@
          \* an encoded percent sign / double encoding: ONE decoding step gives text that still looks encoded
          ("%25zz" :> <<"%zz">>) @@ ("100%25" :> <<"100%">>) @@ ("a%252Fb" :> <<"a%2Fb">>) @@ ("%2525" :> <<"%25">>) @@
          ("%25252F" :> <<"%252F">>) @@ ("%252F" :> <<"%2F">>) @@
          ("%2569nternal" :> <<"%69nternal">>) @@ ("%2573tatus" :> <<"%73tatus">>) @@ ("%256Detrics" :> <<"%6Detrics">>) @@
          ("%2568ealth" :> <<"%68ealth">>) @@ ("%2570ub" :> <<"%70ub">>) @@
          ("%2e%2e" :> <<"..">>) @@ ("%00" :> <<"NUL">>) @@ ("%20" :> <<" ">>) @@ ("%FF" :> <<"xFF">>) @@ ("%ff" :> <<"xFF">>)
Enc2 == [internal |-> "%2569nternal", status |-> "%2573tatus", metrics |-> "%256Detrics", health |-> "%2568ealth", pub |-> "%2570ub"]
\* atoms that are the canonical escaping of their decoding (url.URL keeps RawPath only when the text is NOT canonical;
\* echo dispatches on RawPath when set and on the DECODED Path otherwise)
CanonEnc == {"%25zz", "100%25", "a%252Fb", "%2525", "%25252F", "%252F", "%2569nternal", "%2573tatus", "%256Detrics",
             "%2568ealth", "%2570ub", "%00", "%20", "%FF"}
NonCanon(a) == a \in DOMAIN DecTab /\ a \notin CanonEnc
BadEscape == {"%zz"}      \* url.ParseRequestURI fails: 400 from net/http
Dec(a) == IF a \in DOMAIN DecTab THEN DecTab[a] ELSE <<a>>
RECURSIVE DecodeSeq(_)
DecodeSeq(s) == IF s = <<>> THEN <<>> ELSE Dec(Head(s)) \o DecodeSeq(Tail(s))

\* values of the path parameter of /internal/p/:id (a parameter matches any text without "/")
ParamVal == ("param-dotdot" :> "..") @@
    ("param-dot" :> ".") @@
    ("param-enc-dots" :> "%2e%2e") @@
    ("param-nul" :> "%00") @@
    ("param-space" :> "%20") @@
    ("param-hiFF" :> "%FF") @@
    ("param-hiff" :> "%ff") @@
    ("param-plus" :> "+") @@
    ("param-pct-bad" :> "%25zz") @@
    ("param-pct-end" :> "100%25") @@
    ("param-denc-slash" :> "a%252Fb") @@
    ("param-denc-pct" :> "%2525") @@
    ("param-triple-enc" :> "%25252F") @@
    ("param-raw-bad-escape" :> "%zz")
ParamValQ == ("param-pct-bad-query" :> "%25zz") @@
    ("param-pct-end-query" :> "100%25") @@
    ("param-denc-slash-query" :> "a%252Fb")
\* values of the parameter / wildcard tail that are SEVERAL path segments for whoever resolves dot segments: k times ".."
\* (k = 2 leaves /internal, k = 3 passes the root), separated by an encoded slash (one segment for the router, it matches
\* ":id") or a real one (matches "*" only); then possibly down again into a public name
DD(k, dd, sep) == [i \in 1..(2 * k - 1) |-> IF i % 2 = 1 THEN dd ELSE sep]
ClimbVal == ("climb2-encslash" :> DD(2, "..", "%2F")) @@
    ("climb3-encslash" :> DD(3, "..", "%2F")) @@
    ("climb5-encslash" :> DD(5, "..", "%2F")) @@
    ("climb2-encboth" :> DD(2, "%2e%2e", "%2F")) @@
    ("climb3-encboth" :> DD(3, "%2e%2e", "%2F")) @@
    ("climb2-slash" :> DD(2, "..", "/")) @@
    ("climb3-slash" :> DD(3, "..", "/")) @@
    ("climb3-encdots" :> DD(3, "%2e%2e", "/")) @@
    ("climb2-encslash-pub" :> DD(2, "..", "%2F") \o <<"%2F", "pub", "%2F", "x">>) @@
    ("climb2-slash-pub" :> DD(2, "..", "/") \o <<"/", "pub", "/", "x">>) @@
    ("climb2-encslash-back" :> DD(2, "..", "%2F") \o <<"%2F", "internal", "%2F", "x">>) @@
    ("climb3-encslash-query" :> DD(3, "..", "%2F") \o <<"?", "a=b">>) @@
    ("climb2-slash-trailing" :> DD(2, "..", "/") \o <<"/">>)
Variants == {"plain", "trailing", "dslash-before", "dslash-inside", "dot-before", "dot-inside", "dotdot-inside",
             "dotdot-outside", "enc-first", "enc-last", "enc-slash", "enc-slash-param", "upper-first", "upper-last",
             "query", "query-slash", "frag", "semicolon", "backslash",
             "denc-first", "denc-slash", "pct-bad-suffix", "raw-bad-escape-suffix"} \cup DOMAIN ParamVal \cup DOMAIN ParamValQ \cup DOMAIN ClimbVal
Applicable(v, r) ==
    CASE v \in {"dslash-inside", "dot-inside", "dotdot-inside", "enc-last", "enc-slash", "upper-last", "backslash"} -> Multi(r)
      [] v = "enc-slash-param" -> r = "iparam"
      [] v \in DOMAIN ParamVal \cup DOMAIN ParamValQ -> r = "iparam"
      [] v = "denc-slash" -> Multi(r)
      [] v \in DOMAIN ClimbVal -> r \in {"iparam", "iwild"}
      [] OTHER -> TRUE

Variant(v, p) ==
    LET n == Len(p)
        rest == SubSeq(p, 3, n)
        init == SubSeq(p, 1, n - 1)
    IN CASE v = "plain"           -> p
         [] v = "trailing"        -> p \o <<"/">>
         [] v = "dslash-before"   -> <<"/">> \o p
         [] v = "dslash-inside"   -> <<p[1], p[2], "/">> \o rest
         [] v = "dot-before"      -> <<"/", ".">> \o p
         [] v = "dot-inside"      -> <<p[1], p[2], "/", ".">> \o rest
         [] v = "dotdot-inside"   -> <<p[1], p[2], "/", "y", "/", "..">> \o rest
         [] v = "dotdot-outside"  -> <<"/", "zz", "/", "..">> \o p
         [] v = "enc-first"       -> <<p[1], Enc[p[2]]>> \o rest
         [] v = "enc-last"        -> init \o <<Enc[p[n]]>>
         [] v = "enc-slash"       -> <<p[1], p[2], "%2F">> \o SubSeq(p, 4, n)
         [] v = "enc-slash-param" -> init \o <<"a%2Fb">>
         [] v = "upper-first"     -> <<p[1], Upper[p[2]]>> \o rest
         [] v = "upper-last"      -> init \o <<Upper[p[n]]>>
         [] v = "query"           -> p \o <<"?", "a=b">>
         [] v = "query-slash"     -> p \o <<"?", "/", "internal", "/", "x">>
         [] v = "frag"            -> p \o <<"#", "f">>
         [] v = "semicolon"       -> <<p[1], p[2], ";", "a=b">> \o rest
         [] v = "backslash"       -> <<p[1], p[2], "\\">> \o SubSeq(p, 4, n)
         [] v = "denc-first"      -> <<p[1], Enc2[p[2]]>> \o rest
         [] v = "denc-slash"      -> <<p[1], p[2], "%252F">> \o SubSeq(p, 4, n)
         [] v = "pct-bad-suffix"  -> p \o <<"%25zz">>
         [] v = "raw-bad-escape-suffix" -> p \o <<"%zz">>
         [] v \in DOMAIN ParamVal  -> init \o <<ParamVal[v]>>
         [] v \in DOMAIN ParamValQ -> init \o <<ParamValQ[v], "?", "a=b">>
         [] v \in DOMAIN ClimbVal  -> init \o ClimbVal[v]

\* request-target forms (RFC 9112 3.2).  "HOST" is replaced by the listener address by the concretiser.
PathForms == {"origin", "absolute", "absolute-alt", "connect-path"}
FormTarget(f, s) ==
    CASE f = "absolute"     -> <<"http:", "//", "HOST">> \o s
      [] f = "absolute-alt" -> <<"HTTPS:", "//", "other.example">> \o s
      [] OTHER              -> s
Method(f) == CASE f \in {"connect-path", "authority"} -> "CONNECT"
               [] f = "asterisk" -> "OPTIONS"
               [] OTHER -> "GET"

AllTargets ==
    {[form |-> f, variant |-> v, route |-> r] : f \in {"origin", "absolute", "absolute-alt"},
                                                 v \in Variants, r \in RouteNames}
    \cup {[form |-> "connect-path", variant |-> "plain", route |-> r] : r \in RouteNames}
    \cup {[form |-> f, variant |-> "plain", route |-> None] : f \in {"authority", "asterisk", "asterisk-get"}}
CoreTargets == {
    [form |-> "origin",   variant |-> "plain", route |-> "internal"],
    [form |-> "origin",   variant |-> "plain", route |-> "iparam"],
    [form |-> "absolute", variant |-> "plain", route |-> "internal"],
    [form |-> "origin",   variant |-> "query", route |-> "iroot"],
    [form |-> "origin",   variant |-> "plain", route |-> "status"],
    [form |-> "origin",   variant |-> "plain", route |-> "public"] }
Targets == {t \in (CASE TargetMode = "all" -> AllTargets
                      [] TargetMode = "one" -> {[form |-> "origin", variant |-> "plain", route |-> "internal"]}
                      [] OTHER -> CoreTargets) :
                t.route = None \/ Applicable(t.variant, t.route)}

TargetSeq(t) ==
    CASE t.form = "authority" -> <<"HOST">>
      [] t.form \in {"asterisk", "asterisk-get"} -> <<"*">>
      [] OTHER -> FormTarget(t.form, Variant(t.variant, Canon(t.route)))

Listeners == IF TargetMode = "one" THEN {[cfg |-> "diff", port |-> "internal"]}
             ELSE {[cfg |-> "same", port |-> "internal"], [cfg |-> "diff", port |-> "internal"], [cfg |-> "diff", port |-> "public"]}
RoutesOn(l) == IF l.cfg = "same" THEN RouteNames
               ELSE IF l.port = "internal" THEN InternalBound ELSE RouteNames \ InternalBound

(***************************************************************************)
(* Tokens: a record of attributes; Default is a valid token.               *)
(*                                                                         *)
(* Time claims.  Scale is an ascending sequence of durations (label, exact *)
(* value in seconds as decimal text - TLC integers are 32 bit, so the spec *)
(* only uses the ORDER; the concretiser computes with the exact values).   *)
(*   nbf = now - Scale[nbf],  iat = nbf - Scale[iat],  exp = nbf + Scale[life]  *)
(* ("abs-..." = that absolute NumericDate; "NOW" = seconds since the epoch) *)
(* The bound of the code is 1470 min = 88200 s, the documentation says 24 h.*)
(***************************************************************************)
Scale == <<
    [l |-> "-1e10",      v |-> "-10000000000"],
    [l |-> "-1h",        v |-> "-3600"],
    [l |-> "0",          v |-> "0"],
    [l |-> "1s",         v |-> "1"],
    [l |-> "60s",        v |-> "60"],
    [l |-> "60s+half",   v |-> "60.5"],
    [l |-> "short",      v |-> "63"],             \* histories: nbf = now - 60 s, exp = now + 3 s
    [l |-> "60s+lapse",  v |-> "LAPSE"],          \* histories: the nbf of the first request's token seen from the clock of the
                                                  \* second request (the driver lets the time pass until "short" has expired)
    [l |-> "1h",         v |-> "3600"],
    [l |-> "1h+half",    v |-> "3600.5"],
    [l |-> "2h",         v |-> "7200"],
    [l |-> "bound-1h",   v |-> "84600"],
    [l |-> "24h",        v |-> "86400"],
    [l |-> "bound-1s",   v |-> "88199"],
    [l |-> "bound",      v |-> "88200"],
    [l |-> "bound+half", v |-> "88200.5"],
    [l |-> "bound+1s",   v |-> "88201"],
    [l |-> "48h",        v |-> "172800"],
    [l |-> "1y",         v |-> "31556952"],
    [l |-> "epoch",      v |-> "NOW"],
    [l |-> "100y",       v |-> "3155695200"],
    [l |-> "2^63ns-",    v |-> "9223372036"],          \* just below / above 2^63 nanoseconds (time.Duration)
    [l |-> "2^63ns+",    v |-> "9223372037"],
    [l |-> "1e10",       v |-> "10000000000"],
    [l |-> "2^64ns-",    v |-> "18446744073"],
    [l |-> "2^64ns+",    v |-> "18446744074"],
    [l |-> "1000y",      v |-> "31556952000"],
    [l |-> "1e12",       v |-> "1000000000000"],
    [l |-> "2^53",       v |-> "9007199254740992"],
    [l |-> "abs-2^63-1", v |-> "9223372036854775807"],
    [l |-> "abs-2^63",   v |-> "9223372036854775808"],
    [l |-> "abs-1e30",   v |-> "1e30"] >>
Rank(l) == CHOOSE i \in 1..Len(Scale) : Scale[i].l = l
Val(l) == Scale[Rank(l)].v
Base(t) == IF t.nbf = "missing" THEN "60s" ELSE t.nbf          \* without nbf the concretiser still places exp relative to now - 60 s
\* str-: exp is a JSON string holding the number; abs-0 / abs-0.5: exp is the epoch itself (ranked like a very negative lifetime)
\* rfc-: exp is a JSON string holding an RFC 3339 timestamp (jwx accepts that, too)
LifeLabel(t) == CASE t.life \in {"str-1h", "rfc-1h"} -> "1h" [] t.life \in {"str-1e10", "rfc-1e10"} -> "1e10"
                  [] t.life \in {"abs-0", "abs-0.5"} -> "-1e10" [] OTHER -> t.life
ExpAbsZero(t) == t.life \in {"abs-0", "abs-0.5"}
ExpIsEpoch(t) == ExpAbsZero(t) \/ (Base(t) = "epoch" /\ t.life = "0")     \* the NumericDate exp is 0 after truncation
\* the mathematical truth about the claims
NbfReached(t) == t.nbf = "missing" \/ Rank(t.nbf) >= Rank("0")                       \* nbf <= now
NotExpired(t) == t.life = "missing" \/ (~ExpAbsZero(t) /\ Rank(LifeLabel(t)) > Rank(Base(t)))   \* now < exp
TooLong(t) == t.life # "missing" /\ ~ExpAbsZero(t) /\ Rank(LifeLabel(t)) >= Rank("bound+1s")   \* exp - nbf exceeds the bound
\* jwx parseNumericString: anything but digits and "." (a minus sign, an exponent) is tried as RFC 3339 and refused, so a
\* NEGATIVE NumericDate (a date before 1970) makes the whole token unparsable.  Which claims are negative (now ~ 1.8e9 s):
BeforeEpoch(t) == Rank(Base(t)) > Rank("epoch")          \* the start of the window lies before 1970
NegativeDate(t) ==
    \/ t.nbf # "missing" /\ BeforeEpoch(t)
    \/ t.iat \in {"0", "1h", "48h", "later"} /\ BeforeEpoch(t)
    \/ t.iat = "1e10" \/ (t.iat \in {"1h", "48h"} /\ Base(t) = "epoch")
    \/ t.life = "-1e10" \/ (t.life = "-1h" /\ Rank(Base(t)) >= Rank("epoch"))
    \/ BeforeEpoch(t) /\ t.life \notin {"missing", "abs-0", "abs-0.5", "abs-2^63-1", "abs-2^63", "abs-1e30"}
                      /\ Rank(LifeLabel(t)) <= Rank("100y")
\* the values handed to the concretiser
TimeValues(t) == [nbf |-> IF t.nbf = "missing" THEN "missing" ELSE Val(t.nbf),
                  base |-> Val(Base(t)),
                  iat |-> IF t.iat \in {"missing", "later", "future"} THEN t.iat ELSE Val(t.iat),
                  exp |-> CASE t.life = "missing" -> "missing"
                            [] t.life \in {"str-1h", "str-1e10"} -> "relstr:" \o Val(LifeLabel(t))
                            [] t.life \in {"rfc-1h", "rfc-1e10"} -> "relrfc:" \o Val(LifeLabel(t))
                            [] t.life \in {"abs-2^63-1", "abs-2^63", "abs-1e30"} -> "abs:" \o Val(t.life)
                            [] t.life = "abs-0" -> "abs:0" [] t.life = "abs-0.5" -> "abs:0.5"
                            [] OTHER -> "rel:" \o Val(t.life)]
Dom == [
    shape  |-> {"bearer", "bearer-lower", "absent", "empty", "scheme-only", "basic", "nospace", "extra-field", "dup-garbage-first"},
    ser    |-> {"compact", "flattened", "general1", "general0", "general2af", "general2uf"},
    alg    |-> {"ed25519/EdDSA", "p256/ES256", "p384/ES384", "p521/ES512", "rsa/RS512", "rsa/PS512",
                "rsa/RS256", "rsa/RS384", "rsa/PS256", "rsa/PS384", "p384/ES256", "none", "HS256", "HS384", "HS512"},
    signer |-> {"authorised", "authorised-kid-thumb", "attacker", "attacker-kid-auth", "authorised-kid-unknown", "authorised-no-kid"},
    hdr    |-> {"none", "jwk", "jku", "x5c", "x5u"},
    aud    |-> {"ok", "array-ok", "wrong", "missing"},
    iss    |-> {"ok", "other-user", "unknown", "missing"},
    sub    |-> {"ok", "empty", "missing"},
    jti    |-> {"uuid", "text", "missing"},
    nbf    |-> {"60s", "-1h", "60s+half", "2h", "48h", "1y", "epoch", "1e10", "2^63ns+", "missing"},   \* now - nbf
    iat    |-> {"0", "later", "future", "1h", "48h", "1e10", "missing"},                                \* nbf - iat
    life   |-> ({Scale[i].l : i \in 1..Len(Scale)} \ {"60s", "60s+half", "epoch", "short", "60s+lapse"}) \cup {"missing", "str-1h", "str-1e10", "rfc-1h", "rfc-1e10", "abs-0", "abs-0.5"},  \* exp - nbf
    len    |-> {"ok", "long"} ]
Attrs == DOMAIN Dom
AllowedFit == {"ed25519/EdDSA", "p256/ES256", "p384/ES384", "p521/ES512", "rsa/RS512", "rsa/PS512"}
Default == [shape |-> "bearer", ser |-> "compact", alg |-> "ed25519/EdDSA", signer |-> "authorised", hdr |-> "none",
            aud |-> "ok", iss |-> "ok", sub |-> "ok", jti |-> "uuid", nbf |-> "60s", iat |-> "0", life |-> "1h", len |-> "ok"]
Deviate(T) == T \cup UNION {UNION {{[t EXCEPT ![a] = v] : v \in Dom[a]} : a \in Attrs} : t \in T}
CoreTokens == {Default,
               [Default EXCEPT !.shape = "absent"],
               [Default EXCEPT !.shape = "basic"],
               [Default EXCEPT !.signer = "attacker"],
               [Default EXCEPT !.ser = "general2af"],
               [Default EXCEPT !.ser = "general2uf"],
               [Default EXCEPT !.alg = "none"],
               [Default EXCEPT !.nbf = "48h"],       \* expired
               [Default EXCEPT !.life = "1e10"],     \* expires in 317 years
               [Default EXCEPT !.iss = "other-user"]}
\* histories: the first request carries a valid token of every permitted algorithm, long-lived or about to expire
FirstTokens == {[Default EXCEPT !.alg = a, !.life = l] : a \in AllowedFit, l \in {"1h", "short"}}
\* the second request of a history, by its relation to the first one
Rels == {"same-later",          \* the same credential text, after the lapse of time ("short" has expired by then)
         "resigned-later",      \* the same claims (same jti), signed by a foreign key under the authorised key's kid
         "absent-keepalive"}    \* no credential at all, at once, on the TCP connection the first request was granted on
\* the second request's credential described RELATIVE TO THE CLOCK OF THE SECOND REQUEST
FollowTok(t, rel) ==
    CASE rel = "same-later"        -> [t EXCEPT !.nbf = "60s+lapse"]
      [] rel = "resigned-later"    -> [t EXCEPT !.nbf = "60s+lapse", !.signer = "attacker-kid-auth"]
      [] rel = "absent-keepalive"  -> [t EXCEPT !.shape = "absent"]
Tokens == CASE FollowUp -> FirstTokens
            [] TokenDefects = 0 -> CoreTokens
            [] TokenDefects = 1 -> Deviate({Default})
            [] TokenDefects = 2 -> Deviate(Deviate({Default}))
            [] OTHER -> {[Default EXCEPT !.nbf = a, !.iat = b, !.life = c] : a \in Dom.nbf, b \in Dom.iat, c \in Dom.life}

\* --- the property's own notion of a valid credential (three-valued: the statement does not talk about every attribute)
InvalidToken(t) ==
    \/ t.shape \in {"absent", "empty", "scheme-only", "basic"}          \* carries no bearer token
    \/ t.ser \in {"general0", "general2af", "general2uf"}                \* not (only) signed by an authorised key
    \/ t.alg \in {"none", "HS256", "HS384", "HS512"}                     \* not signed with the authorised KEY at all
    \/ t.signer \in {"attacker", "attacker-kid-auth"}
    \/ t.aud \in {"wrong", "missing"}
    \/ t.iss \in {"other-user", "unknown", "missing"}
    \/ t.sub \in {"empty", "missing"}
    \/ t.jti \in {"text", "missing"}
    \/ t.life = "missing"                                               \* unbounded lifetime
    \/ ~NbfReached(t) \/ ~NotExpired(t)                                  \* not (nbf <= now < exp)
    \/ TooLong(t) /\ (t.nbf # "missing" \/ t.iat \in {"0", "1h", "48h", "1e10"})   \* exp later than the bound after its start
ValidToken(t) ==
    /\ t.shape \in {"bearer", "bearer-lower"} /\ t.ser = "compact" /\ t.alg \in AllowedFit
    /\ t.signer \in {"authorised", "authorised-kid-thumb"} /\ t.hdr = "none" /\ t.aud \in {"ok", "array-ok"}
    /\ t.iss = "ok" /\ t.sub = "ok" /\ t.jti = "uuid" /\ t.nbf \in {"60s", "60s+lapse"} /\ t.iat = "0" /\ t.life \in {"short", "1h", "2h", "24h"} /\ t.len = "ok"
Validity(t) == IF InvalidToken(t) THEN "no" ELSE IF ValidToken(t) THEN "yes" ELSE "unspecified"
\* the attributes whose value alone makes the credential invalid (names the cause in a violation signature)
Why(t) == {a \in Attrs : InvalidToken([Default EXCEPT ![a] = t[a]])}

Cases == {[l |-> l, target |-> t, tok |-> k, rel |-> None] : l \in Listeners, t \in Targets, k \in Tokens}

\* past: the finished earlier requests of the history (credential as described at THEIR time, and what happened)
VARIABLES req, phase, matched, status, reached, user, past
vars == <<req, phase, matched, status, reached, user, past>>

M == Method(req.target.form)
T == TargetSeq(req.target)

(***************************************************************************)
(* net/http readRequest + url.ParseRequestURI: the path handed to echo     *)
(* (echo.GetPath = URL.RawPath, or URL.Path when RawPath is empty: the     *)
(* undecoded text between authority and "?"; a "#" is NOT a delimiter in   *)
(* a request target).  <<"!">> = request line refused by the server.       *)
(***************************************************************************)
BeforeQuery(s) == IF \E i \in 1..Len(s) : s[i] = "?"
                  THEN SubSeq(s, 1, (CHOOSE i \in 1..Len(s) : s[i] = "?" /\ \A j \in 1..(i - 1) : s[j] # "?") - 1)
                  ELSE s
Schemes == {"http:", "HTTPS:"}
RawPathPart(m, t) ==
    IF t = <<"*">> THEN <<"*">>
    ELSE IF m = "CONNECT" /\ t[1] # "/" THEN <<>>
    ELSE IF t[1] = "/" THEN BeforeQuery(t)
    ELSE IF Len(t) >= 3 /\ t[1] \in Schemes /\ t[2] = "//" THEN BeforeQuery(SubSeq(t, 4, Len(t)))
    ELSE <<"!">>
Refused(m, t) == RawPathPart(m, t) = <<"!">> \/ \E i \in 1..Len(RawPathPart(m, t)) : RawPathPart(m, t)[i] \in BadEscape
\* URL.Path: one percent-decoding of the raw path
ParsedPath(m, t) == DecodeSeq(RawPathPart(m, t))
\* what echo dispatches on: URL.RawPath if the raw text is not the canonical escaping of URL.Path, else URL.Path
RouteView(m, t) ==
    IF Refused(m, t) THEN <<"!">>
    ELSE IF \E i \in 1..Len(RawPathPart(m, t)) : NonCanon(RawPathPart(m, t)[i]) THEN RawPathPart(m, t)
    ELSE ParsedPath(m, t)

\* echo router: static routes match atom by atom (case sensitive, no cleaning); a trailing :param takes the rest up to
\* "/", but a :param that is the LAST node of its branch (a leaf, as here) takes the whole rest of the path, slashes
\* included (echo router.Find: "if currentNode.isLeaf { i = l }"; observed: /internal/p/../.. is dispatched to /internal/p/:id);
\* a trailing "*" takes whatever follows its "/"
Match(r, path) ==
    LET pat == RoutePattern[r]
        n == Len(pat)
    IN IF pat[n] = "*"
       THEN /\ Len(path) >= n - 1
            /\ SubSeq(path, 1, n - 1) = SubSeq(pat, 1, n - 1)
       ELSE IF pat[n] = ":id"
       THEN /\ Len(path) >= n
            /\ SubSeq(path, 1, n - 1) = SubSeq(pat, 1, n - 1)
       ELSE path = pat
Router(routes, path) == IF \E r \in routes : Match(r, path) THEN CHOOSE r \in routes : Match(r, path) ELSE None

\* engine.go: skipper = !matchesPath(X, "/internal")
\* path.Clean of a rooted path over atoms: empty and "." segments dropped, ".." removes the segment before it (none at the root)
RECURSIVE CleanSegs(_, _, _)
CleanSegs(s, stack, cur) ==
    LET push == IF cur = <<>> \/ cur = <<".">> THEN stack
                ELSE IF cur = <<"..">> THEN (IF stack = <<>> THEN stack ELSE SubSeq(stack, 1, Len(stack) - 1))
                ELSE Append(stack, cur)
    IN IF s = <<>> THEN push
       ELSE IF Head(s) = "/" THEN CleanSegs(Tail(s), push, <<>>)
       ELSE CleanSegs(Tail(s), stack, Append(cur, Head(s)))
RECURSIVE Join(_)
Join(segs) == IF segs = <<>> THEN <<>> ELSE <<"/">> \o Head(segs) \o Join(Tail(segs))
Clean(s) == IF s = <<>> \/ s[1] # "/" THEN s
            ELSE LET segs == CleanSegs(s, <<>>, <<>>) IN IF segs = <<>> THEN <<"/">> ELSE Join(segs)
GuardView(m, t) == IF ~GuardOnParsedPath THEN t
                   ELSE IF GuardCleansPath THEN Clean(ParsedPath(m, t)) ELSE ParsedPath(m, t)
IsPrefix(p, s) == Len(p) <= Len(s) /\ SubSeq(s, 1, Len(p)) = p
MatchesPath(s, prefix) ==
    LET s2 == IF s # <<>> /\ s[Len(s)] = "/" THEN s ELSE s \o <<"/">>
    IN IsPrefix(prefix \o <<"/">>, s2)
Guarded(m, t) == MatchesPath(GuardView(m, t), <<"/", "internal">>)

Init == /\ req \in Cases
        /\ phase = "recv" /\ matched = None /\ status = None /\ reached = None /\ user = None /\ past = <<>>

Deny == /\ status' = "401" /\ phase' = "done" /\ UNCHANGED <<req, matched, reached, user, past>>
Next1(p) == /\ phase' = p /\ UNCHANGED <<req, matched, status, reached, user, past>>

\* echo: the router runs before the middleware chain installed with Use()
Route ==
    /\ phase = "recv"
    /\ LET p == RouteView(M, T)
       IN IF p = <<"!">>
          THEN /\ status' = "other" /\ phase' = "done" /\ UNCHANGED matched
          ELSE /\ matched' = Router(RoutesOn(req.l), p) /\ phase' = "guard" /\ UNCHANGED status
    /\ UNCHANGED <<req, reached, user, past>>

Guard == /\ phase = "guard"
         /\ IF Guarded(M, T) THEN Next1("extract") ELSE Next1("dispatch")

\* the deviation RemembersVerified: the earlier request of the history was granted and this one presents the same
\* credential text / arrives on the same connection: let through without looking at the clock or the credential
Remembered == /\ RemembersVerified /\ past # <<>> /\ past[1].user = "issuer"
              /\ req.rel \in {"same-later", "absent-keepalive"}
Grant == /\ user' = "issuer" /\ phase' = "dispatch" /\ UNCHANGED <<req, matched, status, reached, past>>
\* authenticationCredential: exactly two whitespace separated fields, the first is "bearer" (any case)
Extract == /\ phase = "extract"
           /\ IF Remembered THEN Grant
              ELSE IF req.tok.shape \in {"bearer", "bearer-lower", "dup-garbage-first"} THEN Next1("secure") ELSE Deny

UnparsableExp == {"abs-2^63-1", "abs-2^63", "abs-1e30"}   \* refused (confirmed by the real verdicts: no drift)
AcceptableAlg(a) == a \in AllowedFit \cup {"p384/ES256"}
NSig(t) == CASE t.ser = "general0" -> 0 [] t.ser \in {"general2af", "general2uf"} -> 2 [] OTHER -> 1
\* credentialIsSecure
Secure == /\ phase = "secure"
          /\ IF /\ req.tok.shape # "dup-garbage-first"       \* the first Authorization header is not a JWS
                /\ req.tok.len = "ok"
                /\ NSig(req.tok) > 0
                /\ (ExactlyOneSignature => NSig(req.tok) = 1)
                /\ AcceptableAlg(req.tok.alg)
                /\ req.tok.hdr = "none"
             THEN Next1("verify") ELSE Deny

\* jwt.ParseString(WithKeySet(authorised key, infer algorithm)): the signature verifies with a key whose kid matches.
\* Observed behaviour of jwx 2.1.3 transcribed here: the flattened JSON serialisation is not recognised as a JWS by
\* jwt.Parse; with several signatures verification stops at the FIRST signature whose kid is not in the key set (so
\* attacker-first is refused and authorised-first is accepted).
Verify == /\ phase = "verify"
          /\ IF /\ req.tok.signer \in {"authorised", "authorised-kid-thumb"}
                /\ req.tok.ser \notin {"flattened", "general2af"}
                \* keyFitsSigningAlgorithm (repair of F19-alg-curve): the label ES256 passes credentialIsSecure, but the
                \* authorised key must be on the curve of the algorithm (before the repair jwx verified ES256 with a P-384 key)
                /\ req.tok.alg # "p384/ES256"
             THEN Next1("validate") ELSE Deny

\* jwt.Validate(WithAudience): exp, nbf, iat against the clock (NumericDates are truncated to whole seconds by jwx; a
\* NumericDate may be given as a JSON string; exp = 0 is taken for "not set")
Validate == /\ phase = "validate"
            /\ IF /\ NotExpired(req.tok) \/ (ZeroExpNeverExpires /\ ExpIsEpoch(req.tok))
                  /\ NbfReached(req.tok) /\ req.tok.iat # "future"
                  /\ req.tok.life \notin UnparsableExp /\ ~NegativeDate(req.tok)
                  /\ req.tok.aud \in {"ok", "array-ok"}
               THEN Next1("best") ELSE Deny

\* bestPracticesCheck: all claims present, exp not After nbf + 1470 min and iat + 1470 min, iat not After nbf
IatThreshold(g) == CASE g = "1h" -> "bound-1h" [] g \in {"48h", "1e10"} -> "-1e10" [] OTHER -> "bound+half"
\* truncation: nbf = now - 60.5 s and a lifetime of 88200.5 s are 88201 whole seconds apart
LifeEff(t) == IF t.nbf = "60s+half" /\ t.life = "bound+half" THEN "bound+1s" ELSE LifeLabel(t)
\* exp = 0: exp - nbf = (now - nbf) - now exceeds the bound iff nbf lies before the epoch; exp - iat likewise
ZeroExceedsNbf(t) == Rank(Base(t)) > Rank("epoch")
ZeroExceedsIat(t) == \/ req.tok.iat = "1e10"
                     \/ req.tok.iat = "48h" /\ Rank(Base(t)) >= Rank("epoch")
                     \/ req.tok.iat \in {"0", "1h"} /\ Rank(Base(t)) > Rank("epoch")
Best == /\ phase = "best"
        /\ IF /\ req.tok.nbf # "missing" /\ req.tok.iat # "missing" /\ req.tok.life # "missing"
              /\ IF ExpAbsZero(req.tok) THEN ~ZeroExceedsNbf(req.tok) /\ ~ZeroExceedsIat(req.tok)
                 ELSE /\ Rank(LifeEff(req.tok)) <= Rank("bound+half")                      \* sub-second part is dropped
                      /\ Rank(LifeEff(req.tok)) <= Rank(IatThreshold(req.tok.iat))
              /\ req.tok.iat # "later"
              /\ req.tok.iss # "missing" /\ req.tok.sub = "ok" /\ req.tok.jti = "uuid"
           THEN Next1("issuer") ELSE Deny

Issuer == /\ phase = "issuer"
          /\ IF req.tok.iss = "ok"
             THEN Grant
             ELSE Deny

Dispatch == /\ phase = "dispatch"
            /\ IF matched # None THEN (reached' = matched /\ status' = "handler")
                                  ELSE (status' = "other" /\ UNCHANGED reached)
            /\ phase' = "done" /\ UNCHANGED <<req, matched, user, past>>

\* histories: when the first request is finished, a second one related to it arrives at the same node
Follow == /\ FollowUp /\ phase = "done" /\ past = <<>>
          /\ \E rel \in Rels :
                req' = [req EXCEPT !.tok = FollowTok(req.tok, rel), !.rel = rel]
          /\ past' = <<[tok |-> req.tok, status |-> status, reached |-> reached, user |-> user]>>
          /\ phase' = "recv" /\ matched' = None /\ status' = None /\ reached' = None /\ user' = None

Next == Route \/ Guard \/ Extract \/ Secure \/ Verify \/ Validate \/ Best \/ Issuer \/ Dispatch \/ Follow
Spec == Init /\ [][Next]_vars

(***************************************************************************)
(* The property                                                            *)
(***************************************************************************)
Done == phase = "done" /\ (FollowUp => past # <<>>)       \* the (last) request of the behaviour is finished
\* no handler under /internal runs without a valid token
AuthSound == reached \in InternalAuth => Validity(req.tok) # "no"
\* every failure is answered 401 with no side effect (failure = a request the router dispatches to an /internal handler
\* with a credential that is not valid)
FailureIs401 == (phase = "done" /\ matched \in InternalAuth /\ Validity(req.tok) = "no") => (status = "401" /\ reached = None)
DeniedNoEffect == status = "401" => reached = None /\ user = None
\* internal families are never served by the public listener
ListenerSeparation == (req.l.cfg = "diff" /\ req.l.port = "public") => reached \notin InternalBound

Bad == ~AuthSound \/ ~FailureIs401 \/ ~ListenerSeparation
Emit == (Done /\ Gen) =>
        PrintT(ToJson([cfg |-> req.l.cfg, port |-> req.l.port, form |-> req.target.form, variant |-> req.target.variant,
                       route |-> req.target.route, method |-> M, target |-> T, tok |-> req.tok, tv |-> TimeValues(req.tok),
                       validity |-> Validity(req.tok), why |-> Why(req.tok), expzero |-> ExpIsEpoch(req.tok), guarded |-> Guarded(M, T), matched |-> matched,
                       status |-> status, reached |-> reached, user |-> user, bad |-> Bad,
                       rel |-> req.rel, past |-> [i \in 1..Len(past) |-> [tok |-> past[i].tok, tv |-> TimeValues(past[i].tok), status |-> past[i].status,
                                                           reached |-> past[i].reached, user |-> past[i].user]]]))
=============================================================================
