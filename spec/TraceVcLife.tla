--------------------------- MODULE TraceVcLife ---------------------------
(***************************************************************************)
(* Trace validation: executions of the REAL VCR (ambassador receivers      *)
(* behind real dag notifiers, credential store, revocation store, trust    *)
(* configuration; issuer + network publisher) must be behaviours of        *)
(* VcLife.tla.  One event per handler call with the class of the answer    *)
(* and the state of the job, and after every step an "obs" event with      *)
(* everything a caller can observe (Resolve per id with the exact error    *)
(* class and the content returned, IsRevoked, both searches, Trusted,      *)
(* Untrusted, document counts), which must EQUAL the observation function  *)
(* of the model.  The four deviation constants are existentially           *)
(* quantified per step: a trace is accepted if it is a behaviour of the    *)
(* specification for some choice of them (so a repair of the code that     *)
(* flips one of them does not show up as drift).                           *)
(* Traces are concatenated; a "reset" event starts the next one.           *)
(***************************************************************************)
EXTENDS MCVcLife, IOUtils

TraceLog == ndJsonDeserialize(IOEnv.VERIF_TRACE)
VARIABLE l
tvars == <<vars, l>>

Ev == TraceLog[l]
IsEvent(e) == l <= Len(TraceLog) /\ Ev.ev = e /\ l' = l + 1
Rng(s) == {s[i] : i \in 1..Len(s)}

TReset == /\ IsEvent("reset")
          /\ stored' = {} /\ blind' = {} /\ revs' = {} /\ trust' = InitTrust /\ keys' = InitKeys /\ ctxUp' = FALSE
          /\ jobs' = [t \in Tx |-> "none"] /\ why' = [t \in Tx |-> ""] /\ replay' = {} /\ pend' = {}
          /\ restarts' = 0 /\ reprocs' = 0 /\ faults' = 0 /\ tops' = 0
          /\ pcfg' = [keys |-> "", icomm |-> ""] /\ pubs' = <<>>
          /\ last' = [a |-> "reset", t |-> "", res |-> ""] /\ hist' = <<>>

\* an acknowledged call carries no error text: the logged class is "ok"
ResMatch(o, r, cx) == IF o \in AckClassesV(cx) THEN r = "ok" ELSE r = o

\* possible outcomes of a call: where an id is bound to several contents already, the look-up returns any of them, so a
\* re-delivered member is "already there" or "other content"
Outs(t, f, v) == IF t \in CredTx
                 THEN (IF Cardinality(Holder(C[t].id)) > 1 /\ C[t].fmt = "ld" THEN {"dup", "conflict"} ELSE {CredOutcomeV(t, f, v)})
                 ELSE {RevOutcome(t, f)}
\* one call of a receiver: the logged class of the answer and the job state it left
TCall(name) ==
    \E v, tr, uk, cx \in BOOLEAN : \E o \in Outs(Ev.t, Ev.f, v) :
        LET t == Ev.t IN
        /\ ResMatch(o, Ev.res, cx)
        /\ JobAfterV(o, tr, uk, cx) = Ev.job
        /\ Apply(t, o)
        /\ jobs' = [jobs EXCEPT ![t] = Ev.job]
        /\ why' = [why EXCEPT ![t] = o]
        /\ last' = [a |-> name, t |-> t, res |-> o]
        /\ UNCHANGED <<trust, keys, ctxUp, restarts, reprocs, faults, tops, pcfg, pubs, hist>>

TDeliver == IsEvent("deliver") /\ Ev.t \in Tx /\ Running /\ jobs[Ev.t] = "none" /\ TCall("Deliver") /\ UNCHANGED replay
\* (the retry goroutine of one notifier may run while the start-up replay of the other one is still busy)
TRetry == IsEvent("retry") /\ Ev.t \in Tx /\ Mode = "recv" /\ Ev.t \notin replay /\ jobs[Ev.t] = "retry" /\ TCall("Retry") /\ UNCHANGED replay
TReplay == IsEvent("replay") /\ Ev.t \in replay /\ TCall("Replay") /\ replay' = replay \ {Ev.t}
TRestart == /\ IsEvent("restart") /\ Running /\ pend = {}
            /\ replay' = {t \in Tx : jobs[t] \in {"retry", "dead"} /\ why[t] # "ctxdenied"}
            /\ last' = [a |-> "Restart", t |-> "", res |-> ""]
            /\ UNCHANGED <<stored, blind, revs, trust, keys, ctxUp, jobs, why, restarts, reprocs, faults, tops, pcfg, pubs, hist>>
TReprocess == /\ IsEvent("reprocess") /\ Ev.t \in Tx /\ Running /\ Delivered(Ev.t)
              /\ \E v \in BOOLEAN : \E o \in Outs(Ev.t, FALSE, v) :
                    ResMatch(o, Ev.res, FALSE) /\ Apply(Ev.t, o) /\ last' = [a |-> "Reprocess", t |-> Ev.t, res |-> o]
              /\ UNCHANGED <<trust, keys, ctxUp, jobs, why, replay, restarts, reprocs, faults, tops, pcfg, pubs, hist>>
TTrust == /\ (IsEvent("trust") \/ IsEvent("untrust")) /\ Running /\ Ev.i \in Issuers
          /\ trust' = IF Ev.ev = "trust" THEN trust \cup {Ev.i} ELSE trust \ {Ev.i}
          /\ last' = [a |-> IF Ev.ev = "trust" THEN "Trust" ELSE "Untrust", t |-> Ev.i, res |-> ""]
          /\ UNCHANGED <<stored, blind, revs, keys, ctxUp, jobs, why, replay, restarts, reprocs, faults, tops, pcfg, pubs, hist>>
TLearn == /\ IsEvent("learnkey") /\ Running /\ Ev.i \in Issuers
          /\ keys' = keys \cup {Ev.i}
          /\ last' = [a |-> "LearnKey", t |-> Ev.i, res |-> ""]
          /\ UNCHANGED <<stored, blind, revs, trust, ctxUp, jobs, why, replay, restarts, reprocs, faults, tops, pcfg, pubs, hist>>
TCtxUp == /\ IsEvent("ctxup") /\ Running /\ ctxUp' = TRUE
          /\ last' = [a |-> "CtxUp", t |-> "", res |-> ""]
          /\ UNCHANGED <<stored, blind, revs, trust, keys, jobs, why, replay, restarts, reprocs, faults, tops, pcfg, pubs, hist>>

\* a handler call split at the point where StoreCredential is not atomic (the driver holds the call there)
TBegin == /\ IsEvent("begin") /\ Ev.t \in Split /\ Running /\ jobs[Ev.t] = "none"
          /\ \E v \in BOOLEAN : CredOutcomeV(Ev.t, FALSE, v) = "stored"
          /\ pend' = pend \cup {Ev.t} /\ jobs' = [jobs EXCEPT ![Ev.t] = "busy"]
          /\ last' = [a |-> "Begin", t |-> Ev.t, res |-> ""]
          /\ UNCHANGED <<stored, blind, revs, trust, keys, ctxUp, why, replay, restarts, reprocs, faults, tops, pcfg, pubs, hist>>
TFinish == /\ IsEvent("finish") /\ Ev.t \in pend
           /\ \E atomic, tr, uk, cx \in BOOLEAN :
                LET o == IF atomic THEN CredOutcomeV(Ev.t, FALSE, FALSE) ELSE "stored" IN
                /\ ResMatch(o, Ev.res, cx) /\ JobAfterV(o, tr, uk, cx) = Ev.job
                /\ Apply(Ev.t, o)
                /\ jobs' = [jobs EXCEPT ![Ev.t] = Ev.job] /\ why' = [why EXCEPT ![Ev.t] = o]
                /\ last' = [a |-> "Finish", t |-> Ev.t, res |-> o]
           /\ pend' = pend \ {Ev.t}
           /\ UNCHANGED <<trust, keys, ctxUp, replay, restarts, reprocs, faults, tops, pcfg, pubs, hist>>

\* everything a caller can observe equals the observation function of the model
ObsMatch ==
    /\ \A id \in DOMAIN Ev.resolve :
          IF Cardinality(Holder(id)) > 1       \* (an id bound to several contents: the store answers with any of them)
          THEN Ev.resolve[id].c \in Holder(id) \cup {""}
          ELSE ResolveAns(id).cls = Ev.resolve[id].cls /\ ResolveAns(id).c = Ev.resolve[id].c
    /\ {id \in DOMAIN Ev.resolve : Revoked(id)} = Rng(Ev.revoked)
    /\ SearchAns(FALSE) = Rng(Ev.search) /\ SearchAns(TRUE) = Rng(Ev.searchAll)
    /\ trust = Rng(Ev.trusted) /\ UntrustedAns = Rng(Ev.untrusted)
    /\ Cardinality(stored) + Cardinality(blind) = Ev.ndocs /\ Cardinality(revs) = Ev.nrevs
TObs == IsEvent("obs") /\ ObsMatch /\ UNCHANGED vars

\* ---- mode "pub"
TConfig == /\ IsEvent("config") /\ Mode = "pub" /\ pubs = <<>>
           /\ pcfg' = [keys |-> Ev.keys, icomm |-> Ev.icomm]
           /\ UNCHANGED <<stored, blind, revs, trust, keys, ctxUp, jobs, why, replay, restarts, reprocs, faults, tops, pubs, last, hist>>
Shown(e) == /\ e.ok = Ev.ok
            /\ Ev.ok => (e.participants = Ev.participants /\ Ev.key \in e.keys)
TIssue == IsEvent("issue") /\ PubIssue(Ev.s, Ev.public) /\ Shown(pubs'[Len(pubs')])
TRevoke == IsEvent("revoke") /\ PubRevoke /\ Shown(pubs'[Len(pubs')])

TraceNext == \/ TReset \/ TBegin \/ TFinish \/ TObs \/ TIssue \/ TRevoke
             \/ /\ UNCHANGED pend
                /\ \/ TDeliver \/ TRetry \/ TReplay \/ TRestart \/ TReprocess \/ TTrust \/ TLearn \/ TCtxUp \/ TConfig
TraceInit == Init /\ l = 1 /\ TLCSet(1, 1)
TraceSpec == TraceInit /\ [][TraceNext]_tvars

\* properties of the code that must also hold on every reconstructed state / step of a real execution
TRevocationPermanent == [][last'.a # "reset" => revs \subseteq revs']_tvars
TStoredPermanent == [][last'.a # "reset" => stored \subseteq stored']_tvars

\* acceptance: the whole file was consumed (high-water mark kept in a TLC register; -workers 1)
Progress == TLCSet(1, IF l > TLCGet(1) THEN l ELSE TLCGet(1))
TraceAccepted ==
    \/ TLCGet(1) = Len(TraceLog) + 1
    \/ Print(<<"TRACE-REJECTED-AT", TLCGet(1), TraceLog[TLCGet(1)]>>, FALSE)
=============================================================================
