--------------------------- MODULE MCDidResolve ---------------------------
(* Model-checking harness of DidResolve.tla: class universes and case emission (one JSON line per terminal state). *)
EXTENDS DidResolve, Json

MCHostClasses == {"name", "nameport", "mixedcase", "lowerhex", "pctalpha", "trailingdot", "idn", "emptyport", "numeric", "emptyhost",
                  "ipv4", "ipv4port", "ipv6", "ipv6port", "ipv6zone", "ipv4mapped", "userinfo",
                  "pctslash", "pcthash", "pctquery", "backslash", "badport", "dblenc", "control"}
MCPathClasses == {"none", "segs", "subdelims", "pctother", "pctslash", "pctqf", "dblenc", "dot", "empty", "trailing"}
MCAnswers     == {"ok", "ok-2xx", "ct-bad", "id-mismatch", "id-missing", "bad-json", "empty-2xx", "status-err", "oversize",
                  "redir-samehost", "redir-otherhost", "redir-http", "redir-http-ip", "redir-https-ip"}
MCKeyClasses  == {"valid", "invalid"}
MCMetas       == {"nil", "false", "true"}
MCBuilds      == {"before-strict", "after-strict"}

\* every terminal state = one fully decided case: the case, the predicted verdict and the predicted set of fetches
Emit == Terminal => PrintT(ToJson([case |-> c, outcome |-> outcome, docid |-> docid, why |-> why, rt |-> rt,
                                   fetches |-> fetches,
                                   subgrammar |-> IF c.m = "web" THEN InSubGrammar(c.host, c.path) ELSE FALSE]))
=============================================================================
