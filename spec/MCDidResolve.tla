--------------------------- MODULE MCDidResolve ---------------------------
(* Model-checking harness of DidResolve.tla: class universes and case emission (one JSON line per terminal state). *)
EXTENDS DidResolve, Json

MCHostClasses == {"name", "nameport", "mixedcase", "lowerhex", "pctalpha", "trailingdot", "idn", "emptyport", "numeric", "emptyhost",
                  "ipv4", "ipv4port", "ipv6", "ipv6port", "ipv6zone", "ipv4mapped", "userinfo",
                  "pctslash", "pcthash", "pctquery", "backslash", "badport", "dblenc", "control"}
MCPathClasses == {"none", "segs", "subdelims", "pctother", "pctslash", "pctqf", "dblenc", "dot", "empty", "trailing"}
MCAnswers     == {"ok", "ok-2xx", "ct-bad", "id-mismatch", "id-missing", "bad-json", "empty-2xx", "status-err", "oversize",
                  "redir-samehost", "redir-otherhost", "redir-http", "redir-http-ip", "redir-https-ip"}
MCKeyClasses  == {"valid", "invalid"}
MCMetas       == {"nil", "false", "true"}
MCBuilds      == {"before-strict", "after-strict"}
\* all weak orders of the timestamps of 1, 2 and 3 versions (dense ranks), written out as tuples so that they print as JSON arrays
MCHistories   == {<<0>>,
                  <<0, 0>>, <<0, 1>>, <<1, 0>>,
                  <<0, 0, 0>>, <<0, 0, 1>>, <<0, 1, 0>>, <<1, 0, 0>>, <<0, 1, 1>>, <<1, 0, 1>>, <<1, 1, 0>>,
                  <<0, 1, 2>>, <<0, 2, 1>>, <<1, 0, 2>>, <<1, 2, 0>>, <<2, 0, 1>>, <<2, 1, 0>>}
Dense(h)      == LET R == {h[i] : i \in DOMAIN h} IN R = 0..(Cardinality(R) - 1)
ASSUME MCHistories = UNION {{h \in [1..n -> 0..(n - 1)] : Dense(h)} : n \in 1..3}
MCAheads      == {"none", "last", "all"}

\* every terminal state = one fully decided case: the case, the predicted verdict and the predicted set of fetches
Emit == Terminal => PrintT(ToJson([case |-> c, outcome |-> outcome, docid |-> docid, why |-> why, rt |-> rt,
                                   fetches |-> fetches,
                                   subgrammar |-> IF c.m = "web" THEN InSubGrammar(c.host, c.path) ELSE FALSE]))
=============================================================================
