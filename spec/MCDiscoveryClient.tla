------------------------ MODULE MCDiscoveryClient ------------------------
(* Concrete universes, behaviour generation and vacuity wrappers for DiscoveryClient.tla *)
EXTENDS DiscoveryClient, Json

\* s1 has two DIDs of the supported method; s2 has one supported DID and one did:key DID that service "a" does not
\* accept (service "b" accepts every method); s3 only has a did:key DID
AllOwner  == [d1 |-> "s1", d2 |-> "s1", d3 |-> "s2", k3 |-> "s2", k4 |-> "s3"]
AllMethod == [d1 |-> "jwk", d2 |-> "jwk", d3 |-> "jwk", k3 |-> "key", k4 |-> "key"]
MCOwner(d)  == AllOwner[d]
MCMethod(d) == AllMethod[d]
MCMethods(svc)  == IF svc = "a" THEN {"jwk"} ELSE {}
\* presentation_max_validity of the generated service definitions (seconds); TickLen = 1000:
\*   a: 2000 -> refresh after  900 s, expiry after 1999 s  (due in the slots >= +1000, expired in the slots >= +2000, Slack 1)
\*   b: 4000 -> refresh after 1800 s, expiry after 3999 s  (due in the slots >= +2000, expired in the slots >= +4000, Slack 2)
MCValidity(svc) == IF svc = "a" THEN 2000 ELSE 4000

\* the formula of the code keeps the refresh strictly before the expiry for every validity >= 2 s; the JSON schema of a
\* service definition allows presentation_max_validity = 1, for which both offsets are 0 (a presentation born expired)
ASSUME RefreshFactorPct = 45 => TimingFormulaOK(2, 100000)
ASSUME RefreshFactorPct = 45 => ~TimingFormulaOK(1, 1)

Quiescent == loop.phase = "idle"
\* behaviour generation (Hist = TRUE configs): one witness per distinct state that violates one of the properties the
\* code does not have (the dangerous schedules), and one per distinct quiescent state at the end of time
Bad == \/ ~NoRegistrationAfterDeactivate \/ ~StaysDeactivated \/ ~ParametersRespected
       \/ ~NoSilentOrphan \/ ~PartialVisible \/ ~NoLapse
EmitBad == (Hist /\ Bad) => PrintT(ToJson(hist))
EmitLapse == (Hist /\ ~NoLapse) => PrintT(ToJson(hist))
Emit == (Hist /\ Quiescent /\ now = MaxTime /\ api = MaxApi /\ env = MaxEnv /\ ticked) => PrintT(ToJson(hist))
\* simulation: print the walk when it has reached the length bound
SimLen == 26
EmitSim == (Hist /\ Len(hist) = SimLen) => PrintT(ToJson(hist))
HistBound == Len(hist) <= 40
=============================================================================
