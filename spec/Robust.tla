------------------------------- MODULE Robust -------------------------------
(***************************************************************************)
(* C19: untrusted input never crashes or hangs the node; malformed input   *)
(* is rejected and leaves stored state unchanged.                          *)
(*                                                                         *)
(* One shared action pattern for every parsing / validation entry point    *)
(* that faces a peer, a remote server, an API client or storage:           *)
(*                                                                         *)
(*   Call(c)   the environment hands an input of case c to entry point     *)
(*             c.ep  (c = entry point x mutation operator x position class *)
(*             of a VALID instance, see MCRobust.tla)                      *)
(*   Accept    the entry point returns without error; a stateful entry     *)
(*             point may admit the input to its store                      *)
(*   Reject    the entry point returns an error                            *)
(*                                                                         *)
(*   Redeliver the node itself hands a REFUSED input to the same entry      *)
(*             point again: entry points that are subscribers of the DAG   *)
(*             (payload receivers) are retried with back-off, replayed at  *)
(*             start-up and on reprocess.  Every redelivery is a call like *)
(*             any other: it must be replied, and a refusal must leave the *)
(*             store unchanged again.                                      *)
(*                                                                         *)
(* A panic or a missed deadline is NOT an action of this specification:    *)
(* after Call only Accept or Reject can follow (totality).  In the trace   *)
(* specification (TraceRobust.tla) a call event that is not followed by    *)
(* its reply sets `lost`, which violates Totality.                         *)
(*                                                                         *)
(* The verdict of the real code (accept or reject) is not predicted: it is *)
(* the code's choice; the specification constrains what each verdict may   *)
(* do to the store.                                                        *)
(***************************************************************************)
EXTENDS Naturals, FiniteSets, Sequences, TLC

CONSTANTS
    EntryPoints,       \* names of the real entry points (strings)
    Operators,         \* structural mutation operators
    PositionClasses,   \* where in the valid instance the operator is applied
    MaxCalls,          \* bound on the number of calls in one behaviour
    RejectMayWrite,    \* deviation: TRUE = a rejecting entry point may still write (descriptive variant of a defect)
    Hist               \* TRUE: record the action history (behaviour generation)

CONSTANTS Applicable(_, _, _),   \* which (entry point, operator, position) combinations exist
          Stateful(_),           \* entry points that write a store
          Redelivered(_)         \* entry points behind the DAG notifier: a refused input is delivered again

None == "none"
NoCase == [ep |-> None, op |-> None, pos |-> None]   \* no call in progress
Cases == {c \in [ep : EntryPoints, op : Operators, pos : PositionClasses] : Applicable(c.ep, c.op, c.pos)}

VARIABLES
    store,     \* entry point -> set of admitted cases (abstraction of the stored state)
    pending,   \* the call in progress, or NoCase
    calls,     \* number of calls made so far
    lost,      \* a call never got its reply (only the trace specification can set it)
    last,      \* verdict of the last completed call
    again,     \* the input the notifier will deliver again (refused by a subscriber entry point), or NoCase
    hist

vars == <<store, pending, calls, lost, last, again, hist>>
view == <<store, pending, calls, lost, last, again>>

Log(e) == hist' = IF Hist THEN Append(hist, e) ELSE hist

Init ==
    /\ store = [e \in EntryPoints |-> {}]
    /\ pending = NoCase /\ calls = 0 /\ lost = FALSE /\ last = None /\ again = NoCase
    /\ hist = <<>>

Call(c) ==
    /\ pending = NoCase /\ calls < MaxCalls /\ c \in Cases
    /\ pending' = c /\ calls' = calls + 1
    /\ Log([a |-> "Call", ep |-> c.ep, op |-> c.op, pos |-> c.pos])
    /\ UNCHANGED <<store, lost, last, again>>

\* the notifier's retry / start-up replay / reprocess of an input its receiver refused
Redeliver ==
    /\ pending = NoCase /\ calls < MaxCalls /\ again # NoCase
    /\ pending' = again /\ calls' = calls + 1
    /\ Log([a |-> "Redeliver", ep |-> again.ep, op |-> again.op, pos |-> again.pos])
    /\ UNCHANGED <<store, lost, last, again>>

Admit(c) == [store EXCEPT ![c.ep] = @ \cup {c}]

Accept ==
    /\ pending # NoCase
    /\ store' = IF Stateful(pending.ep) THEN Admit(pending) ELSE store
    /\ pending' = NoCase /\ last' = "accept"
    /\ again' = IF again = pending THEN NoCase ELSE again
    /\ Log([a |-> "Accept"])
    /\ UNCHANGED <<calls, lost>>

Reject ==
    /\ pending # NoCase
    /\ \/ UNCHANGED store
       \/ RejectMayWrite /\ Stateful(pending.ep) /\ store' = Admit(pending) /\ store' # store
    /\ pending' = NoCase /\ last' = "reject"
    /\ again' = IF Redelivered(pending.ep) THEN pending ELSE again
    /\ Log([a |-> "Reject"])
    /\ UNCHANGED <<calls, lost>>

Next == (\E c \in Cases : Call(c)) \/ Redeliver \/ Accept \/ Reject

Spec == Init /\ [][Next]_vars
FairSpec == Spec /\ WF_vars(Accept \/ Reject)

(***************************************************************************)
(* Properties                                                              *)
(***************************************************************************)
TypeOK ==
    /\ pending \in Cases \cup {NoCase}
    /\ \A e \in EntryPoints : store[e] \subseteq Cases
    /\ last \in {None, "accept", "reject"} /\ lost \in BOOLEAN
    /\ again \in Cases \cup {NoCase}

\* a reply that rejects leaves the stored state unchanged
IsRejectStep == pending # NoCase /\ pending' = NoCase /\ last' = "reject"
RejectLeavesStore == [][IsRejectStep => UNCHANGED store]_vars
\* only stateful entry points ever hold state, and only admitted inputs are in it
StoreOnlyAdmitted == \A e \in EntryPoints : (~Stateful(e) => store[e] = {}) /\ (\A c \in store[e] : c.ep = e)
\* only inputs of subscriber entry points are ever delivered again
RedeliveryOnlyBehindNotifier == again # NoCase => Redelivered(again.ep)
\* totality, safety half: no call is ever lost (a panic / hang has no action here; the trace spec records it as lost)
Totality == ~lost
\* totality, liveness half: every call gets its reply
EveryCallReplied == (pending # NoCase) ~> (pending = NoCase)
=============================================================================
