------------------------------ MODULE MCRobust ------------------------------
(* Concrete entry point table for Robust.tla; must mirror harness/drivers/robust (entryPoint.name / kind). *)
EXTENDS Robust, Json

\* kind of input an entry point consumes: decides which operators / position classes exist
Kind ==
    ("dag.ParseTransaction" :> "jose") @@
    ("tree.Iblt" :> "binary") @@
    ("v2.Gossip" :> "proto") @@ ("v2.State" :> "proto") @@ ("v2.TransactionListQuery" :> "proto") @@
    ("v2.TransactionRangeQuery" :> "proto") @@ ("v2.TransactionPayloadQuery" :> "proto") @@
    ("v2.TransactionSet" :> "proto") @@ ("v2.TransactionList" :> "proto") @@
    ("v2.TransactionPayload" :> "proto") @@ ("v2.Diagnostics" :> "proto") @@
    ("didnuts.NetworkDocumentValidator" :> "json") @@ ("didnuts.ManagedDocumentValidator" :> "json") @@
    ("resolver.KeyResolver" :> "json") @@ ("resolver.ServiceResolver" :> "json") @@ ("didweb.Resolve" :> "json") @@
    ("didkey.Resolve" :> "text") @@ ("didjwk.Resolve" :> "json") @@
    ("credential.Validator" :> "json") @@
    ("verifier.Verify.ldp" :> "json") @@ ("verifier.Verify.jwt" :> "jose") @@
    ("verifier.VerifyVP.ldp" :> "json") @@ ("verifier.VerifyVP.jwt" :> "jose") @@
    ("pe.PresentationDefinition" :> "json") @@ ("pe.PresentationSubmission" :> "json") @@
    ("crypto.ParseJWT" :> "jose") @@ ("tokenV2.Middleware" :> "jose") @@ ("iam.JAR" :> "jose") @@
    ("dpop.Parse" :> "jose") @@
    ("revocation.StatusList2021" :> "json") @@ ("revocation.expand" :> "text") @@
    ("discovery.Register" :> "jose") @@ ("iam.AuthorizeResponse" :> "jose") @@
    \* payload receivers (subscribers of the DAG): the payload of an accepted transaction, by content type.
    \* ld = JSON-LD document whose issuer proof is the one of the unmutated document (stale after the mutation);
    \* ldsealed = the proof is renewed over the mutated content (a peer signs with its own issuer key)
    ("payload.vc" :> "ld") @@ ("payload.vc.resealed" :> "ldsealed") @@
    ("payload.revocation" :> "ld") @@ ("payload.revocation.resealed" :> "ldsealed") @@
    ("payload.did.create" :> "json") @@ ("payload.did.update" :> "json")

AllEntryPoints == DOMAIN Kind
\* entry points the DAG notifier feeds (must mirror PayloadEntryPoints in harness/drivers/robust/entries_payload_test.go)
Subscribers == {"payload.vc", "payload.vc.resealed", "payload.revocation", "payload.revocation.resealed",
                "payload.did.create", "payload.did.update"}

JsonOps == {"type-string", "type-number", "type-bool", "type-null", "type-array", "type-object", "missing",
            "extreme-number", "truncate", "duplicate", "empty", "deep", "unusual"}
KindOps ==
    [json   |-> JsonOps,
     jose   |-> JsonOps,
     ld     |-> JsonOps,
     ldsealed |-> JsonOps,
     proto  |-> {"missing", "empty", "extreme-number", "truncate", "duplicate", "type-string", "type-number", "unusual"},
     binary |-> {"truncate", "duplicate", "empty", "extreme-number", "unusual"},
     text   |-> {"truncate", "empty", "type-string", "extreme-number", "duplicate", "unusual"}]
KindPos ==
    [json   |-> {"top", "nested", "array", "proof"},
     jose   |-> {"header", "top", "nested", "array", "proof"},
     ld     |-> {"top", "nested", "array", "proof"},
     ldsealed |-> {"top", "nested", "array"},
     proto  |-> {"top", "nested", "array"},
     binary |-> {"top", "array"},
     text   |-> {"top"}]

\* JSON documents that carry no proof member
NoProof == {"didnuts.NetworkDocumentValidator", "didnuts.ManagedDocumentValidator", "resolver.KeyResolver",
            "resolver.ServiceResolver", "didweb.Resolve", "didjwk.Resolve", "pe.PresentationDefinition",
            "payload.did.create", "payload.did.update"}
\* protobuf messages without nested messages / repeated fields
ProtoFlat == {"v2.State", "v2.TransactionRangeQuery", "v2.TransactionPayloadQuery", "v2.TransactionPayload"}

\* position classes that do not occur in the valid instances of an entry point
NoPos == {<<"dag.ParseTransaction", "top">>, <<"dag.ParseTransaction", "nested">>, <<"dag.ParseTransaction", "array">>,
          <<"dpop.Parse", "nested">>, <<"dpop.Parse", "array">>, <<"didjwk.Resolve", "nested">>,
          <<"v2.Diagnostics", "nested">>, <<"v2.Gossip", "nested">>, <<"v2.TransactionListQuery", "nested">>,
          <<"v2.TransactionSet", "array">>, <<"iam.AuthorizeResponse", "proof">>, <<"pe.PresentationSubmission", "proof">>}

MCApplicable(ep, op, pos) ==
    IF op = "random"
    THEN pos = "any" /\ Kind[ep] \in {"json", "jose", "proto", "binary", "ld", "ldsealed"}
    ELSE /\ op \in KindOps[Kind[ep]]
         /\ pos \in KindPos[Kind[ep]]
         /\ ~(pos = "proof" /\ ep \in NoProof)
         /\ ~(pos \in {"nested", "array"} /\ ep \in ProtoFlat)
         /\ (op # "unusual" => <<ep, pos>> \notin NoPos)

MCStateful(ep) == ep \in {"v2.Gossip", "v2.State", "v2.TransactionListQuery", "v2.TransactionRangeQuery", "v2.TransactionPayloadQuery",
                          "v2.TransactionSet", "v2.TransactionList", "v2.TransactionPayload", "v2.Diagnostics",
                          "discovery.Register", "revocation.StatusList2021"} \cup Subscribers

MCRedelivered(ep) == ep \in Subscribers

\* behaviour generation: one behaviour per case = the state right after its Call (the real code chooses the reply)
EmitCase == (Hist /\ pending # NoCase) => PrintT(ToJson(hist))
=============================================================================
