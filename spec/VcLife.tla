------------------------------ MODULE VcLife ------------------------------
(***************************************************************************)
(* X07: the life cycle of verifiable credentials that travel over the DAG  *)
(* network (did:nuts issuers).                                             *)
(*   vcr/issuer/network_publisher.go  PublishCredential, PublishRevocation *)
(*   vcr/ambassador.go                handleNetworkVCs / -Revocations,     *)
(*                                    handleError, handleReprocessEvent    *)
(*   vcr/store.go, vcr.go, search.go  StoreCredential, Resolve, Search,    *)
(*                                    Trust / Untrust / Trusted / Untrusted*)
(*   vcr/verifier/{verifier,leia_store}.go  RegisterRevocation, IsRevoked, *)
(*                                    GetRevocation, Verify                *)
(*   vcr/trust/trust.go               persisted trust configuration        *)
(*   network/dag/notifier.go          job shelf semantics of a persistent  *)
(*                                    subscriber (as specified in Dag.tla: *)
(*                                    finished / plain error = retry /     *)
(*                                    EventFatal = no in-process retry;    *)
(*                                    Run() replays EVERY job left on the  *)
(*                                    shelf once at start-up)              *)
(*                                                                         *)
(* Mode "recv": the receiving node.  One action per handler call:          *)
(*   Deliver(t,f)   dag.State hands the payload event of transaction t to  *)
(*                  the two subscribers (Save + Notify); the selection     *)
(*                  filter picks vcr_vcs for application/vc+json and       *)
(*                  vcr_revocations for application/ld+json;type=revocation*)
(*   Retry(t,f)     an in-process retry attempt of a job in state "retry"  *)
(*                  (the first one follows the failed call at once, in a   *)
(*                  goroutine of its own; the retry budget is Dag.tla's)   *)
(*   Restart        orderly stop and start on the same data directory:     *)
(*                  stores, trust file and job shelves are re-opened       *)
(*   Replay(t,f)    Notifier.Run delivers a job that was left on the shelf *)
(*                  (state "retry" AND state "dead"), in shelf (hash) order*)
(*                  - except jobs whose recorded error ends with "context  *)
(*                  not on the remoteallowlist" (notifier.go, issue 2569)  *)
(*   Reprocess(t)   Network.Reprocess -> handleReprocessEvent: the handler *)
(*                  is called outside the job bookkeeping, errors are only *)
(*                  logged                                                 *)
(*   Begin(t) / Finish(t)  the same handler call split where the code is   *)
(*                  not atomic: StoreCredential has looked the id up and   *)
(*                  verified the signature / is about to write (only for   *)
(*                  the transactions in Split)                             *)
(*   Trust / Untrust(i)   local administrator, persisted at once           *)
(*   LearnKey(i)    the DID document of issuer i reaches the did store     *)
(*   CtxUp          an allowed remote JSON-LD context becomes reachable    *)
(* f = TRUE: the write to the credential / revocation store fails (fault   *)
(* injected below the store; only where the handler reaches the write).    *)
(*                                                                         *)
(* Mode "pub": the issuing node.  Issue(s, vis) / Revoke: what the network *)
(* publisher hands to network.CreateTransaction.                           *)
(*                                                                         *)
(* Deviation constants (TRUE = the property statement, FALSE = the code):  *)
(*   ValidateOnStore     StoreCredential applies the type validator (well- *)
(*                       formed, id in the issuer's namespace) before it   *)
(*                       stores a network credential (after the id look-up,*)
(*                       before the signature check).  The code only       *)
(*                       checked the signature until the repair of         *)
(*                       X07-stored-* in /repo; TRUE in every config but   *)
(*                       the vacuity guards since then                     *)
(*   TransientRetried    an error of the credential / revocation store is  *)
(*                       answered with a plain error (retried); the code   *)
(*                       wrapped it in EventFatal until the repair of      *)
(*                       X07-store-error-dropped (types.ErrStorage)        *)
(*   UnknownKeyRetried   an issuer key that cannot be resolved yet is      *)
(*                       retried; the code answers EventFatal: the payload *)
(*                       is only looked at again by the start-up replay    *)
(*                       or Reprocess                 [X07-dropped-nokey]  *)
(*   StoreAtomic         StoreCredential's "is the id taken?" (find) and   *)
(*                       its write are one critical section (the code      *)
(*                       since the repair of X07-store-race: look, verify, *)
(*                       then look again and write under a mutex).  Before:*)
(*                       looks, verifies, then writes: two handler calls   *)
(*                       for one id that overlap (retry goroutine, the     *)
(*                       REPROCESS subscriber) both write                  *)
(*   ContextErrorsSeen   handleError recognises a JSON-LD context error    *)
(*                       below the signature check of a CREDENTIAL (not on *)
(*                       the allow list: acknowledged; remote context not  *)
(*                       loadable: retried).  The code wraps the error in  *)
(*                       verifier.VerificationError, which has no Unwrap:  *)
(*                       errors.Is / errors.As never match and both cases  *)
(*                       end as EventFatal            [X07-dropped-ctx]    *)
(***************************************************************************)
EXTENDS Naturals, FiniteSets, Sequences, TLC

CONSTANTS
    Mode,          \* "recv" | "pub"
    Issuers,       \* issuer names
    Owner,         \* credential id -> issuer whose DID is the prefix of the id (namespace owner)
    C,             \* credential table: name -> [id, iss, sig ("ok"|"bad"), wf, fmt ("ld"|"jwt"), ctx ("std"|"flaky"|"denied")]
    R,             \* revocation table: name -> [id, iss, sig ("ok"|"bad")]
    CredTx, RevTx, \* the transactions in play (subsets of DOMAIN C, DOMAIN R)
    InitTrust,     \* issuers trusted at the start
    InitKeys,      \* issuers whose DID document is known at the start
    LateKeys,      \* issuers whose DID document may arrive later
    MaxRestart, MaxReproc, MaxFault, MaxTrustOps,
    ValidateOnStore, TransientRetried, UnknownKeyRetried, ContextErrorsSeen, StoreAtomic,
    Split,         \* credentials whose handler call may be split into Begin / Finish
    \* ---- mode "pub"
    Parties,       \* DID names on the issuing node
    Comm,          \* party -> [k |-> "own" | "ref" | "none" | "ghost", to |-> party]   (NutsComm service of its document; ghost = no document)
    KeyCfgs,       \* key situations of the issuer: "one" | "two" | "rotated"
    IssuerComms,   \* NutsComm situations of the issuer "I": "own" | "ref" (to "V") | "none"
    Subjects,      \* parties a credential may be about
    MaxDepth,      \* reference depth of serviceResolver.Resolve(.., 5)
    Hist

VARIABLES
    stored,    \* credentials in the credential store (leia "credentials" collection, indexed)
    blind,     \* documents written to the collection that no index can find (JWT strings)
    revs,      \* revocations in the revocation store
    trust,     \* trusted issuers (memory = trusted_issuers.yaml: saved inside the mutex of every change)
    keys,      \* issuers whose DID document the node can resolve
    ctxUp,     \* the flaky context can be fetched
    jobs,      \* tx -> "none" | "done" | "retry" | "dead"      (job shelves of the two notifiers)
    why,       \* tx -> outcome class of the last handler call
    replay,    \* jobs the start-up replay still has to deliver
    pend,      \* handler calls between "id not taken, signature fine" and the write
    restarts, reprocs, faults, tops,
    \* ---- mode "pub"
    pcfg,      \* [keys |-> KeyCfg, icomm |-> IssuerComm]
    pubs,      \* sequence of what was handed to CreateTransaction
    last,      \* outcome of the last step
    hist

recvVars == <<stored, blind, revs, trust, keys, ctxUp, jobs, why, replay, pend, restarts, reprocs, faults, tops>>
vars == <<stored, blind, revs, trust, keys, ctxUp, jobs, why, replay, pend, restarts, reprocs, faults, tops, pcfg, pubs, last, hist>>
view == <<stored, blind, revs, trust, keys, ctxUp, jobs, why, replay, pend, restarts, reprocs, faults, tops, pcfg, pubs>>

Log(e) == hist' = IF Hist THEN Append(hist, e) ELSE hist
Tx == CredTx \cup RevTx

(***************************************************************************)
(* Reference notions of the property statement                             *)
(***************************************************************************)
\* what the type validator demands: well-formed for its type AND named inside the namespace of its issuer
WFType(c) == C[c].wf /\ Owner[C[c].id] = C[c].iss
\* ... and in the format credentials have on the network (JSON-LD)
WF(c) == WFType(c) /\ C[c].fmt = "ld"
\* verifies as of its own issuance: signature of a key the claimed issuer authorised at signing time, well-formed
Valid(c) == C[c].sig = "ok" /\ WF(c) /\ C[c].ctx # "denied"
\* signed by the issuer of the credential it names (= the owner of the namespace the id lies in)
Authentic(r) == R[r].sig = "ok" /\ Owner[R[r].id] = R[r].iss
Revoked(id) == \E r \in revs : R[r].id = id
Delivered(t) == jobs[t] # "none"

(***************************************************************************)
(* StoreCredential (store.go) as called by vcCallback                      *)
(***************************************************************************)
\* v: the validator is applied before storing (ValidateOnStore)
CredOutcomeV(c, f, v) ==
    LET x == C[c] IN
    IF x.fmt = "jwt" THEN                       \* find(id) never finds a JWT document; signature verified; written as a JSON string
        (IF x.iss \notin keys THEN "nokey" ELSE IF x.sig # "ok" THEN "badsig" ELSE IF f THEN "fault" ELSE "blind")
    ELSE IF c \in stored THEN "dup"                                          \* "Credential already exists"
    ELSE IF \E s \in stored : C[s].id = x.id THEN "conflict"                 \* same ID but different content
    ELSE IF v /\ ~WF(c) THEN "malformed"                                     \* validation failed (type validator, 2-types rule)
    ELSE IF x.iss \notin keys THEN "nokey"                                   \* unable to resolve valid signing key
    ELSE IF x.ctx = "denied" THEN "ctxdenied"                                \* context not on the remoteallowlist
    ELSE IF x.ctx = "flaky" /\ ~ctxUp THEN "ctxdown"                         \* loading remote context failed
    ELSE IF x.sig # "ok" THEN "badsig"
    ELSE IF f THEN "fault"
    ELSE "stored"
CredOutcome(c, f) == CredOutcomeV(c, f, ValidateOnStore)

(***************************************************************************)
(* RegisterRevocation (verifier.go) as called by jsonLDRevocationCallback  *)
(***************************************************************************)
RevOutcome(r, f) ==
    LET x == R[r] IN
    IF Owner[x.id] # x.iss THEN "notissuer"      \* issuer of revocation is not the same as issuer of credential
    ELSE IF x.iss \notin keys THEN "nokey"
    ELSE IF x.sig # "ok" THEN "badsig"
    ELSE IF f THEN "fault"
    ELSE "registered"                            \* also when it is registered already (same document, same reference)

Outcome(t, f) == IF t \in CredTx THEN CredOutcome(t, f) ELSE RevOutcome(t, f)
Writes(t) == Outcome(t, FALSE) \in {"stored", "blind", "registered"}

\* ambassador.handleError + the notifier: what becomes of the job
OkClasses == {"stored", "dup", "blind", "registered"}
AckClassesV(cx) == OkClasses \cup (IF cx THEN {"ctxdenied"} ELSE {})
RetryClassesV(tr, uk, cx) == (IF cx THEN {"ctxdown"} ELSE {}) \cup (IF tr THEN {"fault"} ELSE {}) \cup (IF uk THEN {"nokey"} ELSE {})
JobAfterV(o, tr, uk, cx) == IF o \in AckClassesV(cx) THEN "done" ELSE IF o \in RetryClassesV(tr, uk, cx) THEN "retry" ELSE "dead"
JobAfter(o) == JobAfterV(o, TransientRetried, UnknownKeyRetried, ContextErrorsSeen)
TransientClasses == {"ctxdown", "fault", "nokey"}

Apply(t, o) ==
    /\ stored' = IF o = "stored" THEN stored \cup {t} ELSE stored
    /\ blind' = IF o = "blind" THEN blind \cup {t} ELSE blind
    /\ revs' = IF o = "registered" THEN revs \cup {t} ELSE revs

FaultChoice(t) == IF faults < MaxFault /\ Writes(t) THEN {FALSE, TRUE} ELSE {FALSE}

Handle(t, f, name) ==
    LET o == Outcome(t, f) IN
    /\ Apply(t, o)
    /\ jobs' = [jobs EXCEPT ![t] = JobAfter(o)]
    /\ why' = [why EXCEPT ![t] = o]
    /\ faults' = IF f THEN faults + 1 ELSE faults
    /\ last' = [a |-> name, t |-> t, res |-> o]
    /\ Log([a |-> name, t |-> t, f |-> f, res |-> o, job |-> JobAfter(o)])

Running == Mode = "recv" /\ replay = {}

Deliver(t, f) ==
    /\ Running /\ jobs[t] = "none" /\ f \in FaultChoice(t)
    /\ Handle(t, f, "Deliver")
    /\ UNCHANGED <<pend, trust, keys, ctxUp, replay, restarts, reprocs, tops, pcfg, pubs>>

\* (the retry goroutine of one notifier may run while the start-up replay of the other one is still busy)
Retry(t, f) ==
    /\ Mode = "recv" /\ t \notin replay /\ jobs[t] = "retry" /\ f \in FaultChoice(t)
    /\ Handle(t, f, "Retry")
    /\ UNCHANGED <<pend, trust, keys, ctxUp, replay, restarts, reprocs, tops, pcfg, pubs>>

Restart ==
    /\ Running /\ pend = {} /\ restarts < MaxRestart
    /\ restarts' = restarts + 1
    /\ replay' = {t \in Tx : jobs[t] \in {"retry", "dead"} /\ why[t] # "ctxdenied"}
    /\ last' = [a |-> "Restart", t |-> "", res |-> ""]
    /\ Log([a |-> "Restart"])
    /\ UNCHANGED <<pend, stored, blind, revs, trust, keys, ctxUp, jobs, why, reprocs, faults, tops, pcfg, pubs>>

Replay(t, f) ==
    /\ Mode = "recv" /\ t \in replay /\ f \in FaultChoice(t)
    /\ Handle(t, f, "Replay")
    /\ replay' = replay \ {t}
    /\ UNCHANGED <<pend, trust, keys, ctxUp, restarts, reprocs, tops, pcfg, pubs>>

Reprocess(t) ==
    /\ Running /\ Delivered(t) /\ reprocs < MaxReproc
    /\ LET o == Outcome(t, FALSE) IN
       /\ Apply(t, o)
       /\ last' = [a |-> "Reprocess", t |-> t, res |-> o]
       /\ Log([a |-> "Reprocess", t |-> t, res |-> o])
    /\ reprocs' = reprocs + 1
    /\ UNCHANGED <<pend, trust, keys, ctxUp, jobs, why, replay, restarts, faults, tops, pcfg, pubs>>

\* StoreCredential up to (not including) the write: the id is free, the credential verifies
Begin(t) ==
    /\ Running /\ t \in Split /\ jobs[t] = "none" /\ CredOutcome(t, FALSE) = "stored"
    /\ pend' = pend \cup {t}
    /\ jobs' = [jobs EXCEPT ![t] = "busy"]
    /\ last' = [a |-> "Begin", t |-> t, res |-> ""]
    /\ Log([a |-> "Begin", t |-> t])
    /\ UNCHANGED <<stored, blind, revs, trust, keys, ctxUp, why, replay, restarts, reprocs, faults, tops, pcfg, pubs>>
\* ... the write. Atomic: the look-up is (as good as) repeated under the same lock; the code: it writes what it decided to write
Finish(t) ==
    /\ Mode = "recv" /\ t \in pend
    /\ LET o == IF StoreAtomic THEN CredOutcome(t, FALSE) ELSE "stored" IN
       /\ Apply(t, o)
       /\ jobs' = [jobs EXCEPT ![t] = JobAfter(o)]
       /\ why' = [why EXCEPT ![t] = o]
       /\ last' = [a |-> "Finish", t |-> t, res |-> o]
       /\ Log([a |-> "Finish", t |-> t, res |-> o, job |-> JobAfter(o)])
    /\ pend' = pend \ {t}
    /\ UNCHANGED <<trust, keys, ctxUp, replay, restarts, reprocs, faults, tops, pcfg, pubs>>

SetTrust(i, on) ==
    /\ Running /\ tops < MaxTrustOps /\ (on <=> i \notin trust)
    /\ trust' = IF on THEN trust \cup {i} ELSE trust \ {i}
    /\ tops' = tops + 1
    /\ last' = [a |-> IF on THEN "Trust" ELSE "Untrust", t |-> i, res |-> ""]
    /\ Log([a |-> IF on THEN "Trust" ELSE "Untrust", i |-> i])
    /\ UNCHANGED <<pend, stored, blind, revs, keys, ctxUp, jobs, why, replay, restarts, reprocs, faults, pcfg, pubs>>

LearnKey(i) ==
    /\ Running /\ i \in LateKeys \ keys
    /\ keys' = keys \cup {i}
    /\ last' = [a |-> "LearnKey", t |-> i, res |-> ""]
    /\ Log([a |-> "LearnKey", i |-> i])
    /\ UNCHANGED <<pend, stored, blind, revs, trust, ctxUp, jobs, why, replay, restarts, reprocs, faults, tops, pcfg, pubs>>

CtxUp ==
    /\ Running /\ ~ctxUp /\ \E c \in CredTx : C[c].ctx = "flaky"
    /\ ctxUp' = TRUE
    /\ last' = [a |-> "CtxUp", t |-> "", res |-> ""]
    /\ Log([a |-> "CtxUp"])
    /\ UNCHANGED <<pend, stored, blind, revs, trust, keys, jobs, why, replay, restarts, reprocs, faults, tops, pcfg, pubs>>

(***************************************************************************)
(* What a caller of the receiving node observes (vcr.go, search.go,        *)
(* verifier.go).  Resolve: the validator runs first ((nil, error) for a    *)
(* stored document that is not well-formed), then revocation               *)
(* ((credential, ErrRevoked)), then trust ((credential, ErrUntrusted)).    *)
(***************************************************************************)
Holder(id) == {c \in stored : C[c].id = id}
ResolveAns(id) ==
    IF Holder(id) = {} THEN [cls |-> "notfound", c |-> ""]
    ELSE LET c == CHOOSE c \in Holder(id) : TRUE IN
         IF ~WFType(c) THEN [cls |-> "invalid", c |-> ""]
         ELSE IF Revoked(id) THEN [cls |-> "revoked", c |-> c]
         ELSE IF C[c].iss \notin trust THEN [cls |-> "untrusted", c |-> c]
         ELSE [cls |-> "ok", c |-> c]
SearchAns(allowUntrusted) == {c \in stored : WFType(c) /\ ~Revoked(C[c].id) /\ (allowUntrusted \/ C[c].iss \in trust)}
UntrustedAns == {C[c].iss : c \in stored} \ trust
\* Verifier.Verify(c, allowUntrusted = FALSE, checkSignature = TRUE, validAt = signing time) of a PRESENTED credential
VerifyAns(c) ==
    IF ~WFType(c) THEN "invalid"
    ELSE IF Revoked(C[c].id) THEN "revoked"
    ELSE IF C[c].iss \notin trust THEN "untrusted"
    ELSE IF C[c].iss \notin keys \/ C[c].sig # "ok" \/ (C[c].ctx = "flaky" /\ ~ctxUp) \/ C[c].ctx = "denied" THEN "invalid"
    ELSE "ok"
Ids == {C[c].id : c \in CredTx} \cup {R[r].id : r \in RevTx}
Obs == [resolve |-> [id \in Ids |-> ResolveAns(id)],
        revoked |-> {id \in Ids : Revoked(id)},
        search |-> SearchAns(FALSE), searchAll |-> SearchAns(TRUE),
        trusted |-> trust, untrusted |-> UntrustedAns,
        ndocs |-> Cardinality(stored) + Cardinality(blind), nrevs |-> Cardinality(revs)]

(***************************************************************************)
(* Mode "pub": network_publisher.go                                        *)
(***************************************************************************)
\* serviceResolver.Resolve(reference, 5): the DID that holds the concrete endpoint ("" = error)
CommOf(p) == IF p = "I" THEN [k |-> pcfg.icomm, to |-> "V"] ELSE Comm[p]
RECURSIVE CommOwner(_, _)
CommOwner(p, depth) ==
    IF depth >= MaxDepth THEN ""                     \* ErrServiceReferenceToDeep
    ELSE CASE CommOf(p).k = "own" -> p
           [] CommOf(p).k = "ref" -> CommOwner(CommOf(p).to, depth + 1)
           [] OTHER -> ""
\* resolveNutsCommServiceOwner(d): MakeServiceReference(d) is resolved with depth 0 at the query itself
NodeOf(p) == CommOwner(p, 0)
\* keys of the issuer that are assertion methods of the LATEST document version
CurrentKeys(kc) == CASE kc = "one" -> {"k1"} [] kc = "two" -> {"k1", "k2"} [] kc = "rotated" -> {"k2"} [] OTHER -> {}

PubIssue(s, public) ==
    /\ Mode = "pub" /\ (pubs = <<>> \/ (Len(pubs) = 1 /\ pubs[1].ok))
    /\ LET parts == IF public THEN <<>> ELSE <<NodeOf("I"), NodeOf(s)>>
           ok == public \/ (NodeOf("I") # "" /\ NodeOf(s) # "")
           e == [kind |-> "vc", subject |-> s, public |-> public, ok |-> ok, participants |-> parts, keys |-> CurrentKeys(pcfg.keys)]
       IN /\ pubs' = Append(pubs, e)                     \* failed attempts are recorded, too (ok = FALSE)
          /\ last' = [a |-> "Issue", t |-> s, res |-> IF ok THEN "published" ELSE "error"]
          /\ Log([a |-> "Issue", s |-> s, public |-> public, exp |-> e])
    /\ UNCHANGED <<pend, stored, blind, revs, trust, keys, ctxUp, jobs, why, replay, restarts, reprocs, faults, tops, pcfg>>

PubRevoke ==
    /\ Mode = "pub" /\ Len(pubs) = 1 /\ pubs[1].kind = "vc" /\ pubs[1].ok
    /\ LET e == [kind |-> "rev", subject |-> pubs[Len(pubs)].subject, public |-> TRUE, ok |-> TRUE, participants |-> <<>>, keys |-> CurrentKeys(pcfg.keys)]
       IN /\ pubs' = Append(pubs, e)
          /\ last' = [a |-> "Revoke", t |-> "", res |-> "published"]
          /\ Log([a |-> "Revoke", exp |-> e])
    /\ UNCHANGED <<pend, stored, blind, revs, trust, keys, ctxUp, jobs, why, replay, restarts, reprocs, faults, tops, pcfg>>

(***************************************************************************)
Init ==
    /\ stored = {} /\ blind = {} /\ revs = {} /\ trust = InitTrust /\ keys = InitKeys /\ ctxUp = FALSE
    /\ jobs = [t \in Tx |-> "none"] /\ why = [t \in Tx |-> ""] /\ replay = {} /\ pend = {}
    /\ restarts = 0 /\ reprocs = 0 /\ faults = 0 /\ tops = 0
    /\ pcfg \in (IF Mode = "pub" THEN [keys : KeyCfgs, icomm : IssuerComms] ELSE {[keys |-> "", icomm |-> ""]})
    /\ pubs = <<>>
    /\ last = [a |-> "", t |-> "", res |-> ""]
    /\ hist = IF Hist /\ Mode = "pub" THEN <<[a |-> "Config", keys |-> pcfg.keys, icomm |-> pcfg.icomm]>> ELSE <<>>

Next ==
    \/ \E t \in Tx : \E f \in BOOLEAN : Deliver(t, f) \/ Retry(t, f) \/ Replay(t, f)
    \/ \E t \in Tx : Reprocess(t)
    \/ \E t \in Split : Begin(t) \/ Finish(t)
    \/ Restart \/ CtxUp
    \/ \E i \in Issuers : SetTrust(i, TRUE) \/ SetTrust(i, FALSE) \/ LearnKey(i)
    \/ \E s \in Subjects, public \in BOOLEAN : PubIssue(s, public)
    \/ PubRevoke

Spec == Init /\ [][Next]_vars
\* liveness: retries, replays and first deliveries happen; the environment eventually provides documents and contexts
FairSpec == /\ Spec
            /\ \A t \in Tx : WF_vars(\E f \in BOOLEAN : Deliver(t, f)) /\ WF_vars(Retry(t, FALSE)) /\ WF_vars(\E f \in BOOLEAN : Replay(t, f))
            /\ WF_vars(CtxUp) /\ \A i \in Issuers : WF_vars(LearnKey(i))
            /\ \A t \in Split : WF_vars(Finish(t))

(***************************************************************************)
(* Properties (mode "recv")                                                *)
(***************************************************************************)
TypeOK ==
    /\ stored \subseteq CredTx /\ blind \subseteq CredTx /\ revs \subseteq RevTx /\ trust \subseteq Issuers /\ keys \subseteq Issuers
    /\ jobs \in [Tx -> {"none", "busy", "done", "retry", "dead"}] /\ replay \subseteq Tx /\ pend \subseteq Split
    /\ \A t \in Tx : jobs[t] = "busy" <=> t \in pend

\* only credentials that verify as of their issuance are stored
StoredAreValid == \A c \in stored : Valid(c)
\* an id is never bound to two contents
IdUnique == \A c, d \in stored : C[c].id = C[d].id => c = d
\* only revocations signed by the issuer of the credential they name are registered
RevsAuthentic == \A r \in revs : Authentic(r)
\* nothing the node hands out as valid is revoked, untrusted issuers stay hidden
RevokedNeverValid ==
    /\ \A c \in SearchAns(TRUE) : ~Revoked(C[c].id)
    /\ \A id \in Ids : Revoked(id) => ResolveAns(id).cls \in {"notfound", "invalid", "revoked"}
    /\ \A c \in CredTx : Revoked(C[c].id) => VerifyAns(c) # "ok"
UntrustedHidden ==
    /\ \A c \in SearchAns(FALSE) : C[c].iss \in trust
    /\ \A id \in Ids : ResolveAns(id).cls = "ok" => C[ResolveAns(id).c].iss \in trust
\* an untrusted issuer's credential IS stored (listed by Untrusted, found with allowUntrusted)
UntrustedListed == \A c \in stored : C[c].iss \notin trust => C[c].iss \in UntrustedAns

\* no handler is running or waiting for an in-process retry
Quiescent == replay = {} /\ pend = {} /\ \A t \in Tx : jobs[t] # "retry"
Resolvable(c) == C[c].iss \in keys /\ (C[c].ctx = "flaky" => ctxUp)
Contested(c) == \E d \in CredTx \ {c} : Delivered(d) /\ C[d].id = C[c].id /\ Valid(d)
\* the stored set is a function of the SET of delivered transactions (not of order, duplicates, faults, restarts):
\* every delivered valid credential whose id no other delivered valid credential claims is stored, of several
\* claimants exactly one, and every delivered authentic revocation is registered
ValidAreStored == Quiescent => \A c \in CredTx : (Delivered(c) /\ Valid(c) /\ Resolvable(c) /\ ~Contested(c)) => c \in stored
OneOfContested == Quiescent => \A c \in CredTx : (Delivered(c) /\ Valid(c) /\ Resolvable(c)) => Holder(C[c].id) # {}
AuthenticAreRegistered == Quiescent => \A r \in RevTx : (Delivered(r) /\ Authentic(r) /\ R[r].iss \in keys) => r \in revs
OrderIndependent == ValidAreStored /\ OneOfContested /\ AuthenticAreRegistered

\* subscriber semantics: a permanently invalid payload is never left for in-process retries, a transient failure is never dropped
NoPoison == \A t \in Tx : jobs[t] = "retry" => why[t] \in TransientClasses
TransientNotDropped == \A t \in Tx : jobs[t] = "dead" => why[t] \notin TransientClasses
\* a payload that was acknowledged has had its effect (or had none to make)
AckedHadEffect == \A t \in Tx : jobs[t] = "done" =>
    \/ t \in stored \/ t \in revs \/ t \in blind
    \/ (t \in CredTx /\ C[t].ctx = "denied")

RevocationPermanent == [][revs \subseteq revs']_vars
StoredPermanent == [][stored \subseteq stored']_vars
TrustOnlyByAdmin == [][trust' # trust => last'.a \in {"Trust", "Untrust"}]_vars
\* a restart changes nothing a caller can observe
RestartTransparent == [][last'.a = "Restart" => Obs' = Obs]_vars

\* liveness (prescriptive variant, FairSpec): every valid credential and authentic revocation ends up effective
Deliverable(c) == C[c].iss \in InitKeys \cup LateKeys
EventuallyStored == <>[](\A c \in CredTx : (Valid(c) /\ Deliverable(c) /\ ~\E d \in CredTx \ {c} : C[d].id = C[c].id /\ Valid(d)) => c \in stored)
EventuallyRevoked == <>[](\A r \in RevTx : (Authentic(r) /\ R[r].iss \in InitKeys \cup LateKeys) => r \in revs)
EventuallyQuiet == <>[](\A t \in Tx : jobs[t] \in {"done", "dead"})

(***************************************************************************)
(* Properties (mode "pub")                                                 *)
(***************************************************************************)
\* a public transaction names no participant; a private one names exactly the nodes of issuer and subject
PubShape == \A i \in {n \in 1..Len(pubs) : pubs[n].ok} :
    /\ pubs[i].public => pubs[i].participants = <<>>
    /\ ~pubs[i].public => (Len(pubs[i].participants) = 2 /\ \A j \in 1..2 : pubs[i].participants[j] \in Parties /\ CommOf(pubs[i].participants[j]).k = "own")
    /\ pubs[i].kind = "rev" => pubs[i].public
    /\ pubs[i].keys # {}

Terminal == IF Mode = "pub" THEN Len(pubs) = 2 \/ (Len(pubs) = 1 /\ ~pubs[1].ok)
            ELSE /\ replay = {} /\ pend = {} /\ \A t \in Tx : jobs[t] \in {"done", "dead"}
                 /\ restarts = MaxRestart
=============================================================================
