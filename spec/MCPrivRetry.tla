----------------------------- MODULE MCPrivRetry -----------------------------
(* Model-checking wrapper of PrivRetry.tla: witness generation (Emit / EmitBad).                          *)
EXTENDS PrivRetry, Json

CONSTANT GenLen

\* one witness per distinct quiet state (nothing in flight, no attempt scheduled) and per behaviour of full length
Quiet == net = {} /\ (\A t \in Tx : loop[t].st = "off") /\ (\E t \in Tx : dag[t])
Terminal == Len(hist) = GenLen \/ Quiet
Emit == (Hist /\ Terminal) => PrintT(ToJson([steps |-> hist]))
\* one witness per distinct state in which the code departs from the statement
Bad == \/ ~NoStuckJob \/ ~WithinBudget
       \/ \E t \in Tx : job[t] >= Threshold /\ pay[t] /\ loop[t].st = "idle"
EmitBad == (Hist /\ Bad) => PrintT(ToJson([steps |-> hist]))
HistBound == Len(hist) <= GenLen
=============================================================================
