------------------------------ MODULE Oid4vci ------------------------------
(***************************************************************************)
(* X03 -- the OpenID4VCI pre-authorized code flow of nuts-node.            *)
(*                                                                         *)
(* Parties:  "I"  the honest credential issuer (vcr/issuer/openid.go over  *)
(*                openid_store.go, API vcr/api/openid4vci/v0/issuer.go)    *)
(*           "W"  the honest wallet (vcr/holder/openid.go, .../holder.go)  *)
(*           "A"  the attacker: owns DID "A" (own key, own wallet, receives *)
(*                offers made to "A"), may call every endpoint with every  *)
(*                value he knows, forges offers to "W", operates the rogue *)
(*                issuer "X", drops responses, and learns secrets through  *)
(*                the leaks switched on by the Leak* constants.            *)
(*                He cannot sign for "W" and does not see the bodies of    *)
(*                credential responses sent to "W".                        *)
(*                                                                         *)
(* Issuer state = the session store (storage.SessionDatabase):             *)
(*    openid4vci/flow/<id>         -> Flow{credential}          flows      *)
(*    openid4vci/preauthcode/<c>   -> flow id                   codes      *)
(*    openid4vci/accesstoken/<t>   -> flow id                   toks       *)
(*    openid4vci/c_nonce/<n>       -> flow id                   nons       *)
(* every entry lives TokenTTL (15 min) from the moment it was put.         *)
(*                                                                         *)
(* One action per handler / critical section:                              *)
(*   Offer       issuer.OfferCredential -> createOffer (Store, StoreRef)   *)
(*   Recv        holder.HandleCredentialOffer up to the token request      *)
(*   TokBegin    issuer.HandleAccessTokenRequest: FindByReference(code),   *)
(*               StoreReference(token), StoreReference(c_nonce)            *)
(*   TokEnd      ... DeleteReference(code), token response                 *)
(*   WCred       holder.retrieveCredential (proof) -> issuer.              *)
(*               HandleCredentialRequest -> holder validates and stores    *)
(*   ACred/AReplay  issuer.HandleCredentialRequest called by the attacker  *)
(*   Forge, WTokX, WCredX   forged offer, rogue issuer                     *)
(*   Tick        time                                                      *)
(*                                                                         *)
(* Deviations of the code from what the properties need are boolean        *)
(* constants (FALSE = what the code does = descriptive):                   *)
(*   NonceSingleUse      a c_nonce is consumed by the first proof over it  *)
(*                       that passes validation (it stays valid in the     *)
(*                       code, also after the credential was released)     *)
(*   BurnOnRelease       a served credential request consumes the flow     *)
(*                       (the access token stays valid in the code)        *)
(*   AtomicRedeem        lookup and removal of the pre-authorized code are *)
(*                       one step (C05 finding F6-preauth)                 *)
(*   HolderChecksSubject the wallet stores a credential only if its        *)
(*                       subject is the wallet DID                         *)
(*   NonceTypeChecked    a proof whose nonce claim is not a string is      *)
(*                       refused (the code panics: nonce.(string))         *)
(* off is the set of checks of the code that are switched OFF (chosen in   *)
(* Init from OffChoices, normally {}): the model without one check shows   *)
(* what that check is needed for, and its counterexamples are the attacks  *)
(* replayed on the real code.                                              *)
(***************************************************************************)
EXTENDS Naturals, FiniteSets, Sequences, TLC

CONSTANTS
    TTL,                 \* life time of every session entry, in ticks
    MaxNow,              \* clock bound
    SubjSeq,             \* the DIDs ("W" / "A") the honest issuer makes its offers to, in this order
    MaxTok, MaxNonce,    \* bound on access tokens / c_nonces minted per flow
    MaxAtt,              \* attacker steps (token requests, credential requests, forged offers)
    MaxWRuns,            \* offers the honest wallet handles
    Shapes,              \* shapes of attacker-made credential requests
    NonceSingleUse, BurnOnRelease, AtomicRedeem, HolderChecksSubject, NonceTypeChecked,   \* deviations
    LeakCode,            \* the attacker learns the pre-authorized codes offered to "W" (an offer is a GET query string)
    LeakSecrets,         \* ... the access tokens and c_nonces sent to "W" in responses
    LeakRequest,         \* ... the complete credential requests of "W" (token + proof) AFTER the issuer served them
    RogueIssuer,         \* the attacker operates issuer "X" and can make "W" talk to it
    DropAllowed,         \* responses to "W" may be lost
    Replay,              \* an offer may be delivered to "W" more than once
    UseCover,            \* behaviour generation: remember (action class, outcome) pairs in the state
    OffChoices,          \* sets of checks of the code that may be switched off ({{}} = the code as it is)
    Hist

MaxOffers == Len(SubjSeq)
FlowSeq == <<"f1", "f2", "f3">>
FlowSet == {FlowSeq[i] : i \in 1..MaxOffers}
AllShapes == {"own", "audX", "badtyp", "forgeW", "wrongtype", "noproof", "nonstr"}
AllChecks == {"proof", "sig", "signer", "aud", "typ", "nonce", "nonceflow", "ctype", "exp", "burncode", "htype", "hverify", "mdid"}

JunkId   == [f |-> "junk", k |-> 0]        \* a value the issuer never handed out
NonStr   == [f |-> "nonstr", k |-> 0]      \* nonce claim that is not a JSON string
NoProof  == [kid |-> "none", sig |-> FALSE, aud |-> "none", typ |-> FALSE, non |-> JunkId]
Proof(kid, sig, aud, typ, non) == [kid |-> kid, sig |-> sig, aud |-> aud, typ |-> typ, non |-> non]
NoCred   == [f |-> "none", subj |-> "none", typ |-> "none", valid |-> FALSE]
\* credentials the rogue issuer can answer with: valid ones of another subject, a forged one, a valid one of "W"
RogueCreds == {[f |-> "ext", subj |-> "A", typ |-> "T1", valid |-> TRUE],
               [f |-> "ext", subj |-> "A", typ |-> "T2", valid |-> TRUE],
               [f |-> "ext", subj |-> "W", typ |-> "T1", valid |-> FALSE],
               [f |-> "ext", subj |-> "W", typ |-> "T1", valid |-> TRUE]}
IdleReq == [st |-> "idle", code |-> "junk", tok |-> JunkId, non |-> JunkId]
\* an offer: to = addressee, iss = the issuer whose endpoints it names, claim = the credential_issuer the metadata served
\* at those endpoints CLAIMS to be (the honest issuer tells the truth; the rogue issuer may claim to be "I")
IdleW   == [pc |-> "idle", o |-> [to |-> "W", iss |-> "I", claim |-> "I", code |-> "junk", typ |-> "T1"], tok |-> JunkId, non |-> JunkId]

VARIABLES
    off,               \* checks switched off in this behaviour (constant after Init)
    now,
    nflows, flows,     \* flows[f] = [subj, exp, st]   st: "none" | "live" | "burnt"
    codes,             \* flows whose pre-authorized code reference is (still) stored; expires with the flow entry
    toks, nons,        \* references [id, exp]
    ntok, nnon,        \* per flow: how many were minted
    tr,                \* token request in progress per caller ("W", "A")
    offers,            \* credential offers on the wire (never consumed: an offer can be delivered again)
    w, wruns, handled, stored,  \* the honest wallet
    kcodes, ktoks, knons, kproofs, acreds, asteps,     \* the attacker
    minted, issuedN, releases, redeemed, panics,       \* ledger (ghost)
    cover,             \* (action class, outcome) pairs seen: keeps one witness per combination
    hist

svars == <<off, now, nflows, flows, codes, toks, nons, ntok, nnon, tr, offers, w, wruns, handled, stored,
           kcodes, ktoks, knons, kproofs, acreds, asteps, minted, issuedN, releases, redeemed, panics>>
vars  == <<svars, cover, hist>>
view  == <<svars, cover>>

Chk(c) == c \notin off
Log(e) == hist' = IF Hist THEN Append(hist, e) ELSE hist
B(x) == IF x THEN "y" ELSE "n"
Cover(c) == cover' = IF UseCover THEN cover \cup {c} ELSE cover

Init ==
    /\ off \in OffChoices
    /\ now = 0 /\ nflows = 0
    /\ flows = [f \in FlowSet |-> [subj |-> "none", exp |-> 0, st |-> "none"]]
    /\ codes = {} /\ toks = {} /\ nons = {}
    /\ ntok = [f \in FlowSet |-> 0] /\ nnon = [f \in FlowSet |-> 0]
    /\ tr = [p \in {"W", "A"} |-> IdleReq]
    /\ offers = {}
    /\ w = IdleW /\ wruns = 0 /\ handled = {} /\ stored = {}
    /\ kcodes = {} /\ ktoks = {} /\ knons = {} /\ kproofs = {} /\ acreds = {} /\ asteps = 0
    /\ minted = {} /\ issuedN = {} /\ releases = <<>> /\ redeemed = {} /\ panics = 0
    /\ cover = {}
    /\ hist = IF Hist THEN <<[a |-> "Init", off |-> off]>> ELSE <<>>

(***************************************************************************)
(* The issuer's store                                                      *)
(***************************************************************************)
Subj(f)      == flows[f].subj
Fresh(exp)   == ~Chk("exp") \/ now < exp                                          \* the entry has not expired
FlowLive(f)  == f \in FlowSet /\ flows[f].st = "live" /\ Fresh(flows[f].exp)     \* flowStore.Get(flowID) succeeds
CodeLive(c)  == c \in codes /\ Fresh(flows[c].exp)                               \* refStore.Exists(code)
TokLive(t)   == \E e \in toks : e.id = t /\ Fresh(e.exp)
NonLive(n)   == \E e \in nons : e.id = n /\ Fresh(e.exp)
NextTok(f)   == [f |-> f, k |-> ntok[f] + 1]
NextNon(f)   == [f |-> f, k |-> nnon[f] + 1]

(***************************************************************************)
(* issuer.OfferCredential: createOffer stores the flow and the             *)
(* pre-authorized code, then sends the offer to the wallet of the subject. *)
(***************************************************************************)
OfferTo(s) ==
    /\ nflows < MaxOffers
    /\ LET f == FlowSeq[nflows + 1]
           o == [to |-> s, iss |-> "I", claim |-> "I", code |-> f, typ |-> "T1"] IN
       /\ nflows' = nflows + 1
       /\ flows' = [flows EXCEPT ![f] = [subj |-> s, exp |-> now + TTL, st |-> "live"]]
       /\ codes' = codes \cup {f}
       /\ offers' = offers \cup {o}
       /\ kcodes' = IF s = "A" \/ LeakCode THEN kcodes \cup {f} ELSE kcodes      \* the attacker's own wallet received it / leak
       /\ Log([a |-> "Offer", f |-> f, subj |-> s])
    /\ UNCHANGED <<off, now, toks, nons, ntok, nnon, tr, w, wruns, handled, stored, ktoks, knons, kproofs, acreds, asteps,
                   minted, issuedN, releases, redeemed, panics, cover>>

Offer == OfferTo(SubjSeq[nflows + 1])

(***************************************************************************)
(* holder.HandleCredentialOffer: offer checks, issuer metadata.            *)
(***************************************************************************)
Recv(o) ==
    /\ w.pc = "idle" /\ wruns < MaxWRuns
    /\ o \in offers /\ o.to = "W"
    /\ Replay \/ o \notin handled
    \* openid4vci.NewIssuerAPIClient: the identifier in the metadata must be the identifier the offer names
    /\ w' = IF Chk("mdid") /\ o.claim # o.iss THEN IdleW ELSE [IdleW EXCEPT !.pc = "token", !.o = o]
    /\ wruns' = wruns + 1
    /\ handled' = handled \cup {o}
    /\ Log([a |-> "Recv", o |-> o, again |-> o \in handled, abort |-> (Chk("mdid") /\ o.claim # o.iss)])
    /\ UNCHANGED <<off, now, nflows, flows, codes, toks, nons, ntok, nnon, tr, offers, stored,
                   kcodes, ktoks, knons, kproofs, acreds, asteps, minted, issuedN, releases, redeemed, panics, cover>>

(***************************************************************************)
(* issuer.HandleAccessTokenRequest, first part:                            *)
(*   FindByReference(preauthcode, c)  [Exists; Get; flowStore.Get]         *)
(*   StoreReference(accesstoken), StoreReference(c_nonce)                  *)
(* AtomicRedeem: the code reference is removed in the same step.           *)
(***************************************************************************)
TokBegin(p, c) ==
    /\ tr[p].st = "idle"
    /\ \/ p = "W" /\ w.pc = "token" /\ w.o.iss = "I" /\ c = w.o.code
       \/ p = "A" /\ asteps < MaxAtt /\ c \in kcodes \cup {"junk"}
    /\ LET hit == c \in FlowSet /\ CodeLive(c) /\ FlowLive(c) IN
       /\ hit => ntok[c] < MaxTok /\ nnon[c] < MaxNonce
       /\ IF hit
            THEN /\ toks' = toks \cup {[id |-> NextTok(c), exp |-> now + TTL]}
                 /\ nons' = nons \cup {[id |-> NextNon(c), exp |-> now + TTL]}
                 /\ ntok' = [ntok EXCEPT ![c] = @ + 1]
                 /\ nnon' = [nnon EXCEPT ![c] = @ + 1]
                 /\ minted' = minted \cup {[tok |-> NextTok(c), code |-> c, at |-> now, exp |-> now + TTL,
                                           codeexp |-> flows[c].exp, after |-> c \in redeemed]}
                 /\ issuedN' = issuedN \cup {[id |-> NextNon(c), f |-> c, exp |-> now + TTL]}
                 /\ codes' = IF AtomicRedeem /\ Chk("burncode") THEN codes \ {c} ELSE codes
                 /\ tr' = [tr EXCEPT ![p] = [st |-> "found", code |-> c, tok |-> NextTok(c), non |-> NextNon(c)]]
            ELSE /\ tr' = [tr EXCEPT ![p] = [IdleReq EXCEPT !.st = "miss", !.code = c]]
                 /\ UNCHANGED <<toks, nons, ntok, nnon, minted, issuedN, codes>>
       /\ Log([a |-> "TokBegin", p |-> p, code |-> c, hit |-> hit,
               tok |-> IF hit THEN NextTok(c) ELSE JunkId, non |-> IF hit THEN NextNon(c) ELSE JunkId])
    /\ w' = IF p = "W" THEN [w EXCEPT !.pc = "tokwait"] ELSE w
    /\ asteps' = IF p = "A" THEN asteps + 1 ELSE asteps
    /\ UNCHANGED <<off, now, nflows, flows, offers, wruns, handled, stored, kcodes, ktoks, knons, kproofs, acreds,
                   releases, redeemed, panics, cover>>

(***************************************************************************)
(* issuer.HandleAccessTokenRequest, second part: DeleteReference(code) and *)
(* the token response (access_token, c_nonce). A response to "W" may be    *)
(* lost; the wallet then gives up (HandleCredentialOffer has no retry).    *)
(***************************************************************************)
TokEnd(p, lost) ==
    /\ tr[p].st # "idle"
    /\ p = "W" => w.pc = "tokwait"
    /\ lost => (DropAllowed /\ p = "W")
    /\ LET r == tr[p]
           ok == r.st = "found" IN
       /\ codes' = IF ok /\ Chk("burncode") THEN codes \ {r.code} ELSE codes
       /\ redeemed' = IF ok THEN redeemed \cup {r.code} ELSE redeemed
       /\ tr' = [tr EXCEPT ![p] = IdleReq]
       /\ IF p = "W"
            THEN /\ w' = IF ok /\ ~lost THEN [w EXCEPT !.pc = "cred", !.tok = r.tok, !.non = r.non] ELSE IdleW
                 /\ ktoks' = IF ok /\ LeakSecrets THEN ktoks \cup {r.tok} ELSE ktoks
                 /\ knons' = IF ok /\ LeakSecrets THEN knons \cup {r.non} ELSE knons
            ELSE /\ ktoks' = IF ok THEN ktoks \cup {r.tok} ELSE ktoks
                 /\ knons' = IF ok THEN knons \cup {r.non} ELSE knons
                 /\ UNCHANGED w
       /\ Cover(<<"tok", p, B(ok), B(lost), "">>)
       /\ Log([a |-> "TokEnd", p |-> p, ok |-> ok, lost |-> lost, tok |-> r.tok, non |-> r.non])
    /\ UNCHANGED <<off, now, nflows, flows, toks, nons, ntok, nnon, offers, wruns, handled, stored, kcodes, kproofs, acreds, asteps,
                   minted, issuedN, releases, panics>>

(***************************************************************************)
(* issuer.HandleCredentialRequest + validateProof, in the order of the     *)
(* code. "invalid_proof_n" = invalid_proof carrying a fresh c_nonce        *)
(* (generateProofError); the two nonce errors carry none.                  *)
(***************************************************************************)
NonFlow(n) == n.f
ProofOutcome(t, p) ==
    IF p = NoProof THEN (IF Chk("proof") THEN "invalid_proof_n" ELSE "ok")              \* missing proof / not a jwt proof
    ELSE IF Chk("sig") /\ ~p.sig THEN "invalid_proof_n"                                 \* crypto.ParseJWT: signature, unknown key
    ELSE IF Chk("signer") /\ p.kid # Subj(t.f) THEN "invalid_proof_n"                   \* signer DID # subject of the offered credential
    ELSE IF Chk("aud") /\ p.aud # "I" THEN "invalid_proof_n"                            \* audience # issuer identifier
    ELSE IF Chk("typ") /\ ~p.typ THEN "invalid_proof_n"                                 \* typ header # openid4vci-proof+jwt
    ELSE IF p.non = NonStr THEN (IF NonceTypeChecked THEN "invalid_proof_n" ELSE "panic")
    ELSE IF Chk("nonce") /\ ~NonLive(p.non) THEN "invalid_proof"                        \* unknown nonce (no fresh c_nonce)
    ELSE IF Chk("nonce") /\ ~FlowLive(NonFlow(p.non)) THEN "server_error"               \* FindByReference(c_nonce): flow entry gone
    ELSE IF Chk("nonceflow") /\ NonFlow(p.non) # t.f THEN "invalid_proof"               \* nonce not valid for access token
    ELSE "ok"
CredOutcome(t, p, rtyp) ==
    IF ~TokLive(t) THEN "invalid_token"                                      \* FindByReference(accesstoken) = nil
    ELSE IF ~FlowLive(t.f) THEN "server_error"                               \* reference found, flow entry gone
    ELSE IF ProofOutcome(t, p) # "ok" THEN ProofOutcome(t, p)
    ELSE IF Chk("ctype") /\ rtyp # "T1" THEN "invalid_request"               \* requested credential does not match offer
    ELSE "released"

\* the part of the step that changes the issuer: by = who receives the response
ProofPassed(out) == out \in {"invalid_request", "released"}
\* (out is CredOutcome(t, p, rtyp); it is a parameter so that trace validation can also apply an OBSERVED outcome)
IssuerCred(t, p, rtyp, by, out) ==
    /\ out = "invalid_proof_n" => nnon[t.f] < MaxNonce
    /\ nons' = IF out = "invalid_proof_n" THEN nons \cup {[id |-> NextNon(t.f), exp |-> now + TTL]}
               ELSE IF ProofPassed(out) /\ NonceSingleUse /\ p # NoProof THEN {e \in nons : e.id # p.non}
               ELSE nons
    /\ IF out = "invalid_proof_n"
         THEN /\ nnon' = [nnon EXCEPT ![t.f] = @ + 1]
              /\ issuedN' = issuedN \cup {[id |-> NextNon(t.f), f |-> t.f, exp |-> now + TTL]}
              /\ UNCHANGED <<flows, toks, releases, panics>>
         ELSE IF out = "released"
         THEN /\ releases' = Append(releases, [f |-> t.f, tok |-> t, proof |-> p, rtyp |-> rtyp, at |-> now, to |-> by])
              /\ IF BurnOnRelease
                   THEN /\ flows' = [flows EXCEPT ![t.f].st = "burnt"]
                        /\ toks' = {e \in toks : e.id # t}
                   ELSE UNCHANGED <<flows, toks>>
              /\ UNCHANGED <<nnon, issuedN, panics>>
         ELSE /\ panics' = IF out = "panic" THEN panics + 1 ELSE panics
              /\ UNCHANGED <<flows, toks, nnon, issuedN, releases>>
NewNon(t, out) == IF out = "invalid_proof_n" THEN NextNon(t.f) ELSE JunkId
Released(t)    == [f |-> t.f, subj |-> Subj(t.f), typ |-> "T1", valid |-> TRUE]

(***************************************************************************)
(* holder: ValidateDefinitionWithCredential(received, offered definition)  *)
(* and vcr.StoreCredential (signature verification).                       *)
(***************************************************************************)
StoredRec(c, otyp) == [f |-> c.f, subj |-> c.subj, typ |-> c.typ, valid |-> c.valid, otyp |-> otyp]
HolderAccepts(c, otyp) == /\ c # NoCred
                          /\ Chk("htype") => c.typ = otyp
                          /\ Chk("hverify") => c.valid
                          /\ HolderChecksSubject => c.subj = "W"

\* the honest wallet requests the credential from the honest issuer; obs: the attacker learns the served request
WProof == Proof("W", TRUE, w.o.claim, TRUE, w.non)          \* audience = credential_issuer of the metadata (retrieveCredential)
WCredO(lost, out) ==
    /\ w.pc = "cred" /\ w.o.iss = "I"
    /\ lost => DropAllowed
    /\ LET obs == LeakRequest
           p == WProof
           c == IF out = "released" /\ ~lost THEN Released(w.tok) ELSE NoCred IN
       /\ IssuerCred(w.tok, p, w.o.typ, "W", out)
       /\ stored' = IF HolderAccepts(c, w.o.typ) THEN stored \cup {StoredRec(c, w.o.typ)} ELSE stored
       /\ ktoks' = IF obs THEN ktoks \cup {w.tok} ELSE ktoks
       /\ kproofs' = IF obs THEN kproofs \cup {p} ELSE kproofs
       /\ knons' = IF out = "invalid_proof_n" /\ LeakSecrets THEN knons \cup {NextNon(w.tok.f)} ELSE knons
       /\ Cover(<<"wcred", out, B(lost), B(obs), w.o.typ>>)
       /\ Log([a |-> "WCred", lost |-> lost, obs |-> obs, tok |-> w.tok, proof |-> p, rtyp |-> w.o.typ, out |-> out,
               newnon |-> NewNon(w.tok, out), stores |-> HolderAccepts(c, w.o.typ)])
    /\ w' = IdleW
    /\ UNCHANGED <<off, now, nflows, codes, ntok, tr, offers, wruns, handled, kcodes, acreds, asteps, minted, redeemed>>
WCred(lost) == WCredO(lost, CredOutcome(w.tok, WProof, w.o.typ))

(***************************************************************************)
(* The attacker calls the credential endpoint: with a proof he makes       *)
(* himself (key of "A", or a forged signature for "W"), or with a proof    *)
(* made by "W" that he captured.                                           *)
(***************************************************************************)
Made(shape, n) ==
    CASE shape = "own"       -> Proof("A", TRUE, "I", TRUE, n)
      [] shape = "audX"      -> Proof("A", TRUE, "X", TRUE, n)
      [] shape = "badtyp"    -> Proof("A", TRUE, "I", FALSE, n)
      [] shape = "forgeW"    -> Proof("W", FALSE, "I", TRUE, n)
      [] shape = "wrongtype" -> Proof("A", TRUE, "I", TRUE, n)
      [] shape = "noproof"   -> NoProof
      [] shape = "nonstr"    -> Proof("A", TRUE, "I", TRUE, NonStr)
ShapeTyp(shape) == IF shape = "wrongtype" THEN "T2" ELSE "T1"

AttackerRequestO(t, p, rtyp, rec, out) ==
    /\ asteps < MaxAtt /\ asteps' = asteps + 1
    /\ /\ IssuerCred(t, p, rtyp, "A", out)
       /\ acreds' = IF out = "released" THEN acreds \cup {t.f} ELSE acreds
       /\ knons' = IF out = "invalid_proof_n" THEN knons \cup {NextNon(t.f)} ELSE knons
       /\ Cover(<<"acred", rec.shape, out, IF TokLive(t) THEN Subj(t.f) ELSE "none", IF NonLive(p.non) THEN Subj(p.non.f) ELSE "none">>)
       /\ Log([a |-> "ACred", tok |-> t, proof |-> p, rtyp |-> rtyp, shape |-> rec.shape, out |-> out,
               newnon |-> NewNon(t, out)])
    /\ UNCHANGED <<off, now, nflows, codes, ntok, tr, offers, w, wruns, handled, stored, kcodes, ktoks, kproofs, minted, redeemed>>
AttackerRequest(t, p, rtyp, rec) == AttackerRequestO(t, p, rtyp, rec, CredOutcome(t, p, rtyp))

ACred(t, shape, n) ==
    /\ t \in ktoks \cup {JunkId}
    /\ shape \in Shapes
    /\ n \in knons \cup {JunkId}
    /\ shape \in {"noproof", "nonstr"} => n = JunkId
    /\ AttackerRequest(t, Made(shape, n), ShapeTyp(shape), [shape |-> shape])

AReplay(t, p) ==
    /\ t \in ktoks \cup {JunkId}
    /\ p \in kproofs
    /\ AttackerRequest(t, p, "T1", [shape |-> "replay"])

(***************************************************************************)
(* The attacker sends "W" an offer of his own making: naming the honest    *)
(* issuer with a code he knows (or junk), or naming his rogue issuer "X".  *)
(***************************************************************************)
ForgeDo(iss, claim, c, typ) ==
    /\ asteps < MaxAtt /\ asteps' = asteps + 1
    /\ LET o == [to |-> "W", iss |-> iss, claim |-> claim, code |-> c, typ |-> typ] IN
       /\ o \notin offers
       /\ offers' = offers \cup {o}
       /\ Log([a |-> "Forge", o |-> o])
    /\ UNCHANGED <<off, now, nflows, flows, codes, toks, nons, ntok, nnon, tr, w, wruns, handled, stored,
                   kcodes, ktoks, knons, kproofs, acreds, minted, issuedN, releases, redeemed, panics, cover>>

Forge(iss, claim, c, typ) ==
    /\ iss \in {"I", "X"} /\ (iss = "X" => RogueIssuer /\ c = "junk")
    /\ claim \in {"I", "X"} /\ (iss = "I" => claim = "I")         \* the honest issuer's metadata is not his to change
    /\ c \in kcodes \cup {"junk"} /\ typ \in {"T1", "T2"}
    /\ ForgeDo(iss, claim, c, typ)

\* "W" asks the rogue issuer for a token: the attacker answers with a c_nonce of his choice
WTokXDo(n) ==
    /\ w.pc = "token" /\ w.o.iss = "X"
    /\ w' = [w EXCEPT !.pc = "cred", !.tok = JunkId, !.non = n]
    /\ Log([a |-> "WTokX", non |-> n])
    /\ UNCHANGED <<off, now, nflows, flows, codes, toks, nons, ntok, nnon, tr, offers, wruns, handled, stored,
                   kcodes, ktoks, knons, kproofs, acreds, asteps, minted, issuedN, releases, redeemed, panics, cover>>

WTokX(n) == n \in knons \cup {JunkId} /\ WTokXDo(n)

\* "W" sends its proof (audience = "X") to the rogue issuer, which answers with a credential of its choice
WCredX(c) ==
    /\ w.pc = "cred" /\ w.o.iss = "X"
    /\ c \in RogueCreds \cup {NoCred}
    /\ LET p == WProof IN
       /\ kproofs' = kproofs \cup {p}
       /\ stored' = IF HolderAccepts(c, w.o.typ) THEN stored \cup {StoredRec(c, w.o.typ)} ELSE stored
       /\ Cover(<<"wcredx", c.subj, c.typ, B(c.valid), w.o.typ>>)
       /\ Log([a |-> "WCredX", proof |-> p, cred |-> c, otyp |-> w.o.typ, stores |-> HolderAccepts(c, w.o.typ)])
    /\ w' = IdleW
    /\ UNCHANGED <<off, now, nflows, flows, codes, toks, nons, ntok, nnon, tr, offers, wruns, handled,
                   kcodes, ktoks, knons, acreds, asteps, minted, issuedN, releases, redeemed, panics>>

(***************************************************************************)
(* Time: expired entries are gone (go-cache drops them on access).         *)
(***************************************************************************)
Tick ==
    /\ now < MaxNow /\ now' = now + 1
    /\ toks' = {e \in toks : ~Chk("exp") \/ now + 1 < e.exp}
    /\ nons' = {e \in nons : ~Chk("exp") \/ now + 1 < e.exp}
    /\ codes' = {c \in codes : ~Chk("exp") \/ now + 1 < flows[c].exp}
    /\ Log([a |-> "Tick", now |-> now + 1])
    /\ UNCHANGED <<off, nflows, flows, ntok, nnon, tr, offers, w, wruns, handled, stored,
                   kcodes, ktoks, knons, kproofs, acreds, asteps, minted, issuedN, releases, redeemed, panics, cover>>

Next ==
    \/ Offer
    \/ \E o \in offers : Recv(o)
    \/ \E p \in {"W", "A"}, c \in FlowSet \cup {"junk"} : TokBegin(p, c)
    \/ \E p \in {"W", "A"}, lost \in BOOLEAN : TokEnd(p, lost)
    \/ \E lost \in BOOLEAN : WCred(lost)
    \/ \E t \in ktoks \cup {JunkId}, sh \in Shapes, n \in knons \cup {JunkId} : ACred(t, sh, n)
    \/ \E t \in ktoks \cup {JunkId}, p \in kproofs : AReplay(t, p)
    \/ \E iss, claim \in {"I", "X"}, c \in FlowSet \cup {"junk"}, typ \in {"T1", "T2"} : Forge(iss, claim, c, typ)
    \/ \E n \in knons \cup {JunkId} : WTokX(n)
    \/ \E c \in RogueCreds \cup {NoCred} : WCredX(c)
    \/ Tick

Spec == Init /\ [][Next]_vars

\* the honest parties take their steps; nothing is lost, nobody interferes, no entry expires (cfg: MaxAtt = 0, MaxNow = 0)
HonestNext ==
    \/ Offer
    \/ \E o \in offers : Recv(o)
    \/ \E c \in FlowSet : TokBegin("W", c)
    \/ TokEnd("W", FALSE)
    \/ WCred(FALSE)
FairSpec == Init /\ [][Next]_vars /\ WF_vars(HonestNext)

(***************************************************************************)
(* Properties                                                              *)
(***************************************************************************)
Rel == {releases[i] : i \in 1..Len(releases)}

\* R1: a credential is released only to a request carrying a live access token obtained from the pre-authorized
\* code of that very offer AND a proof signed by a key of the DID the offer was made for, naming the issuer as
\* audience, typed as an OpenID4VCI proof, over a live c_nonce handed out for the same flow; what is released is
\* the offered credential of the type asked for
ReleaseAuthorized ==
    \A r \in Rel :
        /\ \E m \in minted : m.tok = r.tok /\ m.code = r.f /\ r.at < m.exp
        /\ r.at < flows[r.f].exp
        /\ r.proof # NoProof /\ r.proof.sig /\ r.proof.kid = Subj(r.f)
        /\ r.proof.aud = "I" /\ r.proof.typ
        /\ \E n \in issuedN : n.id = r.proof.non /\ n.f = r.f /\ r.at < n.exp
        /\ r.rtyp = "T1"

\* R2: an access token is only handed out for a live pre-authorized code that has not been redeemed before ...
TokenFromLiveCode == \A m \in minted : m.at < m.codeexp /\ ~m.after
\* ... and, also under concurrency, a code yields one token (needs AtomicRedeem)
CodeSingleUse == \A f \in FlowSet : Cardinality({m \in minted : m.code = f}) <= 1

\* R3: each offer yields at most one credential release / a proof is honoured once (needs BurnOnRelease)
AtMostOneRelease == \A f \in FlowSet : Cardinality({i \in 1..Len(releases) : releases[i].f = f}) <= 1
ProofSingleUse == \A i, j \in 1..Len(releases) : (releases[i].proof = releases[j].proof) => i = j

\* R4: the attacker obtains only credentials offered to him
OnlySubjectObtains == \A f \in acreds : Subj(f) = "A"

\* R5: the honest wallet stores only credentials that verify, have the offered type and are about the wallet DID
HolderStoresVerified == \A c \in stored : c.valid /\ c.typ = c.otyp
HolderStoresOwn      == \A c \in stored : c.subj = "W"

\* R6
NoPanic == panics = 0

TypeOK ==
    /\ now \in 0..MaxNow /\ nflows \in 0..MaxOffers
    /\ codes \subseteq FlowSet
    /\ \A f \in FlowSet : ntok[f] <= MaxTok /\ nnon[f] <= MaxNonce
    /\ asteps \in 0..MaxAtt /\ wruns \in 0..MaxWRuns
    /\ w.pc \in {"idle", "token", "tokwait", "cred"}
    /\ acreds \subseteq FlowSet /\ kcodes \subseteq FlowSet

\* liveness: without faults every offer made to the honest wallet ends with the credential in its store
HonestCompletes == \A f \in FlowSet : (flows[f].st = "live" /\ Subj(f) = "W") ~> (\E c \in stored : c.f = f)

Quiet == w.pc = "idle" /\ \A p \in {"W", "A"} : tr[p].st = "idle"
=============================================================================
