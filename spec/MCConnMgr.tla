---------------------------- MODULE MCConnMgr ----------------------------
(* Concrete universes for model checking ConnMgr.tla: nodes "A", "B", "D" have the node DID of their name, "C" has none
   (the driver harness/drivers/connmgr builds its managers the same way); "@N" is the bootstrap contact for the address of N. *)
EXTENDS ConnMgr, Json

MCDidOf(n) == IF n \in {"A", "B", "D"} THEN n ELSE None
MCBootAddr(k) == CHOOSE n \in {"A", "B", "C", "D"} : k = "@" \o n

Quiet == \A m \in Nodes, k \in Keys : call[m][k].cpc \in {"idle", "up"} /\ call[m][k].spc \in {"none", "up"}
BudgetsUsed == budget.feed = MaxFeed
\* behaviour generation (Hist = TRUE): one witness per distinct quiet state with all feeds done
Emit == (Hist /\ Quiet /\ BudgetsUsed /\ Len(hist) > 0) => PrintT(ToJson(hist))
EmitBox == (Hist /\ box.next > MaxMsgs) => PrintT(ToJson(hist))
\* witnesses of the double connection (one inbound, one outbound between the same two nodes)
EmitDup == (Hist /\ ~OnePerPeer) => PrintT(ToJson(hist))
=============================================================================
