------------------------------ MODULE MCOAuth ------------------------------
(* Behaviour generation and constant sets for model checking OAuth.tla *)
EXTENDS OAuth, Json

\* the names api.go:introspectAccessToken refuses
CodeGuarded == {"iss", "sub", "exp", "iat", "active", "client_id", "scope", "aud", "cnf", "jti", "nbf", "username", "token_type", "vps", "presentation_definitions", "presentation_submissions"}  \* auth/api/iam/api.go introspectAccessToken (complete since fix 8f74f82)
\* every defect flag of the vp_token-bearer grant (C02: the quantifier's list + DPoP)
AllS2SDefects == {"aud", "validity", "nodates", "nononce", "signer", "mixed", "unfulfilled", "foreigndef", "forgedmap",
                  "partial", "vpsig", "vcsig", "revoked", "expired", "stale", "scope", "multiscope", "baddpop"}
AllAuthDefects == {"scope", "multiscope"}
OneShape == {[nvp |-> 1, main |-> 1, pos |-> 1]}
AllShapes == {[nvp |-> n, main |-> m, pos |-> q] : n \in 1..3, m \in 1..3, q \in 1..3} \cap
             {sh \in [nvp : 1..3, main : 1..3, pos : 1..3] : sh.main <= sh.nvp /\ sh.pos <= sh.nvp}
AllOkAuds == {"exact", "array_with"} \cup NearAuds
AllRespDefects == {"state", "tenant", "nononce", "badnonce", "signer", "mixed", "aud", "vpsig", "vcsig", "revoked",
                   "expired", "stale", "foreigndef", "unfulfilled", "forgedmap"}
AllTokDefects == {"nocode", "code", "client", "verifier", "baddpop"}

\* generation of the reserved-claim behaviours: one token request, then introspections
OneRequest == npres <= 1

\* one witness behaviour per distinct (state, last action): used with VIEW viewLast
Emit == Hist => PrintT(ToJson(hist))
\* witnesses of the dangerous inputs of the descriptive model
EmitBad == (Hist /\ ~(IssuedOnlyIfClean /\ ReservedClaimsNotOverridable)) => PrintT(ToJson(hist))
=============================================================================
