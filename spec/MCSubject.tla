----------------------------- MODULE MCSubject -----------------------------
(* Model checking / behaviour generation wrapper of Subject.tla *)
EXTENDS Subject, Json

\* What the CURRENT code does (descriptive configurations refer to these; flip one when the code is repaired).
DescSweepAborts == FALSE       \* F8 (repaired in /repo b9b69e4)
DescKeepsDidRows == FALSE      \* F8b (repaired in /repo COMMIT_F8b)
DescBuildOnPending == TRUE     \* F8c
DescUpdatesDeactivated == FALSE \* F8d (repaired in /repo COMMIT_F8d)

\* configurations (enabled DID methods x naming of Create) explored by the model configurations
Cfg(ms, nm) == [ms |-> ms, nm |-> nm]
CfgBase == {Cfg({"web", "nuts"}, "given")}                      \* the default node, v2 API with a subject name
CfgNew == {Cfg({"nuts"}, "given"), Cfg({"web"}, "given"),       \* didmethods: [nuts] / [web]
           Cfg({"web", "nuts"}, "legacy"), Cfg({"nuts"}, "legacy"), Cfg({"web"}, "legacy"),   \* v1 API (NutsLegacyNamingOption)
           Cfg({"web", "nuts"}, "generated")}                   \* v2 API without a subject name
CfgAll == CfgBase \cup CfgNew
CfgQuick == CfgBase \cup {Cfg({"nuts"}, "given"), Cfg({"web"}, "given"), Cfg({"web", "nuts"}, "legacy")}

\* behaviour generation: print every complete behaviour as JSON (Hist = TRUE configurations only)
Emit == (Terminal /\ Hist) => PrintT(ToJson(hist))
\* generation: only the last two operations of a behaviour overlap (the earlier ones set up the subject sequentially)
ConcLate == Cardinality(Active) <= 1 \/ nops >= MaxOps
HistBound == Len(hist) <= 60
=============================================================================
