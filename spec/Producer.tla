----------------------------- MODULE Producer -----------------------------
(***************************************************************************)
(* X04 - the network engine as PRODUCER and dispatcher of transactions:    *)
(* network/network.go (CreateTransaction, Reprocess, Get*, Subscribe),     *)
(* network/subscriber.go and the way transport/v2 is attached to the       *)
(* dag.State.  The vocabulary is the one of Dag.tla (refs, clocks, disk /  *)
(* mem, bbolt write lock, state.treeMutex, notifier jobs); what is new is  *)
(* that transactions are not a static universe but are MADE by the         *)
(* goroutines: prevs, clock and signature are computed from what the       *)
(* goroutine read, so races between the reads and the write become         *)
(* visible.                                                                *)
(*                                                                         *)
(* One action per critical section of Network.CreateTransaction:           *)
(*   Begin        caller invokes CreateTransaction(ctx, template)          *)
(*   CheckPrevs   isPayloadPresent per additional prev (2 db.Read each)    *)
(*                + "node DID must be configured" for private templates    *)
(*   ReadHead     state.Head (db.Read of metadata/head_ref); prevs = head  *)
(*                + additional prevs (NewTransaction deduplicates);        *)
(*                PAL.Encrypt (reads only DID documents)                   *)
(*   CalcClock    calculateLamportClock: db.Read per prev, max + 1         *)
(*   Sign         dag.NewTransaction + transactionSigner.Sign (key store)  *)
(*   ReadVerify   state.Add: db.Read { isPresent; verifiers }              *)
(*                then state.treeMutex.Lock() (queue tmuQ when it is held) *)
(*   LockWrite    db.Write: bbolt write lock + function body (payload,     *)
(*                jobs, graph.add incl. head / lc_high / tx_num, trees)    *)
(*   Commit | Rollback, OnRollback (loadState), AfterCommit (unlockTrees,  *)
(*                notify: first delivery to every selecting subscriber)    *)
(*   Fail         injected failure of the step the goroutine is at         *)
(* Network.Reprocess: ReprocScan (FindBetweenLC) / ReprocPublish           *)
(* second node:   Sync (the produced bytes offered to another dag.State    *)
(*                with the same verifiers, prevs first)                    *)
(* transport/v2:  Serve (gossip advertises the ref, a peer asks for it     *)
(*                with TransactionListQuery / TransactionPayloadQuery)     *)
(*                                                                         *)
(* Deviation of the code from the "serialised producer" one may expect:    *)
(*   CreateLock = FALSE  (the code) nothing spans Head .. Add, so two      *)
(*                goroutines may build on the same head (siblings with     *)
(*                the same clock; on an empty DAG the loser fails with     *)
(*                errRootAlreadyExists);                                   *)
(*   CreateLock = TRUE   a mutex around CreateTransaction: no fork, no     *)
(*                race failure (NoFork, NoRaceFailure hold only here).     *)
(***************************************************************************)
EXTENDS Naturals, FiniteSets, Sequences, TLC

CONSTANTS
    Procs,        \* goroutines calling CreateTransaction
    MaxCalls,     \* calls per goroutine
    Templates,    \* names of the templates a call may use (attributes below)
    Base,         \* TRUE: the DAG already holds "g" (DID document of the signer, head); FALSE: empty DAG
    MaxFail,      \* bound on injected failures
    MaxReproc,    \* bound on Reprocess calls
    Subs,         \* subscribers registered on the state (gossip, nats, application)
    CreateLock,   \* see above (FALSE = the code)
    NodeDID,      \* TRUE: network.nodedid configured
    SyncOn,       \* model the second node
    ServeOn,      \* model the peer asking for what was gossiped
    Hist

\* template attributes and subscriber attributes (bound in MCProducer)
CONSTANTS TplType(_),   \* content type class of the payload
          TplKey(_),    \* "jwk" attach key | "kid" | "nokey" (private key missing) | "badjwk" (attached key is not the signer)
          TplPriv(_),   \* Participants given
          TplPalOK(_),  \* every participant has a keyAgreement key
          TplAddl(_),   \* additional prevs: subset of {"g", "ghost", "last"}
          SubType(_), SubSel(_, _), Id(_, _)

None == "none"
Max(S) == IF S = {} THEN 0 ELSE CHOOSE m \in S : \A n \in S : n <= m
DocTxs == {"g"}      \* source transactions of the DID document holding the "kid" key

VARIABLES
    attr,      \* bytes made so far: id -> [prevs, lc, type, priv, sig, seen]
    disk,      \* committed bbolt content of the producing node
    mem,       \* lamportClockHigh (atomic)
    lock, tmu, tmuQ, tmuQ, cmu,
    pc, call, wbuf, ncalls, fails,
    result,    \* id -> [why, tpl]: how the call returned ("ok" or the reason of the error) and the template it used
    delivered, \* (subscriber, id): receiver invoked
    gossiped,  \* refs handed to the gossip manager
    rp, reproc, nreproc,
    n2, rej2,  \* second node: admitted / refused
    wire,      \* what a non-participant peer obtained: [t, pl]
    hist

vars == <<attr, disk, mem, lock, tmu, tmuQ, tmuQ, cmu, pc, call, wbuf, ncalls, fails, result, delivered, gossiped, rp, reproc, nreproc, n2, rej2, wire, hist>>
view == <<attr, disk, mem, lock, tmu, tmuQ, tmuQ, cmu, pc, call, wbuf, ncalls, fails, result, delivered, gossiped, rp, reproc, nreproc, n2, rej2, wire>>

Log(e) == hist' = IF Hist THEN Append(hist, e) ELSE hist

GAttr == [prevs |-> {}, lc |-> 0, type |-> "did", priv |-> FALSE, sig |-> TRUE, seen |-> {}]
EmptyDisk == [txs |-> {}, pay |-> {}, head |-> None, lcHigh |-> 0, n |-> 0, jobs |-> {}]
BaseDisk == [txs |-> {"g"}, pay |-> {"g"}, head |-> "g", lcHigh |-> 0, n |-> 1, jobs |-> {}]
NoCall == [tpl |-> None, id |-> None, addl |-> {}, head |-> None, prevs |-> {}, lc |-> 0, seen |-> {}]

Init ==
    /\ attr = IF Base THEN [x \in {"g"} |-> GAttr] ELSE <<>>
    /\ disk = IF Base THEN BaseDisk ELSE EmptyDisk
    /\ mem = [lcHigh |-> 0]
    /\ lock = None /\ tmu = None /\ tmuQ = <<>> /\ cmu = None
    /\ pc = [p \in Procs |-> "idle"]
    /\ call = [p \in Procs |-> NoCall]
    /\ wbuf = [p \in Procs |-> EmptyDisk]
    /\ ncalls = [p \in Procs |-> 0]
    /\ fails = 0
    /\ result = <<>>
    /\ delivered = {} /\ gossiped = {}
    /\ rp = [pc |-> "idle", ct |-> None, snap |-> {}, okAt |-> {}]
    /\ reproc = {} /\ nreproc = 0
    /\ n2 = {} /\ rej2 = {}
    /\ wire = {}
    /\ hist = <<>>

(***************************************************************************)
(* Reference definitions - textually those of Dag.tla over made bytes.     *)
(***************************************************************************)
Made == DOMAIN attr
Prevs(t) == attr[t].prevs
Lc(t) == attr[t].lc
ExpectedLc(t) == IF Prevs(t) = {} THEN 0 ELSE 1 + Max({Lc(q) : q \in Prevs(t)})
\* Dag!ValidIn: what NewPrevTransactionsVerifier + NewTransactionSignatureVerifier demand (made bytes always parse)
ValidIn(t, S) == /\ attr[t].sig /\ Prevs(t) \subseteq S /\ Lc(t) = ExpectedLc(t)
Roots(S) == {t \in S : Prevs(t) = {}}
MaxLc(S) == Max({Lc(t) : t \in S})
ArgMaxLc(S) == {t \in S : Lc(t) = MaxLc(S)}
NewJobs(t) == {<<s, t>> : s \in {s \in Subs : SubSel(s, attr[t].type)}}
Returned == DOMAIN result
OkIds == {i \in Returned : result[i].why = "ok"}

\* the last transaction this goroutine created successfully ("update of a mutable entity")
LastOf(p) == LET ks == {k \in 1..ncalls[p] : Id(p, k) \in OkIds} IN IF ks = {} THEN None ELSE Id(p, Max(ks))
ResolveAddl(p, tpl) ==
    (TplAddl(tpl) \cap {"g", "ghost"}) \cup (IF "last" \in TplAddl(tpl) /\ LastOf(p) # None THEN {LastOf(p)} ELSE {})

\* the call returns an error: nothing but the bookkeeping of the caller changes
RetErr(p, why) ==
    /\ pc' = [pc EXCEPT ![p] = "idle"]
    /\ result' = (call[p].id :> [why |-> why, tpl |-> call[p].tpl]) @@ result
    /\ cmu' = IF cmu = p THEN None ELSE cmu
    /\ call' = [call EXCEPT ![p] = NoCall]

(***************************************************************************)
(* Network.CreateTransaction                                               *)
(***************************************************************************)
Begin(p, tpl) ==
    /\ pc[p] = "idle" /\ ncalls[p] < MaxCalls
    /\ CreateLock => cmu = None
    /\ cmu' = IF CreateLock THEN p ELSE cmu
    /\ ncalls' = [ncalls EXCEPT ![p] = @ + 1]
    /\ call' = [call EXCEPT ![p] = [NoCall EXCEPT !.tpl = tpl, !.id = Id(p, ncalls[p] + 1), !.addl = ResolveAddl(p, tpl)]]
    /\ pc' = [pc EXCEPT ![p] = "chkprev"]
    /\ Log([a |-> "Begin", p |-> p, tpl |-> tpl, id |-> Id(p, ncalls[p] + 1), addl |-> ResolveAddl(p, tpl)])
    /\ UNCHANGED <<attr, disk, mem, lock, tmu, tmuQ, wbuf, fails, result, delivered, gossiped, rp, reproc, nreproc, n2, rej2, wire>>

\* additional prevs must be stored with their payload; private transactions need a node DID
CheckPrevs(p) ==
    /\ pc[p] = "chkprev" /\ (call[p].addl # {} => lock = None)        \* no additional prev, no read
    /\ LET c == call[p]
           known == {a \in c.addl : a \in disk.txs /\ a \in disk.pay}
           why == IF known # c.addl THEN "prev" ELSE IF TplPriv(c.tpl) /\ ~NodeDID THEN "nodedid" ELSE "ok"
       IN /\ IF why = "ok"
             THEN pc' = [pc EXCEPT ![p] = "head"] /\ UNCHANGED <<result, cmu, call>>
             ELSE RetErr(p, why)
          /\ Log([a |-> "CheckPrevs", p |-> p, res |-> why])
    /\ UNCHANGED <<attr, disk, mem, lock, tmu, tmuQ, wbuf, ncalls, fails, delivered, gossiped, rp, reproc, nreproc, n2, rej2, wire>>

\* state.Head, prevs = head + additional prevs, PAL encryption
ReadHead(p) ==
    /\ pc[p] = "head" /\ lock = None
    /\ LET c == call[p]
           h == disk.head
           why == IF h = None /\ c.addl # {} THEN "rootprev" ELSE IF TplPriv(c.tpl) /\ ~TplPalOK(c.tpl) THEN "pal" ELSE "ok"
           prevs == (IF h = None THEN {} ELSE {h}) \cup c.addl
       IN /\ IF why = "ok"
             THEN /\ call' = [call EXCEPT ![p] = [c EXCEPT !.head = h, !.prevs = prevs, !.seen = disk.txs]]
                  /\ pc' = [pc EXCEPT ![p] = "clock"] /\ UNCHANGED <<result, cmu>>
             ELSE RetErr(p, why)
          /\ Log([a |-> "ReadHead", p |-> p, head |-> h, res |-> why])
    /\ UNCHANGED <<attr, disk, mem, lock, tmu, tmuQ, wbuf, ncalls, fails, delivered, gossiped, rp, reproc, nreproc, n2, rej2, wire>>

CalcClock(p) ==
    /\ pc[p] = "clock" /\ (call[p].prevs # {} => lock = None)
    /\ LET c == call[p]
           lc == IF c.prevs = {} THEN 0 ELSE 1 + Max({Lc(q) : q \in c.prevs})
       IN /\ call' = [call EXCEPT ![p] = [c EXCEPT !.lc = lc]]
          /\ Log([a |-> "CalcClock", p |-> p, lc |-> lc])
    /\ pc' = [pc EXCEPT ![p] = "sign"]
    /\ UNCHANGED <<attr, disk, mem, lock, tmu, tmuQ, cmu, wbuf, ncalls, fails, result, delivered, gossiped, rp, reproc, nreproc, n2, rej2, wire>>

\* does the signature verify with the key the header names?  kid: the verifier resolves the key in the DID document
\* version whose source transaction is one of the prevs
SigFor(tpl, prevs) == CASE TplKey(tpl) = "jwk" -> TRUE
                        [] TplKey(tpl) = "badjwk" -> FALSE
                        [] OTHER -> prevs \cap DocTxs # {}
Sign(p) ==
    /\ pc[p] = "sign"
    /\ LET c == call[p] IN
       IF TplKey(c.tpl) = "nokey"
       THEN /\ RetErr(p, "key") /\ UNCHANGED attr
            /\ Log([a |-> "Sign", p |-> p, res |-> "key"])
       ELSE /\ attr' = (c.id :> [prevs |-> c.prevs, lc |-> c.lc, type |-> TplType(c.tpl), priv |-> TplPriv(c.tpl),
                                 sig |-> SigFor(c.tpl, c.prevs), seen |-> c.seen]) @@ attr
            /\ pc' = [pc EXCEPT ![p] = "verify"] /\ UNCHANGED <<result, cmu, call>>
            /\ Log([a |-> "Sign", p |-> p, res |-> "ok"])
    /\ UNCHANGED <<disk, mem, lock, tmu, tmuQ, wbuf, ncalls, fails, delivered, gossiped, rp, reproc, nreproc, n2, rej2, wire>>

\* injected failure of the step the goroutine is about to take (database read error, key store error)
Fail(p) ==
    /\ \/ pc[p] \in {"head", "sign", "verify"}
       \/ pc[p] = "chkprev" /\ call[p].addl # {}      \* a step without a database read cannot fail this way
       \/ pc[p] = "clock" /\ call[p].prevs # {}
    /\ fails < MaxFail
    /\ fails' = fails + 1
    /\ RetErr(p, "fault")
    /\ Log([a |-> "Fail", p |-> p, at |-> pc[p]])
    /\ UNCHANGED <<attr, disk, mem, lock, tmu, tmuQ, wbuf, ncalls, delivered, gossiped, rp, reproc, nreproc, n2, rej2, wire>>

(***************************************************************************)
(* State.Add of the own transaction (Dag.tla: ReadVerify .. AfterCommit)   *)
(***************************************************************************)
\* treeMutex is handed over in arrival order (sync.Mutex wakes its first waiter; a goroutine that barges in has done a
\* read-only step later than the waiter, which commutes with the waiter's read)
ReadVerify(p) ==
    /\ pc[p] = "verify" /\ lock = None
    /\ LET t == call[p].id IN
       IF ValidIn(t, disk.txs)
       THEN /\ IF tmu = None
               THEN tmu' = p /\ pc' = [pc EXCEPT ![p] = "wlock"] /\ UNCHANGED tmuQ
               ELSE tmuQ' = Append(tmuQ, p) /\ pc' = [pc EXCEPT ![p] = "tmu"] /\ UNCHANGED tmu
            /\ UNCHANGED <<result, cmu, call>>
            /\ Log([a |-> "ReadVerify", p |-> p, res |-> "verified"])
       ELSE /\ RetErr(p, "verify") /\ UNCHANGED <<tmu, tmuQ>>
            /\ Log([a |-> "ReadVerify", p |-> p, res |-> "rejected"])
    /\ UNCHANGED <<attr, disk, mem, lock, wbuf, ncalls, fails, delivered, gossiped, rp, reproc, nreproc, n2, rej2, wire>>

\* treeMutex.Unlock by p: the first waiter (if any) gets it
NextHolder == IF tmuQ = <<>> THEN None ELSE Head(tmuQ)
PcAfterUnlock(p) == [q \in Procs |-> IF q = p THEN "idle" ELSE IF q = NextHolder THEN "wlock" ELSE pc[q]]
UnlockTrees == tmu' = NextHolder /\ tmuQ' = (IF tmuQ = <<>> THEN tmuQ ELSE Tail(tmuQ))

LockWrite(p) ==
    /\ pc[p] = "wlock" /\ lock = None
    /\ lock' = p
    /\ LET t == call[p].id IN
       IF Prevs(t) = {} /\ Roots(disk.txs) # {}
       THEN \* errRootAlreadyExists: the function returns an error
            /\ wbuf' = [wbuf EXCEPT ![p] = disk] /\ mem' = mem
            /\ pc' = [pc EXCEPT ![p] = "fnerr"]
            /\ Log([a |-> "LockWrite", p |-> p, res |-> "error"])
       ELSE /\ wbuf' = [wbuf EXCEPT ![p] =
                          [disk EXCEPT !.txs = @ \cup {t}, !.pay = @ \cup {t}, !.n = @ + 1,
                                       !.lcHigh = IF Lc(t) > @ \/ Lc(t) = 0 THEN Lc(t) ELSE @,
                                       !.head = IF Lc(t) > disk.lcHigh \/ Lc(t) = 0 THEN t ELSE @,
                                       !.jobs = @ \cup NewJobs(t)]]
            /\ mem' = [lcHigh |-> IF Lc(t) > mem.lcHigh THEN Lc(t) ELSE mem.lcHigh]
            /\ pc' = [pc EXCEPT ![p] = "written"]
            /\ Log([a |-> "LockWrite", p |-> p, res |-> "written"])
    /\ UNCHANGED <<attr, disk, tmu, tmuQ, cmu, call, ncalls, fails, result, delivered, gossiped, rp, reproc, nreproc, n2, rej2, wire>>

Commit(p) ==
    /\ pc[p] = "written"
    /\ disk' = wbuf[p] /\ lock' = None
    /\ wbuf' = [wbuf EXCEPT ![p] = EmptyDisk]
    /\ pc' = [pc EXCEPT ![p] = "committed"]
    /\ Log([a |-> "Commit", p |-> p])
    /\ UNCHANGED <<attr, mem, tmu, tmuQ, cmu, call, ncalls, fails, result, delivered, gossiped, rp, reproc, nreproc, n2, rej2, wire>>

\* error of the write function, or an injected commit failure
Rollback(p) ==
    /\ \/ pc[p] = "fnerr" /\ UNCHANGED fails
       \/ pc[p] = "written" /\ fails < MaxFail /\ fails' = fails + 1
    /\ lock' = None
    /\ wbuf' = [wbuf EXCEPT ![p] = EmptyDisk]
    /\ pc' = [pc EXCEPT ![p] = "rolledback"]
    /\ Log([a |-> "Rollback", p |-> p, injected |-> (pc[p] = "written")])
    /\ UNCHANGED <<attr, disk, mem, tmu, tmuQ, cmu, call, ncalls, result, delivered, gossiped, rp, reproc, nreproc, n2, rej2, wire>>

\* OnRollback -> loadState (still under treeMutex), then Add returns the error
OnRollback(p) ==
    /\ pc[p] = "rolledback" /\ lock = None
    /\ mem' = [lcHigh |-> disk.lcHigh]
    /\ UnlockTrees
    /\ pc' = PcAfterUnlock(p)
    /\ result' = (call[p].id :> [why |-> IF Prevs(call[p].id) = {} /\ Roots(disk.txs) # {} THEN "root" ELSE "fault", tpl |-> call[p].tpl]) @@ result
    /\ cmu' = IF cmu = p THEN None ELSE cmu
    /\ call' = [call EXCEPT ![p] = NoCall]
    /\ Log([a |-> "OnRollback", p |-> p])
    /\ UNCHANGED <<attr, disk, lock, wbuf, ncalls, fails, delivered, gossiped, rp, reproc, nreproc, n2, rej2, wire>>

\* AfterCommit hooks: unlockTrees, notify(tx event), notify(payload event); every receiver answers "done", so the jobs
\* of the persistent subscribers are finished right away (retries are the business of Dag.tla / C14); then the call returns
AfterCommit(p) ==
    /\ pc[p] = "committed" /\ lock = None
    /\ LET t == call[p].id IN
       /\ delivered' = delivered \cup NewJobs(t)
       /\ gossiped' = gossiped \cup {t}
       /\ disk' = [disk EXCEPT !.jobs = @ \ NewJobs(t)]
       /\ result' = (t :> [why |-> "ok", tpl |-> call[p].tpl]) @@ result
    /\ UnlockTrees
    /\ cmu' = IF cmu = p THEN None ELSE cmu
    /\ call' = [call EXCEPT ![p] = NoCall]
    /\ pc' = PcAfterUnlock(p)
    /\ Log([a |-> "AfterCommit", p |-> p])
    /\ UNCHANGED <<attr, mem, lock, wbuf, ncalls, fails, rp, reproc, nreproc, n2, rej2, wire>>

(***************************************************************************)
(* Network.Reprocess(contentType)                                          *)
(***************************************************************************)
ReprocScan(ct) ==
    /\ rp.pc = "idle" /\ nreproc < MaxReproc /\ lock = None
    /\ nreproc' = nreproc + 1
    /\ rp' = [pc |-> "scanned", ct |-> ct, snap |-> {t \in disk.txs : attr[t].type = ct}, okAt |-> OkIds]
    /\ Log([a |-> "ReprocScan", ct |-> ct])
    /\ UNCHANGED <<attr, disk, mem, lock, tmu, tmuQ, cmu, pc, call, wbuf, ncalls, fails, result, delivered, gossiped, reproc, n2, rej2, wire>>

\* ReadPayload per selected transaction + publish on REPROCESS.<ct>
ReprocPublish ==
    /\ rp.pc = "scanned" /\ lock = None
    /\ reproc' = reproc \cup {[ct |-> rp.ct, pub |-> rp.snap, okAt |-> rp.okAt]}
    /\ rp' = [rp EXCEPT !.pc = "idle"]
    /\ Log([a |-> "ReprocPublish", ct |-> rp.ct])
    /\ UNCHANGED <<attr, disk, mem, lock, tmu, tmuQ, cmu, pc, call, wbuf, ncalls, fails, result, delivered, gossiped, nreproc, n2, rej2, wire>>

(***************************************************************************)
(* A second node is offered the produced bytes (prevs first, as v2 does)   *)
(***************************************************************************)
AllReturned == \A p \in Procs : pc[p] = "idle"
Sync(t) ==
    /\ SyncOn /\ AllReturned /\ t \in disk.txs /\ t \notin n2 /\ t \notin rej2 /\ Prevs(t) \subseteq n2
    /\ IF ValidIn(t, n2) /\ ~(Prevs(t) = {} /\ Roots(n2) # {})
       THEN n2' = n2 \cup {t} /\ UNCHANGED rej2
       ELSE rej2' = rej2 \cup {t} /\ UNCHANGED n2
    /\ Log([a |-> "Sync", t |-> t])
    /\ UNCHANGED <<attr, disk, mem, lock, tmu, tmuQ, cmu, pc, call, wbuf, ncalls, fails, result, delivered, gossiped, rp, reproc, nreproc, wire>>

\* transport/v2: the ref was gossiped; a peer that is not a participant asks for the transaction and its payload
Serve(t) ==
    /\ ServeOn /\ AllReturned /\ t \in gossiped /\ t \in disk.txs /\ \A w \in wire : w.t # t
    /\ wire' = wire \cup {[t |-> t, pl |-> ~attr[t].priv]}
    /\ Log([a |-> "Serve", t |-> t])
    /\ UNCHANGED <<attr, disk, mem, lock, tmu, tmuQ, cmu, pc, call, wbuf, ncalls, fails, result, delivered, gossiped, rp, reproc, nreproc, n2, rej2>>

\* every id a transaction can get (a constant set, so that TLC reports Sync and Serve as actions of their own)
AllIds == {"g"} \cup {Id(p, k) : p \in Procs, k \in 1..MaxCalls}
Next ==
    \/ \E p \in Procs, tpl \in Templates : Begin(p, tpl)
    \/ \E p \in Procs : CheckPrevs(p) \/ ReadHead(p) \/ CalcClock(p) \/ Sign(p) \/ Fail(p) \/ ReadVerify(p)
                         \/ LockWrite(p) \/ Commit(p) \/ Rollback(p) \/ OnRollback(p) \/ AfterCommit(p)
    \/ \E ct \in {TplType(tpl) : tpl \in Templates} : ReprocScan(ct)
    \/ ReprocPublish
    \/ \E t \in AllIds : Sync(t)
    \/ \E t \in AllIds : Serve(t)

Spec == Init /\ [][Next]_vars
ProcStep(p) == CheckPrevs(p) \/ ReadHead(p) \/ CalcClock(p) \/ Sign(p) \/ ReadVerify(p) \/ LockWrite(p)
               \/ Commit(p) \/ OnRollback(p) \/ AfterCommit(p) \/ (pc[p] = "fnerr" /\ Rollback(p))
FairSpec == Spec /\ \A p \in Procs : WF_vars(ProcStep(p))
                 /\ WF_vars(\E t \in AllIds : Sync(t)) /\ WF_vars(ReprocPublish)

(***************************************************************************)
(* Properties                                                              *)
(***************************************************************************)
TypeOK ==
    /\ disk.txs \subseteq Made /\ disk.pay \subseteq Made /\ lock \in Procs \cup {None} /\ tmu \in Procs \cup {None}
    /\ \A p \in Procs : pc[p] \in {"idle", "chkprev", "head", "clock", "sign", "verify", "tmu", "wlock", "written", "fnerr",
                                   "rolledback", "committed"}

\* P1 every stored transaction is admitted by the verifiers relative to the stored set (Dag!AdmissionSound), one root
AdmissionSound ==
    /\ \A t \in disk.txs : ValidIn(t, disk.txs)
    /\ Cardinality(Roots(disk.txs)) <= 1
\* ... and by the verifiers of a second node that is offered the same bytes
SecondNodeAdmits == rej2 = {} /\ n2 \subseteq disk.txs
\* the clock every produced transaction carries is max(prevs) + 1, also for those that were never stored
MadeClockRule == \A t \in Made : Lc(t) = ExpectedLc(t)

\* P2 what the code does under concurrency: the head has the highest clock; a creation that read the head after another
\* transaction was committed gets a higher clock than that transaction (it never becomes its sibling or ancestor)
Quiescent == \A p \in Procs : pc[p] \in {"idle", "chkprev", "head", "clock", "sign", "verify", "tmu", "wlock"}
HeadMax ==
    /\ disk.txs # {} => disk.head \in ArgMaxLc(disk.txs) /\ disk.lcHigh = MaxLc(disk.txs)
    /\ disk.n = Cardinality(disk.txs)
    /\ Quiescent => mem.lcHigh = MaxLc(disk.txs)
NoUnnecessaryFork == \A t \in disk.txs : \A u \in attr[t].seen : Lc(u) < Lc(t)
\* only with CreateLock: no two stored transactions share a clock, and no call fails because of another goroutine
NoFork == \A t, u \in disk.txs : t # u => Lc(t) # Lc(u)
NoRaceFailure == \A i \in Returned : result[i].why # "root"

\* P3 the payload of a created transaction is readable as soon as the call has returned; the subscribers and the gossip
\* manager have been told
CreatedIsReadable ==
    \A i \in OkIds : /\ i \in disk.txs /\ i \in disk.pay
                     /\ NewJobs(i) \subseteq delivered /\ i \in gossiped
\* a private payload is stored locally and never handed to a peer that is not a participant; a public one is
PrivateNeverInClear == \A w \in wire : w.pl = ~attr[w.t].priv
OwnHavePayload == \A t \in disk.txs : t \in disk.pay

\* P4/P6 a call that returns an error leaves nothing behind; nothing partial exists at any time
FailedLeavesNoTrace ==
    \A i \in Returned \ OkIds :
        /\ i \notin disk.txs /\ i \notin disk.pay /\ i \notin gossiped /\ i \notin n2
        /\ \A s \in Subs : <<s, i>> \notin disk.jobs /\ <<s, i>> \notin delivered
NoPartialState ==
    /\ disk.pay \subseteq disk.txs
    /\ \A j \in disk.jobs : j[2] \in disk.txs
    /\ \A j \in delivered : j[2] \in disk.txs
    /\ gossiped \subseteq disk.txs
\* a call fails for the reason its template implies, and a defective template never yields a transaction
\* (unknown additional prev, private without node DID / without keyAgreement key, missing private key, attached key that
\* is not the signer, kid whose DID document is not among the prevs)
ErrorsExplained ==
    \A i \in Returned :
        LET w == result[i].why  tpl == result[i].tpl IN
        /\ w = "prev" => "ghost" \in TplAddl(tpl)
        /\ w = "nodedid" => TplPriv(tpl) /\ ~NodeDID
        /\ w = "pal" => TplPriv(tpl) /\ ~TplPalOK(tpl)
        /\ w = "key" => TplKey(tpl) = "nokey"
        /\ w = "verify" => TplKey(tpl) = "badjwk" \/ (TplKey(tpl) = "kid" /\ attr[i].prevs \cap DocTxs = {})
        /\ w = "rootprev" => FALSE
        /\ w = "ok" => /\ "ghost" \notin TplAddl(tpl) /\ TplKey(tpl) \in {"jwk", "kid"}
                       /\ TplPriv(tpl) => NodeDID /\ TplPalOK(tpl)
                       /\ attr[i].sig
StoredGrowsOnly == [][disk.txs \subseteq disk'.txs /\ disk.pay \subseteq disk'.pay]_vars

\* P5 Reprocess publishes exactly stored transactions of the requested type, among them every one whose creation had
\* returned before the scan, and does not touch the DAG
ReprocessExact ==
    \A r \in reproc : /\ \A t \in r.pub : t \in disk.txs /\ attr[t].type = r.ct
                      /\ \A t \in r.okAt : attr[t].type = r.ct => t \in r.pub
ReprocessReadOnly == [][rp' # rp => disk' = disk /\ mem' = mem]_vars

\* liveness (FairSpec): every call returns; the second node ends up with everything that was produced
Terminal == AllReturned /\ \A p \in Procs : ncalls[p] = MaxCalls
EveryCallReturns == \A p \in Procs : (pc[p] # "idle") ~> (pc[p] = "idle")
EventuallySynced == SyncOn => <>[](Terminal => n2 = disk.txs)
=============================================================================
