----------------------------- MODULE SyncPriv -----------------------------
(***************************************************************************)
(* Private transaction payloads in protocol v2 (C15):                      *)
(* network/transport/v2/handlers.go (handleTransactionPayloadQuery,        *)
(* handleTransactionPayload, collectTransactionList), protocol.go          *)
(* (handlePrivateTxRetry, decryptPAL), dag/pal.go,                         *)
(* transport/grpc/authenticator.go.                                        *)
(*                                                                         *)
(* A holder node H has a transaction t and its payload; a peer of some     *)
(* class sends it a request; or H lacks the payload and a peer sends one.  *)
(* Each behaviour is one request handled by the REAL handler; the model    *)
(* transcribes the handler's decision sequence and TLC enumerates the      *)
(* complete product of situations.                                         *)
(***************************************************************************)
EXTENDS Naturals, FiniteSets, Sequences, TLC, Json

CONSTANT Hist,
         PayloadBoundToTx   \* TRUE: a payload is handed out only for the transaction it was stored for (what C15 states).
                            \* FALSE = the code: the payload store is keyed by payload hash, so ANY transaction on the DAG that
                            \* declares the hash of a stored private payload unlocks it for the peers on ITS OWN list (finding F28)

\* unauth: anonymous connection; claimed_listed: the connection carries a listed node DID that was never verified
\* (Authenticated = FALSE); auth_nodid: authenticated flag without a node DID; auth_unlisted / auth_listed: verified DID
\* auth_alias_listed: verified DID that is NOT on the list of the transaction t whose payload H holds, but that is on the list of a
\* second transaction t2 on H's DAG which declares the same payload hash (anybody who saw t's header can publish such a t2 and
\* encrypt its list to H's public key-agreement key); the peer asks for the payload of t2
PeerClass == {"unauth", "claimed_listed", "auth_nodid", "auth_unlisted", "auth_listed", "auth_alias_listed"}
\* transaction in an incoming TransactionList: already stored (payload missing) | new | new, but the DAG refuses it inside its
\* write transaction (a second root): nothing of it may stay behind, in particular not the payload that came with it
ListKnown == {"known_nopayload", "new", "new_unaddable"}
ListPayload == {"matching", "mismatching", "empty"}
KeySit    == {"can_decrypt", "not_recipient", "key_missing", "no_node_did"}
TxClass   == {"public", "private"}
Request   == {"PayloadQuery", "ListQuery", "RangeQuery", "GossipTick", "State"}
Incoming  == {"matching", "mismatching", "empty", "unknown_tx", "no_ref"}
AuthCase  == {"no_cert", "cert_matches", "cert_other_host", "service_unresolvable", "endpoint_malformed"}

VARIABLES
    phase,     \* "idle" | "done"
    sent,      \* set of [kind, carriesPayload, private] envelopes H sent
    stored,    \* H stored the received payload
    authed,    \* result of Authenticate
    hist
vars == <<phase, sent, stored, authed, hist>>
Log(e) == hist' = IF Hist THEN Append(hist, e) ELSE hist

Init == phase = "idle" /\ sent = {} /\ stored = FALSE /\ authed = FALSE /\ hist = <<>>

\* handleTransactionPayloadQuery, in the order of the code
PayloadQueryAnswer(pc, ks, tc) ==
    IF tc = "public" THEN "payload"
    ELSE IF pc \in {"unauth", "claimed_listed"} THEN "empty"  \* connection not authenticated (whatever DID it claims)
    ELSE IF ks \in {"no_node_did", "key_missing"} THEN "empty" \* decryptPAL fails
    ELSE IF ks = "not_recipient" THEN "empty"                \* PAL cannot be decrypted: not meant for us
    ELSE IF pc = "auth_alias_listed" THEN (IF PayloadBoundToTx THEN "empty" ELSE "payload")  \* listed on t2, not on t
    ELSE IF pc # "auth_listed" THEN "empty"                  \* peer's node DID is not on the list
    ELSE "payload"

Serve(pc, ks, tc, rq) ==
    /\ phase = "idle"
    /\ phase' = "done"
    /\ LET private == tc = "private"
           out == CASE rq = "PayloadQuery" -> {[kind |-> "TransactionPayload", carries |-> PayloadQueryAnswer(pc, ks, tc) = "payload", private |-> private]}
                    [] rq \in {"ListQuery", "RangeQuery"} -> {[kind |-> "TransactionList", carries |-> ~private, private |-> private]}   \* collectTransactionList omits private payloads
                    [] rq = "GossipTick" -> {[kind |-> "Gossip", carries |-> FALSE, private |-> private]}
                    [] rq = "State" -> {[kind |-> "TransactionSet", carries |-> FALSE, private |-> private]}
       IN sent' = out
    /\ Log([a |-> "Serve", peer |-> pc, key |-> ks, tx |-> tc, req |-> rq,
            expect |-> IF rq = "PayloadQuery" THEN PayloadQueryAnswer(pc, ks, tc) ELSE IF rq \in {"ListQuery", "RangeQuery"} /\ tc = "public" THEN "payload" ELSE "none"])
    /\ UNCHANGED <<stored, authed>>

\* handleTransactionPayload: stored only if it hashes to the payload hash of a transaction in the DAG
Receive(pc, inc, hasDid) ==
    /\ phase = "idle"
    /\ phase' = "done"
    /\ stored' = (inc = "matching")
    /\ Log([a |-> "Receive", peer |-> pc, incoming |-> inc, nodedid |-> hasDid, expect |-> IF inc = "matching" THEN "stored" ELSE "rejected"])
    /\ UNCHANGED <<sent, authed>>

\* PAL.Encrypt + transaction creation (network.CreateTransaction -> dag.PAL.Encrypt): the list is encrypted for EVERY participant or
\* the creation is refused; a transaction addressed to participants never leaves the node with fewer recipients or without a list
PartSit == {"all_ok", "one_deactivated", "all_deactivated", "one_without_key", "one_unknown"}
Create(ps) ==
    /\ phase = "idle"
    /\ phase' = "done"
    /\ Log([a |-> "Create", parts |-> ps, expect |-> IF ps = "all_ok" THEN "encrypted_all" ELSE "refused"])
    /\ UNCHANGED <<sent, stored, authed>>

\* handleTransactionList -> state.Add: a private transaction arrives in a TransactionList (answer to a range query)
\* together with payload bytes. A known transaction is ignored entirely (also its payload); a new one is admitted
\* with the payload only if the payload hashes to its payload hash, without payload if none came, and refused otherwise.
ReceiveList(kn, pl) ==
    /\ phase = "idle"
    /\ phase' = "done"
    /\ stored' = (kn = "new" /\ pl = "matching")
    /\ Log([a |-> "ReceiveList", known |-> kn, incoming |-> pl,
            expect |-> IF kn = "new" /\ pl = "matching" THEN "stored" ELSE "rejected"])
    /\ UNCHANGED <<sent, authed>>

\* tlsAuthenticator.Authenticate
Authenticate(ac) ==
    /\ phase = "idle"
    /\ phase' = IF ac = "cert_matches" THEN "authed" ELSE "done"
    /\ authed' = (ac = "cert_matches")
    /\ Log([a |-> "Authenticate", case |-> ac, expect |-> IF ac = "cert_matches" THEN "authenticated" ELSE "refused"])
    /\ UNCHANGED <<sent, stored>>

\* the same peer (same certificate) connects again after the DID document of the claimed node DID has changed:
\* every authentication is decided on the CURRENT document
Reauthenticate(ac) ==
    /\ phase = "authed"
    /\ phase' = "done"
    /\ authed' = (ac = "cert_matches")
    /\ Log([a |-> "Reauthenticate", case |-> ac, expect |-> IF ac = "cert_matches" THEN "authenticated" ELSE "refused"])
    /\ UNCHANGED <<sent, stored>>

Next ==
    \/ \E ac \in AuthCase : Reauthenticate(ac)
    \/ \E pc \in PeerClass, ks \in KeySit, tc \in TxClass, rq \in Request : Serve(pc, ks, tc, rq)
    \/ \E pc \in {"unauth", "auth_unlisted", "auth_listed"}, inc \in Incoming, hd \in BOOLEAN : Receive(pc, inc, hd)
    \/ \E kn \in ListKnown, pl \in ListPayload : ReceiveList(kn, pl)
    \/ \E ps \in PartSit : Create(ps)
    \/ \E ac \in AuthCase : Authenticate(ac)
Spec == Init /\ [][Next]_vars

\* C15: the payload of a private transaction leaves the node only in a TransactionPayload message, and (by the
\* definition of PayloadQueryAnswer) only towards an authenticated, listed peer from a node that can decrypt the list
PrivatePayloadConfined ==
    \A e \in sent : (e.private /\ e.carries) => e.kind = "TransactionPayload"
Confined2 == \A i \in 1..Len(hist) :
    (hist[i].a = "Serve" /\ hist[i].tx = "private" /\ hist[i].expect = "payload")
        => (hist[i].req = "PayloadQuery" /\ hist[i].peer = "auth_listed" /\ hist[i].key = "can_decrypt")
Emit == (Hist /\ phase \in {"done", "authed"}) => PrintT(ToJson(hist))
=============================================================================
