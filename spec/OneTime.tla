------------------------------ MODULE OneTime ------------------------------
(***************************************************************************)
(* C05 -- one-time secrets of the OAuth2 / OpenID4VP / OpenID4VCI flows of *)
(* nuts-node are honoured at most once.                                    *)
(*                                                                         *)
(* State: the entry of ONE secret value in the session cache               *)
(* (storage/session_inmemory.go: one gocache store shared by all           *)
(* SessionStoreImpl values) and the program counters of the HTTP requests  *)
(* that present this value.  Every action is ONE primitive operation of    *)
(* the gocache store (Get / Set / Delete) executed by one call site; the   *)
(* local computation up to the next primitive is part of the action.       *)
(*                                                                         *)
(* Call sites (kind):                                                      *)
(*  code     auth/api/iam/openid4vp.go handleAccessTokenRequest            *)
(*             defer Delete ; [checks] ; GetAndDelete ; [client_id, PKCE]  *)
(*  reqobj   auth/api/iam/api.go RequestJWTByGet / RequestJWTByPost        *)
(*             GetAndDelete ; [client_id, request_uri_method]              *)
(*  vpnonce  auth/api/iam/openid4vp.go validatePresentationNonce           *)
(*             [nonces differ: Delete each] | GetAndDelete ; [state, VP]   *)
(*  redirect auth/api/iam/user.go handleUserLanding                        *)
(*             GetAndDelete ; [session, metadata, ...]                     *)
(*  s2snonce auth/api/iam/s2s_vptoken.go validateS2SPresentationNonce      *)
(*             Lock ; Get ; Put (unconditional) ; Unlock ; [VerifyVP, ...] *)
(*  dpopjti  auth/api/iam/dpop.go ValidateDPoPProof                        *)
(*             Lock ; Get ; [miss] Put ; Unlock                            *)
(*  preauth  vcr/issuer/openid.go HandleAccessTokenRequest over            *)
(*           openid_store.go: Exists ; Get ; ... ; Delete                  *)
(*                                                                         *)
(* storage/session.go: GetAndDelete(k) == Get(k) ; [hit] Delete(k), i.e.   *)
(* two primitives.  The boolean constants below name each place where the  *)
(* code deviated (FALSE) from what the property needs (TRUE, prescriptive: *)
(* one indivisible step).  Three are repaired in the code (one mutex per   *)
(* site around lookup and burn: F6-code .. F6-redirect, F6-s2snonce,       *)
(* F6-dpopjti), so the descriptive configurations set them TRUE as well;   *)
(* AtomicPreAuthCode is still FALSE there (F6-preauth, open).              *)
(* The configurations that GENERATE schedules and that                     *)
(* validate recorded traces keep them FALSE (permissive variant, one       *)
(* action per primitive): the interleaved schedules are the ones on which  *)
(* code without the serialisation shows the double success, and the gated  *)
(* store records the two primitives of a serialised step separately.       *)
(*                                                                         *)
(* Request context.  "Requests presenting the same value" need not be      *)
(* copies of one another: the value may arrive in another legal request    *)
(* (another unauthenticated client_id / scope, with or without a DPoP      *)
(* header, on another tenant path, inside another presentation or proof,   *)
(* with a wallet_nonce, ...).  ctx[r] names the context of request r: "c0" *)
(* is the context the secret was issued for / first used in, "c1" any      *)
(* other context in which the request is still acceptable on its own.  The *)
(* property speaks about the VALUE, so the entry must be found under the   *)
(* value alone (KeyedByValueOnly = TRUE, what the code does).  The         *)
(* deviation KeyedByValueOnly = FALSE (the cache key / store partition     *)
(* depends on the context as well) gives every context its own entry.     *)
(***************************************************************************)
EXTENDS Naturals, FiniteSets, Sequences, TLC

CONSTANTS
    Kinds,                 \* call sites explored (subset of AllKinds); chosen in Init
    ReqSeq,                \* the requests presenting the secret, in a fixed order, e.g. <<"r1","r2">>
    MaxTick,               \* how often the validity window may elapse (0 or 1)
    AtomicGetAndDelete,    \* TRUE: SessionStore.GetAndDelete is one indivisible step
    AtomicS2SNonce,        \* TRUE: s2s nonce check-and-store is one indivisible step
    AtomicDPoPJti,         \* TRUE: DPoP jti check-and-store is one indivisible step
    AtomicPreAuthCode,     \* TRUE: pre-authorized code lookup-and-delete is one indivisible step
    MarkerOutlivesWindow,  \* TRUE: a "used" marker lives at least as long as the secret it guards is valid
    KeyedByValueOnly,      \* TRUE: the entry is looked up under the secret value alone; FALSE: under (request context, value)
    MaxAlt,                \* at most this many requests present the value in a context other than the original one
    SymBreak,              \* TRUE: only one representative per permutation of equal requests (generation)
    Hist                   \* TRUE: record the history (behaviour generation)

AllKinds    == {"code", "reqobj", "vpnonce", "redirect", "s2snonce", "dpopjti", "preauth"}
GadKinds    == {"code", "reqobj", "vpnonce", "redirect"}    \* entry consumed through SessionStore.GetAndDelete
MarkerKinds == {"s2snonce", "dpopjti"}                      \* absence of a marker = not used yet
EntryKinds  == AllKinds \ MarkerKinds                       \* presence of the entry = still valid

Reqs == {ReqSeq[i] : i \in 1..Len(ReqSeq)}

(* Flavours of a request:                                                  *)
(*  good   would be honoured if it were the only one                       *)
(*  bad    presents the secret, fails a check made AFTER the secret was    *)
(*         looked up (wrong client_id / code_verifier, wrong               *)
(*         request_uri_method, other state, presentation does not verify)  *)
(*  early  presents the secret, fails BEFORE the lookup but still burns it *)
(*         (code: missing code_verifier/client_id -> deferred Delete;      *)
(*          vpnonce: presentations carry different nonces -> Delete each)  *)
Flavours(k) == CASE k = "code"     -> {"good", "bad", "early"}
                 [] k = "vpnonce"  -> {"good", "bad", "early"}
                 [] k = "reqobj"   -> {"good", "bad"}
                 [] k = "redirect" -> {"good", "bad"}
                 [] k = "s2snonce" -> {"good", "bad"}
                 [] k = "dpopjti"  -> {"good"}
                 [] k = "preauth"  -> {"good"}
Rank(f) == CASE f = "good" -> 0 [] f = "bad" -> 1 [] f = "early" -> 2

(* Contexts: the sites whose request carries something besides the value.  *)
(* (redirect: the landing URL carries only the token; preauth: the handler *)
(* receives only the code.)                                                *)
AllCtx  == {"c0", "c1"}
Ctxs(k) == IF k \in {"redirect", "preauth"} THEN {"c0"} ELSE AllCtx
\* symmetry class of a request: flavour and context
CRank(f, c) == 2 * Rank(f) + (IF c = "c0" THEN 0 ELSE 1)

VARIABLES
    kind,      \* the call site of this behaviour (constant after Init)
    flav,      \* flavour of every request (constant after Init)
    ctx,       \* context of every request (constant after Init)
    cache,     \* per slot "present" / "absent": the cache entry under the secret's key (one slot unless the key depends on the context)
    pc,        \* per request: control point
    seen,      \* per request: did its (last) Get hit
    out,       \* per request: "pending" / "ok" / "refused"
    ticks,     \* number of elapsed validity windows
    lateRef,   \* per request: it arrived after a refused request had completed
    lateTick,  \* per request: it arrived after the validity window had elapsed
    hist

vars == <<kind, flav, ctx, cache, pc, seen, out, ticks, lateRef, lateTick, hist>>
view == <<kind, flav, ctx, cache, pc, seen, out, ticks, lateRef, lateTick>>

Log(e) == hist' = IF Hist THEN Append(hist, e) ELSE hist

Sorted(f, c) == \A i, j \in 1..Len(ReqSeq) : i < j => CRank(f[ReqSeq[i]], c[ReqSeq[i]]) <= CRank(f[ReqSeq[j]], c[ReqSeq[j]])

\* the slot of the cache a request looks into / writes to
Slot(r)   == IF KeyedByValueOnly THEN "c0" ELSE ctx[r]
Has(r)    == cache[Slot(r)] = "present"
Put(r, v) == cache' = [cache EXCEPT ![Slot(r)] = v]

Init ==
    /\ kind \in Kinds
    /\ flav \in [Reqs -> Flavours(kind)]
    /\ ctx \in [Reqs -> Ctxs(kind)]
    /\ Cardinality({r \in Reqs : ctx[r] # "c0"}) <= MaxAlt
    /\ SymBreak => Sorted(flav, ctx)
    \* the secret has been issued (in context c0) / never used
    /\ cache = [c \in AllCtx |-> IF kind \in MarkerKinds \/ c # "c0" THEN "absent" ELSE "present"]
    /\ pc = [r \in Reqs |-> "idle"]
    /\ seen = [r \in Reqs |-> FALSE]
    /\ out = [r \in Reqs |-> "pending"]
    /\ ticks = 0
    /\ lateRef = [r \in Reqs |-> FALSE]
    /\ lateTick = [r \in Reqs |-> FALSE]
    /\ hist = IF Hist THEN <<[a |-> "Init", kind |-> kind, flav |-> flav, ctx |-> ctx]>> ELSE <<>>

Done(r)  == pc[r] = "done"
\* some attempt that presented the secret has been answered with a refusal
Burnt    == \E q \in Reqs : Done(q) /\ out[q] = "refused"

\* symmetry breaking: among requests of equal flavour and context the one that comes first in ReqSeq arrives first
CanArrive(r) ==
    \/ ~SymBreak
    \/ \A i, j \in 1..Len(ReqSeq) :
          (ReqSeq[j] = r /\ i < j /\ flav[ReqSeq[i]] = flav[r] /\ ctx[ReqSeq[i]] = ctx[r]) => pc[ReqSeq[i]] # "idle"

\* the request's first primitive fixes its position in real time
Arrive(r) ==
    /\ pc[r] = "idle" /\ CanArrive(r)
    /\ lateRef'  = [lateRef  EXCEPT ![r] = Burnt]
    /\ lateTick' = [lateTick EXCEPT ![r] = ticks > 0]
NotArriving == UNCHANGED <<lateRef, lateTick>>

\* where the handler continues after its verdict: the code site still owes the deferred Delete
Epilogue(k) == IF k = "code" THEN "deferred" ELSE "done"
Verdict(r)  == IF flav[r] = "good" THEN "ok" ELSE "refused"

Goto(r, p)   == pc'  = [pc  EXCEPT ![r] = p]
Result(r, o) == out' = [out EXCEPT ![r] = o]

(***************************************************************************)
(* SessionStoreImpl.GetAndDelete (storage/session.go) at the four sites    *)
(* that use it.                                                            *)
(***************************************************************************)
\* s.Get(key, target)
GadGet(r) ==
    /\ kind \in GadKinds /\ ~AtomicGetAndDelete
    /\ flav[r] \in {"good", "bad"}
    /\ Arrive(r)
    /\ seen' = [seen EXCEPT ![r] = Has(r)]
    /\ IF Has(r)
         THEN Goto(r, "gad") /\ UNCHANGED out
         ELSE Goto(r, Epilogue(kind)) /\ Result(r, "refused")      \* ErrNotFound: "invalid ... code" etc.
    /\ Log([a |-> "GadGet", r |-> r, op |-> "get", hit |-> Has(r)])
    /\ UNCHANGED <<kind, flav, ctx, cache, ticks>>

\* s.underlying.Delete(key), then the checks of the handler on the value that was read
GadDel(r) ==
    /\ kind \in GadKinds /\ pc[r] = "gad"
    /\ Put(r, "absent")
    /\ Goto(r, Epilogue(kind)) /\ Result(r, Verdict(r))
    /\ Log([a |-> "GadDel", r |-> r, op |-> "delete"])
    /\ NotArriving /\ UNCHANGED <<kind, flav, ctx, seen, ticks>>

\* what the property needs: lookup and removal in one step
GadAtomic(r) ==
    /\ kind \in GadKinds /\ AtomicGetAndDelete
    /\ flav[r] \in {"good", "bad"}
    /\ Arrive(r)
    /\ seen' = [seen EXCEPT ![r] = Has(r)]
    /\ Put(r, "absent")
    /\ Goto(r, Epilogue(kind))
    /\ Result(r, IF Has(r) THEN Verdict(r) ELSE "refused")
    /\ Log([a |-> "GadAtomic", r |-> r, op |-> "getdel", hit |-> Has(r)])
    /\ UNCHANGED <<kind, flav, ctx, ticks>>

CodeGet(r)     == kind = "code"     /\ GadGet(r)
CodeDel(r)     == kind = "code"     /\ GadDel(r)
ReqObjGet(r)   == kind = "reqobj"   /\ GadGet(r)
ReqObjDel(r)   == kind = "reqobj"   /\ GadDel(r)
NonceGet(r)    == kind = "vpnonce"  /\ GadGet(r)
NonceDel(r)    == kind = "vpnonce"  /\ GadDel(r)
RedirectGet(r) == kind = "redirect" /\ GadGet(r)
RedirectDel(r) == kind = "redirect" /\ GadDel(r)

\* handleAccessTokenRequest: `defer oauthCodeStore().Delete(code)` runs on every path once the code is known;
\* a request that fails the parameter checks ("early") performs only this primitive
CodeDeferredDelete(r) ==
    /\ kind = "code"
    /\ \/ pc[r] = "deferred" /\ NotArriving /\ UNCHANGED out
       \/ flav[r] = "early" /\ Arrive(r) /\ Result(r, "refused")
    /\ Put(r, "absent")
    /\ Goto(r, "done")
    /\ Log([a |-> "CodeDeferredDelete", r |-> r, op |-> "delete"])
    /\ UNCHANGED <<kind, flav, ctx, seen, ticks>>

\* validatePresentationNonce: presentations with different nonces -> "burn them all"
NonceBurn(r) ==
    /\ kind = "vpnonce" /\ flav[r] = "early"
    /\ Arrive(r)
    /\ Put(r, "absent")
    /\ Goto(r, "done") /\ Result(r, "refused")
    /\ Log([a |-> "NonceBurn", r |-> r, op |-> "delete"])
    /\ UNCHANGED <<kind, flav, ctx, seen, ticks>>

(***************************************************************************)
(* validateS2SPresentationNonce: Get, then Put regardless of the result.   *)
(***************************************************************************)
S2SGet(r) ==
    /\ kind = "s2snonce" /\ ~AtomicS2SNonce
    /\ Arrive(r)
    /\ seen' = [seen EXCEPT ![r] = Has(r)]
    /\ Goto(r, "put")
    /\ Log([a |-> "S2SGet", r |-> r, op |-> "get", hit |-> Has(r)])
    /\ UNCHANGED <<kind, flav, ctx, cache, out, ticks>>

S2SPut(r) ==
    /\ kind = "s2snonce" /\ pc[r] = "put"
    /\ Put(r, "present")
    /\ Goto(r, "done") /\ Result(r, IF seen[r] THEN "refused" ELSE Verdict(r))
    /\ Log([a |-> "S2SPut", r |-> r, op |-> "set"])
    /\ NotArriving /\ UNCHANGED <<kind, flav, ctx, seen, ticks>>

S2SAtomic(r) ==
    /\ kind = "s2snonce" /\ AtomicS2SNonce
    /\ Arrive(r)
    /\ seen' = [seen EXCEPT ![r] = Has(r)]
    /\ Put(r, "present")
    /\ Goto(r, "done") /\ Result(r, IF Has(r) THEN "refused" ELSE Verdict(r))
    /\ Log([a |-> "S2SAtomic", r |-> r, op |-> "testset", hit |-> Has(r)])
    /\ UNCHANGED <<kind, flav, ctx, ticks>>

(***************************************************************************)
(* ValidateDPoPProof: Get; only on a miss Put.                             *)
(***************************************************************************)
JtiGet(r) ==
    /\ kind = "dpopjti" /\ ~AtomicDPoPJti
    /\ Arrive(r)
    /\ seen' = [seen EXCEPT ![r] = Has(r)]
    /\ IF Has(r)
         THEN Goto(r, "done") /\ Result(r, "refused")              \* "jti already used"
         ELSE Goto(r, "put") /\ UNCHANGED out
    /\ Log([a |-> "JtiGet", r |-> r, op |-> "get", hit |-> Has(r)])
    /\ UNCHANGED <<kind, flav, ctx, cache, ticks>>

JtiPut(r) ==
    /\ kind = "dpopjti" /\ pc[r] = "put"
    /\ Put(r, "present")
    /\ Goto(r, "done") /\ Result(r, "ok")
    /\ Log([a |-> "JtiPut", r |-> r, op |-> "set"])
    /\ NotArriving /\ UNCHANGED <<kind, flav, ctx, seen, ticks>>

JtiAtomic(r) ==
    /\ kind = "dpopjti" /\ AtomicDPoPJti
    /\ Arrive(r)
    /\ seen' = [seen EXCEPT ![r] = Has(r)]
    /\ Put(r, "present")
    /\ Goto(r, "done") /\ Result(r, IF Has(r) THEN "refused" ELSE "ok")
    /\ Log([a |-> "JtiAtomic", r |-> r, op |-> "testset", hit |-> Has(r)])
    /\ UNCHANGED <<kind, flav, ctx, ticks>>

(***************************************************************************)
(* OpenID4VCI pre-authorized code: openidMemoryStore.FindByReference =     *)
(* Exists(code) ; Get(code) ; Get(flow) and, after two new references were *)
(* stored, DeleteReference(code).                                          *)
(***************************************************************************)
PreExists(r) ==
    /\ kind = "preauth" /\ ~AtomicPreAuthCode
    /\ Arrive(r)
    /\ seen' = [seen EXCEPT ![r] = Has(r)]
    /\ IF Has(r)
         THEN Goto(r, "get") /\ UNCHANGED out
         ELSE Goto(r, "done") /\ Result(r, "refused")              \* "unknown pre-authorized code"
    /\ Log([a |-> "PreExists", r |-> r, op |-> "get", hit |-> Has(r)])
    /\ UNCHANGED <<kind, flav, ctx, cache, ticks>>

PreGet(r) ==
    /\ kind = "preauth" /\ pc[r] = "get"
    /\ seen' = [seen EXCEPT ![r] = Has(r)]
    /\ IF Has(r)
         THEN Goto(r, "del") /\ UNCHANGED out
         ELSE Goto(r, "done") /\ Result(r, "refused")              \* ErrNotFound from refStore.Get
    /\ Log([a |-> "PreGet", r |-> r, op |-> "get", hit |-> Has(r)])
    /\ NotArriving /\ UNCHANGED <<kind, flav, ctx, cache, ticks>>

PreDel(r) ==
    /\ kind = "preauth" /\ pc[r] = "del"
    /\ Put(r, "absent")
    /\ Goto(r, "done") /\ Result(r, "ok")
    /\ Log([a |-> "PreDel", r |-> r, op |-> "delete"])
    /\ NotArriving /\ UNCHANGED <<kind, flav, ctx, seen, ticks>>

PreAtomic(r) ==
    /\ kind = "preauth" /\ AtomicPreAuthCode
    /\ Arrive(r)
    /\ seen' = [seen EXCEPT ![r] = Has(r)]
    /\ Put(r, "absent")
    /\ Goto(r, "done") /\ Result(r, IF Has(r) THEN "ok" ELSE "refused")
    /\ Log([a |-> "PreAtomic", r |-> r, op |-> "getdel", hit |-> Has(r)])
    /\ UNCHANGED <<kind, flav, ctx, ticks>>

(***************************************************************************)
(* Time.  For an entry kind Tick = "the TTL of the entry elapses" (gocache *)
(* drops it).  For a marker kind Tick = "time advances to the end of the   *)
(* validity of the guarded secret" (VP expiry, access token lifetime): the *)
(* marker survives iff its TTL is at least that long.                      *)
(***************************************************************************)
Tick ==
    /\ ticks < MaxTick
    /\ \E r \in Reqs : ~Done(r)
    /\ ticks' = ticks + 1
    /\ cache' = IF kind \in EntryKinds \/ ~MarkerOutlivesWindow THEN [c \in AllCtx |-> "absent"] ELSE cache
    /\ Log([a |-> "Tick"])
    /\ NotArriving /\ UNCHANGED <<kind, flav, ctx, pc, seen, out>>

Step(r) ==
    \/ CodeGet(r) \/ CodeDel(r) \/ CodeDeferredDelete(r)
    \/ ReqObjGet(r) \/ ReqObjDel(r)
    \/ NonceGet(r) \/ NonceDel(r) \/ NonceBurn(r)
    \/ RedirectGet(r) \/ RedirectDel(r)
    \/ GadAtomic(r)
    \/ S2SGet(r) \/ S2SPut(r) \/ S2SAtomic(r)
    \/ JtiGet(r) \/ JtiPut(r) \/ JtiAtomic(r)
    \/ PreExists(r) \/ PreGet(r) \/ PreDel(r) \/ PreAtomic(r)

Next == Tick \/ \E r \in Reqs : Step(r)

Spec == Init /\ [][Next]_vars

Terminal == \A r \in Reqs : Done(r)

(***************************************************************************)
(* Properties (C05)                                                        *)
(***************************************************************************)
TypeOK ==
    /\ kind \in AllKinds
    /\ flav \in [Reqs -> {"good", "bad", "early"}]
    /\ ctx \in [Reqs -> AllCtx]
    /\ cache \in [AllCtx -> {"present", "absent"}]
    /\ KeyedByValueOnly => cache["c1"] = "absent"
    /\ pc \in [Reqs -> {"idle", "gad", "deferred", "put", "get", "del", "done"}]
    /\ out \in [Reqs -> {"pending", "ok", "refused"}]
    /\ \A r \in Reqs : Done(r) => out[r] # "pending"

\* of all requests presenting the same value at most one succeeds
AtMostOnce == Cardinality({r \in Reqs : out[r] = "ok"}) <= 1

\* an authorization code is dead once a redemption attempt has been refused
DeadAfterFailedRedemption == kind = "code" => \A r \in Reqs : lateRef[r] => out[r] # "ok"

\* nothing is honoured after its validity window
NoSuccessAfterExpiry == kind \in EntryKinds => \A r \in Reqs : lateTick[r] => out[r] # "ok"

=============================================================================
