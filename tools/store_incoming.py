#!/usr/bin/env python3
"""usage: tools/store_incoming.py <incoming-dir-name> <PROP> <round-tag e.g. r3> [history text for m1] [history text for m2]
Moves an evaluated incoming change (seeded_incoming/<dir>/mN.{diff,json,result.txt}, mN_demo_test.go) to seeded/<PROP>-<tag>mN/."""
import json, os, shutil, sys
inc, prop, tag = sys.argv[1:4]
hist = sys.argv[4:6]
d = "/verif/seeded_incoming/" + inc
for i, m in enumerate(("m1", "m2")):
    if not os.path.exists(f"{d}/{m}.diff"):
        continue
    sid = f"{prop}-{tag}{m}"
    s = "/verif/seeded/" + sid
    os.makedirs(s, exist_ok=True)
    shutil.copy(f"{d}/{m}.diff", s + "/patch.diff")
    shutil.copy(f"{d}/{m}_demo_test.go", s + "/demo_test.go.txt")
    meta = json.load(open(f"{d}/{m}.json"))
    res = open(f"{d}/{m}.result.txt").read() if os.path.exists(f"{d}/{m}.result.txt") else ""
    open(s + "/result.txt", "w").write(res)
    rc = res.split("\n")[0].strip()
    vio = [l for l in res.split("\n") if l.startswith("VIOLATION")]
    meta.update({"id": sid, "property": prop,
                 "author": "independent sub-agent given only the property text, the summaries of earlier rounds' changes (to avoid) and a scratch checkout",
                 "detection": f"./check {prop} --tier quick -> {rc} " + (vio[0][:200] if vio else ""),
                 "history": hist[i] if i < len(hist) and hist[i] else ("caught by the check as it was" if rc == "rc=1" else "see DESIGN 9.6"),
                 })
    json.dump(meta, open(s + "/meta.json", "w"), indent=1)
    print("stored", sid, rc)
