#!/usr/bin/env python3
"""Regenerates MANIFEST.json from tools/manifest_src.json (one entry per claimed property)."""
import json, os
root = os.path.dirname(os.path.dirname(os.path.abspath(__file__)))
src = json.load(open(os.path.join(root, "tools", "manifest_src.json")))
props = [json.loads(l)["id"] for l in open(os.path.join(root, "properties.jsonl"))]
checks = []
for pid in props:
    c = src["checks"].get(pid)
    if not c:
        continue
    checks.append({
        "property_id": pid,
        "quick_cmd": "./check %s --tier quick" % pid,
        "thorough_cmd": "./check %s --tier thorough" % pid,
        "evidence_file": "/verif/evidence/%s.json" % pid,
        "replay_cmd_template": "./check %s --replay {path}" % pid,
        "engine": c["engine"],
        "level_claimed": {"category": c["level"], "text": c["text"], "design_ref": c["design_ref"]},
        "level_note": c["note"],
        "technique": c["technique"],
    })
na = [{"property_id": p, "reason": src["not_applicable"].get(p, "check not built yet in this session (see DESIGN.md section 9 for status)")}
      for p in props if p not in src["checks"]]
m = {
    "version": 1,
    "setup_cmd": "./tools/setup.sh",
    "hooks": {"guard": "verif", "enable": "none needed: shims are added at build time with `go test -overlay` (harness/overlay.json); no hook lives in /repo",
              "baseline_off_cmd": "cd /repo && go test -mod=mod -vet=off -count=1 -timeout 25m ./...",
              "source_commits": [], "add_only": True},
    "engines": src["engines"],
    "checks": checks,
    "notes": src["notes"],
    "not_applicable": na,
}
json.dump(m, open(os.path.join(root, "MANIFEST.json"), "w"), indent=1)
print("claimed:", [c["property_id"] for c in checks])
