#!/bin/bash
# usage: tools/trymutant2.sh <patch.diff> <PROP> [tier] [seed]
# Like trymutant.sh, but touches neither /repo nor /verif: the patch is applied to a scratch worktree of /repo and the
# check runs from a scratch copy of /verif with VERIF_REPO pointing at it (so concurrent checks are not disturbed).
set -u
patch=$(readlink -f "$1"); prop=$2; tier=${3:-quick}; seed=${4:-1}
W=/tmp/mw.$$; mkdir -p $W
git -C /repo worktree add --detach -q $W/repo HEAD || exit 9
( cd $W/repo && git apply "$patch" ) || { echo "PATCH DOES NOT APPLY"; git -C /repo worktree remove --force $W/repo; rm -rf $W; exit 9; }
rsync -a --exclude .git --exclude replays --exclude harness/bin --exclude __pycache__ --exclude seeded --exclude seeded_incoming /verif/ $W/verif/
cd $W/verif
VERIF_REPO=$W/repo timeout 2400 ./check "$prop" --tier "$tier" --seed "$seed" > $W/log 2>&1
rc=$?
echo "rc=$rc"; grep -E "^(VIOLATION|KNOWN-FINDING|INCONCLUSIVE|OK|DRIFT)" $W/log | cut -c1-300 | head -12
cd /; git -C /repo worktree remove --force $W/repo; git -C /repo worktree prune; rm -rf $W
