#!/bin/bash
# Evaluates every seeded change against the CURRENT checks (quick tier): writes seeded/<id>/result.txt.  Needs exclusive use of /repo.
cd /verif
for d in seeded/*/; do
  id=$(basename $d); prop=${id%%-*}
  patch=$d/patch.diff; [ -f $d/patch.rebased.diff ] && patch=$d/patch.rebased.diff
  echo "== $id"
  tools/trymutant.sh /verif/$patch $prop > $d/result.txt 2>&1
  grep -E "^rc=|^VIOLATION|PATCH" $d/result.txt | cut -c1-200 | head -3
done
