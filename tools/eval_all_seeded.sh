#!/bin/bash
# Evaluates seeded changes against the CURRENT checks (quick tier) in isolated scratch copies (tools/trymutant2.sh):
# writes seeded/<id>/result.txt.  usage: tools/eval_all_seeded.sh [id ...]   (default: all)   PAR=<n> parallel runs (default 3)
cd /verif
ids=("$@"); [ ${#ids[@]} -eq 0 ] && ids=($(ls -d seeded/*/ | xargs -n1 basename))
one() {
  id=$1; prop=${id%%-*}; d=/verif/seeded/$id
  patch=$d/patch.diff; [ -d $d ] || exit 0; [ -f $d/patch.rebased.diff ] && patch=$d/patch.rebased.diff
  /verif/tools/trymutant2.sh $patch $prop > $d/result.txt 2>&1
  echo "== $id $(grep -E '^rc=|PATCH' $d/result.txt | head -1) $(grep -m1 -E '^VIOLATION' $d/result.txt | sed 's/.*replays.//' | cut -c1-80)"
}
export -f one
printf '%s\n' "${ids[@]}" | xargs -P ${PAR:-3} -I{} bash -c 'one {}'
