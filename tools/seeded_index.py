#!/usr/bin/env python3
"""Writes seeded/INDEX.md from seeded/*/meta.json, confirm.log and result.txt."""
import json, os, re
root = os.path.join(os.path.dirname(os.path.abspath(__file__)), "..", "seeded")
rows = []
for sid in sorted(os.listdir(root)):
    d = os.path.join(root, sid)
    if not os.path.isfile(os.path.join(d, "meta.json")):
        continue
    m = json.load(open(os.path.join(d, "meta.json")))
    conf = ""
    if os.path.exists(os.path.join(d, "confirm.log")):
        s = re.findall(r"SUMMARY .*", open(os.path.join(d, "confirm.log")).read())
        conf = s[-1].split(" ", 2)[2] if s else ""
    res = ""
    if os.path.exists(os.path.join(d, "result.txt")):
        t = open(os.path.join(d, "result.txt")).read()
        rc = re.search(r"^rc=(\d+)", t, re.M)
        kinds = sorted(set(re.findall(r'"kind": "([^"]+)"', t)))
        res = ("exit " + rc.group(1) if rc else "?") + ((" (" + ", ".join(kinds[:4]) + ")") if kinds else "")
    esc = lambda x: str(x).replace("|", "\\|").replace("\n", " ")
    rows.append("| %s | %s | %s | %s | %s | %s |" % (sid, esc(m.get("summary", ""))[:260], esc(m.get("needs", ""))[:200], conf, res,
                                              esc(m.get("history", m.get("detection", "")))[:260]))
out = ["# Seeded changes", "",
       "One row per independently produced defective variant (sub-agent given the property text and a scratch checkout only).",
       "`confirm` = my re-confirmation in a scratch worktree (tools/confirm_seeded.sh): demo without change / build / package tests / demo with change (0 = ok, 1 = fails).",
       "`check` = verdict of `./check <PROP> --tier quick` on the tree with the change (tools/eval_all_seeded.sh, isolated copies).", "",
       "| id | change | needs | confirm | check | history / detection |", "|---|---|---|---|---|---|"] + rows
open(os.path.join(root, "INDEX.md"), "w").write("\n".join(out) + "\n")
print(len(rows), "rows")
