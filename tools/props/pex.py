"""C12: Pex.tla <-> vcr/pe (real Match / Build / Validate / ResolveConstraintsFields).

1. TLC proves the C12 invariants for the PRESCRIPTIVE configuration of Pex.tla (all deviation constants TRUE).
2. TLC enumerates, from the DESCRIPTIVE configuration (the current code), every abstract case
   (definition x wallet [x envelope shape x submission mutation]) and prints it with the expectations the TLA+
   reference matcher computes (sat sets, valid selections, must-reject verdicts, admissible extracted values)
   plus the outcome the descriptive model predicts.
3. The Go driver concretises every case (schema-validated JSON definition, real VCs/VPs) and judges the REAL outcomes
   against the reference expectations (VIOLATION) and against the descriptive prediction (DRIFT).
"""
import collections, json, os, random, re, shutil, time
from .. import vlib
from ..vlib import Report, Inconclusive

PROPS = ["C12"]

INVARIANTS = ["WalletSelectsOnlySatisfying", "NoPartialSelection", "NoFalseMissing", "NoPanic", "WalletVerifierAgree",
              "ForgedMappingRejected", "ExtractedValueIsPresentValue"]
# deviation constant (FALSE = the code still deviates) -> invariants the descriptive model then violates
DEVIATION_BREAKS = {"PickMaxOptional": ["NoPanic"], "ArrayNoFallThrough": ["NoPanic", "WalletSelectsOnlySatisfying"],
                    "MapEveryDescriptor": ["NoPartialSelection"], "MaxBoundsSelection": ["NoPartialSelection"],
                    "WalletNormalises": ["WalletVerifierAgree"], "ResolveChecksEveryEntry": ["ForgedMappingRejected"]}


def deviation_constants(cfg):
    txt = open(os.path.join(vlib.SPEC, "cfg", cfg)).read()
    return {k: v == "TRUE" for k, v in re.findall(r"^\s*(\w+) = (TRUE|FALSE)\s*$", txt, re.M) if k in DEVIATION_BREAKS}
ACTIONS = ["ChooseDef", "ChooseWallet", "WalletMatch", "Build", "PresentIncomplete", "MutateSubmission", "VerifierValidate"]
WORKERS = 8


def signature(v):
    """Signature of a violation: its kind + the class of input that triggers it (never the concrete case)."""
    k = v["kind"]
    if k in ("selected-unsatisfying", "false-missing-credentials"):
        return dict(kind=k, filter=v.get("filter", ""))
    if k == "forged-accepted":
        return dict(kind=k, mut=v.get("mut", ""))
    return dict(kind=k, shape=v.get("shape", ""))


def check_pattern_table(rows):
    """The regular-expression table of MCPex.tla is checked against an independent engine (python re)."""
    bad = []
    for r in rows:
        m = re.search(r["p"], r["s"])
        if m is None:
            got = ("no", "")
        elif m.re.groups == 0:
            got = ("whole", m.group(0))
        elif m.re.groups == 1:
            got = ("group", m.group(1))
        else:
            got = ("multi", "")
        if got != (r["m"], r["cap"]):
            bad.append((r, got))
    return bad


def action_coverage():
    d = vlib.scratch("pexdot")
    try:
        f = os.path.join(d, "graph.dot")
        r = vlib.tlc("MCPex", "Pex.cover.cfg", workers=1, timeout=600, extra=["-dump", "dot,actionlabels", f])
        if not r.ok or not os.path.exists(f):
            raise Inconclusive("vacuity run failed: %s %s" % (r.violation, r.error))
        return dict(collections.Counter(re.findall(r'label="(\w+)"', open(f).read())))
    finally:
        shutil.rmtree(d, ignore_errors=True)


def canonical(c):
    return json.dumps({k: c[k] for k in ("fam", "def", "wallet")}, sort_keys=True)


def sort_sets(o):
    """TLC prints sets in its own order; normalise so that the output is the same for every run."""
    if isinstance(o, dict):
        return {k: sort_sets(v) for k, v in o.items()}
    if isinstance(o, list):
        return [sort_sets(v) for v in o]
    return o


def normalise(c):
    e = c["exp"]
    e["dev"] = sorted(e["dev"], key=lambda x: json.dumps(x, sort_keys=True))
    e["extract"] = sorted(e["extract"], key=lambda x: json.dumps(x, sort_keys=True))
    e["valid"] = sorted(sorted(v) for v in e["valid"])
    for r in e["sat"]:
        r["cs"] = sorted(r["cs"])
    for d in c["def"]["ds"]:
        d["grp"] = sorted(d["grp"])
    c["subs"] = sorted(c["subs"], key=lambda x: json.dumps(x, sort_keys=True))
    return c


def generate(tier):
    g = vlib.tlc("MCPex", "Pex.gen.%s.cfg" % tier, workers=WORKERS, timeout=1500)
    if not g.ok:
        raise Inconclusive("case generation failed: %s %s\n%s" % (g.violation, g.error, g.raw[-2000:]))
    tables = [p for p in g.printed if isinstance(p, dict) and p.get("tbl") == "pat"]
    if not tables:
        raise Inconclusive("the specification did not print its regular-expression table")
    bad = check_pattern_table(tables[0]["rows"])
    if bad:
        raise Inconclusive("regular-expression table of MCPex.tla disagrees with python re: %s" % bad[:3])
    cases = {}
    for p in g.printed:
        if isinstance(p, dict) and "def" in p:
            cases[canonical(p)] = normalise(p)
    out = [cases[k] for k in sorted(cases)]
    for i, c in enumerate(out):
        c["id"] = "%s-%06d" % (c["fam"], i)
    return g, out


def select(cases, tier, rnd):
    """quick: every case of the small families, and a seeded sample of the big one stratified by predicted class."""
    if tier != "quick":
        return cases
    keep, strata = [], {}
    for c in cases:
        if c["fam"] != "reqs":
            keep.append(c)
        else:
            strata.setdefault((c["exp"]["class"], c["exp"]["pred"]["res"]), []).append(c)
    for k in sorted(strata):
        s = strata[k]
        n = max(150, len(s) * 2 // 5)
        keep += s if len(s) <= n else rnd.sample(s, n)
    keep.sort(key=lambda c: c["id"])
    return keep


def brief(c):
    """Compact rendering of a case for evidence samples."""
    def req(r):
        s = r["rule"] + "".join(" %s=%d" % (k, r[k][0]) for k in ("count", "min", "max") if r[k])
        return s + (" from " + r["from"] if not r["nested"] else " from_nested[" + "; ".join(req(x) for x in r["nested"]) + "]")
    def flt(f):
        if not f["flt"]:
            return "|".join(f["path"]) + ": any" + (" optional" if f["opt"] else "")
        x = f["flt"][0]
        return "|".join(f["path"]) + ": " + json.dumps({k: v for k, v in (("type", x["type"]), ("const", x["const"]), ("enum", x["enum"]), ("pattern", x["pat"])) if v}) + (" optional" if f["opt"] else "")
    def val(v):
        if v["k"] == "a":
            return [val(e) for e in v["a"]]
        return {"s": v["s"], "n": v["n"], "b": bool(v["n"]), "none": None}[v["k"]]
    return dict(family=c["fam"], definition_format=c["def"]["fmt"],
                descriptors=["%s {%s} format=%s group=%s" % (d["id"], "; ".join(flt(f) for f in d["fields"]), d["fmt"], ",".join(d["grp"])) for d in c["def"]["ds"]],
                requirements=[req(r) for r in c["def"]["reqs"]],
                wallet=["%s(%s f=%s%s)" % (w["name"], w["fmt"], json.dumps(val(w["f"])), "" if w["g"]["k"] == "none" else " g=" + json.dumps(val(w["g"])))
                        for w in c["wallet"]],
                reference=dict(sat={r["d"]: r["cs"] for r in c["exp"]["sat"]}, valid_descriptor_sets=c["exp"]["valid"],
                               complete_selection_exists=c["exp"]["complete"], wallet_must_find_it=c["exp"]["mustfind"]),
                model_prediction=dict(c["exp"]["pred"], deviation_class=c["exp"]["class"]),
                submissions=["%s/%s must=%s" % (s["shape"], s["mut"], s["must"]) for s in c["subs"][:12]])


def judge(rep, prop, cases, results, corrupt=""):
    byid = {c["id"]: c for c in cases}
    stats = dict(checks=0, calls=0, drift_cases=0, errors=0, real={}, viol_cases=0)
    drift_notes, seen_drift = [], set()
    for r in results:
        c = byid[r["id"]]
        stats["checks"] += r.get("checks", 0)
        stats["calls"] += r.get("calls", 0)
        stats["real"][r.get("real", "")] = stats["real"].get(r.get("real", ""), 0) + 1
        if r.get("error"):
            stats["errors"] += 1
            rep.inconclusive.append("case %s: %s" % (r["id"], r["error"][:300]))
        if r["violations"]:
            stats["viol_cases"] += 1
        for v in r["violations"]:
            rep.violation(signature(v), dict(property=prop, violation=v, input=dict(cases=[c], corrupt=corrupt)))
        drift = list(r.get("drift") or [])
        cls = c["exp"]["class"]
        if cls not in ("none", "") and not r["violations"] and not r.get("error"):
            drift.append("deviation class %s predicted by the descriptive model was not observed (repaired? then switch the constant in the cfg)" % cls)
        if drift:
            stats["drift_cases"] += 1
        for d in drift:
            k = re.sub(r"[0-9]+", "#", d)[:70]
            if k not in seen_drift and len(drift_notes) < 6:
                seen_drift.add(k)
                drift_notes.append("DRIFT: case %s: %s" % (r["id"], d[:300].replace("\n", " | ")))
    return stats, drift_notes


def run(prop, tier, seed, replay=None):
    t0 = time.time()
    rep = Report(prop)
    corrupt = os.environ.get("VERIF_PEX_CORRUPT", "")      # binding self-test: "sat" | "verdict"
    if replay:
        obj = json.load(open(replay))
        binary = vlib.build_driver("pex")
        inp = dict(obj["input"], verbose=True)
        res = vlib.run_driver(binary, inp)
        for r in res:
            print(json.dumps(r)[:6000])
        judge(rep, prop, inp["cases"], res, inp.get("corrupt", ""))
        return rep.finish()

    quick = tier == "quick"
    rnd = random.Random(seed)
    binary = vlib.build_driver("pex")

    # 1. the prescriptive design satisfies the five invariants (+ NoPanic) on every case of the configuration
    m = vlib.tlc("MCPex", "Pex.check.%s.cfg" % tier, workers=WORKERS, timeout=2400)
    if m.error:
        raise Inconclusive("TLC Pex.check: %s\n%s" % (m.error, m.raw[-1500:]))
    if m.violation:
        raise Inconclusive("the prescriptive model violates %s (specification must be repaired):\n%s" % (m.violation, m.raw[-3000:]))
    models = [dict(cfg="Pex.check.%s.cfg" % tier, states=m.distinct, transitions=m.generated, depth=m.depth, wall_s=round(m.wall, 1), invariants=INVARIANTS)]
    cover = {}
    if not quick:
        # vacuity guard (TLC -coverage does not terminate on the recursive operators of this module): the state graph of
        # the one-case family `mini` is dumped with action labels; every action must label an edge
        cover = action_coverage()
        missing = [a for a in ACTIONS if not cover.get(a)]
        if missing:
            raise Inconclusive("vacuity: actions never fired in the model: %s" % missing)
        # every deviation constant is observable: the descriptive model violates the corresponding invariant
        devs = deviation_constants("Pex.gen.%s.cfg" % tier)
        expected = sorted({inv for k, on in devs.items() if not on for inv in DEVIATION_BREAKS[k]})
        for inv in expected:
            if deviation_constants("Pex.descr.%s.cfg" % inv) != devs:
                raise Inconclusive("spec/cfg/Pex.descr.%s.cfg does not carry the deviation constants of Pex.gen.%s.cfg" % (inv, tier))
            d = vlib.tlc("MCPex", "Pex.descr.%s.cfg" % inv, workers=WORKERS, timeout=900)
            if d.error:
                raise Inconclusive("TLC Pex.descr.%s: %s" % (inv, d.error))
            models.append(dict(cfg="Pex.descr.%s.cfg" % inv, expected_violation=inv, violated=d.violation))
            if d.violation != inv:
                rep.notes.append("DRIFT: the descriptive model no longer violates %s (deviation constants out of date?)" % inv)

        # the dimension "several paths of a field select a value" is observable: with the defect class "the first path that
        # selects a value decides" the model violates NoFalseMissing on the family paths
        d = vlib.tlc("MCPex", "Pex.vac.PathsIncremental.cfg", workers=WORKERS, timeout=900)
        if d.error:
            raise Inconclusive("TLC Pex.vac.PathsIncremental: %s" % d.error)
        models.append(dict(cfg="Pex.vac.PathsIncremental.cfg", expected_violation="NoFalseMissing", violated=d.violation))
        if d.violation != "NoFalseMissing":
            raise Inconclusive("vacuity: the family paths does not distinguish `the first path that selects a value decides` (NoFalseMissing held)")

    # 2. TLC enumerates the cases with their expected outcomes
    g, cases = generate(tier)
    models.append(dict(cfg="Pex.gen.%s.cfg" % tier, states=g.distinct, transitions=g.generated, depth=g.depth, wall_s=round(g.wall, 1), cases_printed=len(cases)))
    chosen = select(cases, tier, rnd)
    order = list(chosen)
    rnd.shuffle(order)            # the seed also decides which cases share a driver process (credential cache)

    # 3. real code
    results = vlib.run_driver_parallel(binary, dict(cases=order, corrupt=corrupt), key="cases", shards=8, timeout=1500)
    if len(results) != len(order):
        raise Inconclusive("driver returned %d results for %d cases" % (len(results), len(order)))
    results.sort(key=lambda r: r["id"])

    # 4. verdicts
    stats, drift_notes = judge(rep, prop, chosen, results, corrupt)
    rep.notes += drift_notes
    if stats["errors"] <= 0:
        rep.inconclusive = []
    if stats["drift_cases"] > max(5, len(results) // 50) and not rep.violations:
        rep.inconclusive.append("%d of %d cases deviate from the descriptive model (specification/code drift)" % (stats["drift_cases"], len(results)))

    byid = {r["id"]: r for r in results}
    nontrivial = set()
    n_sub = n_sub_reject = n_inc = 0
    fam_count, class_count = {}, {}
    for c in chosen:
        r = byid[c["id"]]
        fam_count[c["fam"]] = fam_count.get(c["fam"], 0) + 1
        class_count[c["exp"]["class"]] = class_count.get(c["exp"]["class"], 0) + 1
        selected = r.get("real") == "ok" and c["exp"]["pred"]["res"] == "ok" and len(c["exp"]["pred"]["map"]) > 0
        must_fail = (not c["exp"]["complete"]) and any(row["cs"] for row in c["exp"]["sat"])
        if selected or must_fail or r.get("real") == "panic":
            nontrivial.add(canonical(c))
        for s in c["subs"]:
            independent = s["mut"] == "incomplete" and s.get("ek") != "partial-vp"
            if r.get("real") == "ok" or independent:
                if s["mut"] != "none":
                    n_sub += 1
                    n_sub_reject += s["must"] == "reject"
                    n_inc += s["mut"] == "incomplete"
                    nontrivial.add(canonical(c) + json.dumps(s, sort_keys=True))
    samples, seen = [], set()
    for c in chosen:
        k = (c["fam"], c["exp"]["class"])
        if k not in seen and (c["exp"]["pred"]["res"] != "error" or c["fam"] == "format") and len(samples) < 12:
            seen.add(k)
            samples.append(brief(c))
    cov = dict(evaluations=stats["checks"], distinct_nontrivial=len(nontrivial), samples=samples, exhaustive=not quick,
               cases_enumerated_by_tlc=len(cases), cases_replayed_on_real_code=len(chosen), real_calls=stats["calls"],
               cases_by_family=fam_count, cases_by_predicted_deviation_class=class_count, real_match_outcomes=stats["real"],
               mutated_submissions_validated=n_sub, mutated_submissions_that_must_be_rejected=n_sub_reject,
               of_which_over_incomplete_envelopes=n_inc,
               cases_with_violation=stats["viol_cases"], drift_cases=stats["drift_cases"], models=models, action_coverage_mini_family=cover,
               known_findings_seen=sorted(rep.known),
               rule="TLC enumerates every (definition, wallet) pair of five families of MCPex.tla (filters: every filter kind x value kind x "
                    "credential format; paths: a field listing several paths x filter kind x optional x credentials carrying every pair of "
                    "values at two of the paths, so that the first, a later, several or none of the paths select a value that passes or "
                    "fails the filter; format: definition x descriptor format designations; reqs: <=3 descriptors x every schema-valid "
                    "submission-requirement shape incl. nested two levels x wallets of <=%d credentials; forge: every mutation of the built "
                    "submission x 6 envelope shapes) and prints each with the expectations of the TLA+ reference matcher; each printed case is "
                    "concretised and run on the real Match/Build/Validate/ResolveConstraintsFields%s. evaluations = oracle decisions taken on "
                    "real outcomes. distinct_nontrivial = distinct (definition, wallet) pairs in which the real wallet selected at least one "
                    "credential, or panicked, or the reference says no complete selection exists although the wallet holds a credential that "
                    "satisfies at least one descriptor (near miss), plus distinct mutated submissions validated; pairs where an empty or "
                    "unrelated wallet trivially fails, or a complete wallet is refused for another reason, are not counted. "
                    "A wallet answer `missing credentials` is judged false (false-missing-credentials) only for definitions without nested "
                    "requirements and with every group referenced (mustfind)."
                    % (3 if quick else 4, " (quick: all small families + a seeded 40%% sample of the reqs family stratified by predicted class)" if quick else ""))
    vlib.write_evidence(prop, tier, seed, "exploration", cov, time.time() - t0, len(rep.violations),
                        ["go-did parses/marshals credentials and presentations as the node does (same library)",
                         "PaesslerAG/jsonpath and regexp2 behave on the generated paths/patterns as python re does on the pattern table (checked for the table)",
                         "credential and presentation signatures are not verified by vcr/pe (dummy proofs, throw-away ES256 key)",
                         "small scope: <=3 input descriptors, <=2 fields per descriptor, <=3 paths per field (two claims + $.type), <=4 credentials, <=2 groups per requirement level (3 for two-level nesting), one wallet per presentation",
                         "submission requirements: each descriptor belongs to one group except in `all`-only definitions; a nested `pick` is valid under either counting reading (touched / satisfied)",
                         "the presentation format label of a path_nested hop (ldp_vp/jwt_vp) is not judged: the code only decodes ldp_vp hops"])
    print("C12: %d cases enumerated by TLC, %d replayed, %d oracle decisions, %d mutated submissions (%d must be rejected), %d drift cases, %.0f s"
          % (len(cases), len(chosen), stats["checks"], n_sub, n_sub_reject, stats["drift_cases"], time.time() - t0))
    return rep.finish()
