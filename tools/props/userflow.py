"""X12 (extension): UserFlow.tla <-> the OpenID4VP authorization-code flow with a user wallet (auth/api/iam: user.go, openid4vp.go,
api.go Callback / RetrieveAccessToken / RequestJWTByGet / -Post, jar.go, session.go; http/user session middleware).
Two real in-process nodes behind recording fronts; behaviours of the descriptive variant of the specification (steps of the client
application, two browsers and an attacker who mixes the values of two flows) are replayed over the real HTTP endpoints, a
self-contained oracle judges U1..U5 on the real observables, and every recorded run is validated by TLC against TraceUserFlow.tla."""
import json, os, random, time
from .. import vlib
from ..vlib import Report, Inconclusive

PROPS = ["X12"]

FAMILIES = ["users", "tenants", "verifiers"]
ACTIONS = ["Start", "Land", "AuthV", "AuthW", "Callback", "Retrieve", "FetchA", "FetchB", "Post", "TokenGuess", "Forged", "Tick"]

# deviations of the code from the statement: signature (kind, site) -> deviation constant of UserFlow.tla
EXPECTED = {
    ("cross-accepted", "redirect-token/tenant"): "LandingChecksTenant",
    ("token-foreign-user", "introspect"): "WalletPerUser / WalletBoundToFlow",
    ("cross-accepted", "authorization-request/tenant"): "PresenterIsClient",
    ("token-foreign-organization", "introspect"): "PresenterIsClient",
    ("cross-flow-damage", "st"): "PresenterIsClient",
}


def tlc_ok(cfg, what, **kw):
    kw.setdefault("workers", 4)
    m = vlib.tlc("MCUserFlow", cfg, **kw)
    if m.error:
        raise Inconclusive("TLC %s (%s): %s" % (cfg, what, m.error))
    if m.violation:
        raise Inconclusive("model %s violates %s:\n%s" % (cfg, m.violation, m.raw[-3000:]))
    return m


def flows_of(m):
    for p in m.printed:
        if isinstance(p, dict) and "flows" in p:
            return p["flows"]
    raise Inconclusive("the model did not print its flow table")


def clean(steps):
    out = []
    for s in steps:
        out.append({k: v for k, v in s.items() if v not in ("", False, 0) or k == "a"})
    return out


def select(behaviours, n, rnd):
    """Diversity first: bucket by the set of (action, answer class, mixing?) triples, round-robin over the buckets."""
    items = sorted(behaviours, key=lambda b: json.dumps(b, sort_keys=True))
    rnd.shuffle(items)
    buckets = {}
    for b in items:
        sig = tuple(sorted(set((s["a"], s.get("out", ""), s.get("drop", ""), s.get("ck", "") != "", s.get("c", "") != s.get("s", "")) for s in b)))
        buckets.setdefault(sig, []).append(b)
    keys = sorted(buckets)
    rnd.shuffle(keys)
    chosen = []
    while len(chosen) < n and keys:
        for k in list(keys):
            if buckets[k]:
                chosen.append(buckets[k].pop())
                if len(chosen) >= n:
                    break
            else:
                keys.remove(k)
    return chosen


def S(f): return dict(a="Start", f=f)
def L(b, tn, f): return dict(a="Land", b=b, tn=tn, f=f)
def AV(b, v, cid, r, evil=False): return dict(a="AuthV", b=b, v=v, cid=cid, r=r, evil=evil)
def AW(b, tn, r, ck="", drop=""): return dict(a="AuthW", b=b, tn=tn, r=r, ck=ck, drop=drop)
def CB(b, tn, c, s): return dict(a="Callback", b=b, tn=tn, c=c, s=s)
def RT(f): return dict(a="Retrieve", f=f)
def T(d): return dict(a="Tick", d=d)


def directed(fam):
    """Behaviours of UserFlow.tla that a sample of witnesses rarely contains (validated as behaviours of the spec like every other run)."""
    out = []
    if fam == "tenants":   # f1 = (ta, v1, both), f2 = (tb, v1, org)
        full1 = [S("f1"), L("b1", "ta", "f1"), AV("b1", "v1", "ta", "f1"), AW("b1", "ta", "f1"), CB("b1", "ta", "f1", "f1"), RT("f1")]
        out.append(("d-happy", [S("f1"), RT("f1")] + full1[1:] + [RT("f1"), CB("b1", "ta", "f1", "f1"), L("b1", "ta", "f1")]))
        out.append(("d-happy-org", [S("f2"), L("b1", "tb", "f2"), AV("b1", "v1", "tb", "f2"), AW("b1", "tb", "f2"), CB("b1", "tb", "f2", "f2"), RT("f2"), RT("f2")]))
        out.append(("d-land-other-tenant", [S("f1"), L("b1", "tb", "f1"), AV("b1", "v1", "ta", "f1"), AW("b1", "ta", "f1")]))
        out.append(("d-wallet-other-tenant", [S("f1"), L("b1", "ta", "f1"), AV("b1", "v1", "ta", "f1"), AW("b1", "tb", "f1"), CB("b1", "ta", "f1", "f1"), RT("f1")]))
        out.append(("d-wallet-other-tenant-org", [S("f2"), L("b1", "tb", "f2"), AV("b1", "v1", "tb", "f2"), AW("b1", "ta", "f2"), CB("b1", "tb", "f2", "f2"), RT("f2")]))
        out.append(("d-authv-mismatch", [S("f1"), S("f2"), L("b1", "ta", "f1"), L("b1", "tb", "f2"), AV("b1", "v1", "tb", "f1"), AV("b1", "v2", "tb", "f2"), AV("b1", "v1", "ta", "f1", True)]))
        out.append(("d-authv-evil-param", [S("f1"), L("b1", "ta", "f1"), AV("b1", "v1", "ta", "f1", True), AW("b1", "ta", "f1"), CB("b1", "ta", "f1", "f1"), RT("f1")]))
        out.append(("d-callback-mix", [S("f1"), S("f2"), L("b1", "ta", "f1"), L("b1", "tb", "f2"), AV("b1", "v1", "ta", "f1"), AV("b1", "v1", "tb", "f2"), AW("b1", "ta", "f1"),
                                       AW("b1", "tb", "f2"), CB("b1", "ta", "f2", "f1"), CB("b1", "tb", "f2", "f2"), CB("b1", "tb", "f1", "f1"), RT("f1"), RT("f2")]))
        out.append(("d-callback-other-tenant", [S("f1"), L("b1", "ta", "f1"), AV("b1", "v1", "ta", "f1"), AW("b1", "ta", "f1"), CB("b1", "tb", "f1", "f1"), CB("b1", "ta", "f1", "f1"), RT("f1")]))
        out.append(("d-fetch-other-path", [S("f1"), L("b1", "ta", "f1"), dict(a="FetchA", tn="tb", r="f1"), AV("b1", "v1", "ta", "f1")]))
        out.append(("d-fetchb", [S("f1"), L("b1", "ta", "f1"), AV("b1", "v1", "ta", "f1"), dict(a="FetchB", v="v2", r="f1", leg="org", m="get"), AW("b1", "ta", "f1")]))
        out.append(("d-fetchb-method", [S("f1"), L("b1", "ta", "f1"), AV("b1", "v1", "ta", "f1"), dict(a="FetchB", v="v1", r="f1", leg="org", m="post"), AW("b1", "ta", "f1")]))
        out.append(("d-drop-org-cross", [S("f1"), S("f2"), L("b1", "ta", "f1"), L("b1", "tb", "f2"), AV("b1", "v1", "ta", "f1"), AV("b1", "v1", "tb", "f2"), AW("b1", "ta", "f1", drop="org"),
                                         dict(a="Post", v="v1", p="f1", leg="org", s="f2"), AW("b1", "tb", "f2"), CB("b1", "tb", "f2", "f2"), RT("f2")]))
        out.append(("d-drop-user-replay", [S("f1"), L("b1", "ta", "f1"), AV("b1", "v1", "ta", "f1"), AW("b1", "ta", "f1", drop="user"), dict(a="Post", v="v1", p="f1", leg="user", s="f1"),
                                           dict(a="Post", v="v1", p="f1", leg="user", s="f1"), dict(a="TokenGuess", v="v1", c="f1", cid="ta"), CB("b1", "ta", "f1", "f1")]))
        out.append(("d-post-other-verifier", [S("f1"), L("b1", "ta", "f1"), AV("b1", "v1", "ta", "f1"), AW("b1", "ta", "f1", drop="org"), dict(a="Post", v="v2", p="f1", leg="org", s="f1"),
                                              dict(a="Post", v="v1", p="f1", leg="org", s="f1")]))
        out.append(("d-forged", [dict(a="Forged", b="b1", v="v1", cid="ta", k="foreign-key"), S("f1"), dict(a="Forged", b="b1", v="v1", cid="ta", k="foreign-key"), L("b1", "ta", "f1")]))
        out.append(("d-expire-redirect", [S("f1"), T(5), L("b1", "ta", "f1"), RT("f1"), T(900), RT("f1")]))
        out.append(("d-expire-flow", [S("f1"), L("b1", "ta", "f1"), AV("b1", "v1", "ta", "f1"), T(60), AW("b1", "ta", "f1")]))
        out.append(("d-expire-code", [S("f1"), L("b1", "ta", "f1"), AV("b1", "v1", "ta", "f1"), AW("b1", "ta", "f1"), T(60), CB("b1", "ta", "f1", "f1"), RT("f1")]))
        out.append(("d-expire-pickup", [S("f2"), L("b1", "tb", "f2"), AV("b1", "v1", "tb", "f2"), AW("b1", "tb", "f2"), CB("b1", "tb", "f2", "f2"), T(900), RT("f2")]))
        out.append(("d-expire-reqobj", [S("f1"), L("b1", "ta", "f1"), T(900), AV("b1", "v1", "ta", "f1")]))
        out.append(("d-cookie-other-tenant", [S("f1"), S("f2"), L("b1", "ta", "f1"), L("b1", "tb", "f2"), AV("b1", "v1", "ta", "f1"), AW("b1", "ta", "f1", ck="tb"), CB("b1", "ta", "f1", "f1"), RT("f1")]))
        out.append(("d-cookie-other-tenant2", [S("f1"), S("f2"), L("b1", "ta", "f1"), L("b1", "tb", "f2"), AV("b1", "v1", "tb", "f2"), AW("b1", "tb", "f2", ck="ta"), CB("b1", "tb", "f2", "f2"), RT("f2")]))
        out.append(("d-no-session", [S("f1"), L("b1", "ta", "f1"), AV("b1", "v1", "ta", "f1"), AW("b2", "ta", "f1"), CB("b2", "ta", "f1", "f1")]))
    if fam == "users":   # f1, f2 = (ta, v1, both)
        one = lambda f, b: [S(f), L(b, "ta", f), AV(b, "v1", "ta", f), AW(b, "ta", f), CB(b, "ta", f, f), RT(f)]
        out.append(("d-two-users-two-browsers", one("f1", "b1") + one("f2", "b2")))
        out.append(("d-two-users-one-browser", one("f1", "b1") + one("f2", "b1")))
        out.append(("d-interleaved", [S("f1"), S("f2"), L("b1", "ta", "f1"), L("b2", "ta", "f2"), AV("b1", "v1", "ta", "f1"), AV("b2", "v1", "ta", "f2"), AW("b1", "ta", "f1"),
                                      AW("b2", "ta", "f2"), CB("b1", "ta", "f1", "f1"), CB("b2", "ta", "f2", "f2"), RT("f2"), RT("f1")]))
        out.append(("d-swap-wallet-requests", [S("f1"), S("f2"), L("b1", "ta", "f1"), L("b2", "ta", "f2"), AV("b1", "v1", "ta", "f1"), AV("b2", "v1", "ta", "f2"), AW("b1", "ta", "f2"),
                                               AW("b2", "ta", "f1"), CB("b1", "ta", "f2", "f2"), CB("b2", "ta", "f1", "f1"), RT("f1"), RT("f2")]))
        out.append(("d-swap-codes", [S("f1"), S("f2"), L("b1", "ta", "f1"), L("b2", "ta", "f2"), AV("b1", "v1", "ta", "f1"), AV("b2", "v1", "ta", "f2"), AW("b1", "ta", "f1"),
                                     AW("b2", "ta", "f2"), CB("b1", "ta", "f2", "f1"), CB("b2", "ta", "f1", "f2"), RT("f1"), RT("f2")]))
    if fam == "verifiers":   # f1 = (ta, v1, org), f2 = (ta, v2, both)
        out.append(("d-two-verifiers", [S("f1"), S("f2"), L("b1", "ta", "f1"), L("b1", "ta", "f2"), AV("b1", "v2", "ta", "f1"), AV("b1", "v2", "ta", "f2"), AW("b1", "ta", "f2"),
                                        CB("b1", "ta", "f2", "f2"), RT("f2"), RT("f1")]))
        out.append(("d-code-other-verifier", [S("f1"), S("f2"), L("b1", "ta", "f1"), L("b1", "ta", "f2"), AV("b1", "v1", "ta", "f1"), AV("b1", "v2", "ta", "f2"), AW("b1", "ta", "f1"),
                                              AW("b1", "ta", "f2"), CB("b1", "ta", "f1", "f2"), CB("b1", "ta", "f2", "f2"), RT("f1"), RT("f2")]))
    return [dict(id=i, steps=s) for i, s in out]


def run_shards(binary, inp, shards, timeout):
    """Like vlib.run_driver_parallel, but a shard whose nodes did not come up (two processes were given the same 'free' port) is run again."""
    from concurrent.futures import ThreadPoolExecutor
    items = inp["scripts"]
    shards = min(shards, max(1, len(items)))
    parts = [items[i::shards] for i in range(shards)]
    def one(part):
        d = dict(inp, scripts=part)
        for attempt in range(4):
            try:
                return vlib.run_driver(binary, d, timeout=timeout)
            except Inconclusive as e:
                msg = str(e)
                if attempt < 3 and ("0 results written" in msg) and ("waiting for node to become available" in msg or "address already in use" in msg):
                    time.sleep(2 + attempt)
                    continue
                raise
    with ThreadPoolExecutor(max_workers=shards) as ex:
        outs = list(ex.map(one, parts))
    return [r for o in outs for r in o]


def run(prop, tier, seed, replay=None):
    t0 = time.time()
    rep = Report(prop)
    binary = vlib.build_driver("userflow")
    if replay:
        obj = json.load(open(replay))
        res = vlib.run_driver(binary, obj["input"])
        for r in res:
            print(json.dumps(dict(r, trace=None))[:3000])
            for v in r["violations"]:
                rep.violation(dict(kind=v["kind"], site=v.get("site", "")), obj)
        return rep.finish()

    quick = tier == "quick"
    rnd = random.Random(seed)
    corrupt = os.environ.get("VERIF_X12_CORRUPT")   # binding demonstration only
    states = transitions = 0
    models, cover = [], {}
    n_wit = 0
    per_family = 60 if quick else 500
    n_sim = 30 if quick else 400
    from concurrent.futures import ThreadPoolExecutor
    pool = ThreadPoolExecutor(max_workers=4)    # never more than 8 TLC workers at a time
    fut = {}
    tier_cfg = "quick" if quick else "thorough"
    gen_fams = ["tenants"] if quick else FAMILIES
    fast = bool(os.environ.get("VERIF_X12_DIRECTED"))   # binding demonstration: simulated + directed behaviours only, no exhaustive model runs
    if fast:
        gen_fams = []
    for fam in ([] if fast else ["tenants", "users", "verifiers"]):   # the largest first
        fut[fam, "check"] = pool.submit(tlc_ok, "UserFlow.%s.%s.cfg" % (fam, tier_cfg), "prescriptive", timeout=1500, workers=(3 if fam == "tenants" and not quick else 2))
    for fam in gen_fams:
        fut[fam, "gen"] = pool.submit(tlc_ok, "UserFlow.%s.gen.cfg" % fam, "generation", timeout=600, workers=(2 if quick else 1))
    for fam in FAMILIES:
        fut[fam, "sim"] = pool.submit(vlib.tlc, "MCUserFlow", "UserFlow.%s.sim.cfg" % fam, workers=1, simulate="num=%d" % n_sim, depth=16, seed=seed, timeout=300)
    if not quick:
        fut["one", "check"] = pool.submit(tlc_ok, "UserFlow.one.quick.cfg", "prescriptive, one flow, 3 attacker steps, 2 ticks", timeout=900, workers=2)
        fut["cover"] = pool.submit(tlc_ok, "UserFlow.tenants.quick.cfg", "coverage", timeout=1200, coverage=True, workers=1)

    by_id, flows_by_fam, all_scripts = {}, {}, []
    for fam in FAMILIES:
        # behaviours of the code's variant of the specification
        s = fut[fam, "sim"].result()
        if s.error and "timeout" in s.error:
            raise Inconclusive(s.error)
        flows_by_fam[fam] = flows = flows_of(s)
        sim = vlib.dedupe_maximal([p["steps"] for p in s.printed if isinstance(p, dict) and "steps" in p])
        scripts = [dict(id="%s-s%04d" % (fam, i), steps=clean(b)) for i, b in enumerate(sim[:n_sim])]
        if fam in gen_fams:
            g = fut[fam, "gen"].result()
            states += g.distinct
            transitions += g.generated
            models.append(dict(cfg="UserFlow.%s.gen.cfg" % fam, states=g.distinct, transitions=g.generated, depth=g.depth, wall_s=round(g.wall, 1), variant="descriptive"))
            wit = [p["steps"] for p in g.printed if isinstance(p, dict) and "steps" in p]
            n_wit += len(wit)
            scripts += [dict(id="%s-w%04d" % (fam, i), steps=clean(b)) for i, b in enumerate(select(wit, per_family, rnd))]
        scripts += [dict(id="%s-%s" % (fam, d["id"]), steps=d["steps"]) for d in directed(fam)]
        for sc in scripts:
            sc["flows"] = flows
            by_id[sc["id"]] = (fam, sc)
        all_scripts += scripts
    rnd.shuffle(all_scripts)
    inp = dict(flows=flows_by_fam["tenants"], scripts=all_scripts)
    if corrupt:
        inp["corrupt"] = corrupt
    td = time.time()
    results = run_shards(binary, inp, shards=(5 if quick else 6), timeout=(300 if quick else 1200))
    t_driver = time.time() - td
    traces_by_fam = {fam: [r for r in results if by_id[r["id"]][0] == fam] for fam in FAMILIES}
    # the statement holds of the prescriptive design (exhaustive, small constants)
    for fam in ([] if fast else FAMILIES):
        m = fut[fam, "check"].result()
        states += m.distinct
        transitions += m.generated
        models.append(dict(cfg="UserFlow.%s.%s.cfg" % (fam, tier_cfg), states=m.distinct, transitions=m.generated, depth=m.depth, wall_s=round(m.wall, 1), variant="prescriptive"))
    if not quick:
        o = fut["one", "check"].result()
        states += o.distinct
        transitions += o.generated
        models.append(dict(cfg="UserFlow.one.quick.cfg", states=o.distinct, transitions=o.generated, depth=o.depth, variant="prescriptive"))

    # verdicts from the real observables
    nchecks = nreq = ntok = ninc = 0
    seen = set()
    samples = []
    outs = {}
    for r in results:
        fam, sc = by_id[r["id"]]
        nchecks += r.get("checks", 0)
        nreq += r.get("requests", 0)
        ntok += r.get("tokens", 0)
        if r.get("error"):
            ninc += 1
            rep.inconclusive.append("script %s: %s" % (r["id"], r["error"]))
            continue
        for st, out in zip(sc["steps"], r.get("outs") or []):
            outs[(st["a"], out)] = outs.get((st["a"], out), 0) + 1
        for v in r["violations"]:
            sig = dict(kind=v["kind"], site=v.get("site", ""))
            seen.add((v["kind"], v.get("site", "")))
            rep.violation(sig, dict(property=prop, violation=v, input=dict(flows=flows_by_fam[fam], scripts=[sc])))
        if len(samples) < 3 and len(sc["steps"]) >= 8 and r.get("trace"):
            samples.append(dict(script=sc["steps"], answers=r["outs"]))
    if ninc <= max(1, len(results) // 100):
        rep.inconclusive = []
    for const in sorted(set(EXPECTED.values())):
        sigs = [k for k, v in EXPECTED.items() if v == const]
        if not any(k in seen for k in sigs):
            rep.notes.append("NOTE: no behaviour showed the deviation %s = FALSE any more (repaired?): flip it in spec/cfg/UserFlow.*.gen.cfg, *.sim.cfg and trace.*.cfg" % const)

    # recorded traces of the real code are validated by TLC against the specification
    acc = rejn = 0
    def validate(fam):
        good = [r for r in traces_by_fam[fam] if r.get("trace") and not r.get("error")]
        return good, vlib.validate_traces("TraceUserFlow", "UserFlow.trace.%s.cfg" % fam, [r["trace"] for r in good], timeout=900)
    vres = list(pool.map(validate, FAMILIES))
    for fam, (good, (a, rej)) in zip(FAMILIES, vres):
        traces = [r["trace"] for r in good]
        acc += a
        rejn += len(rej)
        for x in rej[:5]:
            rep.notes.append("DRIFT: trace of %s rejected at event %s (%s)" % (good[x["index"]]["id"], json.dumps(x["event"])[:500], x["kind"]))
            if os.environ.get("VERIF_DUMP_REJ"):
                json.dump(dict(rejected=x, script=by_id[good[x["index"]]["id"]][1], trace=traces[x["index"]]),
                          open(os.path.join(os.environ["VERIF_DUMP_REJ"], "rej-%s-%s.json" % (prop, good[x["index"]]["id"])), "w"), indent=1)
        for x in rej:
            if x["kind"].startswith("invariant:"):
                rep.violation(dict(kind="trace-" + x["kind"], site=""), dict(property=prop, trace=traces[x["index"]], rejected=x,
                              input=dict(flows=flows_by_fam[fam], scripts=[by_id[good[x["index"]]["id"]][1]])))
        if len(rej) > 3 and not rep.violations:
            rep.inconclusive.append("at least %d of %d recorded %s traces are not behaviours of the specification (spec/code drift)" % (len(rej), len(traces), fam))

    # vacuity guards
    if not quick or os.environ.get("VERIF_X12_FULL"):
        for cfg, inv in (("UserFlow.dev.org.cfg", "TokenOrganization"), ("UserFlow.dev.user.cfg", "TokenUser"), ("UserFlow.dev.land.cfg", "LandingBound"), ("UserFlow.dev.bound.cfg", "TokenUser"),
                         ("UserFlow.dev.both.cfg", "BothDelivered")):
            d = vlib.tlc("MCUserFlow", cfg, timeout=600, workers=2)
            if d.violation != inv:
                raise Inconclusive("vacuity guard: %s must violate %s, TLC says %s / %s" % (cfg, inv, d.violation, d.error))
            models.append(dict(cfg=cfg, expected_violation=inv))
        c = fut["cover"].result()
        for k, v in c.coverage.items():
            cover[k] = cover.get(k, 0) + v
        missing = [a for a in ACTIONS if not cover.get(a)]
        if missing:
            raise Inconclusive("vacuity: actions never fired in the exhaustive runs: %s" % missing)
    missing_real = [a for a in ACTIONS if not any(k[0] == a for k in outs)]
    if missing_real:
        raise Inconclusive("actions never executed on the real nodes: %s" % missing_real)

    cov = dict(states=states, transitions=transitions, traces_validated_against_impl=acc + rejn, traces_accepted=acc, traces_rejected=rejn,
               samples=samples or [results[0].get("outs")], models=models, behaviours_replayed_on_real_code=len(results), witness_behaviours_available=n_wit,
               oracle_evaluations=nchecks, http_exchanges_observed=nreq, driver_wall_s=round(t_driver, 1), access_tokens_delivered_and_introspected=ntok, inconclusive_scripts=ninc,
               action_coverage=cover, answers_seen={"%s:%s" % k: v for k, v in sorted(outs.items())}, deviations_seen=sorted("%s/%s" % k for k in seen), exhaustive=False,
               rule="TLC exhausts the prescriptive UserFlow configs listed under 'models' (invariants + action properties, 2 flows x 2 browsers x 2 tenants x 2 verifiers, "
                    "every mixing of the two flows' values); behaviours of the DESCRIPTIVE variant (one witness per distinct terminal state and per state departing from the "
                    "statement, simulation runs, directed behaviours incl. expiry and dropped direct_posts) are replayed over the real HTTP endpoints of two in-process nodes; "
                    "the oracle judges U1 (token <-> flow, presentations, once), U2 (cross-flow values refused, no damage), U3 (single use, dead after expiry), U4 (redirect "
                    "targets), U5 (cookie / wallet <-> tenant) on responses, wire captures, store contents and token introspection; every run is validated by TLC against "
                    "TraceUserFlow.tla (answer class and projection of the eight state stores of both nodes = the model's)")
    vlib.write_evidence(prop, tier, seed, "model_checking", cov, time.time() - t0, len(rep.violations),
                        ["ECDSA / JWT / JSON-LD libraries are correct", "steps are sequential (concurrency at store-operation grain is C05)",
                         "expiry by a virtual clock below the session stores (the user session's own ExpiresAt and the 1 h cookie are not advanced)",
                         "https between the nodes is replaced by plain TCP through recording fronts; the Secure cookie attribute is recorded, not enforced",
                         "small scope: 2 flows, 2 browsers, 2 client tenants + 1 attacker tenant, 2 verifier tenants, <= 2 attacker steps and 1 tick per behaviour in the exhaustive runs",
                         "DPoP proof of the token request is made by the real client node (its validation is C02)"])
    return rep.finish()
