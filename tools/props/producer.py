"""X04 (extension): Producer.tla <-> network.Network as producer and dispatcher of transactions.

The real engine (network.NewNetworkInstance, real dag.State on bbolt behind the gated KV store, real key store behind a
signing gate, real did store, real transport/v2 instance with fake peers, recording event bus) executes behaviours of
the specification gate by gate; the properties are evaluated on the real observables; the recorded real traces are
validated by TLC against TraceProducer.tla."""
import json, os, random, time
from concurrent.futures import ThreadPoolExecutor
from .. import vlib
from ..vlib import Report, Inconclusive

PROPS = ["X04"]

# family -> (driver flags, trace cfg)
FAMILY = {
    "chain": dict(base=True, nodedid=True, trace="Producer.trace.chain.cfg"),
    "root": dict(base=False, nodedid=True, trace="Producer.trace.root.cfg"),
    "priv": dict(base=True, nodedid=True, trace="Producer.trace.chain.cfg"),
    "reproc": dict(base=True, nodedid=True, trace="Producer.trace.chain.cfg"),
    "nodid": dict(base=True, nodedid=False, trace="Producer.trace.nodid.cfg"),
    "three": dict(base=True, nodedid=True, trace="Producer.trace.chain.cfg"),
    "rootthree": dict(base=False, nodedid=True, trace="Producer.trace.root.cfg"),
}
# descriptive configurations: checked exhaustively AND source of witness behaviours (family, cfg)
GEN_QUICK = [("chain", "Producer.chain.quick.cfg"), ("root", "Producer.root.quick.cfg"), ("priv", "Producer.priv.quick.cfg"),
             ("reproc", "Producer.reproc.quick.cfg"), ("nodid", "Producer.nodid.quick.cfg")]
GEN_THOROUGH = GEN_QUICK + [("three", "Producer.three.gen.cfg"), ("rootthree", "Producer.rootthree.gen.cfg")]
# prescriptive variant, liveness, larger scopes: checked only
CHECK_QUICK = ["Producer.lock.quick.cfg", "Producer.rootlock.quick.cfg", "Producer.live.cfg", "Producer.rootlive.cfg"]
CHECK_THOROUGH = CHECK_QUICK + ["Producer.chain.thorough.cfg", "Producer.chain2.thorough.cfg", "Producer.root.thorough.cfg",
                                "Producer.root2.thorough.cfg", "Producer.priv.thorough.cfg", "Producer.reproc.thorough.cfg",
                                "Producer.lock.thorough.cfg"]
# the claims that hold only for the serialised variant must fail for the code's variant (the deviation is real)
SANITY = [("Producer.chain.nofork.cfg", "NoFork"), ("Producer.root.norace.cfg", "NoRaceFailure")]
ACTIONS = ["Begin", "CheckPrevs", "ReadHead", "CalcClock", "Sign", "Fail", "ReadVerify", "LockWrite", "Commit", "Rollback",
           "OnRollback", "AfterCommit", "ReprocScan", "ReprocPublish", "Sync", "Serve"]


def _tlc_many(jobs, lanes=2, workers=4):
    """jobs: list of (key, cfg, kwargs). At most lanes*workers = 8 TLC workers at any time."""
    def one(j):
        key, cfg, kw = j
        return key, cfg, vlib.tlc("MCProducer", cfg, workers=workers, **kw)
    with ThreadPoolExecutor(max_workers=lanes) as ex:
        return list(ex.map(one, jobs))


def select(wit, n, rnd):
    """Diverse sample of witness behaviours: bucket by the set of (action, outcome) pairs, round-robin over the buckets;
    within a bucket prefer behaviours in which goroutines interleave most."""
    wit = sorted(wit, key=lambda b: json.dumps(b, sort_keys=True))
    rnd.shuffle(wit)
    def switches(b):
        ps = [s.get("p") for s in b if s.get("p")]
        return sum(1 for i in range(1, len(ps)) if ps[i] != ps[i - 1])
    buckets = {}
    for b in wit:
        sig = tuple(sorted(set((s["a"], str(s.get("res", s.get("at", s.get("tpl", ""))))) for s in b)))
        buckets.setdefault(sig, []).append(b)
    for k in buckets:
        buckets[k].sort(key=switches)  # pop() takes the most interleaved one first
    keys = sorted(buckets)
    rnd.shuffle(keys)
    out = []
    while len(out) < n and keys:
        for k in list(keys):
            if buckets[k]:
                out.append(buckets[k].pop())
                if len(out) >= n:
                    break
            else:
                keys.remove(k)
    return out


def produced_shapes(behaviours, base):
    """The sets of transactions (with prevs, clock) that the behaviours of Producer.tla store, reconstructed from the
    model's own history records: distinct shapes only."""
    shapes = {}
    for b in behaviours:
        cur, txs = {}, ({"g": ((), 0)} if base else {})
        for st in b:
            p, a = st.get("p"), st["a"]
            if a == "Begin":
                cur[p] = dict(id=st["id"], addl=list(st["addl"]))
            elif a == "ReadHead" and st["res"] == "ok":
                cur[p]["prevs"] = sorted(set(cur[p]["addl"]) | ({st["head"]} if st["head"] != "none" else set()))
            elif a == "CalcClock":
                cur[p]["lc"] = st["lc"]
            elif a == "AfterCommit":
                c = cur[p]
                txs[c["id"]] = (tuple(c["prevs"]), c["lc"])
        if len(txs) > (1 if base else 0):
            shapes[json.dumps(sorted(txs.items()))] = txs
    return list(shapes.values())


XDAG_OVERRIDE = {"Tx": "<- XTx", "Procs": '= {"p1"}', "Subs": "= {}", "MaxFail": "= 0", "MaxCrash": "= 0", "MaxOffers": "= 0",
                 "MaxCorrupt": "= 0", "PayloadKinds": '= {"none"}', "Hist": "= FALSE", "Prevs": "<- XPrevs", "Lc": "<- XLc",
                 "SigOK": "<- XSigOK", "WF": "<- XWF", "Selects": "<- XSelects", "SubType": "<- XSubType"}


def xdag_cfg():
    """The configuration of the cross-check is derived from a maintained configuration of Dag.tla (so that constants added to
    Dag.tla later are bound), with the universe and its attribute operators replaced by the generated ones."""
    import re
    src = open(os.path.join(vlib.SPEC, "cfg", "Dag.add.quick.cfg")).read()
    out, seen = ["SPECIFICATION Spec", "CONSTANTS"], set()
    for m in re.finditer(r"^\s+(\w+)\s*(=|<-)\s*(.+)$", src, re.M):
        name = m.group(1)
        seen.add(name)
        out.append("  %s %s" % (name, XDAG_OVERRIDE.get(name, "%s %s" % (m.group(2), m.group(3).strip()))))
    for name, v in XDAG_OVERRIDE.items():
        if name not in seen:
            out.append("  %s %s" % (name, v))
    out.append("CHECK_DEADLOCK FALSE")
    return "\n".join(out) + "\n"


def dag_crosscheck(shapes):
    """Cross-check with Dag.tla: every transaction Producer.tla stores satisfies Dag!ValidIn relative to the stored
    transactions with a lower clock (the definition C06 binds to the real verifiers). One TLC start, ASSUME-level."""
    if not shapes:
        return 0
    if len(shapes) > 100:   # keep the generated module small (a long @@ chain overflows the parser's stack)
        return sum(dag_crosscheck(shapes[i:i + 100]) for i in range(0, len(shapes), 100))
    attr = []
    for i, txs in enumerate(shapes):
        for t, (prevs, lc) in sorted(txs.items()):
            attr.append('  "s%d:%s" :> [prevs |-> {%s}, lc |-> %d]' % (i, t, ", ".join('"s%d:%s"' % (i, q) for q in prevs), lc))
    ids = ", ".join(a.split(" :>")[0].strip() for a in attr)
    mod = """---- MODULE XDagProducer ----
EXTENDS MCDag
XAttr == (
%s )
XPrevs(t) == XAttr[t].prevs
XLc(t) == XAttr[t].lc
XSigOK(t) == TRUE
XWF(t) == TRUE
XSelects(s, t) == TRUE
XSubType(s) == "transaction"
XTx == {%s}
Shape(t) == SubSeq(t, 1, CHOOSE k \in 1..Len(t) : SubSeq(t, k, k) = ":" /\ \A j \in 1..(k-1) : SubSeq(t, j, j) # ":")
Lower(t) == {u \in Tx : Shape(u) = Shape(t) /\ XLc(u) < XLc(t)}
ASSUME ProducedAreValidInDag == \A t \in Tx : ValidIn(t, Lower(t))
ASSUME OneRootPerShape == \A t, u \in Tx : (Shape(t) = Shape(u) /\ XPrevs(t) = {} /\ XPrevs(u) = {}) => t = u
====
""" % (" @@\n".join(attr), ids)
    m = vlib.tlc("XDagProducer", "Producer.xdag.cfg", workers=1, timeout=300, files={"XDagProducer.tla": mod, "run.cfg": xdag_cfg()})
    if not m.ok:
        if "is false" in (m.error or "") + m.raw:
            raise Inconclusive("cross-check with Dag.tla failed (a transaction stored by Producer.tla is not ValidIn by Dag.tla): %s %s\n%s"
                               % (m.violation, m.error, m.raw[-2500:]))
        # Dag.tla is a shared module that evolves (new constants, renamed operators): not being able to evaluate the
        # auxiliary cross-check is reported, it does not invalidate the verdicts taken from the real code
        print("NOTE: the cross-check with Dag!ValidIn could not be evaluated against the current Dag.tla: %s" % str(m.error or m.violation)[:300])
        return 0
    return len(shapes)


def directed():
    """Behaviours of Producer.tla that exceed the bounds of the model-checked configurations (still sequences of its
    actions): long sequential chains, Reprocess over more than one clock range of 1000."""
    def call(p, k, tpl, addl, head, lc, priv=False):
        i = "%s.%d" % (p, k)
        return [dict(a="Begin", p=p, tpl=tpl, id=i, addl=addl), dict(a="CheckPrevs", p=p, res="ok"),
                dict(a="ReadHead", p=p, head=head, res="ok"), dict(a="CalcClock", p=p, lc=lc), dict(a="Sign", p=p, res="ok"),
                dict(a="ReadVerify", p=p, res="verified"), dict(a="LockWrite", p=p, res="written"), dict(a="Commit", p=p),
                dict(a="AfterCommit", p=p)], i
    out = []
    # 12 sequential creations by alternating goroutines: a chain, every clock used once
    steps, head, last = [], "g", {}
    for k in range(12):
        p = "p%d" % (k % 2 + 1)
        tpl = ["upd", "vc", "priv"][k % 3]
        addl = ["g"] + ([last[p]] if tpl == "upd" and p in last else [])
        s, i = call(p, k // 2 + 1, tpl, sorted(addl), head, k + 1)
        steps += s
        head = i
        last[p] = i
    steps += [dict(a="ReprocScan", ct="vc"), dict(a="ReprocPublish", ct="vc"), dict(a="ReprocScan", ct="did"), dict(a="ReprocPublish", ct="did")]
    out.append(("chain", dict(id="d-seq12", steps=steps)))
    # Reprocess over a DAG whose clocks cross the 1000 boundary of the scan loop / end exactly at it
    for n in (1003, 996):
        s, _ = call("p1", 1, "vc", ["g"], "c%d" % (n - 1), n + 1)
        steps = s + [dict(a="ReprocScan", ct="vc"), dict(a="ReprocPublish", ct="vc"), dict(a="ReprocScan", ct="did"), dict(a="ReprocPublish", ct="did")]
        out.append(("chain", dict(id="d-reproc-%d" % n, long=n, steps=steps)))
    # fault enumeration over the gates of ONE call, without assumptions on the steps the code takes: the nth database
    # read / the signing / the nth write transaction fails; afterwards a sound call must still succeed
    k = 0
    for fam, tpl, addl in (("chain", "vc", ["g"]), ("chain", "priv", ["g"]), ("root", "did", [])):
        for gate, nths in (("read.begin", range(1, 8)), ("sign", (1,)), ("write.fnEnd", (1, 2, 3))):
            for nth in nths:
                k += 1
                steps = [dict(a="RunFaulty", p="p1", tpl=tpl, id="p1.1", addl=addl, gate=gate, nth=nth),
                         dict(a="RunFaulty", p="p1", tpl=tpl, id="p1.2", addl=addl, gate="none", nth=0)]
                out.append((fam, dict(id="d-fault-%s-%s-%d" % (tpl, gate.replace(".", ""), nth), steps=steps, notrace=True)))
    return out


def run(prop, tier, seed, replay=None):
    t0 = time.time()
    rep = Report(prop)
    binary = vlib.build_driver("producer")
    if replay:
        obj = json.load(open(replay))
        res = vlib.run_driver(binary, obj["input"])
        for r in res:
            print(json.dumps({k: r[k] for k in ("id", "violations", "drift", "error", "blocked") if k in r})[:3000])
            for v in r["violations"]:
                rep.violation(dict(kind=v["kind"]), obj)
        return rep.finish()

    quick = tier == "quick"
    rnd = random.Random(seed)
    phase, tp = {}, [time.time()]
    def lap(name):
        phase[name] = round(time.time() - tp[0], 1)
        tp[0] = time.time()
    lap("build")
    models, cover = [], {}
    states = transitions = 0

    # 1. TLC: the descriptive variant (= the code) and the prescriptive variant satisfy their properties
    gens = GEN_QUICK if quick else GEN_THOROUGH
    checks = CHECK_QUICK if quick else CHECK_THOROUGH
    jobs = [(("gen", fam), cfg, dict(timeout=1500, coverage=not quick)) for fam, cfg in gens]
    jobs += [(("chk", cfg), cfg, dict(timeout=1500, coverage=not quick)) for cfg in checks]
    jobs += [(("sanity", inv), cfg, dict(timeout=300)) for cfg, inv in SANITY]
    witnesses = {}
    for key, cfg, m in (_tlc_many(jobs, lanes=4, workers=2) if quick else _tlc_many(jobs, lanes=2, workers=4)):
        if key[0] == "sanity":
            if m.violation != key[1]:
                raise Inconclusive("sanity run %s: expected %s to be violated by the code's variant, got %s %s" % (cfg, key[1], m.violation, m.error))
            models.append(dict(cfg=cfg, expected_violation=key[1], states=m.distinct))
            continue
        if m.error:
            raise Inconclusive("TLC %s: %s\n%s" % (cfg, m.error, m.raw[-2000:]))
        if m.violation:
            raise Inconclusive("model %s violates %s:\n%s" % (cfg, m.violation, m.raw[-3000:]))
        states += m.distinct
        transitions += m.generated
        models.append(dict(cfg=cfg, states=m.distinct, transitions=m.generated, depth=m.depth, wall_s=round(m.wall, 1)))
        for a, n in m.coverage.items():
            cover[a] = cover.get(a, 0) + n
        if key[0] == "gen":
            witnesses[key[1]] = m.printed
    lap("tlc_check")
    shapes = []
    for fam, cfg in gens:
        shapes += produced_shapes(witnesses[fam], FAMILY[fam]["base"])
    rnd.shuffle(shapes)
    n_shapes = dag_crosscheck(shapes[:100 if quick else 600])
    models.append(dict(cfg="XDagProducer (generated)", crosscheck="Dag!ValidIn holds for every transaction of %d distinct produced DAGs" % n_shapes))
    if not quick:
        dead = [a for a in ACTIONS if cover.get(a, 0) == 0]
        if dead:
            raise Inconclusive("vacuity: actions never taken in any configuration: %s" % dead)

    lap("dag_crosscheck")
    # 2. behaviours -> scripts: witnesses (one per distinct terminal / forked / raced state) + random simulation
    per_family = dict(chain=110, root=90, priv=90, reproc=60, nodid=25) if quick else \
        dict(chain=500, root=350, priv=350, reproc=250, nodid=80, three=450, rootthree=150)
    groups = {}   # (base, nodedid, trace cfg) -> scripts
    n_wit = 0
    all_scripts = {}
    def add(fam, sc):
        f = FAMILY[fam]
        groups.setdefault((f["base"], f["nodedid"], f["trace"]), []).append(sc)
        all_scripts[sc["id"]] = (fam, sc)
    for fam, cfg in gens:
        wit = witnesses[fam]
        n_wit += len(wit)
        if not wit:
            raise Inconclusive("no witness behaviours from %s" % cfg)
        for i, b in enumerate(select(wit, per_family[fam], rnd)):
            add(fam, dict(id="%s-w%04d" % (fam, i), steps=b))
    sim_jobs = [(("sim", fam), cfg, dict(workers=1, simulate="num=%d" % (40 if quick else 250), depth=70, seed=seed, timeout=600))
                for fam, cfg in gens if fam in ("chain", "root", "priv", "three")]
    n_sim = 0
    with ThreadPoolExecutor(max_workers=4) as ex:
        sims = list(ex.map(lambda j: (j[0], vlib.tlc("MCProducer", j[1], **j[2])), sim_jobs))
    for key, s in sims:
        if s.error and "timeout" in s.error:
            raise Inconclusive(s.error)
        for i, b in enumerate(vlib.dedupe_maximal(s.printed)):
            add(key[1], dict(id="%s-s%04d" % (key[1], i), steps=b))
            n_sim += 1
    for fam, sc in directed():
        if quick and sc["id"] == "d-reproc-996":
            continue
        add(fam, sc)

    lap("simulate_select")
    # 3. replay on the real engine
    def replay_group(item):
        (base, nodedid, trace_cfg), scripts = item
        # long scripts first so the shards are balanced
        scripts = sorted(scripts, key=lambda s: -(len(s["steps"]) + 3 * s.get("long", 0)))
        inp = dict(base=base, nodedid=nodedid, scripts=scripts)
        rs = vlib.run_driver_parallel(binary, inp, shards=(6 if quick else 7), timeout=(300 if quick else 1200))
        if len(rs) != len(scripts):
            raise Inconclusive("driver returned %d results for %d scripts" % (len(rs), len(scripts)))
        for r in rs:
            r["_input"] = dict(base=base, nodedid=nodedid)
            r["_trace_cfg"] = trace_cfg
        return rs
    with ThreadPoolExecutor(max_workers=(3 if quick else 2)) as ex:
        results = [r for rs in ex.map(replay_group, sorted(groups.items(), key=lambda kv: str(kv[0]))) for r in rs]

    lap("replay")
    # 4. verdicts from the real observables
    stats, nerr, nblocked, ndrift, nchecks = {}, 0, 0, 0, 0
    samples = []
    for r in results:
        fam, sc = all_scripts[r["id"]]
        nchecks += r.get("checks", 0)
        ndrift += len(r.get("drift") or [])
        for k, v in (r.get("stats") or {}).items():
            if not k.startswith("ms_"):
                stats[k] = stats.get(k, 0) + v
        if r.get("blocked"):
            nblocked += 1
        if r.get("error"):
            nerr += 1
            rep.inconclusive.append("script %s: %s" % (r["id"], r["error"]))
        for v in r["violations"]:
            rep.violation(dict(kind=v["kind"]), dict(property=prop, violation=v, input=dict(r["_input"], scripts=[sc])))
        if len(samples) < 2 and len(sc["steps"]) > 15 and r.get("trace") and not samples_has(samples, fam):
            samples.append(dict(family=fam, script=sc["steps"], real_trace=r["trace"][:40]))
    if nerr <= max(2, len(results) // 50):
        rep.inconclusive = []
    for d in [r["id"] + ": " + x for r in results for x in (r.get("drift") or [])][:5]:
        rep.notes.append("DRIFT: " + d)
    if nblocked > max(3, len(results) // 100):   # a handful is scheduling noise of the machine (order of arrival at treeMutex)
        first = next(r for r in results if r.get("blocked"))
        rep.notes.append("DRIFT: in %d of %d scripts the code did not take the steps Producer.tla (CreateLock = FALSE) predicts (first: %s: %s); those "
                         "scripts ran unscheduled to their end and the properties were still evaluated. If CreateTransaction got a lock, set "
                         "CreateLock = TRUE in the descriptive configs" % (nblocked, len(results), first["id"], first["blocked"]))
    if not stats.get("created") or not nchecks:
        raise Inconclusive("dead driver: nothing was created / no oracle evaluation")
    for need in ("forks", "failed", "reprocess"):
        if not stats.get(need) and not nblocked:
            rep.notes.append("NOTE: no %s observed on the real engine in this run" % need)

    # 5. the recorded real traces are behaviours of the specification (TLC)
    acc = nrej = 0
    by_cfg = {}
    for r in results:
        if r.get("trace") and not r.get("error") and not r.get("blocked") and not all_scripts[r["id"]][1].get("long") \
                and not all_scripts[r["id"]][1].get("notrace"):
            by_cfg.setdefault(r["_trace_cfg"], []).append(r)
    def validate(item):
        cfg, rs = item
        return cfg, rs, vlib.validate_traces("TraceProducer", cfg, [r["trace"] for r in rs], timeout=900)
    with ThreadPoolExecutor(max_workers=3) as ex:
        validated = list(ex.map(validate, sorted(by_cfg.items())))
    for cfg, rs, (a, rej) in validated:
        acc += a
        nrej += len(rej)
        for x in rej[:3]:
            rep.notes.append("DRIFT: trace of %s rejected at event %d %s (%s)" % (rs[x["index"]]["id"], x["at"], json.dumps(x["event"])[:200], x["kind"]))
        for x in rej:
            if x["kind"].startswith("invariant:"):
                fam, sc = all_scripts[rs[x["index"]]["id"]]
                rep.violation(dict(kind="trace-" + x["kind"]), dict(property=prop, rejected=x, input=dict(rs[x["index"]]["_input"], scripts=[sc])))
    ntraces = sum(len(v) for v in by_cfg.values())
    if nrej > max(3, ntraces // 10) and not rep.violations:
        rep.inconclusive.append("%d of %d recorded traces are not behaviours of Producer.tla (spec/code drift)" % (nrej, ntraces))

    lap("trace_validation")
    cov = dict(phase_wall_s=phase, states=states, transitions=transitions, traces_validated_against_impl=acc + nrej, traces_accepted=acc, traces_rejected=nrej,
               samples=samples or [next(iter(all_scripts.values()))[1]["steps"]],
               models=models, behaviours_replayed_on_real_code=len(results), witness_behaviours_available=n_wit,
               simulated_behaviours=n_sim, oracle_evaluations=nchecks, real_outcomes=stats, scripts_with_blocked_goroutine=nblocked,
               drift_notes=ndrift, inconclusive_scripts=nerr, action_coverage=cover, exhaustive=False,
               rule="TLC exhausts the configurations under 'models' (safety invariants, action properties; liveness under FairSpec; the "
                    "prescriptive CreateLock variant additionally NoFork/NoRaceFailure, which must FAIL for the code's variant); witness behaviours "
                    "of the code's variant (one per distinct terminal, forked or raced state) plus -simulate runs plus directed long behaviours are "
                    "replayed gate by gate on a real network.Network (bbolt, key store, did store, transport/v2 with fake peers); properties are "
                    "evaluated on real observables after every step; every recorded real trace is validated by TLC against TraceProducer.tla")
    vlib.write_evidence(prop, tier, seed, "model_checking", cov, time.time() - t0, len(rep.violations),
                        ["SHA-256 collision freedom; ECDSA signatures are randomised (two creations never yield the same ref)",
                         "bbolt commits atomically; go-stoabs read/write lock as implemented",
                         "treeMutex is handed over in arrival order (a barging goroutine is equivalent up to commuting two read-only steps)",
                         "every subscriber answers 'done' (retries, crashes: Dag.tla / C14); peers are fakes on the real v2 handlers",
                         "small scope: <= 3 goroutines, <= 2 calls each, <= 2 injected failures, 1 Reprocess; longer chains only sequentially"])
    return rep.finish()


def samples_has(samples, fam):
    return any(s["family"] == fam for s in samples)
