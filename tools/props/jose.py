"""C17: Jose.tla <-> the real entry points of the eight signed-token consumers (one generator of hostile variants).

TLC (1) proves AcceptSound (= the property statement evaluated on the ground truth of each variant) and ValidAccepted for
the prescriptive pipelines, (2) enumerates the complete table consumer x key family x variant for the descriptive
pipelines (= the code as read) and prints the predicted verdict plus the property's demand (must_reject).  The Go driver
forges every variant byte by byte from a valid token (own keys, scripted resolvers) and feeds it to the real consumer.
Verdict: a variant the property says must be rejected that a real consumer accepts -> VIOLATION (site + variant + cause).
A valid token that is refused makes the run inconclusive; other model/code differences are DRIFT."""
import json, random, time
from .. import vlib
from ..vlib import Report, Inconclusive

PROPS = ["C17"]
ACTIONS = ["Parse", "Count", "Alg", "SelectKey", "Verify", "Bind"]
HPENC = {"h-pad", "p-pad", "h-noncanon", "p-noncanon", "extra-seg"}


def cause(c):
    a = c["attrs"]
    # algorithm SOURCE: the case is refused by a verifier that derives the algorithm from the resolved key and accepted by the
    # deviating model (Jose.ldhdr.cfg, LdAlgFromHeader) in which the header of the detached JWS chooses it: a mechanism of
    # its own, not the missing curve check of the jwx based consumers
    if c["consumer"] == "ldproof" and c.get("ldhdr") == "accept" and c["expect"] == "reject" and a["alg"] not in ("none", "mac"):
        return "verification-alg-chosen-by-jws-header-not-by-key"
    if a["nsig"] != 1:
        return "not-exactly-one-signature"
    if a["keyhdr"] in ("jwk-private", "jwk-private-own"):
        return "embedded-private-key"
    if a["enc"] == "extra-seg":
        return "trailing-segments-ignored"
    if a["enc"] in HPENC:
        return "lenient-base64"
    if a.get("actual") == "key-disallowed":
        return "used-alg-from-key-content-not-allowed"
    if a["alg"] == "mismatch":
        return "alg-does-not-fit-key" if c["fam"] != "rsa" else "alg-not-allowed"
    if a["alg"] in ("none", "mac"):
        return "alg-" + a["alg"]
    if a["signer"] != "legit":
        return "key-not-from-mandated-source"
    if not a["sigok"]:
        return "signed-bytes-altered"
    return "alg-not-allowed"


def real_verdict(r):
    real = [x for x in r["real"] if x["name"] != "carrier"]
    acc = [x for x in real if x["accepted"]]
    if acc and len(acc) == len(real):
        return "accept", real
    if not acc:
        return "reject", real
    return "mixed", real


def judge(cases, results, rep, prop):
    got = {r["id"]: r for r in results}
    supported = {(c["consumer"], c["fam"]): c["expect"] == "accept" for c in cases if c["variant"] == "valid"}
    st = dict(evals=0, obtained=set(), drift=[], errors=[], repaired=0, samples=[], accepted_valid=0, rejected_hostile=0, panics=[])
    for c in cases:
        r = got.get(c["id"])
        key = "%s/%s/%s" % (c["consumer"], c["fam"], c["variant"])
        if r is None:
            st["errors"].append("%s: no result" % key)
            continue
        if r.get("error"):
            st["errors"].append("%s: %s" % (key, r["error"]))
            continue
        if r.get("na"):
            st["drift"].append("%s: the concretiser has no realisation although the model says the variant applies" % key)
            continue
        verdict, real = real_verdict(r)
        st["evals"] += len(r["real"])
        carrier = [x for x in r["real"] if x["name"] == "carrier"]
        if carrier and not carrier[0]["accepted"] and supported.get((c["consumer"], c["fam"])):
            st["drift"].append("%s: the legitimately signed carrier token was refused (%s), variant not evaluated" % (key, carrier[0].get("err", "")[:80]))
            continue
        for x in real:
            if x.get("err", "").startswith("PANIC"):
                st["panics"].append("%s/%s: %s" % (key, x["name"], x["err"][:120]))
        if c["variant"] == "valid":
            if c["expect"] == "accept" and verdict != "accept":
                raise Inconclusive("control failed: the valid %s token (%s key) was refused: %s -- hostile variants cannot be evaluated"
                                   % (c["consumer"], c["fam"], real[0].get("err")))
            st["accepted_valid"] += verdict == "accept"
        if c["variant"] != "valid":
            st["obtained"].add(key)
        if c["must_reject"]:
            acc = [x for x in real if x["accepted"]]
            if acc:
                sig = dict(kind="hostile-variant-accepted", site=c["consumer"], variant=c["variant"], cause=cause(c))
                rep.violation(sig, dict(property=prop, cases=[c], stride=1, offset=0, violation=dict(sig, fam=c["fam"], accepted=[x["name"] for x in acc], token=acc[0].get("token"))))
            else:
                st["rejected_hostile"] += 1
        if verdict != c["expect"]:
            if verdict == c.get("presc"):
                st["repaired"] += 1
            else:
                st["drift"].append("%s: model %s, real %s (%s)" % (key, c["expect"], verdict,
                                   "; ".join("%s=%s" % (x["name"], "accepted" if x["accepted"] else x.get("err", "")[:60]) for x in real[:3])))
        if len(st["samples"]) < 8 and c["variant"] not in [s["variant"] for s in st["samples"]]:
            st["samples"].append(dict(consumer=c["consumer"], key_family=c["fam"], variant=c["variant"], attributes=c["attrs"], must_reject=c["must_reject"],
                                      model=c["expect"], real=[dict(name=x["name"], accepted=x["accepted"], error=x.get("err", "")[:100], token=x.get("token", "")[:160]) for x in real[:2]]))
    return st


def run(prop, tier, seed, replay=None):
    t0 = time.time()
    rep = Report(prop)
    binary = vlib.build_driver("jose")
    if replay:
        obj = json.load(open(replay))
        res = vlib.run_driver(binary, dict(cases=obj["cases"], stride=obj.get("stride", 1), offset=obj.get("offset", 0)), timeout=300)
        for r in res:
            print(json.dumps(r)[:3000])
        st = judge(obj["cases"], res, rep, prop)
        rep.inconclusive += st["errors"]
        return rep.finish()

    quick = tier == "quick"
    rnd = random.Random(seed)
    m = vlib.tlc("Jose", "Jose.check.cfg", workers=4, timeout=600, coverage=not quick)
    if m.error:
        raise Inconclusive("TLC Jose.check: %s" % m.error)
    if m.violation:
        raise Inconclusive("the prescriptive model violates %s:\n%s" % (m.violation, m.raw[-2500:]))
    g = vlib.tlc("Jose", "Jose.gen.cfg", workers=4, timeout=600)
    if not g.ok:
        raise Inconclusive("TLC Jose.gen: %s %s" % (g.violation, g.error))
    ld = vlib.tlc("Jose", "Jose.ldhdr.cfg", workers=4, timeout=600)
    if not ld.ok:
        raise Inconclusive("TLC Jose.ldhdr: %s %s" % (ld.violation, ld.error))
    ldhdr = {(c["consumer"], c["fam"], c["variant"]): c for c in ld.printed}
    ld_bad = sorted(k[1] + "/" + k[2] for k, c in ldhdr.items() if c["bad"] and not any(
        x["bad"] for x in g.printed if (x["consumer"], x["fam"], x["variant"]) == k))
    if not ld_bad or any(c["algsrc"] == "label" for c in g.printed if c["consumer"] == "ldproof"):
        raise Inconclusive("vacuity: the header-chosen-algorithm dimension of Jose.tla predicts no wrongly accepted JSON-LD proof "
                           "(or the descriptive model already takes the algorithm from the header)")
    if not quick:
        missing = [a for a in ACTIONS if not m.coverage.get(a)]
        if missing:
            raise Inconclusive("vacuity: actions never fired in the model: %s" % missing)
    presc = {(c["consumer"], c["fam"], c["variant"]): c["expect"] for c in m.printed}
    for c in g.printed:
        c["presc"] = presc[(c["consumer"], c["fam"], c["variant"])]
        c["ldhdr"] = ldhdr[(c["consumer"], c["fam"], c["variant"])]["expect"]
    table = sorted(g.printed, key=lambda c: (c["consumer"], c["fam"], c["variant"]))
    reps = 2 if quick else 8     # every repetition uses fresh keys, fresh (randomised) signatures and a fresh process
    cases = []
    for i in range(reps):
        for c in table:
            cases.append(dict(c, id="r%d/%s/%s/%s" % (i, c["consumer"], c["fam"], c["variant"])))
    rnd.shuffle(cases)
    stride, offset = (11, seed % 11) if quick else (1, 0)   # sweep variants: sampled positions in quick, every position in thorough
    results = vlib.run_driver_parallel(binary, dict(cases=cases, stride=stride, offset=offset), key="cases", shards=8, timeout=400)
    st = judge(cases, results, rep, prop)
    rep.inconclusive += st["errors"][:10]
    for d in sorted(set(x.split("/", 1)[-1] if x.startswith("r") else x for x in st["drift"]))[:8]:
        rep.notes.append("DRIFT: " + d)
    if st["panics"]:
        sites = sorted(set(p.split("/")[0] + "/" + p.split("/")[2] for p in st["panics"]))
        rep.notes.append("NOTE: a consumer panicked on %d forged tokens (counted as rejections here; robustness is C19) at %s, e.g. %s"
                         % (len(st["panics"]), sites, sorted(st["panics"])[0].split("/", 1)[1]))
    if st["repaired"]:
        rep.notes.append("NOTE: %d real verdicts follow the PRESCRIPTIVE model instead of the descriptive one: a deviation named by a constant of "
                         "Jose.tla has been repaired in the code, switch it in spec/cfg/Jose.gen.cfg" % st["repaired"])
    if len(st["drift"]) > max(4, len(cases) // 20) and not rep.violations:
        rep.inconclusive.append("%d of %d real verdicts differ from the model's prediction: the descriptive model is out of date" % (len(st["drift"]), len(cases)))
    if not st["accepted_valid"] or not st["rejected_hostile"]:
        rep.inconclusive.append("vacuity: valid accepted=%d hostile rejected=%d" % (st["accepted_valid"], st["rejected_hostile"]))
    cov = dict(evaluations=st["evals"], distinct_nontrivial=len(set(k for k in st["obtained"])), exhaustive=True,
               rule="TLC enumerates the complete table consumer(8) x key family(5) x variant(%d) minus the combinations that do not exist "
                    "(Applicable); every case is forged from a fresh valid token (several realisations per variant: spellings, key encodings, "
                    "algorithms) and fed to the real consumer, %d repetitions with fresh keys. evaluations = tokens consumed; distinct = distinct "
                    "(consumer, family, variant) with variant # valid whose real verdict was obtained; sweep-* variants flip one used bit at %s "
                    "character position of the segment" % (len(set(c["variant"] for c in table)), reps, "every 11th" if quick else "every"),
               samples=st["samples"], table_cases=len(table), repetitions=reps, states=m.distinct, transitions=m.generated,
               models=[dict(cfg="Jose.check.cfg", states=m.distinct, wall_s=round(m.wall, 1)), dict(cfg="Jose.gen.cfg", states=g.distinct, cases=len(table), wall_s=round(g.wall, 1)),
                       dict(cfg="Jose.ldhdr.cfg", states=ld.distinct, wall_s=round(ld.wall, 1), wrongly_accepted_only_with_header_chosen_alg=ld_bad)],
               action_coverage=m.coverage, must_reject_cases=sum(1 for c in table if c["must_reject"]),
               model_predicted_violations=sum(1 for c in table if c["bad"]), verdicts_matching_prescriptive_model_only=st["repaired"],
               hostile_rejected=st["rejected_hostile"], consumer_panics=len(st["panics"]), valid_accepted=st["accepted_valid"], drift=len(st["drift"]),
               drift_samples=sorted(set(st["drift"]))[:5], known_findings=sorted(rep.known))
    vlib.write_evidence(prop, tier, seed, "exploration", cov, time.time() - t0, len(rep.violations),
                        ["the ground truth of a forged variant (who signed what with which algorithm) is known by construction (harness/txforge/jose.go, harness/drivers/jose)",
                         "cryptographic primitives of Go crypto / jwx are trusted; 'any protected byte altered' is sampled by representative alterations, not all bytes",
                         "key resolution is scripted: DID documents / authorized_keys / client key set / nuts key resolver hold exactly the keys of the legitimate, another honest and the attacking party",
                         "the legacy OAuth bearer-token validator (auth/services/oauth/authz_server.go) and the OpenID4VCI proof (vcr/issuer/openid.go) use the same crypto.ParseJWT and are not driven separately",
                         "JSON-LD canonicalisation (json-gold) is trusted; the LD variants act on proof.jws / proof.verificationMethod / the document"])
    return rep.finish()
