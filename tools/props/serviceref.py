"""X02 (extension): ServiceRef.tla <-> resolution of DID document service references
(vdr/resolver/service.go, vdr/didnuts/validators.go managedServiceValidator, vdr/didnuts/manager.go Update, didman/didman.go).

1. TLC proves the properties for the PRESCRIPTIVE configuration (every deviation constant repaired), proves termination under
   weak fairness, and (thorough) shows that every deviation constant switched on alone violates NothingBroken.
2. TLC enumerates, from the DESCRIPTIVE configuration (the code as it is), four families of cases (MCServiceRef.tla): R every path
   graph x every query, U resolutions interleaved with network updates, V one didman operation on every path graph, S sequences
   of didman operations from empty documents; each is printed with the verdicts/results/documents the model computes.
3. The Go driver concretises every case into real did.Documents in a real didstore and runs the real DIDServiceResolver, the real
   didman and the real didnuts.Manager (ManagedDocumentValidator) on it under recover() + deadline.
4. The property statements are evaluated on the real observables (VIOLATION); the recorded executions (store reads, published
   versions, calls/returns) are validated by TLC against TraceServiceRef.tla."""
import collections, copy, hashlib, json, os, random, time
from .. import vlib
from ..vlib import Report, Inconclusive

PROPS = ["X02"]
WORKERS = 8
MANAGED = ["A", "B", "C", "D", "N"]
RESOLVER_INVS = ["DepthBound", "ReadOnce", "ResolvedNotRef", "SnapshotFunctional"]
DEV_CFGS = {"ServiceRef.dev.depth.cfg": "NothingBroken", "ServiceRef.dev.otherdoc.cfg": "NothingBroken",
            "ServiceRef.dev.spelling.cfg": "NothingBroken", "ServiceRef.dev.lock.cfg": "NothingBroken",
            "ServiceRef.dev.nocache.cfg": "SnapshotFunctional"}
ACTIONS = ["ResolveBegin", "Hop", "NetUpdate", "AddCheck", "DeleteCheck", "OpWrite", "GetCompound"]
# family T (not TLC-generated): service types that need escaping in a query; MakeServiceReference must round-trip
RT_TYPES = {"plain": "oauth", "dash": "node-contact-info", "plus": "a+b", "space": "a b", "amp": "a&b", "percent": "a%41",
            "hash": "a#b", "equals": "a=b", "question": "a?b", "slash": "a/b", "unicode": "zorg-ä", "semicolon": "a;b"}


RT_ESCAPE = {"plus", "amp", "percent", "hash", "semicolon"}   # characters with a meaning in a URI query / fragment


# ------------------------------------------------------------------------------------------------ model -> cases

def jdoc(d):
    """TLC prints an empty function as []"""
    svc = d.get("svc") or {}
    return {"st": d["st"], "svc": dict(svc) if isinstance(svc, dict) else {}}


def jdocs(ds):
    return {k: jdoc(v) for k, v in ds.items()}


def case_id(fam, docs, steps):
    h = hashlib.sha1(json.dumps([fam, docs, steps], sort_keys=True).encode()).hexdigest()[:12]
    return "%s-%s" % (fam, h)


def cases_R(printed):
    out = []
    for p in printed:
        if not (isinstance(p, dict) and p.get("fam") == "R"):
            continue
        docs = jdocs(p["docs"])
        exp = sorted(p["exp"], key=lambda e: (e["f"], e["max"]))
        steps = [dict(op="resolve", d="A", t="t1", f=e["f"], max=e["max"]) for e in exp]
        expect = [dict(v=e["v"], at=list(e["at"]), reads=list(e["reads"]),
                       e=docs[e["at"][0]]["svc"][e["at"][1]] if e["v"] == "ok" else None) for e in exp]
        out.append(dict(id=case_id("R", docs, steps), fam="R", docs=docs, managed=MANAGED, steps=steps, expect=expect,
                        docs_after=[None] * len(steps)))
    return sorted(out, key=lambda c: c["id"])


def cases_hist(printed, fam):
    """U, V, S: one witness behaviour per terminal state -> initial documents, steps, expectations."""
    out = {}
    for p in printed:
        if not (isinstance(p, dict) and p.get("fam") == fam):
            continue
        final = jdocs(p["docs"])
        hist = p["hist"]
        # initial documents: undo the updates backwards
        docs0 = copy.deepcopy(final)
        for h in reversed(hist):
            if h["a"] in ("Net", "Write"):
                docs0[h["d"]] = jdoc(h["old"])
        steps, expect, after = [], [], []
        cur = copy.deepcopy(docs0)
        early = []      # network updates before a resolution starts: applied before its first read
        i = 0
        while i < len(hist):
            h = hist[i]
            a = h["a"]
            if a == "Resolve":
                q = h["q"]
                st = dict(op="resolve", d=q["d"], t=q["t"], f=q["f"], max=q["max"], nets=early)
                early = []
                reads, res = [], None
                i += 1
                while i < len(hist) and hist[i]["a"] in ("Hop", "Net"):
                    x = hist[i]
                    if x["a"] == "Net":
                        st["nets"].append(dict(after=len(reads), d=x["d"], doc=jdoc(x["new"])))
                        cur[x["d"]] = jdoc(x["new"])
                    else:
                        if x["read"]:
                            reads.append(x["d"])
                        if x["fin"]:
                            res = x["res"]
                            i += 1
                            break
                    i += 1
                if res is None:
                    raise Inconclusive("model behaviour with an unfinished resolution: %s" % json.dumps(hist)[:400])
                # updates the model scheduled after the last store read cannot influence the result: not replayed
                st["nets"] = [n for n in st["nets"] if n["after"] < len(reads)]
                cur = None  # documents after a resolution with updates: taken from the driver's own bookkeeping, not compared
                steps.append(st)
                expect.append(dict(v=res["v"], at=[res["d"], res["t"]] if res["v"] == "ok" else [], reads=reads, e=res.get("e")))
                after.append(None)
                continue
            if a in ("Add", "Delete"):
                c = h["c"]
                st = dict(op=a.lower(), d=c["d"], t=c["t"])
                if a == "Add":
                    st["e"] = c["e"]
                e = dict(v=h["v"], causes=sorted(h["causes"]), vp=h.get("vp", h["v"]))
                if h["v"] == "ok":
                    if i + 1 >= len(hist) or hist[i + 1]["a"] != "Write":
                        raise Inconclusive("model behaviour: accepted operation without Write")
                    if cur is not None:
                        cur[hist[i + 1]["d"]] = jdoc(hist[i + 1]["new"])
                    i += 1
                steps.append(st)
                expect.append(e)
                after.append(copy.deepcopy(cur))
            elif a == "GetCompound":
                c, r = h["c"], h["r"]
                steps.append(dict(op="getc", d=c["d"], ct=c["ct"], n=c["n"], rr=c["rr"]))
                expect.append(dict(v=r["v"], cause=r.get("cause", ""), e=r.get("e")))
                after.append(None)
            elif a == "Net":
                early.append(dict(after=0, d=h["d"], doc=jdoc(h["new"])))
                cur = None
            i += 1
        if fam == "U" and not steps:
            continue
        cid = case_id(fam, docs0, steps)
        out[cid] = dict(id=cid, fam=fam, docs=docs0, managed=MANAGED, steps=steps, expect=expect, docs_after=after,
                        model_unres=sorted(map(list, p.get("unres", []))), model_broken=sorted(map(list, p.get("broken", []))))
    return [out[k] for k in sorted(out)]


def cases_T():
    docs = {"A": dict(st="active", svc={}), "N": dict(st="none", svc={})}
    classes = sorted(RT_TYPES)
    steps = [dict(op="roundtrip", d="A", types=[RT_TYPES[c] for c in classes])]
    return [dict(id="T-roundtrip", fam="T", docs=docs, managed=["A"], steps=steps, expect=[dict(classes=classes)], docs_after=[None])]


# ------------------------------------------------------------------------------------------------ oracle

def referrers(docs, d, t):
    """direct references to (d, t) in managed active documents: (doc, type, form) - computed on the abstract documents"""
    out = []
    for x in MANAGED:
        dx = docs.get(x)
        if not dx or dx["st"] != "active":
            continue
        for y, e in dx["svc"].items():
            es = [e] if e["k"] == "ref" else list(e.get("m", {}).values()) if e["k"] == "map" else []
            for r in es:
                if r["k"] == "ref" and r["d"] == d and r["t"] == t and r["f"] in ("canon", "pct", "frag"):
                    out.append((x, y, r["f"]))
    return out


def endpoint_eq(real, model):
    if real is None or model is None:
        return real is None and model is None
    if real.get("k") != model.get("k"):
        return False
    if real["k"] == "map":
        rm, mm = real.get("m", {}), model.get("m", {})
        return set(rm) == set(mm) and all(endpoint_eq(rm[n], mm[n]) for n in rm)
    return all(real.get(f, "") == model.get(f, "") for f in ("u", "d", "t", "f"))


def docs_eq(real, model):
    for n, md in model.items():
        rd = real.get(n)
        if rd is None or rd["st"] != md["st"]:
            return "document %s: status %s, model %s" % (n, rd and rd["st"], md["st"])
        if md["st"] != "active":
            continue
        if set(rd["svc"]) != set(md["svc"]):
            return "document %s: service types %s, model %s" % (n, sorted(rd["svc"]), sorted(md["svc"]))
        for t in md["svc"]:
            if not endpoint_eq(rd["svc"][t], md["svc"][t]):
                return "document %s service %s: %s, model %s" % (n, t, json.dumps(rd["svc"][t]), json.dumps(md["svc"][t]))
    return ""


class Judge:
    def __init__(self, rep, prop):
        self.rep, self.prop = rep, prop
        self.decisions = 0
        self.drift = collections.OrderedDict()
        self.stats = collections.Counter()
        self.nontrivial = set()
        self.viol_cases = 0
        self.calls = 0
        self.repaired = {}
        self.repaired_cases = set()

    def viol(self, sig, case, res, detail):
        self.calls += 1
        self.rep.violation(sig, dict(property=self.prop, signature=sig, detail=detail, case=case,
                                     real=dict(steps=res.get("steps"), obs=res.get("obs"))))

    def note(self, key, text):
        if key not in self.drift and len(self.drift) < 8:
            self.drift[key] = "DRIFT: " + text

    def judge(self, c, r):
        nv0 = self.calls
        if r.get("error"):
            if "deadline" in r["error"]:
                self.viol(dict(kind="hang", fam=c["fam"]), c, r, r["error"])
            else:
                self.rep.inconclusive.append("case %s: %s" % (c["id"], r["error"][:300]))
            return
        if len(r["steps"]) != len(c["steps"]):
            self.rep.inconclusive.append("case %s: %d of %d steps executed" % (c["id"], len(r["steps"]), len(c["steps"])))
            return
        obs = r.get("obs") or []
        for i, (st, ex, got) in enumerate(zip(c["steps"], c["expect"], r["steps"])):
            op = st["op"]
            self.stats["steps_" + op] += 1
            v = got["v"]
            # totality (every family, every operation)
            self.decisions += 1
            if v.startswith("panic") or v == "hang":
                self.viol(dict(kind="panic" if v != "hang" else "hang", op=op), c, r, "step %d: %s" % (i, v))
                continue
            if v == "driver-error":
                self.rep.inconclusive.append("case %s step %d: %s" % (c["id"], i, got.get("msg", "")))
                continue
            if op == "resolve":
                self.judge_resolve(c, r, i, st, ex, got)
            elif op in ("add", "delete"):
                if v != ex["v"] and v == ex["vp"]:
                    # the real code gives the verdict of the REPAIRED model: not a violation; the rest of the case
                    # (computed from the descriptive model) is not judged
                    dev = "ValidatorCountsFromTarget" if got.get("cause") == "too-deep" else "InUseSameDocOnly / InUseExactString"
                    self.repaired[dev] = self.repaired.get(dev, 0) + 1
                    self.repaired_cases.add(c["id"])
                    break
                self.judge_mutation(c, r, i, st, ex, got, obs)
            elif op == "getc":
                self.judge_getc(c, r, i, st, ex, got)
            elif op == "roundtrip":
                cls_of = {RT_TYPES[k]: k for k in ex["classes"]}
                for x in got.get("rt") or []:
                    self.decisions += 1
                    self.nontrivial.add("T:%s:%s" % (cls_of.get(x["type"]), x["via"]))
                    if x["v"] != "ok":
                        self.viol(dict(kind="makeref-roundtrip", outcome=x["v"], needs_escaping=cls_of.get(x["type"]) in RT_ESCAPE), c, r,
                                  "MakeServiceReference(did, %r) [%s] resolves to %s %s %s" % (x["type"], x["via"], x["v"], x.get("found", ""), x.get("msg", "")))
        if self.calls > nv0:
            self.viol_cases += 1

    def judge_resolve(self, c, r, i, st, ex, got):
        v = got["v"]
        self.decisions += 4
        if len(got["reads"]) > st["max"]:
            self.viol(dict(kind="depth-exceeded", fam=c["fam"]), c, r, "step %d: %d store reads with maxDepth %d" % (i, len(got["reads"]), st["max"]))
        if v == "ok" and got.get("k") not in ("url", "map"):
            self.viol(dict(kind="resolved-reference", op="resolve"), c, r, "step %d: resolved endpoint is %s %s" % (i, got.get("k"), json.dumps(got.get("e"))))
        if v != ex["v"] or (v == "ok" and list(got.get("at") or []) != list(ex["at"])):
            kind = "resolve-mismatch" if "ok" in (v, ex["v"]) else "wrong-error-class"
            self.viol(dict(kind=kind, fam=c["fam"], model=ex["v"], real=v), c, r,
                      "step %d: real %s %s, reference semantics %s %s" % (i, v, got.get("at"), ex["v"], ex["at"]))
        elif v == "ok" and not endpoint_eq(got.get("e"), ex["e"]):
            self.viol(dict(kind="resolve-mismatch", fam=c["fam"], model="ok", real="other-endpoint"), c, r,
                      "step %d: real endpoint %s, reference semantics %s (another version of the document?)" % (i, json.dumps(got.get("e")), json.dumps(ex["e"])))
        if got["reads"] != ex["reads"] and v == ex["v"]:
            self.note("reads", "case %s step %d: store reads %s, model %s (document cache used differently)" % (c["id"], i, got["reads"], ex["reads"]))
        if got.get("pending_nets"):
            self.note("pending", "case %s step %d: %d scripted updates were not reached" % (c["id"], i, got["pending_nets"]))
        hops = len(ex["reads"])
        if c["fam"] == "U" and st.get("nets"):
            self.nontrivial.add("%s:%s:%d" % (c["fam"], c["id"], i))
        elif v in ("ok", "too-deep") and hops >= 2 or (v not in ("ok", "too-deep") and hops >= 1 and st["f"] == "canon"):
            self.nontrivial.add("%s:%s:%d" % (c["fam"], c["id"], i))

    def judge_mutation(self, c, r, i, st, ex, got, obs):
        v, op = got["v"], st["op"]
        self.decisions += 1
        if v != ex["v"]:
            self.viol(dict(kind="verdict-mismatch", op=op, model=ex["v"], real=v), c, r,
                      "step %d %s: real %s (%s), model %s" % (i, json.dumps(st), v, got.get("msg", "")[:200], ex["v"]))
        elif v == "invalid" and got.get("cause") not in ex["causes"]:
            self.note("cause", "case %s step %d: validation failed with cause %s, model %s" % (c["id"], i, got.get("cause"), ex["causes"]))
        if True:
            self.nontrivial.add("%s:%s:%d" % (c["fam"], c["id"], i))
        if len(obs) <= i + 1:
            return
        pre, post = obs[i], obs[i + 1]
        # a refused operation leaves the documents unchanged; an accepted one produces the documents of the model
        self.decisions += 1
        if v != "ok" and pre["docs"] != post["docs"]:
            self.viol(dict(kind="refused-but-changed", op=op), c, r, "step %d: %s refused with %s but the documents changed" % (i, op, v))
        model_after = c["docs_after"][i]
        if model_after is not None and v == ex["v"]:
            d = docs_eq(post["docs"], model_after)
            if d:
                self.viol(dict(kind="document-mismatch", op=op), c, r, "step %d: %s" % (i, d))
        # what a user relies on: an operation that succeeds does not make a managed service unusable
        self.decisions += 1
        was = {(x[0], x[1]) for x in pre["unres"]}
        newly = [x for x in post["unres"] if (x[0], x[1]) not in was]
        if v == "ok" and newly:
            if op == "add":
                for x in newly:
                    self.viol(dict(kind="accepted-unresolvable", cause=x[2], own=(x[0] == st["d"] and x[1] == st["t"])), c, r,
                              "step %d: AddEndpoint/AddCompoundService %s accepted, but managed service %s.%s does not resolve afterwards: %s"
                              % (i, json.dumps(st), x[0], x[1], x[2]))
            else:
                refs = referrers(pre["docs"], st["d"], st["t"])
                scopes = sorted({("same-document-canonical" if f == "canon" else "same-document-noncanonical") if x == st["d"] else "other-document"
                                 for x, y, f in refs}) or ["no-direct-referrer"]
                for sc in scopes:
                    self.viol(dict(kind="deleted-in-use", scope=sc), c, r,
                              "step %d: DeleteService %s.%s succeeded although referenced by %s; now unusable: %s" % (i, st["d"], st["t"], refs, newly))

    def judge_getc(self, c, r, i, st, ex, got):
        v = got["v"]
        self.decisions += 2
        if v == "ok" and st["rr"] and got.get("k") != "url":
            self.viol(dict(kind="resolved-reference", op="getc"), c, r, "step %d: resolved member endpoint is %s" % (i, json.dumps(got.get("e"))))
        if v != ex["v"] or (v == "ok" and not endpoint_eq(got.get("e"), ex["e"])):
            self.viol(dict(kind="compound-mismatch", model=ex["v"], real=v), c, r,
                      "step %d %s: real %s %s, model %s %s" % (i, json.dumps(st), v, json.dumps(got.get("e")), ex["v"], json.dumps(ex.get("e"))))
        elif v == "not-an-endpoint" and got.get("cause") != ex.get("cause"):
            self.note("getc-cause", "case %s step %d: not-an-endpoint cause %s, model %s" % (c["id"], i, got.get("cause"), ex.get("cause")))
        if v != "not-found":
            self.nontrivial.add("%s:%s:%d" % (c["fam"], c["id"], i))


# ------------------------------------------------------------------------------------------------ run

def tlc_ok(module, cfg, timeout=1200, workers=2, **kw):
    r = vlib.tlc(module, cfg, workers=workers, timeout=timeout, **kw)
    if r.error:
        raise Inconclusive("TLC %s: %s\n%s" % (cfg, r.error, r.raw[-1500:]))
    return r


def run_shard(binary, inp, timeout=900):
    """like vlib.run_driver, but a driver that dies is not an exception: returns (results, last begun case without result, output tail)"""
    import subprocess, shutil
    work = vlib.scratch("drv")
    try:
        ip, op = os.path.join(work, "in.json"), os.path.join(work, "out.ndjson")
        with open(ip, "w") as fh:
            json.dump(inp, fh)
        e = vlib.go_env()
        e.update({"VERIF_IN": ip, "VERIF_OUT": op, "TMPDIR": work})
        try:
            p = subprocess.run([binary, "-test.run", "^TestDriver$", "-test.timeout", "%ds" % timeout, "-test.count=1"], cwd=work, env=e,
                               stdout=subprocess.PIPE, stderr=subprocess.STDOUT, text=True, timeout=timeout + 30)
        except subprocess.TimeoutExpired:
            raise Inconclusive("driver timed out")
        results, begun = [], None
        if os.path.exists(op):
            for line in open(op):
                try:
                    o = json.loads(line)
                except ValueError:
                    continue
                if "begin" in o:
                    begun = o["begin"]
                else:
                    results.append(o)
                    begun = None
        if p.returncode == 0:
            return results, None, ""
        return results, begun, p.stdout[:3000] + "\n...\n" + p.stdout[-1500:]
    finally:
        shutil.rmtree(work, ignore_errors=True)


def run_cases(binary, cases, shards=8):
    """runs the cases in parallel driver processes. A case that kills its process (fatal error of the code under test) is
    confirmed by running it alone; returns (results by id, crashes: id -> output)."""
    from concurrent.futures import ThreadPoolExecutor
    byid, crashes = {}, {}
    todo = [cases[i::shards] for i in range(min(shards, max(1, len(cases))))]
    rounds = 0
    while todo:
        rounds += 1
        if rounds > 6:
            raise Inconclusive("driver keeps dying: %s" % list(crashes)[:3])
        with ThreadPoolExecutor(max_workers=shards) as ex:
            outs = list(ex.map(lambda part: run_shard(binary, dict(cases=[strip(c) for c in part], observe=True)), todo))
        nxt = []
        for part, (res, begun, tail) in zip(todo, outs):
            for r in res:
                byid[r["id"]] = r
            if begun is None:
                if len(res) < len(part) and not any(r.get("error") for r in res):
                    raise Inconclusive("driver stopped early without a begun case:\n" + tail)
                continue
            # confirm alone
            culprit = [c for c in part if c["id"] == begun]
            r2, b2, t2 = run_shard(binary, dict(cases=[strip(c) for c in culprit], observe=True))
            if b2 == begun:
                crashes[begun] = t2
            else:
                raise Inconclusive("driver died on case %s but not when the case runs alone:\n%s" % (begun, tail))
            rest = [c for c in part if c["id"] not in byid and c["id"] != begun]
            if rest:
                nxt.append(rest)
            if len(crashes) >= 5:
                return byid, crashes
        todo = nxt
    return byid, crashes


def strip(c):
    return {k: c[k] for k in ("id", "fam", "docs", "managed", "steps")}


def corrupt_traces(traces, how):
    """binding self-test: corrupt one logged field in every trace that has it"""
    out = []
    for t in traces:
        t = copy.deepcopy(t)
        if how == "dropread":
            for i, e in enumerate(t):
                if e["ev"] == "read" and i > 0 and any(x["ev"] == "resolve" for x in t[:i]):
                    del t[i]
                    break
        elif how == "flipverdict":
            for e in t:
                if e["ev"] == "resolved":
                    e["v"] = "no-service" if e["v"] == "ok" else "ok"
                    e.setdefault("at", ["A", "t1"])
                    e.setdefault("k", "url")
                    break
                if e["ev"] == "opend":
                    e["v"] = "in-use" if e["v"] == "ok" else "ok"
                    break
        elif how == "dropwrite":
            for i, e in enumerate(t):
                if e["ev"] == "write":
                    del t[i]
                    break
        out.append(t)
    return out


def run(prop, tier, seed, replay=None):
    t0 = time.time()
    rep = Report(prop)
    binary = vlib.build_driver("svcref")
    if replay:
        obj = json.load(open(replay))
        c = obj["case"]
        byid, crashes = run_cases(binary, [c], shards=1)
        for cid, tail in crashes.items():
            print(tail[:3000])
            rep.violation(obj.get("signature") if obj.get("signature", {}).get("kind") == "process-killed" else dict(kind="process-killed"), obj)
        j = Judge(rep, prop)
        for r in byid.values():
            print(json.dumps(dict(steps=r["steps"], obs=r.get("obs"), error=r.get("error")))[:6000])
            j.judge(c, r)
        rep.notes += list(j.drift.values())
        return rep.finish()

    quick = tier == "quick"
    rnd = random.Random(seed)
    models = []

    def record(cfg, r, **kw):
        models.append(dict(cfg=cfg, states=r.distinct, transitions=r.generated, depth=r.depth, wall_s=round(r.wall, 1), **kw))

    # all TLC jobs of this run, executed concurrently (4 jobs x 2 workers)
    gen_cfgs = [("R", "ServiceRef.R.gen.%s.cfg" % tier), ("U", "ServiceRef.U.gen.cfg"),
                ("V", "ServiceRef.V.gen.%s.cfg" % tier), ("S", "ServiceRef.S.gen.%s.cfg" % tier)]
    presc = [("ServiceRef.presc.V.%s.cfg" % tier, ["NothingBroken"]), ("ServiceRef.presc.S.%s.cfg" % tier, ["NothingBroken"] + RESOLVER_INVS)]
    # U and S: one worker, so that the witness TLC keeps per terminal state does not depend on thread timing
    jobs = [(cfg, dict(coverage=(fam == "U" and not quick), workers=1 if fam in "US" else 2)) for fam, cfg in gen_cfgs]
    jobs += [(cfg, dict(coverage=(not quick and ".S." in cfg))) for cfg, _ in presc] + [("ServiceRef.live.cfg", {})]
    if not quick:
        jobs += [(cfg, {}) for cfg in sorted(DEV_CFGS)]
    from concurrent.futures import ThreadPoolExecutor
    with ThreadPoolExecutor(max_workers=4) as ex:
        tl = dict(zip([c for c, _ in jobs], ex.map(lambda j: tlc_ok("MCServiceRef", j[0], **j[1]), jobs)))

    # 1. the prescriptive design satisfies the properties; termination; deviation constants are observable
    for cfg, invs in presc:
        r = tl[cfg]
        if r.violation:
            raise Inconclusive("the prescriptive model violates %s in %s (the specification must be repaired)\n%s" % (r.violation, cfg, r.raw[-2500:]))
        record(cfg, r, invariants=invs)
        if r.coverage:
            missing = [a for a in ACTIONS if not r.coverage.get(a) and a != "NetUpdate"]
            if missing:
                raise Inconclusive("vacuity: actions never fired in %s: %s" % (cfg, missing))
            models[-1]["action_coverage"] = {a: r.coverage.get(a, 0) for a in ACTIONS}
    r = tl["ServiceRef.live.cfg"]
    if r.violation:
        raise Inconclusive("liveness: the model has a resolution that does not terminate\n%s" % r.raw[-2500:])
    record("ServiceRef.live.cfg", r, property="Terminates (weak fairness on Hop)")
    if not quick:
        for cfg, inv in sorted(DEV_CFGS.items()):
            r = tl[cfg]
            models.append(dict(cfg=cfg, expected_violation=inv, violated=r.violation, states=r.distinct))
            if r.violation != inv:
                rep.notes.append("DRIFT: %s no longer violates %s (deviation constant without effect?)" % (cfg, inv))

    # 2. TLC enumerates the cases from the descriptive model (the code as it is)
    fams = {}
    for fam, cfg in gen_cfgs:
        g = tl[cfg]
        if g.violation:
            raise Inconclusive("the descriptive model violates %s in %s\n%s" % (g.violation, cfg, g.raw[-2500:]))
        cs = cases_R(g.printed) if fam == "R" else cases_hist(g.printed, fam)
        if not cs:
            raise Inconclusive("%s printed no cases" % cfg)
        fams[fam] = cs
        record(cfg, g, cases=len(cs))
        if g.coverage and not g.coverage.get("NetUpdate"):
            raise Inconclusive("vacuity: NetUpdate never fired in %s" % cfg)
    fams["T"] = cases_T()
    enumerated = {f: len(cs) for f, cs in fams.items()}

    # quick: all of U, S, T; seeded samples of R and V stratified by the model's verdict
    def sample(cs, n, key):
        if len(cs) <= n:
            return cs
        strata = collections.defaultdict(list)
        for c in cs:
            strata[key(c)].append(c)
        per = max(3, n // max(1, len(strata)))
        keep = []
        for k in sorted(strata):
            s = strata[k]
            keep += s if len(s) <= per else rnd.sample(s, per)
        return sorted(keep, key=lambda c: c["id"])

    if quick:
        fams["R"] = sample(fams["R"], 500, lambda c: tuple(e["v"] for e in c["expect"]))
        fams["V"] = sample(fams["V"], 4000, lambda c: (c["steps"][0]["op"], c["expect"][0]["v"], bool(c["model_broken"]),
                                                       c["steps"][0].get("e", {}).get("k", ""), c["steps"][0].get("n", ""),
                                                       tuple(sorted({(x == c["steps"][0]["d"], f) for x, y, f in referrers(c["docs"], c["steps"][0]["d"], c["steps"][0]["t"])}))
                                                       if c["steps"][0]["op"] == "delete" else ()))
    chosen = [c for f in ("R", "U", "V", "S", "T") for c in fams[f]]
    order = list(chosen)
    rnd.shuffle(order)          # the seed also decides which cases share a driver process (one didstore per process)

    # 3. real code
    byid, crashes = run_cases(binary, order)
    cbyid = {c["id"]: c for c in chosen}
    for cid, tail in sorted(crashes.items()):
        kind = "stack-overflow" if "stack overflow" in tail or "goroutine stack exceeds" in tail else "fatal-error"
        first = [l for l in tail.splitlines() if "fatal error" in l or "runtime:" in l][:2]
        sig = dict(kind="process-killed", how=kind, fam=cbyid[cid]["fam"])
        rep.violation(sig,
                      dict(property=prop, signature=sig, detail="the code under test killed the process on this case (twice, also alone): %s" % first,
                           case=cbyid[cid], real=dict(output=tail[:1500])))
    missing = [c["id"] for c in chosen if c["id"] not in byid and c["id"] not in crashes]
    if missing and len(crashes) < 5:
        rep.inconclusive.append("driver returned no result for %d cases (e.g. %s)" % (len(missing), missing[:3]))

    # 4. verdicts on real observables
    j = Judge(rep, prop)
    for c in chosen:
        if c["id"] in byid:
            j.judge(c, byid[c["id"]])
    # the model's prediction of broken services (descriptive) against the real ones: drift only
    for c in chosen:
        r = byid.get(c["id"])
        if r and c["fam"] in ("V", "S") and r.get("obs") and not r.get("error"):
            real = sorted([x[0], x[1]] for x in r["obs"][-1]["unres"])
            if c["id"] not in j.repaired_cases and real != c["model_unres"] and all(s["op"] != "resolve" or not s.get("nets") for s in c["steps"]):
                j.note("unres", "case %s: unusable managed services %s, model %s" % (c["id"], real, c["model_unres"]))
    rep.notes += list(j.drift.values())
    for dev, n in sorted(j.repaired.items()):
        rep.notes.append("NOTE: in %d cases the real code gives the verdict of the repaired model where the descriptive model deviates: deviation %s "
                         "appears to be repaired - set the constant to FALSE in spec/cfg/ServiceRef.{R,U,V,S}.gen.*.cfg and ServiceRef.trace.cfg "
                         "and mark the finding fixed" % (n, dev))

    # 5. trace validation: the recorded executions are behaviours of the specification
    corrupt = os.environ.get("VERIF_X02_CORRUPT", "")
    tcases = [c for c in chosen if c["fam"] != "T" and c["id"] in byid and not byid[c["id"]].get("error") and c["id"] not in j.repaired_cases]
    limit = 1500 if quick else 12000
    if len(tcases) > limit:
        small = [c for c in tcases if c["fam"] in ("U", "S")]
        rest = [c for c in tcases if c["fam"] not in ("U", "S")]
        tcases = small + rnd.sample(rest, max(0, limit - len(small)))
    traces = [byid[c["id"]]["trace"] for c in tcases]
    if corrupt:
        traces = corrupt_traces(traces, corrupt)
    accepted, rejected = vlib.validate_traces("TraceServiceRef", "ServiceRef.trace.cfg", traces, timeout=900, batch=600)
    for x in rejected:
        c = tcases[x["index"]]
        if x["kind"].startswith("invariant:") and x["kind"] != "invariant:ReadOnce":
            j.viol(dict(kind="trace-" + x["kind"], fam=c["fam"]), c, byid[c["id"]], "real execution violates %s at event %s" % (x["kind"], json.dumps(x["event"])))
        else:
            rep.notes.append("DRIFT: trace of case %s is not a behaviour of ServiceRef.tla (%s at event %d: %s)"
                             % (c["id"], x["kind"], x["at"], json.dumps(x["event"])[:300]))
    if rejected and not rep.violations and len(rejected) >= 12:
        rep.inconclusive.append("%d recorded executions are not behaviours of the specification (drift)" % len(rejected))

    # 6. evidence
    samples, seen = [], set()
    for c in chosen:
        k = (c["fam"], c["steps"][0]["op"], c["expect"][0].get("v", ""))
        if k in seen or len(samples) >= 10 or c["id"] not in byid:
            continue
        seen.add(k)
        samples.append(dict(id=c["id"], family=c["fam"], documents={n: d for n, d in c["docs"].items() if d["svc"] or d["st"] != "active"},
                            steps=c["steps"][:3], model=c["expect"][:3],
                            real=[{k2: s.get(k2) for k2 in ("v", "cause", "at", "k", "reads") if s.get(k2) not in (None, "", [])} for s in byid[c["id"]]["steps"][:3]],
                            trace=byid[c["id"]]["trace"][1:9]))
    mc = [m for m in models if "states" in m and m.get("states")]
    cov = dict(states=sum(m["states"] for m in mc), transitions=sum(m.get("transitions", 0) for m in mc),
               traces_validated_against_impl=accepted, traces_rejected=len(rejected), samples=samples,
               evaluations=j.decisions, distinct_nontrivial=len(j.nontrivial), exhaustive=not quick,
               cases_enumerated_by_tlc=enumerated, cases_replayed_on_real_code={f: len(fams[f]) for f in fams},
               real_steps=dict(j.stats), cases_with_violation_or_known_finding=j.viol_cases, models=models,
               known_findings_seen=sorted(rep.known), binding_self_test=corrupt,
               selection_digest=hashlib.sha1(" ".join(c["id"] for c in order).encode()).hexdigest()[:16],
               rule="TLC enumerates four families from MCServiceRef.tla: R every path graph over 3 DIDs x 2 types up to renaming (chains of 1..6 "
                    "services closed by URL / compound / dangling type / unknown DID / deactivated DID / 4 malformed references / a reference "
                    "back to every chain node, first reference in 3 spellings) x 7 query forms and 7 maxDepth values; U one resolution "
                    "interleaved with <= 2 network updates of the documents on its path; V one didman operation (44 AddEndpoint / "
                    "AddCompoundService choices, 6 DeleteService, 8 GetCompoundServiceEndpoint) on every path graph; S sequences of 3 (quick 2) "
                    "operations from empty documents; T (not from TLC) 12 service types that need escaping. Every case is concretised into real "
                    "documents in a real didstore and run on the real resolver / didman / didnuts.Manager%s. evaluations = oracle decisions on "
                    "real outcomes. distinct_nontrivial = distinct (case, step) pairs that are a resolution following at least one reference "
                    "(or failing on a well-formed query after a document was read), a resolution with a network update before one of its "
                    "reads, a didman operation, or a type class of T; resolutions that stop at maxDepth 0 or at the first service are not counted."
                    % (" (quick: all of U, S, T and seeded samples of R and V stratified by the model's verdict)" if quick else ""))
    vlib.write_evidence(prop, tier, seed, "model_checking", cov, time.time() - t0, len(rep.violations),
                        ["documents have at most one service per type (duplicates of a conflicted document are not modelled; the code takes the first)",
                         "service endpoints are strings or maps of strings (RFC006); sets and nested maps are not generated",
                         "the Nuts network (CreateTransaction), the key store (Exists) and the vdr.VDR getters are fakes; didstore, did:nuts resolver, "
                         "Manager.Update, ManagedDocumentValidator, DIDServiceResolver and didman are the real ones",
                         "didman handlers are replayed one at a time (the TOCTOU between handlers of different DIDs is shown on the model only: ServiceRef.dev.lock.cfg)",
                         "NutsComm / node-contact-info type-specific validation, UpdateEndpoint, UpdateCompoundService, DeleteEndpointsByType are not modelled",
                         "small scope: 3 active DIDs x 2 types (+1 new type), 1 deactivated, 1 unknown, 1 external DID; real depth limit 5"])
    print("X02: cases enumerated %s, replayed %d, %d oracle decisions, %d traces validated (%d rejected), %.0f s"
          % (enumerated, len(chosen), j.decisions, accepted, len(rejected), time.time() - t0))
    return rep.finish()
