"""C06, C08, C14: Dag.tla <-> network/dag (real State over real bbolt behind the gated KV store)."""
import copy, json, os, random, re, time
from .. import vlib
from ..vlib import Report, Inconclusive

PROPS = ["C06", "C08", "C14"]

UNIVERSE = {  # must mirror Attr in MCDag.tla (the driver builds real bytes from these attributes)
    "r": dict(prevs=[], lc=0, sig=True, wf=True),
    "a": dict(prevs=["r"], lc=1, sig=True, wf=True),
    "b": dict(prevs=["r"], lc=1, sig=True, wf=True),
    "c": dict(prevs=["a", "b"], lc=2, sig=True, wf=True),
    "d": dict(prevs=["c"], lc=3, sig=True, wf=True),
    "e": dict(prevs=["a"], lc=2, sig=True, wf=True),
    "f": dict(prevs=["e"], lc=3, sig=True, wf=True),
    "s": dict(prevs=["r"], lc=1, sig=True, wf=True, payload_of="a"),
    "x": dict(prevs=["r"], lc=2, sig=True, wf=True),
    "y": dict(prevs=["a", "b"], lc=1, sig=True, wf=True),
    "r2": dict(prevs=[], lc=0, sig=True, wf=True),
    "u": dict(prevs=["a"], lc=2, sig=False, wf=True),
    "o": dict(prevs=["ghost"], lc=1, sig=True, wf=True),
    "w": dict(prevs=["r"], lc=1, sig=True, wf=False),
}
SUBS = {"s1": dict(name="s1", type="transaction"), "s2": dict(name="s2", type="payload"),
        "s3": dict(name="s3", type="transaction", select=["a", "c"])}

# concrete defect classes realising the abstract classes of the model (driver: world.build)
MALFORMED = ["alg-none", "alg-hs256", "alg-rs256", "alg-es256k", "alg-eddsa", "no-crit", "crit-without-lc", "missing-sigt",
             "missing-ver", "ver-fraction", "missing-prevs", "missing-lc", "missing-cty", "sigt-string", "ver-string", "ver-3",
             "prevs-string", "prevs-nonhex", "prevs-short", "prevs-number", "lc-string", "lc-fraction", "lc-plus-2-32",
             "lc-minus-2-32", "lc-negative", "kid-and-jwk", "no-kid-no-jwk", "cty-no-slash", "payload-nonhex",
             "two-signatures", "zero-signatures", "truncated", "empty"]
BADSIG = ["sig-flipped", "sig-other-key", "sig-header-altered", "sig-payload-altered", "kid-unknown", "kid-wrong-key", "kid-later-key", "kid-late-doc"]
VALID_VARIANTS = ["", "kid-ok"]


def cfg_constants(cfg):
    txt = open(os.path.join(vlib.SPEC, "cfg", cfg)).read()
    tx = re.findall(r'"(\w+)"', re.search(r"Tx = \{(.*?)\}", txt).group(1))
    subs = re.findall(r'"(\w+)"', re.search(r"Subs = \{(.*?)\}", txt).group(1))
    return tx, subs


def generate(cfg, seed, n_exh, n_sim, sim_depth=70, timeout=900):
    """Behaviours from the permissive model: witnesses (one per distinct terminal / bad state) + simulation."""
    rnd = random.Random(seed)
    g = vlib.tlc("MCDag", cfg, timeout=timeout)
    if not g.ok:
        raise Inconclusive("generation run failed: %s %s" % (g.violation, g.error))
    wit = g.printed
    wit.sort(key=lambda b: json.dumps(b, sort_keys=True))
    rnd.shuffle(wit)
    # prefer diversity: bucket by the set of (action, outcome) pairs that occur
    buckets = {}
    for b in wit:
        sig = tuple(sorted(set((s["a"], s.get("res", "")) for s in b)))
        buckets.setdefault(sig, []).append(b)
    chosen = []
    # directed picks: multi-step patterns that a uniform sample would rarely contain
    def shared_payload(b):
        # a payload is stored, then another transaction declaring the same payload hash arrives with other bytes
        got = set()
        for st in b:
            if st["a"] == "Offer" and st.get("pl") == "good":
                got.add(st["t"])
            if st["a"] == "Offer" and st.get("pl") == "bad" and ((st["t"] == "s" and "a" in got) or (st["t"] == "a" and "s" in got)):
                return True
        return False
    for pred in (shared_payload,):
        k = 0
        for b in wit:
            if pred(b):
                chosen.append(b)
                k += 1
                if k >= 12:
                    break
    keys = sorted(buckets)
    rnd.shuffle(keys)
    while len(chosen) < n_exh and keys:
        for k in list(keys):
            if buckets[k]:
                chosen.append(buckets[k].pop())
                if len(chosen) >= n_exh:
                    break
            else:
                keys.remove(k)
    sim = []
    if n_sim:
        s = vlib.tlc("MCDag", cfg, workers=1, simulate="num=%d" % n_sim, depth=sim_depth, seed=seed, timeout=timeout)
        if s.error and "timeout" in s.error:
            raise Inconclusive(s.error)
        sim = vlib.dedupe_maximal(s.printed)
    return g, len(wit), chosen, sim


def to_scripts(behaviours, prefix):
    return [dict(id="%s%05d" % (prefix, i), steps=b) for i, b in enumerate(behaviours)]


def concretise(scripts, uni, rnd):
    """C06: every script gets a concrete defect (or valid variant) for each abstract class it offers; classes are
    assigned round-robin (starting at a seed-dependent offset) so that every concrete class is used in every run."""
    out = []
    counters = {"w": rnd.randrange(len(MALFORMED)), "u": rnd.randrange(len(BADSIG)), "a": rnd.randrange(len(VALID_VARIANTS))}
    for sc in scripts:
        offered = set(s.get("t") for s in sc["steps"])
        d = dict(sc.get("defects") or {})      # directed scripts may fix the concrete class themselves
        for cls, variants in (("w", MALFORMED), ("u", BADSIG), ("a", VALID_VARIANTS)):
            if cls in uni and cls in offered and cls not in d:
                v = variants[counters[cls] % len(variants)]
                counters[cls] += 1
                if v:
                    d[cls] = v
        out.append(dict(sc, defects=d))
    return uni, out


def abstract_trace(trace):
    out = []
    for e in trace:
        e = dict(e)
        for k in ("t", "g"):
            if isinstance(e.get(k), str) and "~" in e[k]:
                e[k] = e[k].split("~")[0]
        if "stored" in e:
            e["stored"] = sorted(set(x.split("~")[0] for x in e["stored"]))
        out.append(e)
    return out


def budget_scripts():
    """C14: hand-written abstract scripts for the real retry budget (20) -- the model uses a small budget constant."""
    add = lambda p, t, pl: [dict(a="Offer", p=p, t=t, pl=pl), dict(a="ReadVerify", p=p, t=t, res="verified"),
                            dict(a="LockWrite", p=p, t=t, res="written"), dict(a="Commit", p=p, t=t), dict(a="AfterCommit", p=p, t=t)]
    out = []
    out.append(dict(id="budget-fail-forever", steps=add("p1", "r", "good"), default={"": "fail"}, restarts=2))
    out.append(dict(id="budget-incomplete-forever", steps=add("p1", "r", "none") + add("p1", "a", "good"), default={"": "incomplete"}, restarts=1))
    out.append(dict(id="budget-fatal", steps=add("p1", "r", "good"), default={"": "fatal"}, restarts=2))
    # the node stops in the middle of the budget: the remaining attempts must be made after the restart
    for k in (3, 12, 17):
        calls = []
        for s in ("s1", "s2"):
            for i in range(k):
                calls += [dict(a="NotifyCall", s=s, t="r", res="fail"), dict(a="NotifyMark", s=s, t="r", res="fail")]
        # one more delivery whose completion marking never happens: the process stops right there
        calls += [dict(a="NotifyCall", s="s1", t="r", res="fail")]
        out.append(dict(id="budget-restart-after-%d" % k, steps=add("p1", "r", "good") + calls + [dict(a="Crash")], default={"": "fail"}, restarts=0))
    # a failure, then a fatal error during the retries
    out.append(dict(id="fatal-during-retries", steps=add("p1", "r", "good") + [dict(a="NotifyCall", s="s1", t="r", res="fail"), dict(a="NotifyMark", s="s1", t="r", res="fail"),
                    dict(a="NotifyCall", s="s2", t="r", res="fail"), dict(a="NotifyMark", s="s2", t="r", res="fail")], default={"": "fatal"}, restarts=1))
    return out


def directed_admit_scripts():
    """C06: multi-step behaviours of the model that a sample of witnesses rarely contains (still behaviours of Dag.tla)."""
    def add(p, t, pl):
        return [dict(a="Offer", p=p, t=t, pl=pl), dict(a="ReadVerify", p=p, t=t, res="verified"), dict(a="LockWrite", p=p, t=t, res="written"),
                dict(a="Commit", p=p, t=t), dict(a="AfterCommit", p=p, t=t)]
    def fnerr(p, t, pl):
        return [dict(a="Offer", p=p, t=t, pl=pl), dict(a="ReadVerify", p=p, t=t, res="verified"), dict(a="LockWrite", p=p, t=t, res="error"),
                dict(a="Rollback", p=p, t=t), dict(a="OnRollback", p=p, t=t)]
    def present(p, t, pl):
        return [dict(a="Offer", p=p, t=t, pl=pl), dict(a="ReadVerify", p=p, t=t, res="present")]
    out = []
    # a payload is stored; another transaction declaring the same payload hash is offered with different bytes
    out.append(dict(id="admit-d-shared-payload-1", steps=add("p1", "r", "none") + add("p1", "a", "good") + fnerr("p1", "s", "bad") + add("p1", "s", "good")))
    out.append(dict(id="admit-d-shared-payload-2", steps=add("p1", "r", "good") + add("p1", "s", "good") + fnerr("p1", "a", "bad") + add("p1", "a", "none")))
    # re-submission of a present transaction with another payload changes nothing
    # every concrete bad-signature / key-resolution class offered when everything else about the transaction is fine (prevs stored, clock
    # right): the round-robin assignment over witness behaviours does not guarantee that each class meets such a state
    for v in BADSIG:
        out.append(dict(id="admit-d-badsig-" + v, defects={"u": v},
                        steps=add("p1", "r", "good") + add("p1", "a", "good") + [dict(a="Offer", p="p1", t="u", pl="good"), dict(a="ReadVerify", p="p1", t="u", res="rejected")]))
    out.append(dict(id="admit-d-resubmit", steps=add("p1", "r", "good") + add("p1", "a", "good") + present("p1", "a", "bad") + present("p1", "r", "none")))
    return out


def directed_add_scripts():
    """C08/C06: longer behaviours of the model than the exhaustive configs can afford: clocks arriving out of order
    (a late branch with a LOWER clock after higher ones) and storage errors in the middle of the write function."""
    def add(p, t, pl="none"):
        return [dict(a="Offer", p=p, t=t, pl=pl), dict(a="ReadVerify", p=p, t=t, res="verified"), dict(a="LockWrite", p=p, t=t, res="written"),
                dict(a="Commit", p=p, t=t), dict(a="AfterCommit", p=p, t=t)]
    def late(p, t, stage):
        return [dict(a="Offer", p=p, t=t, pl="none"), dict(a="ReadVerify", p=p, t=t, res="verified"), dict(a="LockWrite", p=p, t=t, res="error-" + stage),
                dict(a="Rollback", p=p, t=t), dict(a="OnRollback", p=p, t=t)]
    def commitfail(p, t):
        return [dict(a="Offer", p=p, t=t, pl="none"), dict(a="ReadVerify", p=p, t=t, res="verified"), dict(a="LockWrite", p=p, t=t, res="written"),
                dict(a="Rollback", p=p, t=t), dict(a="OnRollback", p=p, t=t)]
    seq = lambda *xs: [st for x in xs for st in x]
    out = []
    out.append(dict(id="add-d-outoforder-1", steps=seq(*[add("p1", t) for t in ("r", "a", "e", "f", "b", "c", "d")])))
    out.append(dict(id="add-d-outoforder-2", steps=seq(add("p1", "r"), add("p2", "a"), add("p1", "b"), add("p2", "c"), add("p1", "d"), add("p2", "e"), add("p1", "f"))))
    out.append(dict(id="add-d-outoforder-fail", steps=seq(add("p1", "r"), add("p1", "a"), add("p1", "e"), add("p1", "f"), commitfail("p1", "b"), add("p1", "b"))))
    for stage in ("tx", "iblt", "xor"):
        out.append(dict(id="add-d-late-%s-retry" % stage, steps=seq(add("p1", "r"), add("p1", "a"), late("p1", "e", stage), add("p1", "e"), add("p1", "b"))))
        out.append(dict(id="add-d-late-%s-root" % stage, steps=seq(late("p1", "r", stage), add("p1", "r"), late("p2", "a", stage), add("p1", "b"), add("p2", "a"))))
        out.append(dict(id="add-d-late-%s-other" % stage, steps=seq(add("p1", "r"), add("p1", "a"), add("p1", "e"), late("p1", "f", stage), add("p2", "b"), late("p2", "c", stage), add("p1", "f"), add("p1", "c"))))
    return out


def directed_notify_scripts():
    """C14: a payload written later for a transaction whose payload bytes another transaction already stored."""
    def add(p, t, pl):
        return [dict(a="Offer", p=p, t=t, pl=pl), dict(a="ReadVerify", p=p, t=t, res="verified"), dict(a="LockWrite", p=p, t=t, res="written"),
                dict(a="Commit", p=p, t=t), dict(a="AfterCommit", p=p, t=t)]
    out = []
    out.append(dict(id="notify-d-shared-late-payload", steps=add("p1", "r", "none") + add("p1", "a", "good") + add("p1", "s", "none") + [dict(a="WritePayload", t="s")], restarts=1))
    out.append(dict(id="notify-d-shared-late-payload-2", steps=add("p1", "r", "good") + add("p1", "s", "good") + add("p1", "a", "none") + [dict(a="WritePayload", t="a")], restarts=1))
    out.append(dict(id="notify-d-late-payload", steps=add("p1", "r", "none") + add("p1", "a", "none") + [dict(a="WritePayload", t="a"), dict(a="WritePayload", t="r")], restarts=1))
    return out


def jobfault_scripts():
    """C14, family jobfault: directed behaviours of Dag.tla with the real retry budget: the job read of the first attempt fails and the
    receiver then succeeds / fails for a while; a receiver that keeps failing with the 'context not allowed' error across restarts."""
    add = lambda p, t, pl: [dict(a="Offer", p=p, t=t, pl=pl), dict(a="ReadVerify", p=p, t=t, res="verified"),
                            dict(a="LockWrite", p=p, t=t, res="written"), dict(a="Commit", p=p, t=t), dict(a="AfterCommit", p=p, t=t)]
    out = []
    out.append(dict(id="jobfault-read-then-ok", steps=[dict(a="NotifyReadFail", s="s1", t="r")] + add("p1", "r", "good"), restarts=0))
    out.append(dict(id="jobfault-read-then-ok-2", steps=[dict(a="NotifyReadFail", s="s1", t="a")] + add("p1", "r", "none") + add("p1", "a", "good"), restarts=1))
    out.append(dict(id="jobfault-read-then-fail-ok", steps=[dict(a="NotifyReadFail", s="s1", t="r")] + add("p1", "r", "good") +
                    [dict(a="NotifyCall", s="s1", t="r", res="fail"), dict(a="NotifyMark", s="s1", t="r", res="fail")], restarts=0))
    out.append(dict(id="jobfault-ctx-forever", steps=add("p1", "r", "good"), default={"": "failctx"}, restarts=2))
    out.append(dict(id="jobfault-ctx-then-restart", steps=add("p1", "r", "good") + [dict(a="NotifyCall", s="s1", t="r", res="failctx"), dict(a="NotifyMark", s="s1", t="r", res="failctx"), dict(a="Crash")],
                    default={"": "failctx"}, restarts=1))
    return out


FAMILY = {"C06": ["admit", "add"], "C08": ["add", "repair"], "C14": ["notify", "paylater", "dup", "jobfault"]}


def run(prop, tier, seed, replay=None):
    t0 = time.time()
    rep = Report(prop)
    if replay:
        obj = json.load(open(replay))
        binary = vlib.build_driver("dagdrv")
        res = vlib.run_driver(binary, obj["input"], env={"VERIF_KEEP_TRACE": "1"})
        for r in res:
            print(json.dumps(r)[:3000])
            for v in r["violations"]:
                if v["prop"] == prop:
                    rep.violation(dict(kind=v["kind"]), obj)
        return rep.finish()

    quick = tier == "quick"
    rnd = random.Random(seed)
    binary = vlib.build_driver("dagdrv")
    states = transitions = 0
    models, cover = [], {}
    all_results, all_scripts = [], {}
    n_wit_total = 0
    live = None
    for fam in FAMILY[prop]:
        if fam in ("repair", "paylater", "dup", "jobfault"):
            check_cfg, gen_cfg = "Dag.%s.quick.cfg" % fam, "Dag.%s.gen.cfg" % fam
        else:
            check_cfg = "Dag.%s.%s.cfg" % (fam, "quick" if quick else "thorough")
            gen_cfg = "Dag.%s.gen%s.cfg" % (fam, "" if quick else ".thorough")
        # 1. the design the code implements satisfies the properties (exhaustive, small constants)
        m = vlib.tlc("MCDag", check_cfg, timeout=3000, coverage=not quick)
        if m.error:
            raise Inconclusive("TLC %s: %s" % (check_cfg, m.error))
        if m.violation:
            raise Inconclusive("model %s violates %s:\n%s" % (check_cfg, m.violation, m.raw[-3000:]))
        states += m.distinct
        transitions += m.generated
        models.append(dict(cfg=check_cfg, states=m.distinct, transitions=m.generated, depth=m.depth, wall_s=round(m.wall, 1)))
        cover.update(m.coverage)
        # 2. behaviours from the permissive model -> real code
        n_exh, n_sim = (200, 120) if quick else (1000, 700)
        if len(FAMILY[prop]) > 1 and fam != FAMILY[prop][0]:
            n_exh, n_sim = n_exh // 2, n_sim // 2
        g, n_wit, chosen, sim = generate(gen_cfg, seed, n_exh, n_sim, timeout=3000)
        n_wit_total += n_wit
        tx, subs = cfg_constants(gen_cfg)
        uni = {k: UNIVERSE[k] for k in tx}
        scripts = to_scripts(chosen, fam + "-w") + to_scripts(sim, fam + "-s")
        props = {"add": ["C06", "C08"], "admit": ["C06", "C08"], "repair": ["C08"], "notify": ["C14", "C06", "C08"],
                 "paylater": ["C14", "C06", "C08"], "dup": ["C14", "C06", "C08"], "jobfault": ["C14"]}[fam]
        if fam == "notify":
            scripts += budget_scripts() + directed_notify_scripts()
            uni = {k: UNIVERSE[k] for k in set(tx) | {"r", "a", "s"}}
        if fam == "jobfault":
            scripts += jobfault_scripts()
            uni = {k: UNIVERSE[k] for k in set(tx) | {"r", "a"}}
        if fam == "add":
            scripts += directed_add_scripts()
            uni = {k: UNIVERSE[k] for k in set(tx) | {"r", "a", "b", "c", "d", "e", "f"}}
        if fam == "admit":
            scripts += directed_admit_scripts()
        if prop == "C06":
            uni, scripts = concretise(scripts, uni, rnd)
        bases = [0, 510] if quick else [0, 510, 1022]
        if fam in ("admit", "notify", "paylater", "dup", "jobfault"):
            bases = [0] if quick else [0, 510]
        for base in bases:
            part = scripts if base == 0 else (scripts[::3] if quick else (scripts if base == 510 else scripts[::2]))
            inp = dict(universe=uni, base=base, subs=[SUBS[s] for s in subs], scripts=part, props=props)
            rs = vlib.run_driver_parallel(binary, inp, shards=(None if quick else 14), timeout=(420 if quick else 2400))
            for r in rs:
                r["base"] = base
                r["input"] = dict(universe=uni, base=base, subs=[SUBS[s] for s in subs], props=props)
            all_results += rs
        for s in scripts:
            all_scripts[s["id"]] = s
    if prop == "C14":
        live = vlib.tlc("MCDag", "Dag.notify.live.cfg", timeout=1500)
        if live.error:
            raise Inconclusive("TLC liveness: " + str(live.error))
        if live.violation:
            raise Inconclusive("liveness model violates %s" % live.violation)
        states += live.distinct
        transitions += live.generated
        models.append(dict(cfg="Dag.notify.live.cfg", states=live.distinct, transitions=live.generated, property="EventuallySettled under FairSpec"))

    # 3. verdicts from the real observables
    ninc = ndrift = ndef = nchecks = 0
    samples = []
    for r in all_results:
        nchecks += r.get("checks", 0)
        ndef += r.get("deferred", 0)
        ndrift += len(r.get("drift") or [])
        sc = all_scripts[r["id"]]
        if r.get("error"):
            ninc += 1
            rep.inconclusive.append("script %s: %s" % (r["id"], r["error"]))
        for v in r["violations"]:
            if v["prop"] != prop:
                continue
            inp = dict(r["input"], scripts=[sc])
            rep.violation(dict(kind=v["kind"]), dict(property=prop, violation=v, input=inp))
        if len(samples) < 2 and r.get("trace") and len(sc["steps"]) > 8:
            samples.append(dict(script=sc["steps"], real_trace=r["trace"][:30]))
    if ninc <= max(2, len(all_results) // 50):
        rep.inconclusive = []

    # 4. recorded traces of the real code are validated by TLC against the specification
    traces = [abstract_trace(r["trace"]) for r in all_results if r.get("trace") and not r.get("error")]
    acc, rej = vlib.validate_traces("TraceDag", "Dag.trace.cfg", traces, timeout=1200)
    inv_rej = [x for x in rej if x["kind"].startswith("invariant:")]
    for x in rej[:5]:
        rep.notes.append("DRIFT: trace %d rejected at event %s (%s)" % (x["index"], json.dumps(x["event"]), x["kind"]))
        if os.environ.get("VERIF_DUMP_REJ"):
            json.dump(dict(rejected=x, trace=traces[x["index"]]), open(os.path.join(os.environ["VERIF_DUMP_REJ"], "rej-%s-%d.json" % (prop, x["index"])), "w"), indent=1)
    for x in inv_rej:
        # a property invariant failed on the state reconstructed from a REAL execution
        sig = dict(kind="trace-" + x["kind"])
        if x["kind"] == "invariant:FinishedNotRecalled" and any(e.get("dup") for e in traces[x["index"]][: x.get("at", 10 ** 9)]):
            sig["cause"] = "duplicate-payload"  # the payload of a transaction was written a second time before the re-call
        rep.violation(sig, dict(property=prop, trace=traces[x["index"]], rejected=x))
    if len(rej) > max(3, len(traces) // 10) and not rep.violations:
        rep.inconclusive.append("%d of %d recorded traces are not behaviours of the specification (spec/code drift)" % (len(rej), len(traces)))

    cov = dict(states=states, transitions=transitions,
               traces_validated_against_impl=acc + len(rej),
               traces_accepted=acc, traces_rejected=len(rej),
               samples=samples or [next(iter(all_scripts.values()))["steps"]],
               models=models, behaviours_replayed_on_real_code=len(all_results),
               witness_behaviours_available=n_wit_total, oracle_evaluations=nchecks,
               steps_deferred_because_code_blocked=ndef, drift_notes=ndrift, inconclusive_scripts=ninc,
               action_coverage=cover, exhaustive=False,
               concrete_defect_classes=(len(MALFORMED) + len(BADSIG) + len(VALID_VARIANTS)) if prop == "C06" else 0,
               rule="TLC exhausts the Dag model configs listed under 'models' (invariants/action properties of %s); behaviours of the PERMISSIVE "
                    "model (one witness per distinct terminal state and per distinct state violating DerivedOK without the tree mutex, plus "
                    "-simulate runs) are replayed gate by gate on the real dag.State over bbolt; the property is evaluated on the real "
                    "observables at every quiescent point; every recorded real trace is validated by TLC against TraceDag.tla" % prop)
    vlib.write_evidence(prop, tier, seed, "model_checking", cov, time.time() - t0, len(rep.violations),
                        ["SHA-256 collision freedom", "bbolt commits atomically", "jwx verifies ES256 correctly",
                         "small scope: <=2 goroutines, <=10 transaction classes, <=2 injected failures / crashes",
                         "crash = the incarnation's store refuses every further operation and the same file is reopened"])
    return rep.finish()
