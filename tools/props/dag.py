"""C06, C08, C14: Dag.tla <-> network/dag (real State over real bbolt behind the gated KV store)."""
import json, random, time
from .. import vlib

PROPS = ["C06", "C08", "C14"]
from ..vlib import Report, Inconclusive

UNIVERSE = {  # must mirror Attr in MCDag.tla (the driver builds real bytes from these attributes)
    "r": dict(prevs=[], lc=0, sig=True, wf=True),
    "a": dict(prevs=["r"], lc=1, sig=True, wf=True),
    "b": dict(prevs=["r"], lc=1, sig=True, wf=True),
    "c": dict(prevs=["a", "b"], lc=2, sig=True, wf=True),
    "d": dict(prevs=["c"], lc=3, sig=True, wf=True),
    "x": dict(prevs=["r"], lc=2, sig=True, wf=True),
    "y": dict(prevs=["a", "b"], lc=1, sig=True, wf=True),
    "r2": dict(prevs=[], lc=0, sig=True, wf=True),
    "u": dict(prevs=["a"], lc=2, sig=False, wf=True),
    "o": dict(prevs=["ghost"], lc=1, sig=True, wf=True),
    "w": dict(prevs=["r"], lc=1, sig=True, wf=False),
}
SUBS = {"s1": dict(name="s1", type="transaction"), "s2": dict(name="s2", type="payload"),
        "s3": dict(name="s3", type="transaction", select=["a", "c"])}


def cfg_constants(cfg):
    import os, re
    txt = open(os.path.join(vlib.SPEC, "cfg", cfg)).read()
    tx = re.findall(r'"(\w+)"', re.search(r"Tx = \{(.*?)\}", txt).group(1))
    subs = re.findall(r'"(\w+)"', re.search(r"Subs = \{(.*?)\}", txt).group(1))
    return tx, subs


def is_bad_witness(b):
    """complete behaviours end with every goroutine idle; witnesses of bad states are prefixes"""
    return True


def generate(cfg, seed, n_exh, n_sim, sim_depth=70, timeout=900):
    """Behaviours from the permissive model: witnesses (one per distinct terminal / bad state) + simulation."""
    rnd = random.Random(seed)
    g = vlib.tlc("MCDag", cfg, timeout=timeout)
    if not g.ok:
        raise Inconclusive("generation run failed: %s %s" % (g.violation, g.error))
    wit = g.printed
    rnd.shuffle(wit)
    # prefer diversity: bucket by (multiset of actions) signature
    buckets = {}
    for b in wit:
        sig = tuple(sorted(set((s["a"], s.get("res", "")) for s in b)))
        buckets.setdefault(sig, []).append(b)
    chosen = []
    keys = list(buckets)
    rnd.shuffle(keys)
    while len(chosen) < n_exh and keys:
        for k in list(keys):
            if buckets[k]:
                chosen.append(buckets[k].pop())
                if len(chosen) >= n_exh:
                    break
            else:
                keys.remove(k)
    sim = []
    if n_sim:
        s = vlib.tlc("MCDag", cfg, workers=1, simulate="num=%d" % n_sim, depth=sim_depth, seed=seed, timeout=timeout)
        if s.error and "timeout" in s.error:
            raise Inconclusive(s.error)
        sim = vlib.dedupe_maximal(s.printed)
    return g, len(wit), chosen, sim


def to_scripts(behaviours, prefix):
    return [dict(id="%s%05d" % (prefix, i), steps=b) for i, b in enumerate(behaviours)]


def run(prop, tier, seed, replay=None):
    t0 = time.time()
    rep = Report(prop)
    fam = {"C06": "add", "C08": "add", "C14": "notify"}[prop]
    if replay:
        obj = json.load(open(replay))
        binary = vlib.build_driver("dagdrv")
        res = vlib.run_driver(binary, obj["input"], env={"VERIF_KEEP_TRACE": "1"})
        for r in res:
            print(json.dumps(r)[:3000])
            for v in r["violations"]:
                if v["prop"] == prop:
                    rep.violation(dict(kind=v["kind"]), obj)
        return rep.finish()

    quick = tier == "quick"
    check_cfg = "Dag.%s.%s.cfg" % (fam, "quick" if quick else "thorough")
    gen_cfg = "Dag.%s.gen%s.cfg" % (fam, "" if quick else ".thorough")
    # 1. the prescriptive design satisfies the properties (exhaustive, small constants)
    m = vlib.tlc("MCDag", check_cfg, timeout=3000, coverage=not quick)
    if m.error:
        raise Inconclusive("TLC: " + m.error)
    if m.violation:
        # a spec-level violation is not a verdict about the code; it makes the run inconclusive
        raise Inconclusive("prescriptive model violates %s:\n%s" % (m.violation, m.raw[-3000:]))
    # 2. behaviours from the permissive model -> real code
    n_exh, n_sim = (250, 150) if quick else (2500, 1500)
    g, n_wit, chosen, sim = generate(gen_cfg, seed, n_exh, n_sim, timeout=3000)
    tx, subs = cfg_constants(gen_cfg)
    uni = {k: UNIVERSE[k] for k in tx}
    binary = vlib.build_driver("dagdrv")
    props = ["C06", "C08"] if fam == "add" else ["C14", "C06"]
    scripts = to_scripts(chosen, "w") + to_scripts(sim, "s")
    bases = [0, 510] if quick else [0, 510, 1022]
    results = []
    for bi, base in enumerate(bases):
        part = scripts if (base == 0 or not quick) else scripts[::3]
        inp = dict(universe=uni, base=base, subs=[SUBS[s] for s in subs], scripts=part, props=props)
        rs = vlib.run_driver_parallel(binary, inp)
        for r in rs:
            r["base"] = base
        results += rs
    by_id = {s["id"]: s for s in scripts}
    nviol = ninc = ndrift = ndef = nchecks = 0
    samples = []
    for r in results:
        nchecks += r.get("checks", 0)
        ndef += r.get("deferred", 0)
        ndrift += len(r.get("drift") or [])
        if r.get("error"):
            ninc += 1
            rep.inconclusive.append("script %s: %s" % (r["id"], r["error"]))
        for v in r["violations"]:
            if v["prop"] != prop:
                continue
            nviol += 1
            replay_obj = dict(property=prop, violation=v,
                              input=dict(universe=uni, base=r["base"], subs=[SUBS[s] for s in subs], scripts=[by_id[r["id"]]], props=props))
            rep.violation(dict(kind=v["kind"]), replay_obj)
        if len(samples) < 3 and r.get("trace"):
            samples.append(dict(script=by_id[r["id"]]["steps"], real_trace=r["trace"][:40]))
    if ninc > max(2, len(results) // 50):
        pass  # reported through rep.inconclusive
    else:
        rep.inconclusive = []
    cov = dict(states=m.distinct, transitions=m.generated, depth=m.depth,
               traces_validated_against_impl=len(results),
               samples=samples or [by_id[next(iter(by_id))]["steps"]],
               model_cfg=check_cfg, generation_cfg=gen_cfg, generation_states=g.distinct,
               witness_behaviours_available=n_wit, witness_behaviours_replayed=len(chosen), simulated_behaviours_replayed=len(sim),
               base_chain_lengths=bases, oracle_evaluations=nchecks, steps_deferred_because_code_blocked=ndef,
               drift=ndrift, inconclusive_scripts=ninc, action_coverage=m.coverage,
               exhaustive=False,
               rule="TLC exhausts the prescriptive Dag model (invariants of %s); behaviours (one witness per distinct terminal state and per distinct state "
                    "violating DerivedOK in the permissive model, plus -simulate runs) are replayed step by step on the real dag.State over bbolt; "
                    "the property is evaluated on the real observables at every quiescent point" % prop)
    vlib.write_evidence(prop, tier, seed, "model_checking", cov, time.time() - t0, len(rep.violations),
                        ["SHA-256 collision freedom", "bbolt commits atomically", "jwx verifies ES256 correctly",
                         "small-scope: 2 goroutines, <=6 transactions, <=2 injected failures"])
    return rep.finish()
