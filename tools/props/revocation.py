"""C11: Revocation.tla <-> vcr/revocation (StatusList2021 on sqlite), vcr/issuer, vcr/verifier, vcr ambassador.

Pipeline (see tools/HOWTO.md):
 1. TLC exhausts the PRESCRIPTIVE model (every check of the code made) family by family; the deviation configs
    (one check switched off each) must violate the invariant that names the check (vacuity guard, thorough tier).
 2. behaviours are generated from the DESCRIPTIVE model (one shortest witness per distinct state + a closing sweep of
    verifications, and -simulate runs at the full bounds) and replayed on the real code by harness/drivers/revocation;
    the Go oracle evaluates the statement of C11 on the real observables.
 3. every recorded real trace is validated by TLC against TraceRevocation.tla.

`python3 -m tools.props.revocation --mkcfg` regenerates spec/cfg/Revocation.*.cfg from the table below.
"""
import json, os, random, sys, time
from .. import vlib
from ..vlib import Report, Inconclusive

PROPS = ["C11"]
WORKERS = 8

# ------------------------------------------------------------------------------------------------ configurations
BASE = dict(Issuers='{"i1", "i2"}', Nodes='{"n1", "n2"}', MaxCreds=3, B=2, Validity=4, MinLeft=1, MaxTicks=2, MaxForge=1,
            Kinds='{"sl", "net"}', RevForgeKinds='{"othersigner", "otherissuer", "wrongkey", "resubject"}', Rels='{"unrelated"}',
            Srcs='{"up", "down", "forged-set", "forged-clear", "otherlist"}', ForeignTarget='"i1"', Local='TRUE',
            ListIssuerChecked='TRUE', ListSubjectChecked='TRUE', RevIssuerChecked='TRUE', ExtSizes='{}', FullListRead='TRUE', ResignBeforeExpiry='TRUE', ResignRereads='TRUE', Servers='{}', RenewCreatedAt='FALSE',
            Procs='{}', RowLock='TRUE', Hist='FALSE')
CHECK = ("INVARIANTS TypeOK SlotsUnique SlotsOwn RevokedIsPermanent IssuerOnly EntryOnlyFromNamedList ServedListValidAndFresh\n"
         "PROPERTIES BitsMonotone KnownMonotone\n")
ALL_RELS = '{"unrelated", "prefix", "parent", "extension"}'
STATUS = dict(Nodes='{"n1"}', Kinds='{"sl"}', RevForgeKinds='{}')
NET = dict(Kinds='{"net"}', MaxTicks=0, MaxForge=2, Srcs='{"up"}', ForeignTarget='"none"', Local='FALSE', Rels=ALL_RELS)
NODES = dict(Issuers='{"i1"}', MaxCreds=2, MaxTicks=1, RenewCreatedAt='TRUE', RevForgeKinds='{"othersigner"}', Srcs='{"up", "down", "forged-set", "forged-clear"}')
SERVE = dict(Issuers='{"i1"}', Nodes='{"n1"}', MaxCreds=2, MaxTicks=6, Kinds='{"sl"}', RevForgeKinds='{}', Srcs='{"up", "down"}', ForeignTarget='"none"',
             Servers='{"s1"}')
ALL_SIZES = '{"min", "odd", "double"}'
EXT = dict(Issuers='{"i1"}', Nodes='{"n1"}', MaxCreds=2, MaxTicks=1, Kinds='{"ext"}', RevForgeKinds='{}', Srcs='{"up", "down", "forged-set", "forged-clear"}',
           ForeignTarget='"none"', Local='FALSE', ExtSizes=ALL_SIZES)
ALLOC = dict(Nodes='{}', MaxCreds=4, MaxTicks=0, MaxForge=0, Kinds='{"sl"}', RevForgeKinds='{}', Srcs='{"up"}', ForeignTarget='"none"',
             Local='FALSE', Procs='{"p1", "p2"}')
GEN = dict(ListIssuerChecked='FALSE', RenewCreatedAt='FALSE', Hist='TRUE')   # descriptive: F15 (the issuer of a fetched list is not compared)
TRACE = dict(MaxTicks=99, MaxForge=99, RenewCreatedAt='FALSE', Hist='FALSE', Rels=ALL_RELS, Servers='{"s1", "s2"}', ExtSizes=ALL_SIZES,
             Kinds='{"sl", "net", "ext"}')

def _inv(*names):
    return "INVARIANTS " + " ".join(names) + "\n"

# trace validation judges what the real code OBSERVABLY did (T_*: logged verdicts, slots, served lists); the invariants over the
# model's own cache provenance are not used here (a forged list that is accepted but has not changed any verdict yet is latent)
TRACE_TAIL = ("INVARIANTS Progress SlotsUnique T_RevokedIsPermanent T_IssuerOnly T_ServedListValidAndFresh T_BitsMonotone "
              "VerdictAsModel ServedAsModel\nPOSTCONDITION TraceAccepted\n")

CFGS = {
    # --- prescriptive model, exhaustive -----------------------------------------------------------------
    "status.quick": ("status lists, prescriptive (all checks made): 2 issuers, 1 remote node, page roll-over (B=2)", CHECK, STATUS),
    "net.quick": ("network revocations, prescriptive: 2 issuers, 2 nodes, every forged document class", CHECK, NET),
    "nodes.quick": ("two remote nodes, both revocation mechanisms, one issuer", CHECK, NODES),
    "serve.quick": ("serving over a long time: re-signing before expiry; a GET split at its transaction races with Revoke / other GETs / time", CHECK, SERVE),
    "ext.quick": ("external issuers with lists of the minimum size, one byte more, twice the size; entries at the first / last-of-minimum / "
                  "first-beyond-minimum / last / beyond-the-list position; 1 node", CHECK, EXT),
    "alloc.quick": ("Entry() split at the row lock: two concurrent transactions, retry on duplicate key (TLC only)", CHECK, ALLOC),
    "status.thorough": ("status lists at the full bounds: 2 issuers, 2 remote nodes, 4 credentials, roll-over at B=3 (symmetry over issuers and nodes)",
                        "SYMMETRY Sym\n" + CHECK,
                        dict(Issuers='{i1, i2}', Nodes='{n1, n2}', Kinds='{"sl"}', RevForgeKinds='{}', MaxCreds=4, B=3, MaxTicks=1,
                             Srcs='{"up", "forged-set", "forged-clear", "otherlist"}', Local='FALSE', ForeignTarget='"none"')),
    "mixed.thorough": ("both mechanisms, 2 issuers, outsider's credential, local verification", CHECK,
                       dict(Nodes='{"n1"}', RevForgeKinds='{"othersigner"}', MaxTicks=1, RenewCreatedAt='TRUE')),
    "net.thorough": ("network revocations, 4 credentials", CHECK, dict(NET, MaxCreds=4)),
    "nodes.thorough": ("two remote nodes, both mechanisms, roll-over", CHECK, dict(NODES, MaxCreds=3, MaxTicks=2)),
    "serve.thorough": ("serving over a long time, 3 credentials (page roll-over), a GET split at its transaction", CHECK,
                       dict(SERVE, MaxTicks=6, MaxCreds=3)),
    "serve2.thorough": ("serving over a long time (8 ticks = two validity periods), TWO GETs split at their transactions", CHECK,
                        dict(SERVE, MaxTicks=8, MaxCreds=2, Servers='{"s1", "s2"}')),
    "ext.thorough": ("external issuers (minimum and double size) next to a hosted issuer, 2 nodes", CHECK,
                     dict(EXT, Nodes='{"n1", "n2"}', Kinds='{"ext", "sl"}', ExtSizes='{"double", "min"}')),
    "ext2.thorough": ("one external issuer with an odd-sized list, 3 credentials", CHECK, dict(EXT, MaxCreds=3, ExtSizes='{"odd"}')),
    "alloc.thorough": ("Entry() split at the row lock: three concurrent transactions, 5 entries", CHECK, dict(ALLOC, MaxCreds=5, Procs='{"p1", "p2", "p3"}')),
    # --- deviation configs: the named check switched off MUST violate the named invariant ---------------------
    "dev.listissuer": ("deviation F15: issuer of the fetched list not compared -> a list issued by another party revokes", _inv("IssuerOnly"),
                       dict(STATUS, MaxCreds=1, ListIssuerChecked='FALSE')),
    "dev.listissuer2": ("deviation F15: .. or un-revokes", _inv("RevokedIsPermanent"), dict(STATUS, MaxCreds=1, ListIssuerChecked='FALSE')),
    "dev.listsubject": ("deviation: credentialSubject.id of the fetched list not compared with the URL", _inv("EntryOnlyFromNamedList"),
                        dict(STATUS, ListSubjectChecked='FALSE')),
    "dev.revissuer": ("deviation: RegisterRevocation does not tie the revocation to the credential's issuer", _inv("IssuerOnly"),
                      dict(NET, MaxCreds=1, RevIssuerChecked='FALSE')),
    "dev.resign": ("deviation: the list is not re-signed before it expires", _inv("ServedListValidAndFresh"), dict(SERVE, ResignBeforeExpiry='FALSE')),
    "dev.truncate": ("deviation: the verifier keeps only the first 16kB of a downloaded list -> a bit above index 131071 is lost", _inv("RevokedIsPermanent"),
                     dict(EXT, FullListRead='FALSE')),
    "dev.rowlock": ("deviation: Entry() without the row lock", _inv("SlotsUnique"), dict(ALLOC, RowLock='FALSE')),
    "dev.reread": ("deviation: the re-sign transaction of a GET uses the revocations read BEFORE the transaction -> a set bit is cleared",
                   "PROPERTIES BitsMonotone\n", dict(SERVE, ResignRereads='FALSE')),
    "dev.reread2": ("deviation: .. and the revoked credential verifies again", _inv("RevokedIsPermanent"), dict(SERVE, ResignRereads='FALSE')),
    "reach.dupretry": ("reachability: the retry-on-duplicate-key path of Entry() is taken in the model (the property is EXPECTED to be violated)",
                       "PROPERTIES NeverDuplicate\n", ALLOC),
    # --- behaviour generation (descriptive model) ---------------------------------------------------------
    "gen.status": ("behaviour generation, status lists: one witness per distinct state", _inv("Emit"), dict(STATUS, **GEN)),
    "gen.status.quick": ("behaviour generation, status lists, quick tier (one tick)", _inv("Emit"), dict(STATUS, MaxTicks=1, **GEN)),
    "gen.net": ("behaviour generation, network revocations incl. every forged document class", _inv("Emit"), dict(NET, MaxCreds=2, MaxForge=1, **GEN)),
    "gen.nodes": ("behaviour generation, two nodes and both mechanisms", _inv("Emit"), dict(NODES, **GEN)),
    "gen.serve": ("behaviour generation, GETs split at their transaction racing with Revoke, other GETs and time", _inv("Emit"),
                  dict(SERVE, MaxTicks=4, **GEN)),
    "gen.ext": ("behaviour generation, external issuers: list sizes x positions", _inv("Emit"), dict(EXT, Srcs='{"up", "down"}', **GEN)),
    "gen.sim": ("behaviour generation by simulation at the full bounds (2 issuers, 2 nodes, roll-over at B=3, both mechanisms, all forgeries, split GETs)",
                _inv("Emit"), dict(MaxCreds=5, B=3, MaxTicks=5, MaxForge=2, Rels=ALL_RELS, Servers='{"s1"}', ExtSizes=ALL_SIZES, Kinds='{"sl", "net", "ext"}', **GEN)),
    "gen.alloc": ("witnesses of the split Entry transaction (documentation of the schedules TLC covers)", _inv("EmitAlloc"), dict(ALLOC, Hist='TRUE')),
    # --- trace validation ---------------------------------------------------------------------------------------
    "trace.b2.lic0": ("trace validation, B=2, descriptive (F15 open)", TRACE_TAIL, dict(TRACE, MaxCreds=4, B=2, ListIssuerChecked='FALSE')),
    "trace.b2.lic1": ("trace validation, B=2, prescriptive", TRACE_TAIL, dict(TRACE, MaxCreds=4, B=2)),
    "trace.b3.lic0": ("trace validation, B=3, descriptive (F15 open)", TRACE_TAIL, dict(TRACE, MaxCreds=6, B=3, ListIssuerChecked='FALSE')),
    "trace.b3.lic1": ("trace validation, B=3, prescriptive", TRACE_TAIL, dict(TRACE, MaxCreds=6, B=3)),
}
# expected outcome of the deviation configs
DEVIATIONS = {"dev.listissuer": "IssuerOnly", "dev.listissuer2": "RevokedIsPermanent", "dev.listsubject": "EntryOnlyFromNamedList",
              "dev.revissuer": "IssuerOnly", "dev.resign": "ServedListValidAndFresh", "dev.rowlock": "SlotsUnique",
              "reach.dupretry": "NeverDuplicate", "dev.reread": "BitsMonotone", "dev.reread2": "RevokedIsPermanent",
              "dev.truncate": "RevokedIsPermanent"}


def cfg_name(key):
    return "Revocation.%s.cfg" % key


def cfg_consts(key):
    d = dict(BASE)
    d.update(CFGS[key][2])
    return d


def regen_cfgs():
    for key, (comment, tail, _) in CFGS.items():
        d = cfg_consts(key)
        trace = key.startswith("trace.")
        s = "\\* C11 %s\n\\* generated by tools/props/revocation.py --mkcfg\nSPECIFICATION %s\nCONSTANTS\n" % (comment, "TraceSpec" if trace else "Spec")
        for k in BASE:
            s += "  %s = %s\n" % (k, d[k])
        if not trace:
            s += "VIEW view\n"
        s += tail + "CHECK_DEADLOCK FALSE\n"
        with open(os.path.join(vlib.SPEC, "cfg", cfg_name(key)), "w") as fh:
            fh.write(s)


def _strs(setlit):
    import re
    return re.findall(r'"([\w-]+)"', setlit)


# ------------------------------------------------------------------------------------------------ generation

def features(b):
    """What a behaviour exercises (atomic features): used to pick a sample that covers every feature seen in any witness."""
    f = set()
    revoked, kinds, lists, ext = set(), {}, {}, {}
    pending = {}          # server -> [list, raced by a revocation on the same list, raced by a tick, raced by another GET]
    for s in b:
        a = s["a"]
        if a == "Issue":
            kinds[s["c"]] = s["kind"]
            lists[s["c"]] = (s["i"], s["page"])
            f.add(("issue", s["kind"], s["page"] > 1))
            if s["kind"] == "ext":       # size of the external list x position class of the entry
                ext[s["c"]] = (s["i"], s["slot"])
                f.add(("issue-ext",) + ext[s["c"]])
        elif a in ("RevokeStatus", "RevokeNet"):
            if s["res"] == "ok":
                for p in pending.values():
                    if p[0] == lists.get(s["c"]):
                        p[1] = True
            revoked.add(s["c"])
            f.add((a, s["res"]))
        elif a == "Deliver":
            f.add(("deliver", s["k"], s.get("r", ""), kinds.get(s["c"]), s["c"] in revoked))
        elif a == "Verify":
            f.add(("verify", s["src"], s.get("v"), s["c"] == "fx", s["c"] in revoked))
            if s["c"] in ext:
                f.add(("verify-ext",) + ext[s["c"]] + (s["src"], s.get("v"), s["c"] in revoked))
        elif a == "VerifyLocal":
            f.add(("local", s.get("v")))
        elif a == "ServeBegin":
            f.add(("servebegin", s["res"]))
            if s["res"] == "resign":
                for p in pending.values():
                    if p[0] == (s["i"], s["p"]):
                        p[3] = True
                pending[s["s"]] = [(s["i"], s["p"]), False, False, False]
        elif a == "ServeResign":
            p = pending.pop(s["s"], None)
            if p:
                f.add(("serveresign", "revoke-between" if p[1] else "", "tick-between" if p[2] else "", "get-between" if p[3] else ""))
        elif a == "Serve":
            for p in pending.values():
                if p[0] == (s["i"], s["p"]):
                    p[3] = True
            f.add((a,))
        elif a == "Tick":
            for p in pending.values():
                p[2] = True
            f.add((a,))
        else:
            f.add((a,))
    for p in pending.values():   # GETs still standing before their transaction: the closing sweep lets them finish
        f.add(("serveresign", "revoke-between" if p[1] else "", "tick-between" if p[2] else "", "get-between" if p[3] else ""))
    return f


def sample_diverse(behs, n, rnd):
    """Deterministic for a seed. First a greedy cover: every atomic feature that occurs in any behaviour occurs in the sample
    (as long as n allows); then round-robin over the distinct feature sets, rarest first."""
    behs = sorted(behs, key=lambda b: json.dumps(b, sort_keys=True))
    rnd.shuffle(behs)
    feats = [features(b) for b in behs]
    out, used, covered = [], set(), set()
    todo = sorted(set().union(*feats) if feats else [], key=str)
    for ft in todo:
        if len(out) >= n:
            break
        if ft in covered:
            continue
        cands = [i for i in range(len(behs)) if ft in feats[i] and i not in used]
        if not cands:
            continue
        best = max(cands, key=lambda i: (len(feats[i] - covered), -len(behs[i])))
        used.add(best)
        out.append(behs[best])
        covered |= feats[best]
    buckets = {}
    for i, b in enumerate(behs):
        if i not in used:
            buckets.setdefault(tuple(sorted(feats[i], key=str)), []).append(b)
    keys = sorted(buckets, key=lambda k: (len(buckets[k]), str(k)))
    while len(out) < n and keys:
        for k in list(keys):
            if buckets[k]:
                out.append(buckets[k].pop())
                if len(out) >= n:
                    break
            else:
                keys.remove(k)
    return out


FORGED_CLASSES = [(k, r) for k in ("othersigner", "otherissuer") for r in ("unrelated", "prefix", "parent", "extension")] + \
                 [("wrongkey", "unrelated"), ("resubject", "unrelated")]


def concretise_forgeries(b):
    """The model's 'revocation made by another party' is an abstract class. Every forged delivery of a behaviour is replaced by the
    deliveries of ALL concrete classes: document kind x textual relation of the forger's DID to the issuer's DID (lookalike parties:
    unrelated / a prefix / the parent / an extension). All of them are behaviours of the model (Deliver(c, k, r, n))."""
    out = []
    for s in b:
        if s["a"] == "Deliver" and s["k"] != "genuine":
            out += [dict(s, k=k, r=r) for k, r in FORGED_CLASSES]
        else:
            out.append(s)
    return out


def with_sweep(b, consts):
    """Closing sweep: GETs still standing before their transaction finish; then the state the behaviour leads to is observed completely -
    every credential is verified on every node without a usable source (a fresh copy is used, a stale one cannot be refreshed),
    which is CurVerdict of the model - and every list is served once more."""
    out = list(b)
    pend = []
    for s in b:
        if s["a"] == "ServeBegin" and s["res"] == "resign":
            pend.append(s["s"])
        elif s["a"] == "ServeResign":
            pend.remove(s["s"])
    for sv in pend:
        out.append(dict(a="ServeResign", s=sv, sweep=True))
    creds = [s["c"] for s in b if s["a"] == "Issue"]
    kinds = {s["c"]: s["kind"] for s in b if s["a"] == "Issue"}
    lists = sorted({(s["i"], s["page"]) for s in b if s["a"] == "Issue" and s["kind"] == "sl"})
    if consts["ForeignTarget"] != '"none"':
        creds.append("fx")
        kinds["fx"] = "foreign"
    for n in _strs(consts["Nodes"]):
        for c in creds:
            out.append(dict(a="Verify", c=c, n=n, src="up" if kinds[c] == "net" else "down", sweep=True))
    if consts["Local"] == "TRUE":
        for c in creds:
            if kinds[c] not in ("net", "ext"):
                out.append(dict(a="VerifyLocal", c=c, sweep=True))
    for i, p in lists:
        out.append(dict(a="Serve", i=i, p=p, sweep=True))
    return out


def paused_revoke_variants(b):
    """Schedules in which a Revoke() has made everything it does BEFORE its transaction, then another operation on the same issuer
    runs, then the Revoke() goes on. For the model (Revoke reads nothing it depends on before its transaction) this is the
    behaviour 'other operation; Revoke' itself, so the variant is validated and judged like the original."""
    lists = {s["c"]: (s["i"], s["page"]) for s in b if s["a"] == "Issue" and s["kind"] == "sl"}
    out = []
    for k in range(1, len(b)):
        x, y = b[k], b[k - 1]
        if x["a"] != "RevokeStatus" or x["c"] not in lists or x.get("phase"):
            continue
        i = lists[x["c"]][0]
        same = (y["a"] == "RevokeStatus" and lists.get(y["c"], ("", 0))[0] == i) or (y["a"] == "Serve" and y["i"] == i) or \
               (y["a"] == "Issue" and y["kind"] == "sl" and y["i"] == i and y["c"] != x["c"]) or (y["a"] == "ServeResign")
        if same and not y.get("phase"):
            out.append(b[:k - 1] + [dict(x, phase="begin"), y, dict(x, phase="end")] + b[k + 1:])
    return out


def tlc_many(keys, big=None, **kw):
    """Runs the TLC configs in two lanes, never more than WORKERS TLC workers in total: two at a time with half of the budget each,
    or - when one config dominates (big) - that one with WORKERS-2 workers next to the others, one after the other, with 2."""
    from concurrent.futures import ThreadPoolExecutor
    with ThreadPoolExecutor(max_workers=2) as ex:
        if big is None:
            return dict(zip(keys, ex.map(lambda k: vlib.tlc("MCRevocation", cfg_name(k), workers=WORKERS // 2, **kw), keys)))
        fb = ex.submit(lambda: vlib.tlc("MCRevocation", cfg_name(big), workers=WORKERS - 2, **kw))
        rest = [k for k in keys if k != big]
        fr = ex.submit(lambda: [vlib.tlc("MCRevocation", cfg_name(k), workers=2, **kw) for k in rest])
        out = dict(zip(rest, fr.result()))
        out[big] = fb.result()
        return out


def generate(tier, seed, rnd):
    """-> list of (gen cfg key, [behaviours]) plus statistics."""
    quick = tier == "quick"
    plan = [("gen.status.quick" if quick else "gen.status", 55 if quick else 700), ("gen.net", 20 if quick else 200),
            ("gen.nodes", 20 if quick else 300), ("gen.serve", 25 if quick else 300), ("gen.ext", 40 if quick else 300)]
    groups, stats = [], {}
    runs = tlc_many([k for k, _ in plan], timeout=900)
    for key, n in plan:
        g = runs[key]
        if not g.ok:
            raise Inconclusive("generation run %s failed: %s %s\n%s" % (key, g.violation, g.error, g.raw[-1500:]))
        wit = [b for b in g.printed if b]
        stats[key] = dict(states=g.distinct, witnesses=len(wit), wall_s=round(g.wall, 1))
        chosen = sample_diverse(wit, n, rnd)
        consts = cfg_consts(key)
        full = [with_sweep(concretise_forgeries(b), consts) for b in chosen]
        extra = [v for b in full for v in paused_revoke_variants(b)]
        rnd.shuffle(extra)
        stats[key]["paused_revoke_variants"] = len(extra[:max(3, n // 5)])
        groups.append((key, full + extra[:max(3, n // 5)]))
    nsim = 40 if quick else 400
    s = vlib.tlc("MCRevocation", cfg_name("gen.sim"), workers=1, simulate="num=%d" % nsim, depth=45 if quick else 60, seed=seed, timeout=900)
    if s.error and "timeout" in s.error:
        raise Inconclusive(s.error)
    sim = vlib.dedupe_maximal(s.printed)
    sim.sort(key=lambda b: json.dumps(b, sort_keys=True))
    sim = [with_sweep(b, dict(cfg_consts("gen.sim"), Nodes="{}", Local="FALSE", ForeignTarget='"none"')) for b in sim]   # only: pending GETs finish, lists served
    stats["gen.sim"] = dict(simulated=len(sim), wall_s=round(s.wall, 1))
    groups.append(("gen.sim", sim))
    return groups, stats


# ------------------------------------------------------------------------------------------------ verdicts

F15_SIG = dict(kind="forged-list-honoured", site="statuslist2021_verifier.update")
PROPERTY_INVARIANTS = {"SlotsUnique", "T_RevokedIsPermanent", "T_IssuerOnly", "T_ServedListValidAndFresh", "T_BitsMonotone"}


def action_coverage(raw):
    """states generated per action (TLC -coverage); also matches actions that TLC prints with an instantiation location"""
    import re
    out = {}
    for m in re.finditer(r"^<(\w+) line \d+, col \d+ to line \d+, col \d+ of module \w+(?: \([\d ]+\))?>: (\d+):(\d+)", raw, re.M):
        out[m.group(1)] = out.get(m.group(1), 0) + int(m.group(3))
    return out


def run_scripts(binary, scripts, b, foreign, smoke=None):
    inp = dict(scripts=scripts, b=b, foreign_target=foreign)
    if smoke:
        inp["smoke"] = smoke
    if not scripts:
        return vlib.run_driver(binary, inp, timeout=240)
    shards = min(WORKERS, max(1, len(scripts) // 6))
    return vlib.run_driver_parallel(binary, inp, shards=shards, timeout=240)


def _lap(t0, what):
    if os.environ.get("VERIF_DEBUG"):
        print("  [%.1fs] %s" % (time.time() - t0, what), flush=True)


def run(prop, tier, seed, replay=None):
    t0 = time.time()
    rep = Report(prop)
    binary = vlib.build_driver("revocation")
    if replay:
        obj = json.load(open(replay))
        res = vlib.run_driver(binary, obj["input"], env={"VERIF_KEEP_STDERR": "1"})
        for r in res:
            print(json.dumps(r)[:4000])
            if r.get("error"):
                rep.inconclusive.append("script %s: %s" % (r["id"], r["error"]))
            for v in r["violations"]:
                rep.violation(dict(kind=v["kind"], site=v.get("site", "")), obj)
        if obj.get("trace_cfg"):
            # the violation was seen by TLC on the recorded trace: validate the trace of THIS execution again
            for r in res:
                cut = min([v["step"] for v in r["violations"]] or [1 << 30])
                tr = [e for e in (r.get("trace") or []) if e.get("step", 0) < cut]
                acc, rej = vlib.validate_traces("TraceRevocation", cfg_name(obj["trace_cfg"]), [tr])
                print("trace validation: accepted=%d rejected=%s" % (acc, json.dumps(rej)))
                for x in rej:
                    if x["kind"].startswith("invariant:") and x["kind"].split(":", 1)[1] in PROPERTY_INVARIANTS:
                        rep.violation(dict(kind="trace-" + x["kind"], site=""), obj)
        return rep.finish()

    quick = tier == "quick"
    rnd = random.Random(seed)

    # 1. the prescriptive design satisfies C11 (exhaustive, family by family)
    states = transitions = 0
    models, cover = [], {}
    fams = ["status", "net", "nodes", "serve", "ext", "alloc"] + ([] if quick else ["mixed", "serve2", "ext2"])
    keys = ["%s.%s" % (fam, "quick" if quick else "thorough") for fam in fams]
    keys.sort(key=lambda k: 0 if k.startswith("status") else 1)     # the big one first
    runs = tlc_many(keys, big=None if quick else "status.thorough", timeout=1500, coverage=not quick)
    for key in keys:
        m = runs[key]
        if m.error:
            raise Inconclusive("TLC %s: %s" % (key, m.error))
        if m.violation:
            raise Inconclusive("the prescriptive model %s violates %s:\n%s" % (key, m.violation, m.raw[-3000:]))
        states += m.distinct
        transitions += m.generated
        models.append(dict(cfg=cfg_name(key), states=m.distinct, transitions=m.generated, depth=m.depth, wall_s=round(m.wall, 1)))
        for k, v in action_coverage(m.raw).items():
            cover[k] = cover.get(k, 0) + v
    deviations, alloc_stats = {}, {}
    if not quick:
        ga = vlib.tlc("MCRevocation", cfg_name("gen.alloc"), workers=WORKERS, timeout=600)
        if not ga.ok:
            raise Inconclusive("gen.alloc: %s %s" % (ga.violation, ga.error))
        alloc_stats = dict(states=ga.distinct, complete_schedules_with_distinct_outcome=len(ga.printed))
        # vacuity guard: each check of the code, switched off, must break the invariant that depends on it
        for key, want in DEVIATIONS.items():
            d = vlib.tlc("MCRevocation", cfg_name(key), workers=WORKERS, timeout=600)
            deviations[key] = d.violation
            if d.violation != want:
                raise Inconclusive("deviation config %s: expected a violation of %s, got %s %s" % (key, want, d.violation, d.error))
        never = [a for a in ("IssueObs", "IssueExt", "RevokeStatus", "RevokeNet", "Serve", "ServeBegin", "ServeResign", "DeliverObs", "VerifyL", "VerifyLocal", "Tick",
                             "EntryRead", "EntryWrite")
                 if cover.get(a, 0) == 0]
        if never:
            raise Inconclusive("vacuity: actions never taken in the model: %s" % never)

    _lap(t0, "models checked")
    # 2. behaviours of the descriptive model -> real code
    groups, gstats = generate(tier, seed, rnd)
    _lap(t0, "behaviours generated")
    all_results, all_scripts = [], {}
    nbeh = 0
    for gi, (key, behs) in enumerate(groups):
        consts = cfg_consts(key)
        b = int(consts["B"])
        foreign = consts["ForeignTarget"].strip('"')
        scripts = []
        for i, beh in enumerate(behs):
            sc = dict(id="%s-%04d" % (key, i), steps=beh, jump="end" if (i + seed) % 2 == 0 else "mid", seed=seed * 100003 + i)
            scripts.append(sc)
            all_scripts[sc["id"]] = (sc, b, foreign)
        nbeh += len(scripts)
        rs = run_scripts(binary, scripts, b, foreign)
        for r in rs:
            r["b"] = b
        all_results += rs
    smoke = dict(goroutines=8, per=6 if quick else 30)
    all_results += [dict(r, b=0) for r in run_scripts(binary, [], 2, "none", smoke)]

    _lap(t0, "driver done")
    # how many replayed behaviours deliver the revocation to a node BEFORE the credential is first presented there
    rev_first = 0
    for sc, _, _ in all_scripts.values():
        seen = set()
        for st in sc["steps"]:
            if st["a"] == "Verify":
                seen.add((st["c"], st["n"]))
            elif st["a"] == "Deliver" and st["k"] == "genuine" and (st["c"], st["n"]) not in seen:
                rev_first += 1
                break
    # 3. verdicts from the real observables
    f15 = False
    ninc = nchecks = ndrift = 0
    samples, smoke_stats = [], {}
    for r in all_results:
        nchecks += r.get("checks", 0)
        ndrift += len(r.get("drift") or [])
        if r["id"] == "smoke":
            smoke_stats = r.get("stats") or {}
            sc, b, foreign, inp = None, r["b"], "none", dict(scripts=[], b=2, foreign_target="none", smoke=smoke)
        else:
            sc, b, foreign = all_scripts[r["id"]]
            inp = dict(scripts=[sc], b=b, foreign_target=foreign)
        if r.get("error"):
            ninc += 1
            rep.inconclusive.append("script %s: %s" % (r["id"], r["error"]))
        for d in (r.get("drift") or [])[:2]:
            if len(rep.notes) < 6:
                rep.notes.append("DRIFT: %s %s" % (r["id"], d))
        for v in r["violations"]:
            sig = dict(kind=v["kind"], site=v.get("site", ""))
            if sig == F15_SIG:
                f15 = True
            rep.violation(sig, dict(property=prop, violation=v, input=inp))
        if sc and len(samples) < 3 and r.get("trace") and len(sc["steps"]) > 10 and not r["violations"]:
            samples.append(dict(script=sc["steps"][:40], real_trace=r["trace"][:40]))
    if ninc <= max(1, len(all_results) // 50) and not any("setup" in x or "calibration" in x for x in rep.inconclusive):
        rep.inconclusive = []

    # 4. recorded traces of the real code are validated by TLC against the specification
    acc_total, rej_total = 0, []
    for b in (2, 3):
        rs = [r for r in all_results if r.get("b") == b and r.get("trace") and not r.get("error") and r["id"] != "smoke"]
        if not rs:
            continue
        cfg = "trace.b%d.lic%d" % (b, 0 if f15 else 1)
        # a trace on which the Go oracle already reported a violation is validated up to that step (TLC would only re-report it)
        traces = []
        nviol = sum(1 for r in rs if r["violations"])
        for r in rs:
            cut = min([v["step"] for v in r["violations"]] or [1 << 30])
            if r["violations"] and nviol > 40 and len(rep.violations) > 0:
                continue   # the run fails anyway; do not spend minutes on re-validating hundreds of violating executions
            traces.append([e for e in r["trace"] if e.get("step", 0) < cut])
        rs = [r for r in rs if not (r["violations"] and nviol > 40 and len(rep.violations) > 0)]
        acc, rej = vlib.validate_traces("TraceRevocation", cfg_name(cfg), traces, timeout=1200)
        acc_total += acc
        for x in rej:
            x["id"] = rs[x["index"]]["id"]
            x["cfg"] = cfg
            x["trace"] = traces[x["index"]]
        rej_total += rej
    _lap(t0, "traces validated")
    for x in rej_total:
        inv = x["kind"].split(":", 1)[1] if x["kind"].startswith("invariant:") else None
        sc, b, foreign = all_scripts[x["id"]]
        if os.environ.get("VERIF_DEBUG"):
            print("  rejected trace %s at %s: %s %s" % (x["id"], x["at"], x["kind"], json.dumps(x["event"])))
            if os.environ.get("VERIF_DEBUG") == "2":
                for e in x["trace"][:x["at"] + 1]:
                    print("      " + json.dumps(e))
        if inv in PROPERTY_INVARIANTS:
            # a property invariant failed on the state reconstructed from a REAL execution
            forged = any(e.get("ev") == "verify" and e.get("fetched") and e.get("src") in ("forged-set", "forged-clear") for e in x["trace"][:max(0, x["at"])])
            sig = F15_SIG if forged else dict(kind="trace-" + x["kind"], site="")
            rep.violation(sig, dict(property=prop, input=dict(scripts=[sc], b=b, foreign_target=foreign), trace=x["trace"], trace_cfg=x["cfg"],
                                    rejected=dict(at=x["at"], event=x["event"], kind=x["kind"])))
        elif len(rep.notes) < 10:
            rep.notes.append("DRIFT: trace of %s rejected at event %d %s (%s)" % (x["id"], x["at"], json.dumps(x["event"]), x["kind"]))
    ndrift_traces = sum(1 for x in rej_total if not (x["kind"].startswith("invariant:") and x["kind"].split(":", 1)[1] in PROPERTY_INVARIANTS))
    ntraces = acc_total + len(rej_total)
    if ndrift_traces > max(3, ntraces // 10) and not rep.violations:
        rep.inconclusive.append("%d of %d recorded traces are not behaviours of the specification (spec/code drift)" % (ndrift_traces, ntraces))

    cov = dict(states=states, transitions=transitions, traces_validated_against_impl=ntraces, traces_accepted=acc_total,
               traces_rejected=len(rej_total), traces_rejected_as_drift=ndrift_traces,
               samples=samples or [next(iter(all_scripts.values()))[0]["steps"]],
               models=models, generation=gstats, behaviours_replayed_on_real_code=nbeh, oracle_evaluations=nchecks,
               drift_notes=ndrift, inconclusive_scripts=ninc, action_coverage=cover, deviation_configs=deviations,
               concurrency_smoke=smoke_stats, f15_reproduced=f15, behaviours_with_revocation_before_credential=rev_first,
               split_entry_schedules=alloc_stats, exhaustive=False,
               rule="TLC exhausts the prescriptive Revocation model family by family (configs under 'models'; invariants SlotsUnique, SlotsOwn, "
                    "RevokedIsPermanent, IssuerOnly, EntryOnlyFromNamedList, ServedListValidAndFresh, action properties BitsMonotone, KnownMonotone); "
                    "behaviours of the descriptive model (shortest witness per distinct state, diversified sample, each closed by a sweep that verifies "
                    "every credential on every node; plus -simulate runs at the full bounds) are replayed on the real StatusList2021/issuer/verifier/"
                    "ambassador over sqlite with real keys; the statement of C11 is evaluated on the real observables; every recorded real trace is "
                    "validated by TLC against TraceRevocation.tla")
    vlib.write_evidence(prop, tier, seed, "model_checking", cov, time.time() - t0, len(rep.violations),
                        ["sqlite is pinned to one connection by storage/engine.go: every SQL transaction is an atomic step; the row-lock/retry protocol of "
                         "Entry() under real database concurrency is checked on the model only (Revocation.alloc.*.cfg)",
                         "time passes by rewriting the persisted expires/created_at columns (unit: 6h = a quarter of the list validity); the 15-minute cache "
                         "TTL boundary itself is not probed",
                         "status lists reach verifier nodes through an in-memory HTTPRequestDoer calling issuer.StatusList (no sockets, no HTTP response cache)",
                         "network transport of revocations (DAG, transaction signature) is replaced by handing the published payload to the subscribed receiver",
                         "JSON-LD canonicalisation, jwx ES256 and sqlite/gorm are trusted",
                         "replay of an older genuine list by whoever answers for the list URL is outside the forged-document classes",
                         "small scope: 2 issuers, 2 remote nodes + the issuer node, <= 5 credentials per behaviour, page size 2 or 3 mapped onto the first/"
                         "middle/last real bitstring indexes"])
    return rep.finish()


if __name__ == "__main__":
    if "--mkcfg" in sys.argv:
        regen_cfgs()
        print("wrote %d configs" % len(CFGS))
