"""X03 (extension check, not in MANIFEST.json): Oid4vci.tla <-> the OpenID4VCI pre-authorized code flow of nuts-node
(vcr/issuer/openid.go + openid_store.go, vcr/holder/openid.go, vcr/api/openid4vci/v0).

Pipeline
 1. TLC exhausts the PRESCRIPTIVE model (all nine invariants), the DESCRIPTIVE model (= what the code does; the invariants
    the code keeps, with and without an attacker who reads served credential requests) and checks liveness (FairSpec:
    without faults every offer to the honest wallet ends with the credential stored).
 2. Behaviours are generated from the descriptive model: (a) one witness per distinct terminal state and (action class,
    outcome) cover, (b) one witness per distinct state that breaks a property the code does NOT keep (the named deviations:
    what an attacker gains), (c) from the model LACKING ONE CHECK of the code, one witness per distinct state that breaks a
    kept property (= the attacks each check of the real code has to stop), (d) random walks (-simulate), (e) unmanipulated
    end-to-end runs.
 3. The Go driver replays every behaviour on the real issuer.OpenIDHandler / holder.OpenIDHandler (two real VCR instances,
    real API wrappers, in-memory HTTP adapter, observed session database with a virtual clock, the attacker played by the
    driver) and judges the property statements on real observables (wire, wallet store, session database).
 4. Every recorded execution is validated by TLC against TraceOid4vci.tla (descriptive model) and the property invariants
    are judged once more on the state reconstructed from the real execution."""
import bisect, collections, json, os, random, re, shutil, time
from concurrent.futures import ThreadPoolExecutor
from .. import vlib
from ..vlib import Report, Inconclusive

PROPS = ["X03"]
MODULE, TRACE = "MCOid4vci", "TraceOid4vci"
ACTIONS = ["Offer", "Recv", "TokBegin", "TokEnd", "WCred", "ACred", "AReplay", "Forge", "WTokX", "WCredX", "Tick"]
KEPT = ["ReleaseAuthorized", "TokenFromLiveCode", "OnlySubjectObtains", "HolderStoresVerified"]
TRACE_KEPT = ["ReleaseAuthorized", "TokenFromLiveCode", "HolderStoresVerified"]   # OnlySubjectObtains: broken by the replay deviation
WANTED = ["CodeSingleUse", "AtMostOneRelease", "ProofSingleUse", "HolderStoresOwn", "NoPanic"]
# deviation (spec constant) -> invariant it breaks -> kind the real oracle reports when the real code shows it
DEVIATIONS = {
    "CodeSingleUse": ("AtomicRedeem", "code-reused"),
    "AtMostOneRelease": ("BurnOnRelease", "multiple-releases"),
    "ProofSingleUse": ("NonceSingleUse and BurnOnRelease", "proof-replayed"),
    "OnlySubjectObtains": ("NonceSingleUse (with LeakRequest)", "credential-to-non-subject"),
    "HolderStoresOwn": ("HolderChecksSubject", "holder-stored-foreign-subject"),
    "NoPanic": ("NonceTypeChecked", "handler-panic"),
}
CHECKS = ["proof", "sig", "signer", "aud", "typ", "nonce", "nonceflow", "ctype", "exp", "burncode", "htype", "hverify", "mdid"]
ASSUMPTIONS = [
    "two real VCR instances (issuer node, wallet node) built with vcr.NewTestVCRContext; the OpenID4VCI handlers are the ones "
    "vcr.GetOpenIDIssuer / GetOpenIDHolder construct, reached through the real API wrappers (vcr/api/openid4vci/v0) on echo; a shim "
    "(shims/vcr/zz_verif_oid4vci.go.txt) swaps their HTTP clients for the in-memory adapter and their session database for the "
    "observed one; did:nuts documents are written straight into the nodes' DID stores",
    "the in-memory session database is the store (redis / memcached not exercised); life times are exercised with a virtual clock "
    "inside the observed go-cache store (an entry put with expiration d at virtual time t is gone from t+d on), so go-cache's own "
    "expiry arithmetic is trusted; the expiration passed by the code is what counts",
    "attacker model: owns DID A and its key, runs a wallet and a rogue issuer, calls every endpoint with every value he knows, forges "
    "offers to the honest wallet, drops responses, learns pre-authorized codes / tokens / c_nonces sent to the wallet and (one "
    "configuration) complete credential requests after they were served; he cannot sign for the wallet DID and does not read "
    "credential responses (otherwise there is nothing left to protect); TLS, DNS and the n2n client certificates are out of scope",
    "handlers of one node run to completion one at a time, except the token request, which is split at the deletion of the "
    "pre-authorized code (the one place where HandleAccessTokenRequest is not atomic); the same race is C05's F6-preauth",
    "small scope: 2 flows (3 in random walks), 2 access tokens and 3 c_nonces per flow, 2-3 attacker steps (5 in random walks), "
    "2 wallet runs, life time 1-2 ticks",
    "JWT proofs are ES256 over did:nuts keys; credential formats other than ldp_vc and proof types other than jwt are refused by the "
    "code before anything of interest happens and are not explored",
]


def tlc(cfg, workers, **kw):
    r = vlib.tlc(kw.pop("module", MODULE), cfg, workers=workers, timeout=kw.pop("timeout", 900), **kw)
    if r.error:
        raise Inconclusive("TLC %s: %s\n%s" % (cfg, r.error, r.raw[-1500:]))
    return r


SINGLE = [("NonceSingleUse", "OnlySubjectObtains"), ("BurnOnRelease", "AtMostOneRelease"), ("AtomicRedeem", "CodeSingleUse"),
          ("HolderChecksSubject", "HolderStoresOwn"), ("NonceTypeChecked", "NoPanic")]
CHECKED = ("presc", "desc", "descobs", "presc.time", "desc.time", "descobs.time", "live", "livepresc")


def model_runs(tier, seed, quick):
    """All TLC runs of one check, at most 8 workers at a time. Returns dict name -> TLCResult."""
    t = "quick" if quick else "thorough"
    if quick:
        groups = [
            [("presc", "Oid4vci.presc.quick.cfg", 2, {}), ("desc", "Oid4vci.desc.quick.cfg", 2, {}),
             ("dev", "Oid4vci.dev.gen.cfg", 1, {}), ("attackx", "Oid4vci.attackx.gen.cfg", 1, {}),
             ("live", "Oid4vci.live.cfg", 1, {}), ("livepresc", "Oid4vci.livepresc.cfg", 1, {})],
            [("attack", "Oid4vci.attack.gen.quick.cfg", 3, {}), ("gen", "Oid4vci.gen.quick.cfg", 3, {}),
             ("descobs", "Oid4vci.descobs.quick.cfg", 1, {}),
             ("sim", "Oid4vci.sim.cfg", 1, dict(simulate="num=150", depth=30, seed=seed))]]
    else:
        cov = dict(coverage=True)
        groups = [
            [("presc", "Oid4vci.presc.thorough.cfg", 3, cov), ("desc", "Oid4vci.desc.thorough.cfg", 3, cov),
             ("live", "Oid4vci.live.cfg", 1, {}), ("livepresc", "Oid4vci.livepresc.cfg", 1, {})],
            [("descobs", "Oid4vci.descobs.thorough.cfg", 3, cov), ("attack", "Oid4vci.attack.gen.thorough.cfg", 4, {}),
             ("sim", "Oid4vci.sim.cfg", 1, dict(simulate="num=1500", depth=30, seed=seed))],
            [("presc.time", "Oid4vci.presc.time.cfg", 2, {}), ("desc.time", "Oid4vci.desc.time.cfg", 2, {}),
             ("descobs.time", "Oid4vci.descobs.time.cfg", 2, {}), ("dev", "Oid4vci.dev.gen.cfg", 2, {})],
            [("gen", "Oid4vci.gen.thorough.cfg", 2, {}), ("attackx", "Oid4vci.attackx.gen.cfg", 1, {})] + [("dev1." + c, "Oid4vci.dev1.%s.cfg" % c, 1, {}) for c, _ in SINGLE]]
    out = {}
    for group in groups:
        with ThreadPoolExecutor(max_workers=len(group)) as ex:
            futs = {name: ex.submit(tlc, cfg, wk, **kw) for name, cfg, wk, kw in group}
            for name, f in futs.items():
                out[name] = f.result()
                out[name].cfg = [c for n, c, _, _ in group if n == name][0]
    for name in CHECKED:
        if name in out and out[name].violation:
            m = out[name]
            raise Inconclusive("the model %s violates %s (specification error, not a verdict):\n%s" % (m.cfg, m.violation, m.raw[-2500:]))
    for name in ("dev", "attack", "attackx", "gen", "sim"):
        if not out[name].ok:
            raise Inconclusive("generation run %s failed: %s" % (out[name].cfg, out[name].violation))
    for c, inv in SINGLE:
        m = out.get("dev1." + c)
        if m is not None and m.violation != inv:
            raise Inconclusive("the prescriptive model with only %s = FALSE should break %s, TLC says %s (specification error)" % (c, inv, m.violation))
    return out


def action_coverage(raw):
    """Action -> number of states generated, from `-coverage` output. Disjuncts of Next that sit under a quantifier are reported
    as <Next ... (line col line col)>: the action name is read from that line of the specification."""
    lines = open(os.path.join(vlib.SPEC, "Oid4vci.tla")).read().split("\n")
    alias = {"OfferTo": "Offer", "WCredO": "WCred", "ForgeDo": "Forge", "WTokXDo": "WTokX", "AttackerRequestO": "ACred"}
    out = collections.Counter()
    for m in re.finditer(r"^<(\w+) line \d+, col \d+ to line \d+, col \d+ of module Oid4vci(?: \((\d+) \d+ \d+ \d+\))?>: (\d+):(\d+)", raw, re.M):
        name = m.group(1)
        if name == "Next" and m.group(2):
            found = re.findall(r"(\w+)\(", lines[int(m.group(2)) - 1]) or re.findall(r"\\/ (\w+)\s*$", lines[int(m.group(2)) - 1])
            name = found[-1] if found else name
        out[alias.get(name, name)] += int(m.group(4))
    return out


def features(steps):
    fs = set()
    for s in steps:
        a = s["a"]
        if a in ("WCred", "ACred"):
            fs.add((a, s.get("shape", ""), s["out"], s.get("lost", False)))
            p = s["proof"]
            fs.add(("proof", a, p["kid"], p["aud"], p["non"]["f"] == s["tok"]["f"], s["out"]))
        elif a == "WCredX":
            fs.add((a, s["cred"]["subj"], s["cred"]["typ"], s["cred"]["valid"], s["otyp"], s["stores"]))
        elif a == "TokBegin":
            fs.add((a, s["p"], s["hit"]))
        elif a == "TokEnd":
            fs.add((a, s["p"], s["ok"], s["lost"]))
        elif a == "Recv":
            fs.add((a, s["o"]["iss"], s["o"]["claim"], s["o"]["typ"], s["o"]["code"] == "junk", s["again"]))
        else:
            fs.add((a,))
    names = [s["a"] + (":" + s["p"] if "p" in s else "") for s in steps]
    for i in range(len(names) - 1):
        fs.add(("seq", names[i], names[i + 1]))
    return fs


def cover_pick(behaviours, n, rnd):
    """Feature cover first (every feature seen in some chosen behaviour), then a random fill up to n."""
    pool = list(behaviours)
    rnd.shuffle(pool)
    pool.sort(key=len)
    seen, chosen, rest = set(), [], []
    for b in pool:
        f = features(b)
        if not f <= seen:
            seen |= f
            chosen.append(b)
        else:
            rest.append(b)
    rnd.shuffle(rest)
    if len(chosen) < n:
        chosen += rest[:n - len(chosen)]
    return chosen, len(seen)


def group_pick(wits, key, k, rnd):
    groups = collections.defaultdict(list)
    for b in wits:
        groups[key(b)].append(b)
    out = []
    for g in sorted(groups, key=str):
        l = sorted(groups[g], key=lambda b: (len(b["h"]), json.dumps(b, sort_keys=True)))
        take = l[:max(1, k // 2)]
        rest = l[len(take):]
        rnd.shuffle(rest)
        out += take + rest[:k - len(take)]
    return out, len(groups)


def last_sig(steps):
    s = steps[-1]
    return (s["a"], s.get("shape", ""), s.get("out", ""), s.get("p", ""))


def build_scripts(runs, quick, rnd):
    scripts, gen = [], {}
    dev = runs["dev"].printed
    picked, ng = group_pick(dev, lambda b: (tuple(sorted(b["broken"])), last_sig(b["h"])), 2 if quick else 6, rnd)
    gen["deviation_witnesses"] = dict(available=len(dev), groups=ng, replayed=len(picked))
    for i, b in enumerate(picked):
        scripts.append(dict(id="dev%05d" % i, steps=b["h"], ttl=1, origin="deviation", broken=sorted(b["broken"])))
    att = runs["attack"].printed + runs["attackx"].printed
    picked, ng = group_pick(att, lambda b: (tuple(b["h"][0]["off"]), tuple(sorted(b["broken"])), last_sig(b["h"])), 3 if quick else 8, rnd)
    gen["attack_witnesses"] = dict(available=len(att), groups=ng, replayed=len(picked),
                                   per_check=dict(collections.Counter(b["h"][0]["off"][0] for b in att)))
    for i, b in enumerate(picked):
        scripts.append(dict(id="att%05d" % i, steps=b["h"], ttl=1, origin="attack", off=b["h"][0]["off"], broken=sorted(b["broken"])))
    term = runs["gen"].printed
    picked, nf = cover_pick(term, 350 if quick else 2500, rnd)
    gen["terminal_witnesses"] = dict(available=len(term), features=nf, replayed=len(picked))
    for i, b in enumerate(picked):
        scripts.append(dict(id="gen%05d" % i, steps=b, ttl=1, origin="terminal"))
    sim = vlib.dedupe_maximal(runs["sim"].printed)
    sim.sort(key=lambda b: json.dumps(b, sort_keys=True))
    gen["random_walks"] = dict(printed=len(runs["sim"].printed), maximal=len(sim))
    for i, b in enumerate(sim):
        scripts.append(dict(id="sim%05d" % i, steps=b, ttl=2, origin="walk"))
    # "a value the issuer never handed out" is realised as a random string, or (40 %) as a real secret of ANOTHER kind
    for sc in scripts:
        if rnd.random() < 0.4:
            sc["junk"] = "cross"
    gen["scripts_with_cross_kind_junk"] = sum(1 for sc in scripts if sc.get("junk"))
    for i in range(2):
        scripts.append(dict(id="honest%d" % i, steps=[], ttl=1, mode="honest", origin="honest"))
    return scripts, gen


SELFTEST = [  # binding demonstration run on every check: the driver corrupts what it REPORTS; trace validation must object
    ("log-release", "a refused credential request is logged as a release"),
    ("log-proof", "the proof of a served request is logged with another audience"),
]


def selftest_scripts(scripts):
    out = []
    for mutant, _ in SELFTEST:
        want = "invalid_proof_n" if mutant == "log-release" else "released"
        for sc in scripts:
            if sc["origin"] in ("terminal", "deviation") and any(s["a"] in ("ACred", "WCred") and s.get("out") == want for s in sc["steps"]):
                out.append(dict(sc, id="self-" + mutant, mutant=mutant, origin="selftest"))
                break
    return out


def validate(traces, cfg, timeout=900):
    """One TLC run classifies all traces: per trace dict(drift=event|None, forced=[events], inv=set(names))."""
    out = [dict(drift=None, forced=[], inv=set()) for _ in traces]
    if not traces:
        return out, 0
    lines, starts = [], []
    for t in traces:
        starts.append(len(lines) + 1)
        lines.append(json.dumps({"ev": "reset"}))
        lines.extend(json.dumps(e) for e in t)
    work = vlib.scratch("trace")
    try:
        tf = os.path.join(work, "trace.ndjson")
        with open(tf, "w") as fh:
            fh.write("\n".join(lines) + "\n")
        r = vlib.tlc(TRACE, cfg, workers=1, timeout=timeout, env={"VERIF_TRACE": tf}, deque=True)
    finally:
        shutil.rmtree(work, ignore_errors=True)
    if r.error or r.violation or "TRACE-REJECTED-AT" in r.raw:
        raise Inconclusive("trace validation did not run to the end: %s %s\n%s" % (r.violation, r.error, r.raw[-2500:]))
    if r.distinct < len(lines):
        raise Inconclusive("trace validation consumed %d of %d events" % (r.distinct, len(lines)))
    def where(ln):
        i = bisect.bisect_right(starts, ln) - 1
        return i, ln - starts[i] - 1
    for m in re.finditer(r'<<"TRACE-DRIFT-AT", (\d+)>>', r.raw):
        i, k = where(int(m.group(1)))
        if out[i]["drift"] is None:
            out[i]["drift"] = traces[i][k]
    for m in re.finditer(r'<<"TRACE-FORCED-AT", (\d+)>>', r.raw):
        i, k = where(int(m.group(1)))
        out[i]["forced"].append(traces[i][k])
    for m in re.finditer(r'<<"TRACE-INVARIANT", "(\w+)", (\d+)>>', r.raw):
        i, _ = where(int(m.group(2)))
        out[i]["inv"].add(m.group(1))
    return out, len(lines)


def execute(binary, scripts):
    """Runs the scripts on up to 8 driver processes. A shard whose process did not come up / died is started again (twice at
    most): every process boots two nodes with embedded services on free TCP ports, which can collide on a busy machine."""
    if not scripts:
        return []
    shards = min(8, max(1, len(scripts) // 40))
    parts = [scripts[i::shards] for i in range(shards)]
    def one(part):
        last = None
        for attempt in range(3):
            try:
                return vlib.run_driver(binary, dict(scripts=part), timeout=300)
            except Inconclusive as e:
                last = e
        raise last
    with ThreadPoolExecutor(max_workers=shards) as ex:
        outs = list(ex.map(one, parts))
    return [r for o in outs for r in o]


def strip(sc):
    return {k: v for k, v in sc.items() if k in ("id", "steps", "ttl", "mode", "mutant", "junk")}


def show(r):
    print(json.dumps({k: r[k] for k in ("id", "outcomes", "violations", "drift", "error", "stats") if k in r})[:4000])
    for e in r.get("trace") or []:
        print("   ", json.dumps(e))
    for x in r.get("exchanges") or []:
        print("    wire", json.dumps(x)[:700])


def run(prop, tier, seed, replay=None):
    t0 = time.time()
    rep = Report(prop)
    binary = vlib.build_driver("oid4vci")
    if replay:
        obj = json.load(open(replay))
        res = vlib.run_driver(binary, obj["input"])
        for r in res:
            show(r)
            if r.get("error"):
                rep.inconclusive.append("script %s: %s" % (r["id"], r["error"]))
            for v in r["violations"]:
                rep.violation(v["sig"], obj)
        good = [r for r in res if not r.get("error")]
        by_ttl = collections.defaultdict(list)
        for r, sc in zip(res, obj["input"]["scripts"]):
            if not r.get("error") and sc.get("mode") != "honest":
                by_ttl[sc.get("ttl", 1)].append(r)
        for ttl, rs in by_ttl.items():
            verdicts, _ = validate([r["trace"] for r in rs], "Oid4vci.trace.ttl%d.cfg" % ttl)
            for r, v in zip(rs, verdicts):
                print("trace of %s: drift=%s forced=%d invariants broken on the reconstructed state: %s"
                      % (r["id"], json.dumps(v["drift"]), len(v["forced"]), sorted(v["inv"])))
                for inv in sorted(v["inv"] & set(TRACE_KEPT)):
                    rep.violation(dict(kind="trace-invariant:" + inv), obj)
        return rep.finish()

    quick = tier == "quick"
    rnd = random.Random(seed)
    phases = {}
    t1 = time.time()
    runs = model_runs(tier, seed, quick)
    phases["tlc_s"] = round(time.time() - t1, 1)
    models = [dict(name=n, cfg=m.cfg, states=m.distinct, transitions=m.generated, depth=m.depth, wall_s=round(m.wall, 1),
                   witnesses=len(m.printed)) for n, m in sorted(runs.items())]
    states = sum(m.distinct for n, m in runs.items() if n != "sim")
    transitions = sum(m.generated for n, m in runs.items() if n != "sim")
    single = {c: inv for c, inv in SINGLE if "dev1." + c in runs}
    cover = collections.Counter()
    for n in CHECKED:
        if n in runs:
            cover.update(action_coverage(runs[n].raw))
    if not quick:
        dead = [a for a in ACTIONS if cover.get(a, 0) == 0]
        if dead:
            raise Inconclusive("vacuity: actions never fire in the exhaustive runs: %s" % dead)
    # what the specification predicts
    predicted = sorted(set(n for b in runs["dev"].printed for n in b["broken"]))
    needed = collections.defaultdict(set)           # check -> kept invariants that break without it
    for b in runs["attack"].printed + runs["attackx"].printed:
        needed[b["h"][0]["off"][0]] |= set(b["broken"])
    redundant = [c for c in CHECKS if c not in needed]

    scripts, gen = build_scripts(runs, quick, rnd)
    scripts += selftest_scripts(scripts)
    rnd.shuffle(scripts)
    by_id = {s["id"]: s for s in scripts}
    t1 = time.time()
    results = execute(binary, [strip(s) for s in scripts])
    phases["replay_s"] = round(time.time() - t1, 1)
    if len(results) != len(scripts):
        raise Inconclusive("driver returned %d results for %d scripts" % (len(results), len(scripts)))

    # ---- verdicts from the real observables
    ninc = ndrift = 0
    outcomes = collections.Counter()
    per_origin = collections.Counter()
    reproduced = collections.Counter()
    attack_stopped = collections.Counter()
    stats = collections.Counter()
    samples = []
    for r in results:
        sc = by_id[r["id"]]
        per_origin[sc["origin"]] += 1
        if r.get("error"):
            ninc += 1
            rep.inconclusive.append("script %s (%s): %s" % (r["id"], sc["origin"], r["error"]))
            continue
        for k, v in (r.get("stats") or {}).items():
            stats[k] += v
        for o in r.get("outcomes") or []:
            outcomes[re.sub(r":\d+:stored", ":stored", o)] += 1
        if sc["origin"] not in ("attack", "selftest") and r["drift"]:
            ndrift += 1
            if ndrift <= 3:
                rep.notes.append("DRIFT: script %s (%s): %s" % (r["id"], sc["origin"], r["drift"][0]))
        if sc["origin"] == "selftest":
            continue
        for v in r["violations"]:
            reproduced[v["kind"]] += 1
            rep.violation(v["sig"], dict(property=prop, violation=v, input=dict(scripts=[strip(sc)])))
            if len(samples) < 4 and not any(s.get("kind") == v["kind"] for s in samples):
                samples.append(dict(kind=v["kind"], detail=v["detail"], behaviour=sc["steps"], real_trace=r["trace"]))
        if sc["origin"] == "attack":
            # the real code has the check the model lacked: the attack must have been stopped (no violation of a kept property)
            if not any(v["kind"].startswith(("release-", "token-", "credential-to-non-subject", "holder-stored-un", "code-reused")) and
                       not (v["kind"] == "credential-to-non-subject" and v["sig"].get("proof_origin") == "served-request") and
                       not (v["kind"] == "code-reused" and v["sig"].get("pattern") == "concurrent") for v in r["violations"]):
                attack_stopped[sc["off"][0]] += 1
    if ninc <= max(1, len(results) // 200):
        rep.inconclusive = []
    # vacuity of the replay
    need = ["wcred:released", "acred:own:released", "token:A:true", "token:W:true", "token:A:false"]
    need += ["acred:%s:invalid_proof_n" % s for s in ("audX", "badtyp", "forgeW", "noproof")] + ["acred:wrongtype:invalid_request"]
    missing = [o for o in need if outcomes.get(o, 0) == 0]
    if not any(k.startswith("acred:") and k.endswith(":invalid_token") for k in outcomes):
        missing.append("acred:*:invalid_token")
    if not any(k.startswith("acred:") and k.endswith(":invalid_proof") for k in outcomes):
        missing.append("acred:*:invalid_proof")
    if stats.get("stored", 0) == 0 or stats.get("honest_completed", 0) == 0:
        missing.append("wallet stored a credential / honest run completed")
    if missing:
        rep.inconclusive.append("vacuous replay: never observed on the real code: %s" % missing)
    for c in CHECKS:
        if c in needed and attack_stopped.get(c, 0) == 0 and not rep.violations:
            rep.inconclusive.append("no attack against check %r was replayed to the end" % c)
    if ndrift > max(3, len(results) // 20):
        rep.inconclusive.append("%d behaviours did not line up with the real code step by step (spec/code drift)" % ndrift)
    for inv in predicted:
        kind = DEVIATIONS.get(inv, (None, None))[1]
        if kind and not reproduced.get(kind):
            rep.notes.append("NOTE: the descriptive specification predicts that %s is broken (deviation %s); the real code did not show %s "
                             "(repaired? then flip the constant in spec/cfg/Oid4vci.desc*.cfg, gen, trace and close the finding)"
                             % (inv, DEVIATIONS[inv][0], kind))

    # ---- the recorded real executions are behaviours of the descriptive specification
    t1 = time.time()
    good = [r for r in results if not r.get("error") and by_id[r["id"]].get("mode") != "honest"]
    ntr = nev = nacc = ntdrift = nforced = 0
    inv_hits = collections.Counter()
    caught = {}
    for ttl in (1, 2):
        rs = [r for r in good if by_id[r["id"]]["ttl"] == ttl]
        verdicts, n = validate([r["trace"] for r in rs], "Oid4vci.trace.ttl%d.cfg" % ttl)
        nev += n
        for r, v in zip(rs, verdicts):
            sc = by_id[r["id"]]
            if sc["origin"] == "selftest":
                caught[sc["mutant"]] = bool(v["drift"] or v["forced"] or (v["inv"] & set(TRACE_KEPT)))
                continue
            ntr += 1
            for inv in v["inv"]:
                inv_hits[inv] += 1
            bad = sorted(v["inv"] & set(TRACE_KEPT))
            for inv in bad:
                # a kept property fails on the state TLC reconstructed from a REAL execution
                rep.violation(dict(kind="trace-invariant:" + inv), dict(property=prop, rejected=inv, input=dict(scripts=[strip(sc)])))
            if v["forced"]:
                nforced += 1
                if nforced <= 3:
                    rep.notes.append("DRIFT: script %s: the real outcome of %s is not the specified one" % (r["id"], json.dumps(v["forced"][0])[:300]))
            if v["drift"] is not None:
                ntdrift += 1
                if ntdrift <= 3:
                    rep.notes.append("DRIFT: trace of script %s leaves the specification at %s" % (r["id"], json.dumps(v["drift"])[:300]))
            if not bad and not v["forced"] and v["drift"] is None:
                nacc += 1
    phases["trace_validation_s"] = round(time.time() - t1, 1)
    for mutant, what in SELFTEST:
        if mutant in caught and not caught[mutant]:
            rep.inconclusive.append("binding self-test: %s, and trace validation did not object" % what)
    if (ntdrift + nforced) > max(3, ntr // 20) and not rep.violations:
        rep.inconclusive.append("%d of %d recorded executions are not behaviours of the specification (spec/code drift)" % (ntdrift + nforced, ntr))
    # deviations confirmed twice: by the Go oracle and by TLC on the reconstructed state
    for inv in WANTED + ["OnlySubjectObtains"]:
        kind = DEVIATIONS[inv][1]
        if bool(inv_hits.get(inv)) != bool(reproduced.get(kind)):
            rep.notes.append("DRIFT: %s: TLC finds it broken on %d real traces, the wire oracle reports %s %d times"
                             % (inv, inv_hits.get(inv, 0), kind, reproduced.get(kind, 0)))

    if not samples:
        r = next((x for x in good if len(x["trace"]) > 8), good[0])
        samples.append(dict(behaviour=by_id[r["id"]]["steps"], real_trace=r["trace"]))
    cov = dict(states=states, transitions=transitions, traces_validated_against_impl=ntr, traces_accepted=nacc,
               traces_with_forced_outcome=nforced, traces_leaving_the_spec=ntdrift, trace_events=nev, samples=samples, models=models,
               generation=gen, behaviours_replayed_on_real_code=len(results), replayed_per_origin=dict(per_origin),
               real_outcome_classes=dict(sorted(outcomes.items())), real_stats=dict(stats),
               liveness="HonestCompletes holds under FairSpec (descriptive and prescriptive): %d + %d states; %d unmanipulated end-to-end "
                        "runs on the real code completed" % (runs["live"].distinct, runs["livepresc"].distinct, stats.get("honest_completed", 0)),
               predicted_broken_by_deviations=predicted, single_deviation_breaks=single,
               deviations_reproduced_on_real_code={k: v for k, v in sorted(reproduced.items())},
               deviations_confirmed_by_tlc_on_real_traces={k: v for k, v in sorted(inv_hits.items())},
               checks_needed_for={c: sorted(v) for c, v in sorted(needed.items())},
               checks_without_attack_in_scope=redundant,
               attacks_replayed_and_stopped_by_real_code=dict(sorted(attack_stopped.items())),
               binding_selftest_caught=caught, step_drift_scripts=ndrift, inconclusive_scripts=ninc,
               known_findings_hit=sorted(rep.known), action_coverage=dict(cover), phases_s=phases, exhaustive=False,
               rule="TLC exhausts Oid4vci.tla: prescriptive variant (9 invariants), descriptive variant (kept invariants, with and "
                    "without observed requests), liveness under FairSpec. Behaviours of the descriptive model (terminal witnesses "
                    "chosen by feature cover, witnesses of every broken wanted property, witnesses of every kept property broken in "
                    "the model lacking one check, random walks, unmanipulated runs) are replayed step by step on the real issuer / "
                    "holder OpenID4VCI handlers; the property statements are evaluated on the HTTP exchanges, the wallet node's "
                    "credential store and the session database; every recorded execution is validated by TLC against "
                    "TraceOid4vci.tla and the invariants are judged on the reconstructed state")
    vlib.write_evidence(prop, tier, seed, "model_checking", cov, time.time() - t0, len(rep.violations), ASSUMPTIONS)
    print("X03: %d behaviours replayed, %d traces validated (%d accepted, %d forced, %d drift), model states %d, %.1fs  %s"
          % (len(results), ntr, nacc, nforced, ntdrift, states, time.time() - t0, phases))
    return rep.finish()
