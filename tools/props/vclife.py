"""X07 (extension): VcLife.tla <-> the life cycle of did:nuts credentials on the network: vcr/issuer network publisher,
vcr ambassador (real receivers behind real dag notifiers), credential store, revocation store, trust configuration.
Two real VCR instances; TLC behaviours are replayed on them, a self-contained oracle judges every observation, and
every recorded run is validated by TLC against TraceVcLife.tla."""
import json, os, random, time
from .. import vlib
from ..vlib import Report, Inconclusive

PROPS = ["X07"]

FAMILIES = ["core", "squat", "key", "fault", "race"]
ISSUERS = ["I1", "I2", "I3"]
INIT_TRUST = ["I1"]
INIT_KEYS = ["I1", "I2"]

# concrete realisations of the abstract classes of MCVcLife.tla (driver: cast_test.go)
VALID_CRED = ["plain", "oldkey", "real"]
FORGED_CRED = ["sig-flipped", "vm-other-issuer", "altered", "oldkey-late", "proof-future", "no-proof"]
MALFORMED_CRED = ["no-org-name", "blank-city", "three-types", "no-organization"]
VALID_REV = ["plain", "oldkey", "real"]
FORGED_REV = ["sig-flipped", "vm-other-issuer", "date-altered", "oldkey-late", "no-proof"]
REAL_OK = {"a", "u", "k", "ra", "ru", "rk", "r9", "ry"}   # may be made by the REAL issuer of the issuing node

# deviations of the code from the statement: signature -> deviation constant of VcLife.tla
EXPECTED = {
    # ValidateOnStore is TRUE since the repair of X07-stored-malformed / -foreign-id / -squatter-blocks-genuine in /repo
    # (vcr.StoreCredential runs the type validator): "stored-invalid" malformed / foreign-id and "valid-not-stored"
    # blocked-by-foreign-id are ordinary violations again
    # TransientRetried, UnknownKeyRetried and ContextErrorsSeen are TRUE since the repairs of X07-store-error-dropped /
    # f131123 / 7b63384 in /repo: their signatures ("transient-failure-dropped" fault / nokey / ctxdown) are ordinary
    # violations again
    # StoreAtomic is TRUE since the repair of X07-store-race in /repo (the id look-up is repeated under a lock that is held
    # until the credential is written): "id-two-contents" overlap is an ordinary violation again
}


def variants_for(txs, tables, counters):
    """Every abstract class is realised by its concrete variants round-robin, so that every variant is used in every run."""
    out = {}
    def pick(key, options):
        v = options[counters[key] % len(options)]
        counters[key] += 1
        return v
    for t in sorted(txs):
        if t in tables["C"]:
            row = tables["C"][t]
            if row["fmt"] != "ld" or row["ctx"] != "std":
                continue
            if row["sig"] != "ok":
                out[t] = pick("fc", FORGED_CRED)
            elif not row["wf"]:
                out[t] = pick("mc", MALFORMED_CRED)
            else:
                v = pick("vc", VALID_CRED)
                if v == "real" and t not in REAL_OK:
                    v = "plain"
                out[t] = v
        else:
            row = tables["R"][t]
            if row["sig"] != "ok":
                out[t] = pick("fr", FORGED_REV)
            else:
                v = pick("vr", VALID_REV)
                if v == "real" and t not in REAL_OK:
                    v = "plain"
                out[t] = v
    return out


def tx_of(steps):
    return {s["t"] for s in steps if s.get("t") and s["a"] in ("Deliver", "Retry", "Replay", "Reprocess", "Begin", "Finish")}


def select(behaviours, n, rnd):
    """Diversity first: bucket by the set of (action, outcome, job) triples, round-robin over the buckets."""
    items = sorted(behaviours, key=lambda b: json.dumps(b, sort_keys=True))
    rnd.shuffle(items)
    buckets = {}
    for b in items:
        sig = tuple(sorted(set((s["a"], s.get("res", ""), s.get("job", ""), bool(s.get("f"))) for s in b)))
        buckets.setdefault(sig, []).append(b)
    keys = sorted(buckets)
    rnd.shuffle(keys)
    chosen = []
    while len(chosen) < n and keys:
        for k in list(keys):
            if buckets[k]:
                chosen.append(buckets[k].pop())
                if len(chosen) >= n:
                    break
            else:
                keys.remove(k)
    return chosen


TLC_WORKERS = 1   # four model runs at a time (the two large ones with 3 workers): never more than 8 TLC workers


def tlc_ok(module, cfg, what, **kw):
    kw.setdefault("workers", TLC_WORKERS)
    m = vlib.tlc(module, cfg, **kw)
    if m.error:
        raise Inconclusive("TLC %s (%s): %s" % (cfg, what, m.error))
    if m.violation:
        raise Inconclusive("model %s violates %s:\n%s" % (cfg, m.violation, m.raw[-3000:]))
    return m


def tables_of(m):
    for p in m.printed:
        if isinstance(p, dict) and "tables" in p:
            return p["tables"]
    raise Inconclusive("the model did not print its tables")


def directed_scripts():
    """Behaviours of VcLife.tla that a sample of witnesses rarely contains (all validated as behaviours of the spec by
    the trace check like every other run)."""
    D = lambda t, res="", job="", f=False: dict(a="Deliver", t=t, f=f, res=res, job=job)
    out = []
    # the revocation arrives BEFORE the credential; restart in between; re-delivery of the credential afterwards
    out.append(dict(id="d-rev-before-cred", steps=[D("ra"), dict(a="Restart"), D("a"), dict(a="Reprocess", t="a"), dict(a="Restart")]))
    out.append(dict(id="d-rev-unknown-then-trust", steps=[D("r9"), D("ra"), D("b"), dict(a="Untrust", i="I1"), dict(a="Trust", i="I1"), dict(a="Restart"), D("a")]))
    # forged revocations around the genuine credential, then the genuine revocation twice
    out.append(dict(id="d-forged-revs", steps=[D("a"), D("rf"), D("rb"), dict(a="Restart"), dict(a="Replay", t="rf"), dict(a="Replay", t="rb"), D("ra"), D("ra2"), dict(a="Reprocess", t="ra"), dict(a="Restart")]))
    # trust changes around a restart
    out.append(dict(id="d-trust-restart", steps=[D("u"), dict(a="Trust", i="I2"), dict(a="Restart"), D("a"), dict(a="Untrust", i="I1"), dict(a="Restart"), D("ru")]))
    # late key: credential and revocation of I3 before its document, document, restart (replay of the dropped jobs)
    out.append(dict(id="d-late-key", steps=[D("k"), D("rk"), dict(a="LearnKey", i="I3"), dict(a="Trust", i="I3"), dict(a="Restart"), dict(a="Replay", t="k"), dict(a="Replay", t="rk")]))
    out.append(dict(id="d-late-key-reprocess", steps=[D("rk"), D("k"), dict(a="LearnKey", i="I3"), dict(a="Reprocess", t="k"), dict(a="Reprocess", t="rk"), dict(a="Trust", i="I3")]))
    # squatter first, then the genuine credential and its revocation
    out.append(dict(id="d-squat-first", steps=[D("q"), D("a"), D("ra"), dict(a="Restart"), dict(a="Replay", t="q"), dict(a="Trust", i="I2")]))
    out.append(dict(id="d-genuine-first", steps=[D("a"), D("q"), D("m"), D("rf"), dict(a="Restart")]))
    # store faults and the flaky context
    out.append(dict(id="d-fault-cred", steps=[D("a", f=True), dict(a="Retry", t="a"), D("ra"), dict(a="Restart")]))
    out.append(dict(id="d-fault-rev", steps=[D("a"), D("ra", f=True), dict(a="Retry", t="ra"), dict(a="Restart")]))
    out.append(dict(id="d-ctx", steps=[D("y"), D("z"), D("j"), dict(a="Retry", t="y"), dict(a="CtxUp"), dict(a="Retry", t="y"), D("ry"), dict(a="Restart")]))
    # overlapping handler calls for one id: a is held between look-up and write while b is delivered completely
    out.append(dict(id="d-race-ab", steps=[dict(a="Begin", t="a"), D("b"), dict(a="Finish", t="a"), D("ra"), dict(a="Restart")]))
    out.append(dict(id="d-race-both-held", steps=[dict(a="Begin", t="a"), D("f"), dict(a="Begin", t="b"), D("ra"), dict(a="Finish", t="b"), dict(a="Finish", t="a"), dict(a="Restart")]))
    out.append(dict(id="d-ctx-restart", steps=[D("y"), dict(a="Restart"), dict(a="Replay", t="y"), dict(a="CtxUp"), dict(a="Restart"), dict(a="Replay", t="y"), D("j"), dict(a="Reprocess", t="j")]))
    return out


def run_scripts(binary, mode, tables, scripts, quick, corrupt=None):
    inp = dict(mode=mode, tables=tables, scripts=scripts, issuers=ISSUERS, init_trust=INIT_TRUST, init_keys=INIT_KEYS)
    if corrupt:
        inp["corrupt"] = corrupt
    if os.environ.get("VERIF_X07_DUMPIN"):
        json.dump(inp, open(os.path.join(os.environ["VERIF_X07_DUMPIN"], "in-%s.json" % mode), "w"))
    return vlib.run_driver_parallel(binary, inp, shards=(8 if quick else 14), timeout=(300 if quick else 900))


def run(prop, tier, seed, replay=None):
    t0 = time.time()
    rep = Report(prop)
    binary = vlib.build_driver("vclife")
    if replay:
        obj = json.load(open(replay))
        res = vlib.run_driver(binary, obj["input"])
        for r in res:
            print(json.dumps(dict(r, trace=None))[:3000])
            for v in r["violations"]:
                rep.violation(dict(kind=v["kind"], cause=v.get("cause", "")), obj)
        return rep.finish()

    quick = tier == "quick"
    rnd = random.Random(seed)
    corrupt = os.environ.get("VERIF_X07_CORRUPT")   # binding demonstration only
    states = transitions = 0
    models, cover = [], {}
    tables = None
    scripts = []
    counters = dict(fc=rnd.randrange(50), mc=rnd.randrange(50), vc=rnd.randrange(50), fr=rnd.randrange(50), vr=rnd.randrange(50))
    n_wit = 0
    per_family = 100 if quick else 600
    n_sim = 60 if quick else 300
    from concurrent.futures import ThreadPoolExecutor
    pool = ThreadPoolExecutor(max_workers=6 if quick else 4)   # quick: 2 + 2 + 4 x 1 workers; thorough: 3 + 2 + 2 + 1
    fut = {}
    order = FAMILIES if quick else ["fault", "core", "squat", "key", "race"]   # the large ones first
    for fam in order:
        check_cfg = "VcLife.%s.%s.cfg" % (fam, "quick" if quick else "thorough")
        big = (2 if fam == "core" else 1) if quick else (3 if fam == order[0] else (2 if fam == order[1] else 1))
        genw = 2 if fam == "core" else 1   # never more than 8 workers at a time
        fut[fam, "check"] = (check_cfg, pool.submit(tlc_ok, "MCVcLife", check_cfg, "prescriptive", timeout=900, workers=big))
        if not quick:   # vacuity guard (every action fires) on the small config: coverage mode is slow
            fut[fam, "cover"] = ("VcLife.%s.quick.cfg" % fam, pool.submit(tlc_ok, "MCVcLife", "VcLife.%s.quick.cfg" % fam, "coverage", timeout=900, coverage=True))
        gen_cfg = "VcLife.%s.gen.cfg" % fam
        fut[fam, "gen"] = (gen_cfg, pool.submit(tlc_ok, "MCVcLife", gen_cfg, "generation", timeout=900, workers=genw))
        fut[fam, "sim"] = (gen_cfg, pool.submit(vlib.tlc, "MCVcLife", gen_cfg, workers=1, simulate="num=%d" % n_sim, depth=24, seed=seed, timeout=300))
    n_mix = 60 if quick else 400
    fut["mix"] = ("VcLife.mix.gen.cfg", pool.submit(vlib.tlc, "MCVcLife", "VcLife.mix.gen.cfg", workers=1, simulate="num=%d" % n_mix, depth=40, seed=seed, timeout=300))
    fut["pub"] = ("VcLife.pub.gen.cfg", pool.submit(tlc_ok, "MCVcLife", "VcLife.pub.gen.cfg", "publisher", timeout=300))
    fut["live"] = ("VcLife.live.cfg", pool.submit(tlc_ok, "MCVcLife", "VcLife.live.cfg", "liveness", timeout=900))
    for fam in FAMILIES:
        # 1. the statement holds of the prescriptive design (exhaustive, small constants)
        check_cfg, f = fut[fam, "check"]
        m = f.result()
        states += m.distinct
        transitions += m.generated
        models.append(dict(cfg=check_cfg, states=m.distinct, transitions=m.generated, depth=m.depth, wall_s=round(m.wall, 1)))
        if not quick:
            mc = fut[fam, "cover"][1].result()
            states += mc.distinct
            transitions += mc.generated
            models.append(dict(cfg=fut[fam, "cover"][0], states=mc.distinct, transitions=mc.generated, coverage=True))
            for k, v in mc.coverage.items():
                cover[k] = cover.get(k, 0) + v
        tables = tables or tables_of(m)
        # 2. behaviours of the code's variant of the specification
        gen_cfg, f = fut[fam, "gen"]
        g = f.result()
        states += g.distinct
        transitions += g.generated
        models.append(dict(cfg=gen_cfg, states=g.distinct, transitions=g.generated, depth=g.depth, wall_s=round(g.wall, 1), variant="descriptive"))
        wit = [p["steps"] for p in g.printed if isinstance(p, dict) and "steps" in p]
        n_wit += len(wit)
        chosen = select(wit, per_family if fam != "race" else per_family // 2, rnd)
        s = fut[fam, "sim"][1].result()
        if s.error and "timeout" in s.error:
            raise Inconclusive(s.error)
        sim = vlib.dedupe_maximal([p["steps"] for p in s.printed if isinstance(p, dict) and "steps" in p])
        for i, b in enumerate(chosen):
            scripts.append(dict(id="%s-w%04d" % (fam, i), steps=b))
        for i, b in enumerate(sim[:n_sim]):
            scripts.append(dict(id="%s-s%04d" % (fam, i), steps=b))
    s = fut["mix"][1].result()
    if s.error and "timeout" in s.error:
        raise Inconclusive(s.error)
    mix = vlib.dedupe_maximal([p["steps"] for p in s.printed if isinstance(p, dict) and "steps" in p])
    for i, b in enumerate(mix[:n_mix]):
        scripts.append(dict(id="mix-s%04d" % i, steps=b))
    scripts += directed_scripts()
    for sc in scripts:
        sc["variants"] = variants_for(tx_of(sc["steps"]), tables, counters)
    t_models = time.time() - t0
    results = run_scripts(binary, "recv", tables, scripts, quick, corrupt)
    by_id = {s["id"]: s for s in scripts}

    # 3. the publisher: every configuration
    g = fut["pub"][1].result()
    states += g.distinct
    transitions += g.generated
    models.append(dict(cfg="VcLife.pub.gen.cfg", states=g.distinct, transitions=g.generated, depth=g.depth))
    pub = [p["steps"] for p in g.printed if isinstance(p, dict) and "steps" in p]
    pub.sort(key=lambda b: json.dumps(b, sort_keys=True))
    if quick:
        # every (configuration, first call) once, followed by the revocation where there is one
        keep = {}
        for b in pub:
            k = json.dumps(b[:2], sort_keys=True)
            if k not in keep or (len(b) > 2 and b[2]["a"] == "Revoke"):
                keep[k] = b
        pub = list(keep.values())
    pscripts = [dict(id="pub-%04d" % i, steps=b) for i, b in enumerate(pub)]
    presults = run_scripts(binary, "pub", tables, pscripts, quick, corrupt)
    by_id.update({s["id"]: s for s in pscripts})

    t_driver = time.time() - t0 - t_models
    # 4. verdicts from the real observables
    nchecks = ncalls = ndrift = ninc = 0
    seen_expected = set()
    samples = []
    variants_used = set()
    for r in results + presults:
        mode = "pub" if r["id"].startswith("pub-") else "recv"
        nchecks += r.get("checks", 0)
        ncalls += r.get("calls", 0)
        ndrift += len(r.get("drift") or [])
        for t, v in (r.get("variants") or {}).items():
            variants_used.add((t in tables["C"] and "cred" or "rev", v))
        sc = by_id[r["id"]]
        if r.get("error"):
            ninc += 1
            rep.inconclusive.append("script %s: %s" % (r["id"], r["error"]))
            continue
        for v in r["violations"]:
            sig = dict(kind=v["kind"], cause=v.get("cause", ""))
            seen_expected.add((v["kind"], v.get("cause", "")))
            inp = dict(mode=mode, tables=tables, scripts=[sc], issuers=ISSUERS, init_trust=INIT_TRUST, init_keys=INIT_KEYS)
            rep.violation(sig, dict(property=prop, violation=v, input=inp))
        if len(samples) < 3 and len(sc["steps"]) >= 6 and r.get("trace"):
            samples.append(dict(script=sc["steps"], variants=sc.get("variants"), real_trace=r["trace"][:14]))
    if ninc <= max(1, len(results) // 100):
        rep.inconclusive = []
    for d in [x for r in results + presults for x in (r.get("drift") or [])][:5]:
        rep.notes.append("DRIFT: " + d)
    # a deviation the code no longer shows: its constant has to be flipped in the gen / trace configs
    for const in sorted(set(EXPECTED.values())):
        sigs = [k for k, v in EXPECTED.items() if v == const]
        if not any(k in seen_expected for k in sigs):
            rep.notes.append("NOTE: no behaviour showed the deviation %s = FALSE any more (repaired?): flip it in spec/cfg/VcLife.*.gen.cfg" % const)

    # 5. recorded traces of the real code are validated by TLC against the specification
    acc = rejn = 0
    for mode, rs, cfg in (("recv", results, "VcLife.trace.recv.cfg"), ("pub", presults, "VcLife.trace.pub.cfg")):
        good = [r for r in rs if r.get("trace") and not r.get("error")]
        traces = [r["trace"] for r in good]
        a, rej = vlib.validate_traces("TraceVcLife", cfg, traces, timeout=900)
        acc += a
        rejn += len(rej)
        for x in rej[:5]:
            rep.notes.append("DRIFT: trace of %s rejected at event %s (%s)" % (good[x["index"]]["id"], json.dumps(x["event"])[:400], x["kind"]))
            if os.environ.get("VERIF_DUMP_REJ"):
                json.dump(dict(rejected=x, script=by_id[good[x["index"]]["id"]], trace=traces[x["index"]]),
                          open(os.path.join(os.environ["VERIF_DUMP_REJ"], "rej-%s-%s.json" % (prop, good[x["index"]]["id"])), "w"), indent=1)
        for x in rej:
            if x["kind"].startswith("invariant:"):
                rep.violation(dict(kind="trace-" + x["kind"], cause=""), dict(property=prop, trace=traces[x["index"]], rejected=x,
                              input=dict(mode=mode, tables=tables, scripts=[by_id[good[x["index"]]["id"]]], issuers=ISSUERS, init_trust=INIT_TRUST, init_keys=INIT_KEYS)))
        if len(rej) > 3 and not rep.violations:   # (validate_traces stops after 12 rejections)
            rep.inconclusive.append("at least %d of %d recorded %s traces are not behaviours of the specification (spec/code drift)" % (len(rej), len(traces), mode))

    # 6. vacuity guards and liveness
    if not quick or os.environ.get("VERIF_X07_FULL"):
        for cfg, inv in (("VcLife.squat.dev.cfg", "StoredAreValid"), ("VcLife.squat.dev2.cfg", "OrderIndependent"),
                         ("VcLife.key.dev.cfg", "TransientNotDropped"), ("VcLife.key.dev2.cfg", "OrderIndependent"),
                         ("VcLife.fault.dev.cfg", "TransientNotDropped"), ("VcLife.fault.dev2.cfg", "OrderIndependent"),
                         ("VcLife.fault.dev3.cfg", "TransientNotDropped"), ("VcLife.race.dev.cfg", "IdUnique"),
                         ("VcLife.live.dev.cfg", "EventuallyStored")):
            d = vlib.tlc("MCVcLife", cfg, timeout=600, workers=4)
            got = d.violation if d.violation not in (None, "temporal") else (inv if inv in (d.error or "") + d.raw[-3000:] and ("violated" in (d.error or "") or d.violation == "temporal") else None)
            if got != inv:
                raise Inconclusive("vacuity guard: %s must violate %s, TLC says %s / %s" % (cfg, inv, d.violation, d.error))
            models.append(dict(cfg=cfg, expected_violation=inv))
    live = fut["live"][1].result()
    states += live.distinct
    transitions += live.generated
    models.append(dict(cfg="VcLife.live.cfg", states=live.distinct, transitions=live.generated, property="EventuallyStored, EventuallyRevoked, EventuallyQuiet under FairSpec (prescriptive variant)"))
    if not quick:
        missing = [a for a in ("Deliver", "Retry", "Restart", "Replay", "Reprocess", "SetTrust", "LearnKey", "CtxUp", "Begin", "Finish") if not cover.get(a)]
        if missing:
            raise Inconclusive("vacuity: actions never fired in the exhaustive runs: %s" % missing)

    cov = dict(states=states, transitions=transitions, traces_validated_against_impl=acc + rejn, traces_accepted=acc, traces_rejected=rejn,
               samples=samples or [scripts[0]["steps"]], models=models, behaviours_replayed_on_real_code=len(results),
               publisher_configurations_executed=len(presults), witness_behaviours_available=n_wit, oracle_evaluations=nchecks,
               receiver_calls_observed=ncalls, drift_notes=ndrift, inconclusive_scripts=ninc, action_coverage=cover,
               phase_wall_s=dict(models=round(t_models, 1), replay=round(t_driver, 1)),
               concrete_variants_used=sorted("%s:%s" % v for v in variants_used), exhaustive=False,
               deviations_seen=sorted("%s/%s" % k for k in seen_expected),
               rule="TLC exhausts the prescriptive VcLife configs listed under 'models' (all invariants / action properties) and the liveness config; "
                    "behaviours of the DESCRIPTIVE variant (one witness per distinct terminal state and per distinct state departing from the statement, "
                    "simulation runs, directed behaviours) are replayed on two real VCR instances; a self-contained oracle judges Resolve / Search / "
                    "IsRevoked / Verify / Trusted / Untrusted and the receivers' answers after every step; every recorded run is validated by TLC "
                    "against TraceVcLife.tla (observation of the model = observation of the code); overlapping handler calls for one id are "
                    "scheduled through a gate in the JSON-LD document loader; the issuing node's publisher is run for every configuration TLC enumerates")
    vlib.write_evidence(prop, tier, seed, "model_checking", cov, time.time() - t0, len(rep.violations),
                        ["ECDSA / SHA-256 / JSON-LD canonicalisation are correct", "the DAG hands every payload event to every subscriber (Dag.tla, C14)",
                         "did store resolves by time as specified in DidStore.tla (C10)", "at most two overlapping handler calls, split at ONE point (between id look-up and write)",
                         "small scope: 3 issuers, <= 8 transactions per family, <= 1 restart, <= 1 injected store failure in the exhaustive runs",
                         "restart = orderly shutdown (no crash inside a handler)"])
    return rep.finish()
