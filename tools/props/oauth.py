"""C02: OAuth.tla <-> auth/api/iam of a whole in-process node (token issuance and introspection)."""
import copy, json, os, random, re, time
from .. import vlib
from ..vlib import Report, Inconclusive

PROPS = ["C02"]
DRIVER = "oauth"
UNIT = 5.0          # seconds per Tick of the model (s2sMaxPresentationValidity = s2sMaxClockSkew = 5 s)
TOKEN_TTL = 2       # Age units per token lifetime (must equal TokenTTL of the cfgs)

# standard members of an RFC 7662 answer (+ cnf); the members the node really answers with are discovered at run time
RFC7662 = ["active", "scope", "client_id", "username", "token_type", "exp", "iat", "nbf", "sub", "aud", "iss", "jti", "cnf"]
CODE_GUARDED = ["iss", "sub", "exp", "iat", "active", "client_id", "scope"]

FORMAT = {"ldp_vp": {"proof_type": ["JsonWebSignature2020"]}, "ldp_vc": {"proof_type": ["JsonWebSignature2020"]},
          "jwt_vp": {"alg": ["ES256"]}, "jwt_vc": {"alg": ["ES256"]}}


def _type_field(t):
    return {"path": ["$.type"], "filter": {"type": "string", "const": t}}


def _paths(p):
    # credentialSubject is an object or a one-element array, depending on the proof format
    return ["$.credentialSubject." + p, "$.credentialSubject[0]." + p]


def d_org(extra=None):
    fields = [_type_field("NutsOrganizationCredential"),
              {"id": "org_name", "path": _paths("organization.name"), "filter": {"type": "string"}},
              {"id": "org_city", "path": _paths("organization.city"), "filter": {"type": "string"}}]
    if extra:
        fields.append({"id": extra, "path": _paths("organization.name"), "filter": {"type": "string"}})
    return {"id": "d_org", "constraints": {"fields": fields}}


def d_emp():
    return {"id": "d_emp", "constraints": {"fields": [
        _type_field("NutsEmployeeCredential"),
        {"id": "emp_name", "path": _paths("name"), "filter": {"type": "string"}},
        {"id": "emp_role", "path": _paths("roleName"), "filter": {"type": "string"}}]}}


def pd(pid, descriptors):
    return {"id": pid, "format": FORMAT, "input_descriptors": descriptors}


def policy(members):
    """scope -> wallet owner mapping: the presentation definitions the node is configured with."""
    pol = {
        "s1": {"organization": pd("pd-s1", [d_org()])},
        "s2": {"organization": pd("pd-s2", [d_org(), d_emp()])},
        "other": {"organization": pd("pd-other", [d_org()])},
        "dual": {"organization": pd("pd-dual-org", [d_org()]), "user": pd("pd-dual-user", [d_emp()])},
    }
    for m in members:
        # a definition whose constraint-field id is the name of a top-level member of the introspection answer
        pol["ovr_" + m] = {"organization": pd("pd-ovr_" + m, [d_org(extra=m)])}
    return pol
