"""C02: OAuth.tla <-> auth/api/iam of a whole in-process node (token issuance and introspection)."""
import copy, json, os, random, re, time
from .. import vlib
from ..vlib import Report, Inconclusive

PROPS = ["C02"]
DRIVER = "oauth"
UNIT = 6.0          # seconds per Tick of the model: validity 5 s, skew 5 s, nonce kept 15 s => every comparison has >= 1.5 s margin (driver: rtOffset)
TOKEN_TTL = 2       # Age units per token lifetime (must equal TokenTTL of the cfgs)

# standard members of an RFC 7662 answer (+ cnf); the members the node really answers with are discovered at run time
RFC7662 = ["active", "scope", "client_id", "username", "token_type", "exp", "iat", "nbf", "sub", "aud", "iss", "jti", "cnf"]
CODE_GUARDED = ["iss", "sub", "exp", "iat", "active", "client_id", "scope"]

FORMAT = {"ldp_vp": {"proof_type": ["JsonWebSignature2020"]}, "ldp_vc": {"proof_type": ["JsonWebSignature2020"]},
          "jwt_vp": {"alg": ["ES256"]}, "jwt_vc": {"alg": ["ES256"]}}


def _type_field(t):
    return {"path": ["$.type"], "filter": {"type": "string", "const": t}}


def _paths(p):
    # credentialSubject is an object or a one-element array, depending on the proof format
    return ["$.credentialSubject." + p, "$.credentialSubject[0]." + p]


def d_org(extra=None):
    fields = [_type_field("NutsOrganizationCredential"),
              {"id": "org_name", "path": _paths("organization.name"), "filter": {"type": "string"}},
              {"id": "org_city", "path": _paths("organization.city"), "filter": {"type": "string"}}]
    if extra:
        fields.append({"id": extra, "path": _paths("organization.name"), "filter": {"type": "string"}})
    return {"id": "d_org", "constraints": {"fields": fields}}


def d_emp():
    return {"id": "d_emp", "constraints": {"fields": [
        _type_field("NutsEmployeeCredential"),
        {"id": "emp_name", "path": _paths("name"), "filter": {"type": "string"}},
        {"id": "emp_role", "path": _paths("roleName"), "filter": {"type": "string"}}]}}


def pd(pid, descriptors):
    return {"id": pid, "format": FORMAT, "input_descriptors": descriptors}


def policy(members):
    """scope -> wallet owner mapping: the presentation definitions the node is configured with."""
    pol = {
        "s1": {"organization": pd("pd-s1", [d_org()])},
        "s2": {"organization": pd("pd-s2", [d_org(), d_emp()])},
        "other": {"organization": pd("pd-other", [d_org()])},
        "emp": {"organization": pd("pd-emp", [d_emp()])},     # a scope of its own that asks for another credential
        "dual": {"organization": pd("pd-dual-org", [d_org()]), "user": pd("pd-dual-user", [d_emp()])},
    }
    for m in members:
        # a definition whose constraint-field id is the name of a top-level member of the introspection answer
        pol["ovr_" + m] = {"organization": pd("pd-ovr_" + m, [d_org(extra=m)])}
    return pol


# ------------------------------------------------------------------------------------------ driver plumbing

STATIC_MEMBERS = ["active", "aud", "client_id", "cnf", "exp", "iat", "iss", "jti", "nbf", "presentation_definitions",
                  "presentation_submissions", "scope", "sub", "token_type", "username", "vps"]   # = Members of the cfgs
EXTRA_CLAIM = "org_alias"     # a definition variant with one more, harmless claim


def driver_input(scripts, members, mode="run", mutant=""):
    # VERIF_OAUTH_MUTANT=always-active: binding self-test, the driver records every introspection answer as "active"
    mutant = mutant or os.environ.get("VERIF_OAUTH_MUTANT", "")
    return dict(mode=mode, policy=policy(sorted(set(members) | {EXTRA_CLAIM})), scripts=scripts, unit=UNIT, token_ttl=TOKEN_TTL,
                members=sorted(members), mutant=mutant)


def discover(binary):
    """Which top-level members does the node's (extended) introspection answer really have?"""
    res = vlib.run_driver(binary, driver_input([], STATIC_MEMBERS, mode="discover"), timeout=120)
    if not res or res[0].get("error") or not res[0].get("members"):
        raise Inconclusive("baseline request / introspection did not work: %s" % (res[0].get("error") if res else "no result"))
    return res[0]["members"]


def run_shards(binary, inp, shards, timeout):
    """vlib.run_driver_parallel; a shard whose node did not come up (port taken by a concurrent check) is retried once."""
    try:
        return vlib.run_driver_parallel(binary, inp, "scripts", shards, timeout=timeout)
    except Inconclusive as e:
        if "driver failed" not in str(e):
            raise
        return vlib.run_driver_parallel(binary, inp, "scripts", shards, timeout=timeout)


# ------------------------------------------------------------------------------------------ behaviours

CRED_FLAGS = {"vcsig", "revoked", "expired"}


WRONG_AUDS = ["missing", "unrelated", "other_tenant", "extends", "prefix", "array_without"]   # = AllWrongAuds of the spec
SHAPES = [(n, m, q) for n in (1, 2, 3) for m in range(1, n + 1) for q in range(1, n + 1)]            # = AllShapes
MODEL_SHAPED = ("shp", "cshp", "win")     # families whose envelope / audience come from the model


def concretise(beh, rnd, family, idx, force=None):
    """Adds the concrete choices the model abstracts from (seeded): proof formats, defect variants, definition size."""
    steps = []
    fmt_all = rnd.choice(["ldp", "jwt"])
    pd2 = rnd.random() < 0.25
    for st in beh:
        st = dict(st)
        if st["a"] in ("S2SToken", "AuthzResponse"):
            if family != "win":
                st["fmt"] = fmt_all if rnd.random() < 0.8 else rnd.choice(["ldp", "jwt"])
            st["vcfmt"] = rnd.choice(["ldp", "jwt"])
            if force:
                st["fmt"], st["vcfmt"] = force
            st["var"] = {f: rnd.randrange(24) for f in st.get("d", [])}
            st["var"]["issuer"] = rnd.randrange(2)
            st["var"]["filler"] = rnd.randrange(2)
            st["var"]["audalt"] = rnd.randrange(2)
            # The answer of the model does not depend on the envelope (number of presentations, which one carries the
            # credentials, which one the defect) nor on the kind of wrong audience: behaviours of the configs that fix them
            # get a random one. (Not with a nonce defect: there the envelope decides what is burnt afterwards.)
            if family not in MODEL_SHAPED and not {"nononce", "badnonce"} & set(st.get("d", [])):
                if rnd.random() < 0.4:
                    st["nvp"], st["main"], st["pos"] = rnd.choice(SHAPES[1:])
                if "aud" in st.get("d", []):
                    st["audv"] = rnd.choice(WRONG_AUDS)
                elif st["fmt"] == "jwt" and rnd.random() < 0.25:
                    st["audv"] = "array_with"
            st["pd2"] = bool(pd2 and st.get("def", "plain") == "plain" and "partial" not in st.get("d", [])) if family not in ("code", "code2") else pd2
        if st["a"] == "Authorize":
            st["pd2"] = pd2     # the scope is fixed by the authorization request
            st["var"] = {f: rnd.randrange(24) for f in st.get("d", [])}
        if st["a"] == "CodeToken":
            st["var"] = {f: rnd.randrange(6) for f in st.get("d", [])}
        steps.append(st)
    return dict(id="%s-%05d" % (family, idx), steps=steps, realtime=(family == "win"))


def interesting_window(b):
    # a replay that is answered with a token, or one that only the remembered nonce stops, in the last tick of its retention
    # (the behaviours on which a retention shorter than the acceptance span of the presentation shows: C02-replaywindow)
    return any(s["a"] == "S2SReplay" and (s.get("res") == "issued" or s.get("edge")) for s in b)


def pick(behaviours, n, rnd, must=None):
    """n behaviours, seeded; `must` selects behaviours that are always taken (capped at n)."""
    behaviours = sorted((b for b in behaviours if b), key=lambda b: json.dumps(b, sort_keys=True))
    first = [b for b in behaviours if must and must(b)]
    rest = [b for b in behaviours if not (must and must(b))]
    rnd.shuffle(first)
    rnd.shuffle(rest)
    return (first + rest)[:n] if len(first) < n else first[:n]


# extra environment of the TLC runs (the tlc wrapper selects the garbage collector itself)
JVM = {}


def step_key(s):
    d = s.get("def")
    return (s["a"], tuple(s.get("d", [])), s.get("stage") or s.get("res"), s.get("ext"), d if d not in (None, "plain") else None,
            s.get("fmt") if s.get("fut") else None, s.get("fut"), s.get("dpop") if s["a"] == "CodeToken" else None)


def keys_of(b):
    """What a behaviour exercises: every (request, model stage), every (request, envelope), every (request, audience class)
    and every pair (previous answer, request)."""
    ks = {("1", step_key(x)) for x in b}
    ks |= {("1", "shape", x["a"], tuple(x.get("d", [])), x["nvp"], x["main"], x["pos"]) for x in b if "nvp" in x}
    ks |= {("1", "aud", x["a"], tuple(x.get("d", [])), x["audv"], x.get("fmt")) for x in b if "audv" in x}
    ks |= {("2", x["a"], x.get("stage") or x.get("res"), step_key(y)) for x, y in zip(b, b[1:])}
    return ks


def cover_pick(behaviours, n, rnd, must=None):
    """Seeded greedy cover: behaviours are taken as long as they exercise something new (keys_of), then at random up to n.
    Returns (chosen, measured coverage of the keys)."""
    behaviours = sorted((b for b in behaviours if b), key=lambda b: json.dumps(b, sort_keys=True))
    rnd.shuffle(behaviours)
    if must:
        behaviours.sort(key=lambda b: 0 if must(b) else 1)
    ks = [keys_of(b) for b in behaviours]
    allkeys = set().union(*ks) if ks else set()
    covered, chosen, rest = set(), [], list(range(len(behaviours)))
    gain = lambda i: sum(1000 if k[0] == "1" else 1 for k in ks[i] - covered)   # (request, stage) first, then pairs
    while rest and len(chosen) < n and covered != allkeys:
        window = rest[:3000]
        best = max(window, key=gain)
        if not ks[best] - covered:
            rest = rest[3000:] + window     # nothing new in this window: rotate
            if all(not (ks[i] - covered) for i in rest[:3000]):
                break
            continue
        chosen.append(best)
        covered |= ks[best]
        rest.remove(best)
    for i in rest:
        if len(chosen) >= n:
            break
        chosen.append(i)
    one = lambda ks_: len([k for k in ks_ if k[0] == "1"])
    return [behaviours[i] for i in chosen], dict(request_stage=one(covered), request_stage_of=one(allkeys),
                                                 answer_then_request=len(covered) - one(covered), answer_then_request_of=len(allkeys) - one(allkeys))


def gen_exhaustive(cfg, workers=2):
    g = vlib.tlc("MCOAuth", cfg, workers=workers, timeout=900, env=JVM)
    if not g.ok:
        raise Inconclusive("generation run %s failed: %s %s\n%s" % (cfg, g.violation, g.error, g.raw[-1500:]))
    return g, vlib.dedupe_maximal(g.printed)


def gen_simulate(cfg, n, depth, seed):
    s = vlib.tlc("MCOAuth", cfg, workers=1, simulate="num=%d" % n, depth=depth, seed=seed, timeout=600, env=JVM)
    if s.error and "timeout" in s.error:
        raise Inconclusive(s.error)
    if s.violation:
        raise Inconclusive("simulation %s: %s" % (cfg, s.violation))
    return s, vlib.dedupe_maximal(s.printed)


ACTIONS = ["S2SToken", "S2SReplay", "Authorize", "AuthzResponse", "CodeToken", "Introspect", "Tick", "Age"]


def action_coverage(raw):
    """Transitions per action from TLC's -coverage output (vlib's parser does not know the '(l c l c)' location suffix
    TLC adds for actions that are reached through another definition or sit inside Next)."""
    spec = open(os.path.join(vlib.SPEC, "OAuth.tla")).read().splitlines()
    out = {}
    for m in re.finditer(r"^<(\w+) line \d+, col \d+ to line \d+, col \d+ of module OAuth(?: \((\d+) \d+ \d+ \d+\))?>: (\d+):(\d+)", raw, re.M):
        name, loc, total = m.group(1), m.group(2), int(m.group(4))
        if loc and 0 < int(loc) <= len(spec):
            line = " ".join(spec[int(loc) - 1:int(loc) + 1])      # (a disjunct of Next may continue on the next line)
            hit = [a for a in ACTIONS if re.search(r"\b%s\(" % a, line)]
            if hit:
                name = hit[0]
        name = {"S2SDo": "S2SToken", "S2SReplayDo": "S2SReplay", "AuthorizeDo": "Authorize", "AuthzDo": "AuthzResponse",
                "CodeDo": "CodeToken", "IntrospectDo": "Introspect"}.get(name, name)
        if name in ACTIONS:
            out[name] = out.get(name, 0) + total
    return out


def check_model(cfg, workers=2, coverage=False):
    m = vlib.tlc("MCOAuth", cfg, workers=workers, timeout=1800, coverage=coverage, env=JVM)
    if m.error:
        raise Inconclusive("TLC %s: %s\n%s" % (cfg, m.error, m.raw[-1500:]))
    if m.violation:
        raise Inconclusive("the prescriptive model %s violates %s:\n%s" % (cfg, m.violation, m.raw[-3000:]))
    return m


# ------------------------------------------------------------------------------------------ verdicts

def with_reserved(sig):
    # is the member one of the names the code reserves today? (a guard that is lost must not hide behind the known gap)
    if sig.get("kind") in ("claim-injects-standard-member", "claim-overrides-standard-member"):
        sig["reserved"] = sig.get("member") in CODE_GUARDED
    return sig


def sig_of(v):
    return with_reserved(dict(v.get("sig") or {}, kind=v["kind"]))


def trace_sigs(inv, ev):
    """Signature(s) of a property invariant that failed on a state reconstructed from a real execution."""
    if ev is None:
        return [dict(kind="trace-invariant:" + inv)]
    e = ev.get("ev")
    if inv == "IssuedOnlyIfClean":
        if e == "s2s":
            return [dict(kind="issued-with-defect", flow="s2s", defect="+".join(sorted(ev.get("d", []))) or "nonce-reuse")]
        if e == "s2sreplay":
            return [dict(kind="issued-with-defect", flow="s2s", defect="replay", fmt=ev.get("fmt"), postdated=ev.get("fut", 0) > 0)]
        if e == "codetoken":
            return [dict(kind="issued-with-defect", flow="code", defect="+".join(sorted(ev.get("d", []))) or "response")]
    if inv == "ReservedClaimsNotOverridable" and e == "introspect":
        est = ev.get("over_est", [])
        return [with_reserved(dict(kind="claim-overrides-standard-member" if m in est else "claim-injects-standard-member", member=m))
                for m in ev.get("over", [])]
    if inv == "IntrospectSound" and e == "introspect":
        if ev.get("nclaims") == "dropped":
            return [dict(kind="introspection-claims-missing", endpoint="introspect_extended" if ev.get("ext") else "introspect")]
        return [dict(kind="introspection-mismatch", member=m) for m in ("iss", "client", "scope", "cnf") if ev.get(m) == "other"] or \
               [dict(kind="trace-invariant:" + inv)]
    if inv == "ActiveOnlyIfLive":
        return [dict(kind="active-not-live")]
    return [dict(kind="trace-invariant:" + inv)]


def _t(label, t0):
    if os.environ.get("VERIF_TIMING"):
        print("TIMING %-28s %6.1fs" % (label, time.time() - t0))


def validate_linear(cfg, traces, timeout=600, batch=1000, max_rejected=12):
    """Trace validation like vlib.validate_traces, but linear in the number of rejected traces and bounded: TLC consumes
    the concatenated traces in order, so everything before the first rejected trace of a batch is accepted; the batch is
    resumed behind it.  After max_rejected rejections the rest is left unvalidated (massive drift: the caller decides).
    Returns (accepted, rejected[list of dict(index, event, kind)], not_validated)."""
    import tempfile, shutil
    accepted, rejected, i = 0, [], 0
    while i < len(traces) and len(rejected) < max_rejected:
        chunk = traces[i:i + batch]
        lines, starts = [], []
        for t in chunk:
            starts.append(len(lines) + 1)
            lines.append(json.dumps({"ev": "reset"}))
            lines += [json.dumps(e) for e in t]
        work = vlib.scratch("trace")
        try:
            tf = os.path.join(work, "trace.ndjson")
            with open(tf, "w") as fh:
                fh.write("\n".join(lines) + "\n")
            r = vlib.tlc("TraceOAuth", cfg, workers=1, timeout=timeout, env=dict(JVM, VERIF_TRACE=tf), deque=True)
        finally:
            shutil.rmtree(work, ignore_errors=True)
        if r.error and "timeout" in r.error:
            raise Inconclusive("trace validation: " + r.error)
        if r.violation is None and "TRACE-REJECTED-AT" not in r.raw and r.error is None:
            accepted += len(chunk)
            i += len(chunk)
            continue
        m = re.search(r"TRACE-REJECTED-AT\D+(\d+)", r.raw)
        if r.violation and r.violation != "Progress":
            kind = "invariant:" + r.violation
            mm = re.findall(r"^/\\ l = (\d+)", r.raw, re.M)
            at = int(mm[-1]) - 1 if mm else None
        elif m:
            kind, at = "no-matching-action", int(m.group(1))
        else:
            raise Inconclusive("trace validation failed unexpectedly: %s\n%s" % (r.error, r.raw[-2000:]))
        at = at or 1
        k = max(j for j, st in enumerate(starts) if st <= at)
        ev = json.loads(lines[at - 1]) if 0 < at <= len(lines) else None
        rejected.append(dict(index=i + k, event=ev, kind=kind))
        accepted += k
        i += k + 1
    return accepted, rejected, len(traces) - i if i < len(traces) else 0


def run(prop, tier, seed, replay=None):
    t0 = time.time()
    rep = Report(prop)
    # (VERIF_OAUTH_BINARY: a driver built against a scratch copy of the repository - used for the binding demonstration only)
    binary = os.environ.get("VERIF_OAUTH_BINARY") or vlib.build_driver(DRIVER)
    if replay:
        obj = json.load(open(replay))
        res = vlib.run_driver(binary, obj["input"], timeout=300)
        for r in res:
            print(json.dumps(dict(id=r["id"], error=r.get("error"), violations=r["violations"], observed=r.get("observed")))[:6000])
            if r.get("error"):
                rep.inconclusive.append("replay: " + r["error"])
            for v in r["violations"]:
                rep.violation(sig_of(v), obj)
        return rep.finish()

    quick = tier == "quick"
    rnd = random.Random(seed)
    _t("build", t0)
    members = discover(binary)
    _t("discover", t0)
    new_members = sorted(set(members) - set(STATIC_MEMBERS))
    for m in new_members:
        rep.notes.append("DRIFT: the introspection answer has a top-level member %r the specification does not list (Members)" % m)
    all_members = sorted(set(STATIC_MEMBERS) | set(members))

    # ---- 1. TLC: the prescriptive design satisfies C02 (exhaustive); behaviours from the descriptive model
    from concurrent.futures import ThreadPoolExecutor
    checks = ["OAuth.s2s.quick.cfg", "OAuth.s2s.pairs.quick.cfg", "OAuth.s2s.shape.quick.cfg", "OAuth.win.check.cfg", "OAuth.code.quick.cfg",
              "OAuth.code.shape.quick.cfg", "OAuth.ovr.check.cfg"] if quick else \
             ["OAuth.s2s.thorough.cfg", "OAuth.s2s.seq5.thorough.cfg", "OAuth.s2s.shape.thorough.cfg", "OAuth.win.check.cfg", "OAuth.code.thorough.cfg",
              "OAuth.code.shape.quick.cfg", "OAuth.ovr.check.cfg"]
    gens = ["OAuth.win.gen.cfg", "OAuth.s2s.gen.pairs.cfg", "OAuth.s2s.gen.life.cfg", "OAuth.code.gen.cfg", "OAuth.code.gen.pairs.cfg", "OAuth.ovr.gen.cfg",
            "OAuth.s2s.gen.shape.cfg", "OAuth.code.gen.shape.cfg"]
    if not quick:
        gens.append("OAuth.s2s.gen.seq.cfg")
    n = dict(pairs_single=10 ** 6, pairs=280, life=260, seq=120, win=36, code=140, codepairs=280, ovr=10 ** 6, shp=420, cshp=360) if quick else \
        dict(pairs_single=10 ** 6, pairs=10 ** 6, life=6000, seq=2500, win=260, code=10 ** 6, codepairs=10 ** 6, ovr=10 ** 6, shp=10 ** 6, cshp=10 ** 6)
    fam, scripts, cover_keys = {}, [], {}

    def select(f, bs, k, must=None):
        chosen, cover_keys[f] = cover_pick(bs, k, rnd, must)
        return chosen

    def add_family(f, bs, force=None):
        fam[f] = bs
        out = [concretise(b, random.Random("%s/%s" % (seed, f + str(i))), f, i, force and force[i % len(force)]) for i, b in enumerate(bs)]
        scripts.extend(out)
        return out

    big = {"OAuth.s2s.quick.cfg", "OAuth.s2s.shape.quick.cfg", "OAuth.s2s.gen.life.cfg", "OAuth.s2s.thorough.cfg", "OAuth.s2s.seq5.thorough.cfg",
           "OAuth.s2s.shape.thorough.cfg", "OAuth.s2s.gen.seq.cfg"}
    ex = ThreadPoolExecutor(max_workers=5 if quick else 3)
    drv = ThreadPoolExecutor(max_workers=2)
    try:
        wk = lambda c: (2 if quick else 3) if c in big else 1        # at most 8 TLC workers at a time
        fg = {g: ex.submit(gen_exhaustive, g, wk(g)) for g in gens[:1]}
        order = sorted(checks, key=lambda c: c not in big)
        fc = {c: ex.submit(check_model, c, wk(c), not quick) for c in order}
        fg.update({g: ex.submit(gen_exhaustive, g, wk(g)) for g in sorted(gens[1:], key=lambda c: c not in big)})
        fs = ex.submit(gen_simulate, "OAuth.s2s.gen.seq.cfg", 400, 5, seed) if quick else None
        behaviours = {}
        # the real-time scripts sleep most of the time: they start as soon as their behaviours exist
        behaviours["OAuth.win.gen.cfg"] = fg["OAuth.win.gen.cfg"].result()[1]
        rt = add_family("win", pick([b for b in behaviours["OAuth.win.gen.cfg"] if any(s["a"] == "S2SReplay" for s in b)], n["win"], rnd,
                                    must=interesting_window))
        f_rt = drv.submit(run_shards, binary, driver_input(rt, all_members), max(1, min(4, len(rt) // 40 + 1)), 400)
        models, cover = [], {}
        states = transitions = 0
        for c in checks:
            m = fc[c].result()
            states += m.distinct
            transitions += m.generated
            models.append(dict(cfg=c, states=m.distinct, transitions=m.generated, depth=m.depth, wall_s=round(m.wall, 1)))
            for k, v in action_coverage(m.raw).items():
                cover[k] = cover.get(k, 0) + v
        for g in gens[1:]:
            behaviours[g] = fg[g].result()[1]
        if fs is not None:
            behaviours["OAuth.s2s.gen.seq.cfg"] = fs.result()[1]
        if not quick:
            dead = [a for a in ACTIONS if cover.get(a, 0) == 0]
            if dead:
                raise Inconclusive("vacuity: actions never fired in the model runs: %s (%s)" % (dead, cover))
        _t("tlc", t0)

        # ---- 2. selection (seeded) and concretisation
        pb = behaviours["OAuth.s2s.gen.pairs.cfg"]
        add_family("s2s1", pick([b for b in pb if all(len(s.get("d", [])) <= 1 for s in b)], n["pairs_single"], rnd))
        add_family("s2s2", select("s2s2", [b for b in pb if any(len(s.get("d", [])) > 1 for s in b)], n["pairs"]))
        add_family("life", select("life", behaviours["OAuth.s2s.gen.life.cfg"], n["life"],
                                 must=lambda b: any(s["a"] == "Introspect" and s["res"] == "inactive" and s["t"] != "bogus" for s in b)))
        # every single defect (and the valid request) in all four combinations of presentation / credential proof format
        one = sorted((b for b in pb if len(b) >= 1 and b[0]["a"] == "S2SToken" and len(b[0].get("d", [])) <= 1 and
                      (len(b) == 1 or b[1]["a"] == "Introspect")), key=lambda b: json.dumps(b, sort_keys=True))
        first = {}
        for b in one:
            first.setdefault(json.dumps(b[0], sort_keys=True), b)
        one = list(first.values())
        combos = [(a, c) for a in ("ldp", "jwt") for c in ("ldp", "jwt")]
        add_family("fmt", [b for b in one for _ in combos], force=combos)
        # (always with the behaviours in which a token expires and is introspected afterwards)
        add_family("seq", pick(behaviours["OAuth.s2s.gen.seq.cfg"], n["seq"], rnd,
                               must=lambda b: any(s["a"] == "Introspect" and s["res"] == "inactive" and s["t"] != "bogus" for s in b)))
        add_family("code", select("code", behaviours["OAuth.code.gen.cfg"], n["code"],
                                 must=lambda b: any(s["a"] == "Introspect" and s.get("res") == "active" for s in b)))
        add_family("code2", select("code2", behaviours["OAuth.code.gen.pairs.cfg"], n["codepairs"]))
        # every single defect x every envelope (1-3 presentations, position of the credentials, position of the defect)
        # x every audience class, in both flows
        fourfmt = [(a, c) for a in ("ldp", "jwt") for c in ("ldp", "jwt")]
        add_family("shp", select("shp", behaviours["OAuth.s2s.gen.shape.cfg"], n["shp"]), force=fourfmt)
        add_family("cshp", select("cshp", [b for b in behaviours["OAuth.code.gen.shape.cfg"] if len(b) == 2], n["cshp"]), force=fourfmt)
        # (the generation run prints one behaviour per state; only "one token request, then introspections" is wanted here)
        ovr = vlib.dedupe_maximal([b for b in fg["OAuth.ovr.gen.cfg"].result()[0].printed
                                   if len(b) > 1 and b[0]["a"] == "S2SToken" and all(s["a"] == "Introspect" and s["t"] != "bogus" for s in b[1:])])
        for m in new_members:   # members the cfg does not know: same behaviours as for an unguarded name
            ovr += [[dict(s, **({"def": m} if s["a"] == "S2SToken" else {})) for s in b] for b in ovr if b[0].get("def") == "aud"]
        add_family("ovr", pick(ovr, n["ovr"], rnd))
        by_id = {s["id"]: s for s in scripts}

        # ---- 3. replay on the real node
        other = [s for s in scripts if not s["realtime"]]
        results = run_shards(binary, driver_input(other, all_members), 4 if quick else 6, 500)
        rt_res = f_rt.result()
        # real-time scripts that missed their schedule (loaded machine) are run once more, alone
        late = [by_id[r["id"]] for r in rt_res if r.get("skipped")]
        if late:
            again = {r["id"]: r for r in vlib.run_driver(binary, driver_input(late, all_members), timeout=400)}
            rt_res = [again.get(r["id"], r) if r.get("skipped") else r for r in rt_res]
        skipped = [r for r in rt_res if r.get("skipped")]
        results += [r for r in rt_res if not r.get("skipped")]
    finally:
        ex.shutdown(wait=False)
        drv.shutdown(wait=False)
    _t("driver", t0)
    if os.environ.get("VERIF_DUMP"):
        json.dump(dict(results=results, scripts=scripts), open(os.environ["VERIF_DUMP"], "w"))
    # ---- 4. verdicts from the real observables
    nchecks = ndrift = nerr = clean_ok = clean_fail = 0
    samples, fam_clean = [], {}
    inp0 = driver_input([], all_members)
    violating = set()
    for r in results:
        sc = by_id[r["id"]]
        f = r["id"].split("-")[0]
        nchecks += r.get("checks", 0)
        ndrift += len(r.get("drift") or [])
        clean_ok += r.get("clean_issued", 0)
        clean_fail += r.get("clean_rejected", 0)
        fam_clean[f] = fam_clean.get(f, 0) + r.get("clean_issued", 0)
        if r.get("error"):
            nerr += 1
            rep.inconclusive.append("script %s: %s" % (r["id"], r["error"]))
        for v in r["violations"]:
            violating.add(r["id"])
            rep.violation(sig_of(v), dict(property=prop, violation=v, input=dict(inp0, scripts=[sc])))
        for dn in (r.get("drift") or [])[:1]:
            if len(rep.notes) < 12:
                rep.notes.append("DRIFT: %s %s" % (r["id"], dn[:300]))
        if len(samples) < 3 and len(sc["steps"]) >= 3 and r.get("observed") and not r["violations"] and f in ("seq", "life", "code", "win"):
            samples.append(dict(script=sc["steps"], observed=r["observed"][:6]))
    if nerr <= max(2, len(results) // 50):
        for msg in rep.inconclusive[:3]:
            rep.notes.append("NOTE: tolerated harness error, " + msg[:300])
        rep.inconclusive = []
    if len(results) + len(skipped) != len(scripts):
        rep.inconclusive.append("%d of %d scripts produced no result" % (len(scripts) - len(results) - len(skipped), len(scripts)))
    if skipped:
        rep.notes.append("NOTE: %d of %d real-time scripts missed their schedule twice and were not judged (%s)" % (len(skipped), len(rt), skipped[0]["skipped"]))
        if len(skipped) > len(rt) // 2:
            rep.inconclusive.append("the machine is too loaded for the real-time scripts (%d of %d missed their schedule)" % (len(skipped), len(rt)))
    # vacuity: in every family valid requests must be answered with a token, otherwise nothing was tested
    for f in ("s2s1", "life", "code", "ovr", "win", "shp"):
        if fam.get(f) and fam_clean.get(f, 0) == 0:
            rep.inconclusive.append("no valid request of family %s was answered with a token (dead baseline)" % f)
    if clean_fail > max(3, (clean_ok + clean_fail) // 20):
        rep.inconclusive.append("%d of %d valid requests were rejected by the node (harness / code drift)" % (clean_fail, clean_ok + clean_fail))

    # ---- 5. recorded traces of the real node are validated by TLC against the specification
    # (executions in which the driver itself saw another answer than the model's are drift already: not sent to TLC,
    #  every rejected trace of a batch costs two more TLC runs)
    withtrace = [r for r in results if r.get("trace") and not r.get("error")]
    drifty = [r for r in withtrace if r.get("drift")]
    good = [r for r in withtrace if not r.get("drift")]
    # Every trace is validated once: the executions the oracle above has judged as violating (known findings) against the
    # conformance configuration, all others against the configuration that also evaluates the C02 invariants on every
    # reconstructed state (TLC stops at the first violated invariant of a batch). The two runs go in parallel.
    hot = [r for r in good if r["id"] in violating]
    calm = [r for r in good if r["id"] not in violating]
    from concurrent.futures import ThreadPoolExecutor as _TPE
    with _TPE(max_workers=2) as tp:
        f1 = tp.submit(validate_linear, "OAuth.trace.cfg", [r["trace"] for r in hot], 900, 1500)
        f2 = tp.submit(validate_linear, "OAuth.trace.props.cfg", [r["trace"] for r in calm], 900, 1500)
        acc1, rej1, unval1 = f1.result()
        acc2, rej2, unval2 = f2.result()
    for x in rej1:
        x["id"] = hot[x["index"]]["id"]
    for x in rej2:
        x["id"] = calm[x["index"]]["id"]
    acc, unval = acc1 + acc2, unval1 + unval2
    inv_rej = [x for x in rej2 if x["kind"].startswith("invariant:")]
    rej = rej1 + [x for x in rej2 if not x["kind"].startswith("invariant:")]
    n_tlc_rejected = len(rej)
    rej = rej + [dict(index=None, event=dict(note=r["drift"][0][:200]), kind="driver-drift", id=r["id"]) for r in drifty]
    for x in rej[:5]:
        rep.notes.append("DRIFT: trace %s is not a behaviour of the specification at event %s" % (x["id"], json.dumps(x["event"])[:300]))
    for x in inv_rej[:20]:
        # a C02 invariant fails on a state reconstructed from a real execution
        for sig in trace_sigs(x["kind"].split(":", 1)[1], x["event"]):
            rep.violation(sig, dict(property=prop, violation=dict(kind=x["kind"], event=x["event"]), input=dict(inp0, scripts=[by_id[x["id"]]])))
    if (unval or len(rej) > max(3, len(withtrace) // 20)) and not rep.violations:
        rep.inconclusive.append("%d of %d recorded traces are not behaviours of the specification, %d left unvalidated (spec/code drift)"
                                % (len(rej), len(withtrace), unval))

    _t("traces", t0)
    cov = dict(states=states, transitions=transitions, known_findings_reproduced=sorted(rep.known),
               traces_validated_against_impl=acc + n_tlc_rejected + len(inv_rej), traces_accepted=acc, traces_rejected=n_tlc_rejected,
               traces_not_sent_to_tlc_because_the_driver_saw_drift=len(drifty), traces_left_unvalidated=unval,
               traces_checked_with_property_invariants=acc2 + len(rej2), traces_violating_property_invariants=len(inv_rej),
               samples=samples or [scripts[0]["steps"]], models=models,
               behaviours_available={g: len(b) for g, b in behaviours.items()},
               behaviours_replayed_on_real_code=len(results), behaviours_per_family={f: len(b) for f, b in fam.items()},
               request_stage_pairs_covered_by_selection=cover_keys,
               requests_judged=nchecks, valid_requests_answered_with_token=clean_ok, valid_requests_rejected=clean_fail,
               scripts_with_violation=len(violating), realtime_scripts_not_judged=len(skipped), drift_notes=ndrift, inconclusive_scripts=nerr,
               introspection_members_discovered=members, members_not_in_specification=new_members,
               action_coverage=cover, exhaustive=False, model_configs_exhausted=True,
               rule="TLC exhausts the prescriptive OAuth model configs listed under 'models' (IssuedOnlyIfClean, OneTokenPerNonce, CodeSingleUse, "
                    "IntrospectFaithful, ReservedClaimsNotOverridable, NonceBurntEvenOnLaterFailure); one witness behaviour per distinct (state, request) "
                    "of the DESCRIPTIVE model is replayed over HTTP on a whole in-process node with harness-built presentations (defect flags realised "
                    "with seeded concrete variants, both proof formats); the statement of C02 is evaluated on the HTTP answers, the introspection JSON "
                    "and the session store; every recorded real trace is validated by TLC against TraceOAuth.tla")
    vlib.write_evidence(prop, tier, seed, "model_checking", cov, time.time() - t0, len(rep.violations),
                        ["jwx / json-gold verify signatures correctly (C01, C17 cover the verifier)",
                         "small scope: <= 2 defect flags per request, <= 3 presentations per envelope (one of them defective), <= 2 nonces, <= 2 sessions, behaviours of <= 4-6 steps",
                         "token expiry is realised by moving issued_at/expiration of the stored token back; presentation and nonce windows use real time (units of 6 s, requests 2.5 s into the unit)",
                         "in-memory session store (the node's default); Redis / memcached backends are not exercised",
                         "the user-wallet leg of OpenID4VP and the legacy v1 JWT-bearer grant (auth/services/oauth) are not driven"])
    return rep.finish()
