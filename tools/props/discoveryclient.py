"""X05 (extension): DiscoveryClient.tla <-> the client-side registration manager of the discovery service
(discovery/client.go, the client entry points of discovery/module.go, the refresh/error tables of discovery/store.go).
Real discovery.Module as client (sqlite, real SQL wallet, real key store) against a real discovery.Module as server
through a scriptable in-memory HTTP adapter; the refresh loop is stepped candidate by candidate."""
import json, os, random, re, shutil, time
from concurrent.futures import ThreadPoolExecutor
from .. import vlib
from ..vlib import Report, Inconclusive

PROPS = ["X05"]
MC = "MCDiscoveryClient"

ASSUMPTIONS = [
    "ES256 and the jwx library are sound; the server side (Module.Register/Get, verifyRegistration) and the list synchronisation are "
    "the subject of C16 - here the server is a real discovery.Module, in the specification it is the abstract list srv and one copy step",
    "time: the code reads time.Now(); the clock of the model is realised by shifting every stored absolute time (next_refresh, "
    "last_occurrence, presentation_expiration re-derived from the signed expiry) - clock boundaries of the model are >= 100 s away from any reading",
    "didsubject.Manager.ListDIDs and the deactivation status of DIDs are scripted (fakes at the interface seam); the wallet, the key "
    "store, the verifier, the presentation definition matcher and the sqlite store are the real ones",
    "interleaving granularity: API calls are atomic, the refresh loop is interleaved between getSubjectsToBeRefreshed and the loop body of "
    "each candidate (gate in ListDIDs); finer interleavings inside activate() and crashes in the middle of an API call are not explored",
    "SQL: sqlite, foreign keys on (discovery_presentation_error cascades from discovery_presentation_refresh)",
    "small scope: <= 2 services, 3 subjects, 5 DIDs, <= 3 API calls and <= 3 environment events per exhaustive run, clock <= 5 slots; "
    "random walks up to 26 steps",
    "liveness is proved on the model under weak fairness of the clock and of the refresh loop; on the code 'retried by the next round' is "
    "checked per round",
]


def subst(cfg, **repl):
    txt = open(os.path.join(vlib.SPEC, "cfg", cfg)).read()
    for k, v in repl.items():
        new, n = re.subn(r"^(\s*%s\s*=\s*).*$" % re.escape(k), lambda m: m.group(1) + v, txt, flags=re.M)
        if n != 1:
            raise Inconclusive("cannot substitute %s in %s" % (k, cfg))
        txt = new
    return txt


def only(txt, invariants=None, properties=None):
    """Restricts a cfg text to the given invariants / properties."""
    if invariants is not None:
        txt = re.sub(r"^INVARIANTS.*?(?=^PROPERTIES|^CHECK_DEADLOCK|^POSTCONDITION)", "INVARIANTS " + invariants + "\n", txt, flags=re.S | re.M)
    if properties is not None:
        txt = re.sub(r"^PROPERTIES.*$", ("PROPERTIES " + properties) if properties else "", txt, flags=re.M)
    return txt


# ------------------------------------------------------------------------------------------ behaviours

def A(svc, s, p="p1", res=""):
    return dict(a="Activate", svc=svc, s=s, p=p, res=res)


def D(svc, s, res=""):
    return dict(a="Deactivate", svc=svc, s=s, res=res)


def R1(svc, s, res=""):
    return dict(a="RefreshOne", svc=svc, s=s, res=res)


RS, RY, ADV, REG, GET, RST = (dict(a="RefreshStart"), dict(a="RefreshSync"), dict(a="Advance"), dict(a="ToggleReg"),
                               dict(a="ToggleGet"), dict(a="Restart"))
ROUND0 = [RS, RY]


def REF(d):
    return dict(a="Refuse", d=d)


def WAL(d):
    return dict(a="WalletFlip", d=d)


def directed_scripts():
    """Hand-written behaviours of DiscoveryClient.tla (every real trace is validated by TLC against the specification, so
    a script that is not a behaviour shows up as a rejected trace)."""
    sc = {
        "life": [A("a", "s1", res="ok")] + ROUND0 + [ADV, RS, R1("a", "s1", "ok"), RY, RST, D("a", "s1", "ok")] + ROUND0 + [ADV] + ROUND0,
        "race-deactivate": [A("a", "s1"), ADV, RS, D("a", "s1"), R1("a", "s1"), RY, ADV, RS, R1("a", "s1"), RY],
        "race-deactivate-two": [A("a", "s1"), A("a", "s2"), ADV, RS, D("a", "s1"), D("a", "s2"), R1("a", "s1"), R1("a", "s2"), RY],
        "race-parameters": [A("a", "s1", "p1"), ADV, RS, A("a", "s1", "p2"), R1("a", "s1"), RY, ADV, RS, R1("a", "s1"), RY],
        "race-error": [A("a", "s2"), ADV, RS, A("a", "s2"), REG, R1("a", "s2"), RY, REG, RS, RY, ADV, RS, R1("a", "s2"), RY],
        "race-deactivate-down": [A("a", "s2"), ADV, RS, D("a", "s2"), REG, R1("a", "s2"), RY],
        "orphan-unsynced": [GET, A("a", "s1"), D("a", "s1")],
        "orphan-expired-copy": [A("a", "s1"), ADV, GET, RS, R1("a", "s1"), RY, ADV, D("a", "s1")],
        "stale-copy": [A("a", "s1"), ADV, GET, RS, R1("a", "s1"), RY, D("a", "s1", "incomplete")],
        "partial-lapse": [A("b", "s1")] + ROUND0 + [REF("d2"), ADV] + ROUND0 + [ADV, RS, R1("b", "s1", "partial"), RY, REF("d2"), ADV] + ROUND0
                         + [ADV, RS, R1("b", "s1"), RY],
        "full-failure-no-lapse": [A("b", "s1")] + ROUND0 + [REG, ADV] + ROUND0 + [ADV, RS, R1("b", "s1", "failed"), RY, REG, ADV, RS, R1("b", "s1", "ok"), RY,
                                  ADV] + ROUND0,
        "retry": [A("a", "s2"), REG, ADV, RS, R1("a", "s2", "failed"), RY, RS, R1("a", "s2", "failed"), RY, REG, RST, RS, R1("a", "s2", "ok"), RY],
        "retry-after-time": [A("a", "s2"), REG, ADV, RS, R1("a", "s2", "failed"), RY, ADV, REG, RS, R1("a", "s2", "ok"), RY],
        "nomethod": [A("a", "s3", res="nomethod"), A("b", "s3", res="ok"), dict(a="KillDID", d="k4"), ADV, ADV, RS, R1("b", "s3", "nomethod"), RY,
                     D("b", "s3")],
        "notfound": [A("a", "s2"), dict(a="RemoveSubject", s="s2"), ADV, RS, R1("a", "s2", "notfound"), RY, D("a", "s2", "notfound"),
                     A("a", "s2", res="notfound")],
        "wallet": [A("a", "s1"), WAL("d2"), ADV, RS, R1("a", "s1", "ok"), RY, WAL("d1"), ADV, RS, R1("a", "s1", "failed"), RY, WAL("d2"), RS,
                   R1("a", "s1", "ok"), RY],
        "no-credentials": [WAL("d3"), A("a", "s2", res="failed"), WAL("d3"), A("a", "s2", res="ok")],
        "first-did-refused": [REF("d1"), A("a", "s1", res="partial"), ADV, RS, R1("a", "s1", "partial"), RY, REF("d1"), REF("d2"), ADV, RS,
                              R1("a", "s1", "partial"), RY],
        "two-services": [A("a", "s2", "p1"), A("b", "s2", "p2"), D("a", "s2"), ADV, ADV, RS, R1("b", "s2", "ok"), RY, D("b", "s2")],
        "two-services-one-subject": [A("a", "s1", "p1"), A("b", "s1", "p2"), ADV, RS, R1("a", "s1"), RY, ADV, RS, R1("a", "s1"), R1("b", "s1"), RY, D("b", "s1")],
        "restart": [A("a", "s1"), RST, ADV, RST, RS, R1("a", "s1", "ok"), RY, REG, ADV, RS, R1("a", "s1", "failed"), RY, RST, REG, RS, R1("a", "s1", "ok"), RY],
        "deactivate-down": [A("a", "s1"), REG, D("a", "s1", "incomplete"), REG, ADV] + ROUND0 + [A("a", "s1"), D("a", "s1", "ok")],
        "dead-did": [A("a", "s1"), dict(a="KillDID", d="d1"), ADV, RS, R1("a", "s1", "ok"), RY, D("a", "s1")],
        "reactivate": [A("a", "s1", "p1"), D("a", "s1"), A("a", "s1", "p2"), ADV, RS, R1("a", "s1", "ok"), RY],
        "expiry": [A("a", "s2"), REG, ADV, RS, R1("a", "s2", "failed"), RY, ADV, RS, R1("a", "s2", "failed"), RY, D("a", "s2"), REG, A("a", "s2")],
    }
    out = []
    for name, steps in sc.items():
        out.append(dict(id="d-" + name, steps=steps))
        if name in ("first-did-refused", "life", "race-deactivate", "partial-lapse", "wallet"):
            out.append(dict(id="d-" + name + "-desc", steps=steps, order="desc"))
    return out


def features(b):
    """What a behaviour exercises: used to pick a diverse subset."""
    f = set()
    running, due_api = False, set()
    for s in b:
        a = s["a"]
        if a in ("Activate", "Deactivate"):
            f.add((a, s.get("res", "")))
            if running:
                f.add(("mid", a, s.get("res", "")))
                due_api.add((s["svc"], s["s"], a))
        elif a == "RefreshStart":
            running = True
            due_api = set()
        elif a == "RefreshOne":
            f.add((a, s.get("res", "")))
            for (svc, sub, what) in due_api:
                if svc == s["svc"] and sub == s["s"]:
                    f.add(("raced", what, s.get("res", "")))
        elif a == "RefreshSync":
            running = False
        else:
            f.add((a, s.get("d", s.get("s", ""))))
    return f


def pick(behaviours, n, rnd):
    """Greedy cover over feature buckets, shortest first within a bucket."""
    by = {}
    for i, b in enumerate(behaviours):
        by.setdefault(frozenset(features(b)), []).append(i)
    keys = sorted(by, key=lambda k: sorted(map(str, k)))
    rnd.shuffle(keys)
    for k in keys:
        rnd.shuffle(by[k])
        by[k].sort(key=lambda i: -len(behaviours[i]))   # pop() takes the shortest
    out = []
    while len(out) < n and keys:
        for k in list(keys):
            if by[k]:
                out.append(behaviours[by[k].pop()])
                if len(out) >= n:
                    break
            else:
                keys.remove(k)
    return out, len(by)


def generate(quick, seed, rnd):
    n_exh, n_lapse, n_sim = (100, 12, 300) if quick else (700, 50, 2000)
    jobs = [("gen", "DiscoveryClient.gen.quick.cfg" if quick else "DiscoveryClient.gen.cfg", dict(workers=4)),
            ("lapse", "DiscoveryClient.gen.timing.cfg", dict(workers=2)),
            ("sim", "DiscoveryClient.sim.cfg", dict(workers=1, simulate="num=%d" % n_sim, depth=27, seed=seed))]
    if not quick:
        jobs.append(("gen2", "DiscoveryClient.gen2.cfg", dict(workers=4)))
    def one(job):
        name, cfg, kw = job
        r = vlib.tlc(MC, cfg, timeout=1500, **kw)
        if r.error or (r.violation and name != "sim"):
            raise Inconclusive("generation run %s failed: %s %s\n%s" % (cfg, r.violation, r.error, r.raw[-1500:]))
        return name, cfg, r
    with ThreadPoolExecutor(max_workers=4) as ex:
        res = {name: (cfg, r) for name, cfg, r in ex.map(one, jobs)}
    stats, scripts = {}, []
    def add(prefix, bs):
        for i, b in enumerate(bs):
            scripts.append(dict(id="%s%05d" % (prefix, i), steps=b, order="desc" if i % 4 == 3 else "asc"))
    # gen2 explores two subjects with ONE DID each (a sub-world of the harness' world, where s1 has two DIDs): the expected
    # outcomes of the model do not carry over, only the schedule does
    wit2 = [[{k: v for k, v in st.items() if k != "res"} for st in b] for b in (res["gen2"][1].printed if "gen2" in res else [])]
    wit = list(res["gen"][1].printed) + wit2
    wit.sort(key=lambda b: json.dumps(b, sort_keys=True))
    chosen, nb = pick(wit, n_exh, rnd)
    add("w", chosen)
    lap = sorted(res["lapse"][1].printed, key=lambda b: (len(b), json.dumps(b, sort_keys=True)))
    chosen_l, nbl = pick(lap, n_lapse, rnd)
    add("l", chosen_l)
    sim = vlib.dedupe_maximal(res["sim"][1].printed)
    sim.sort(key=lambda b: json.dumps(b, sort_keys=True))
    add("s", sim)
    stats = dict(witness_behaviours_available=len(wit), witness_feature_buckets=nb, witnesses_replayed=len(chosen),
                 lapse_witnesses_available=len(lap), lapse_witnesses_replayed=len(chosen_l), simulated_behaviours=len(sim))
    models = [dict(cfg=cfg, states=r.distinct, transitions=r.generated, wall_s=round(r.wall, 1), role="behaviour generation (descriptive model)")
              for name, (cfg, r) in sorted(res.items())]
    return scripts, stats, models


# ------------------------------------------------------------------------------------------ TLC checks

def run_tlc_checks(quick, coverage):
    tier = "quick" if quick else "thorough"
    jobs = [("safety", "DiscoveryClient.safety.%s.cfg" % tier, 3 if quick else 6),
            ("safety2", "DiscoveryClient.safety2.%s.cfg" % tier, 1 if quick else 4),
            ("timing", "DiscoveryClient.timing.%s.cfg" % tier, 2 if quick else 4),
            ("live", "DiscoveryClient.live.%s.cfg" % tier, 2 if quick else 3),
            ("desc", "DiscoveryClient.desc.%s.cfg" % tier, 2 if quick else 4),
            ("live.desc", "DiscoveryClient.live.desc.cfg", 2)]
    def one(job):
        name, cfg, workers = job
        r = vlib.tlc(MC, cfg, workers=workers, timeout=2400, coverage=coverage and name in ("safety", "safety2"))
        if not r.ok:
            raise Inconclusive("model %s: violation=%s error=%s\n%s" % (cfg, r.violation, r.error, r.raw[-2500:]))
        return name, cfg, r
    with ThreadPoolExecutor(max_workers=3 if quick else 2) as ex:
        return {name: (cfg, r) for name, cfg, r in ex.map(one, jobs)}


def vacuity(models):
    """Every property can fail: switching one design decision off (or leaving a deviation as implemented) must make TLC
    report exactly that property."""
    base = "DiscoveryClient.safety.quick.cfg"
    cases = [
        ("NoRegistrationAfterDeactivate|StaysDeactivated", dict(RefreshRechecks="FALSE"), None, "the refresh loop working on stale candidates (code as it is)"),
        ("ParametersRespected", dict(RefreshRechecks="FALSE", Params='{"p1", "p2"}'), "TypeOK ParametersRespected", "stale candidate parameters (code as it is)"),
        ("FailureRetried", dict(RefreshRechecks="FALSE"), "TypeOK FailureRetried", "an error recorded by a stale candidate (code as it is)"),
        ("NoSilentOrphan", dict(DeactivateSyncsFirst="FALSE"), "TypeOK NoSilentOrphan", "deactivate trusting the local copy (code as it is)"),
        ("PartialVisible", dict(PartialIsFailure="FALSE"), "TypeOK PartialVisible", "a partial failure that is only logged (code as it is)"),
        ("FailureVisible", dict(ErrorOnFailure="FALSE"), "TypeOK FailureVisible", "refresh not recording the error"),
        ("FailureRetried", dict(KeepDueOnFailure="FALSE"), "TypeOK FailureRetried", "a failed refresh that is rescheduled like a successful one"),
        ("StaysDeactivated", dict(DeleteRecordOnDeactivate="FALSE"), "TypeOK StaysDeactivated", "deactivate keeping the refresh record"),
        ("OnlyOwnMatchingCredentials", dict(PresentOnlyMatching="FALSE"), "TypeOK OnlyOwnMatchingCredentials", "presenting the whole wallet"),
        ("OnlyOwnMatchingCredentials", dict(WalletPerDID="FALSE"), "TypeOK OnlyOwnMatchingCredentials", "listing the wallets of all DIDs of the subject"),
        ("AllEligibleAttempted", dict(ContinueAfterFailure="FALSE"), "TypeOK AllEligibleAttempted", "the loop over the DIDs stopping at the first failure"),
        ("RefreshBeforeExpiry", dict(RefreshFactorPct="145"), "TypeOK RefreshBeforeExpiry", "refreshing after 1.45 x the validity"),
    ]
    def one(case):
        want, repl, inv, why = case
        txt = subst(base, **repl)
        if inv:
            txt = only(txt, inv, "")
        r = vlib.tlc(MC, base, workers=2, timeout=900, files={"run.cfg": txt})
        if r.violation not in want.split("|"):
            raise Inconclusive("vacuity guard: with %s TLC should violate %s, got violation=%s error=%s" % (why, want, r.violation, r.error))
        return dict(expect_violated=want, variant=repl, got=r.violation)
    with ThreadPoolExecutor(max_workers=4) as ex:
        res = list(ex.map(one, cases))
    # timing: the schedule of the code loses a registration after ONE failed renewal when only some DIDs failed
    r = vlib.tlc(MC, "DiscoveryClient.timing.quick.cfg", workers=2, timeout=900,
                 files={"run.cfg": subst("DiscoveryClient.timing.quick.cfg", PartialIsFailure="FALSE")})
    if r.violation != "NoLapse":
        raise Inconclusive("vacuity guard: NoLapse should fail for the schedule of the code: %s %s" % (r.violation, r.error))
    res.append(dict(expect_violated="NoLapse", variant=dict(PartialIsFailure="FALSE"), got=r.violation))
    # liveness: a loop that never comes back to a failed subject within the horizon
    r = vlib.tlc(MC, "DiscoveryClient.live.quick.cfg", workers=2, timeout=900,
                 files={"run.cfg": subst("DiscoveryClient.live.quick.cfg", KeepDueOnFailure="FALSE", RefreshFactorPct="300")})
    if not (r.violation or "Temporal" in (r.error or "")):
        raise Inconclusive("vacuity guard: RetryClearsError should fail when a failed refresh is pushed beyond the horizon: %s %s" % (r.violation, r.error))
    res.append(dict(expect_violated="RetryClearsError", variant=dict(KeepDueOnFailure="FALSE", RefreshFactorPct="300"), got="temporal"))
    models.append(dict(vacuity_guards=res))


# ------------------------------------------------------------------------------------------ verdicts

def judge(rep, prop, results, scripts, common):
    ninc = 0
    stats = dict(checks=0, sent=0, accepted=0, retractions=0, rounds=0, mid_loop_api_calls=0, drift=0, timely=0, blocked=0)
    for r in results:
        for k in ("checks", "sent", "accepted", "retractions", "rounds", "mid_loop_api_calls"):
            stats[k] += r.get(k, 0)
        stats["timely"] += 1 if r.get("timely") else 0
        stats["blocked"] += 1 if r.get("blocked") else 0
        stats["drift"] += len(r.get("drift") or [])
        sc = scripts.get(r["id"])
        if r.get("error"):
            ninc += 1
            rep.inconclusive.append("script %s: %s" % (r["id"], r["error"]))
        for d in [x for x in (r.get("drift") or []) if ": order: " not in x][:1]:
            if len(rep.notes) < 6:
                rep.notes.append(("NOTE: %s" % d[:300]) if r["id"] == "probes" else "DRIFT: script %s %s" % (r["id"], d[:300]))
        for v in r["violations"]:
            if v["prop"] != prop:
                continue
            rep.violation(dict(kind=v["kind"], site=v["site"]),
                          dict(property=prop, violation=v, input=dict(common, scripts=[sc] if sc else [], probes=r["id"] == "probes")))
    return ninc, stats


def selftest_scripts():
    return [dict(id="selftest-0", steps=[A("a", "s1"), D("a", "s1")]),
            dict(id="selftest-1", steps=[A("a", "s2"), ADV, RS, R1("a", "s2"), RY, D("a", "s2")])]


def run(prop, tier, seed, replay=None):
    t0 = time.time()
    rep = Report(prop)
    binary = vlib.build_driver("discoveryclient")
    if replay:
        obj = json.load(open(replay))
        res = vlib.run_driver(binary, obj["input"])
        for r in res:
            print(json.dumps({k: v for k, v in r.items() if k != "trace"})[:3000])
            for v in r["violations"]:
                if v["prop"] == prop:
                    rep.violation(dict(kind=v["kind"], site=v["site"]), obj)
            if r.get("error"):
                rep.inconclusive.append(r["error"])
        return rep.finish()

    quick = tier == "quick"
    rnd = random.Random(seed)
    common = dict(workers=4)
    phases = {}

    # 1. behaviours of the DESCRIPTIVE model (exhaustive witnesses, lapse schedules, random walks) + directed ones
    gen_scripts, gstats, models = generate(quick, seed, rnd)
    phases["generate"] = round(time.time() - t0, 1)
    scripts = {s["id"]: s for s in directed_scripts() + gen_scripts}
    order = sorted(scripts.values(), key=lambda s: (-len(s["steps"]), s["id"]))

    # 2. in parallel: TLC proves the prescriptive design (and the properties the code has on the descriptive one);
    #    the behaviours run on the real code
    with ThreadPoolExecutor(max_workers=3) as ex:
        f_models = ex.submit(run_tlc_checks, quick, not quick)
        f_drv = ex.submit(vlib.run_driver_parallel, binary, dict(common, scripts=order), "scripts", 6, timeout=1500)
        f_probe = ex.submit(vlib.run_driver, binary, dict(common, scripts=[], probes=True), 300)
        t1 = time.time()
        results = f_drv.result()
        probe = f_probe.result()
        phases["driver"] = round(time.time() - t1, 1)
        checks = f_models.result()
        phases["driver+models"] = round(time.time() - t1, 1)
    states = transitions = 0
    cover = {}
    for name, (cfg, r) in sorted(checks.items()):
        states += r.distinct
        transitions += r.generated
        m = dict(cfg=cfg, states=r.distinct, transitions=r.generated, depth=r.depth, wall_s=round(r.wall, 1))
        if name.startswith("live"):
            m["property"] = "RetryClearsError under FairSpec"
        models.append(m)
        for mm in re.finditer(r"^<(\w+) line [^>]*>: (\d+):(\d+)", r.raw, re.M):
            cover[mm.group(1)] = max(cover.get(mm.group(1), 0), int(mm.group(3)))
    if not quick:
        want = ("Activate", "Deactivate", "RefreshStart", "RefreshAny", "RefreshSync", "Restart", "Advance", "ToggleReg", "ToggleGet",
                "Refuse", "WalletFlip", "KillDID", "RemoveSubject")
        missing = [a for a in want if not cover.get(a)]
        if missing:
            raise Inconclusive("vacuity: actions never fire in the exhaustive runs: %s" % missing)
        vacuity(models)

    # 3. self-test of the oracle binding: an ADAPTER that swallows retractions must be caught
    t3 = time.time()
    st = vlib.run_driver(binary, dict(common, scripts=selftest_scripts(), sabotage="drop-retraction"), timeout=300)
    caught = [r["id"] for r in st if any(v["kind"] == "deactivate-ok-but-still-listed" and v["site"] == "other" for v in r["violations"])]
    selftest_ok = bool(st) and len(caught) == len(st)
    phases["vacuity+selftest"] = round(time.time() - t3, 1)

    # 4. verdicts from the real observables
    ninc, stats = judge(rep, prop, results + probe, scripts, common)
    if len(results) != len(scripts):
        rep.inconclusive.append("%d of %d scripts produced no result" % (len(scripts) - len(results), len(scripts)))
    elif not probe:
        rep.inconclusive.append("the probes produced no result")
    elif ninc <= max(2, len(results) // 50):
        rep.inconclusive = []      # a few scripts without a verdict (scheduling hiccups) do not spoil the run
    if stats["blocked"]:
        rep.notes.append("NOTE: in %d behaviours an API call did not return within 4 s while the refresh round was stopped before a candidate and "
                         "returned once the round went on: this implementation seems to serialise API calls and the loop body (the interleavings of "
                         "RefreshRechecks = FALSE do not exist in it); those behaviours were cut short" % stats["blocked"])
    if not selftest_ok:
        rep.inconclusive.append("oracle self-test failed: an adapter that swallows retractions was not reported: %s"
                                % json.dumps([{k: v for k, v in r.items() if k != "trace"} for r in st])[:800])

    # 5. every recorded real trace is validated by TLC against the specification
    t2 = time.time()
    good = [r for r in results if r.get("trace") and not r.get("error")]
    traces = [r["trace"] for r in good]
    # a probe first (every rejected trace costs extra TLC runs): are the executions behaviours of the configured
    # (descriptive) variant, or of the specification with some deviation repaired?
    nprobe = min(len(traces), 40)
    tcfg, note, scratch_dirs = "DiscoveryClient.trace.cfg", None, []
    acc, rej = vlib.validate_traces("TraceDiscoveryClient", tcfg, traces[:nprobe], timeout=1500)
    if len(rej) > nprobe // 4:
        best = None
        devs = ("RefreshRechecks", "PartialIsFailure", "DeactivateSyncsFirst")
        for mask in range(1, 8):
            alt = {d: "TRUE" for i, d in enumerate(devs) if mask & (1 << i)}
            d = vlib.scratch("x05cfg")
            scratch_dirs.append(d)
            path = os.path.join(d, "DiscoveryClient.trace.cfg")
            with open(path, "w") as fh:
                fh.write(subst("DiscoveryClient.trace.cfg", **alt))
            a2, r2 = vlib.validate_traces("TraceDiscoveryClient", path, traces[:nprobe], timeout=1500)
            if best is None or len(r2) < len(best[2]):
                best = (alt, a2, r2, path)
        if best and len(best[2]) <= nprobe // 4:
            note = ("NOTE: the recorded traces are behaviours of the specification with %s (not of the configured descriptive variant): a deviation "
                    "has been repaired in the code, switch the constant in spec/cfg/DiscoveryClient.{gen*,sim,trace,desc*,live.desc}.cfg"
                    % json.dumps(best[0], sort_keys=True))
            rep.notes.append(note)
            acc, rej, tcfg = best[1], best[2], best[3]
    if len(rej) <= nprobe // 4:
        a2, r2 = vlib.validate_traces("TraceDiscoveryClient", tcfg, traces[nprobe:], timeout=1500)
        for x in r2:
            x["index"] += nprobe
        acc, rej = acc + a2, rej + r2
    else:
        rep.notes.append("DRIFT: %d of the first %d recorded traces are not behaviours of the specification (in any variant); the remaining %d were "
                         "not validated" % (len(rej), nprobe, len(traces) - nprobe))
        if not rep.violations:
            rep.inconclusive.append("recorded traces are not behaviours of the specification (spec/code drift)")
    for d in scratch_dirs:
        shutil.rmtree(d, ignore_errors=True)
    phases["trace_validation"] = round(time.time() - t2, 1)
    dbg = os.environ.get("VERIF_X05_DEBUG")
    if dbg:
        os.makedirs(dbg, exist_ok=True)
        for x in rej:
            r = good[x["index"]]
            json.dump(dict(script=scripts[r["id"]], result=r, rejected=x), open(os.path.join(dbg, r["id"] + ".json"), "w"), indent=1)
    for x in rej[:5]:
        rep.notes.append("%s: trace of %s rejected at event %s (%s)" % ("TRACE-VIOLATION" if x["kind"].startswith("invariant:") else "DRIFT",
                                                                        good[x["index"]]["id"], json.dumps(x["event"])[:300], x["kind"]))
    for x in rej:
        if x["kind"].startswith("invariant:"):
            sc = scripts[good[x["index"]]["id"]]
            rep.violation(dict(kind="trace-" + x["kind"], site="trace"), dict(property=prop, rejected=x, input=dict(common, scripts=[sc])))
    if len(rej) > max(3, len(traces) // 10) and not rep.violations and not note:
        rep.inconclusive.append("%d of %d recorded traces are not behaviours of the specification (spec/code drift)" % (len(rej), len(traces)))

    samples = []
    for want in ("d-race-deactivate", "d-partial-lapse"):
        for r in good:
            if r["id"] == want:
                samples.append(dict(script=scripts[want]["steps"], real_trace=r["trace"][:14],
                                    violations=[(v["kind"], v["site"]) for v in r["violations"]]))
    probe_rows = [p for r in probe for p in (r.get("probe") or [])]
    cov = dict(states=states, transitions=transitions,
               traces_validated_against_impl=acc + len(rej), traces_accepted=acc, traces_rejected=len(rej),
               samples=samples or [order[0]["steps"]],
               models=models, behaviours_replayed_on_real_code=len(results), directed_behaviours=len(directed_scripts()),
               oracle_evaluations=stats["checks"], presentations_sent=stats["sent"], presentations_accepted=stats["accepted"],
               retractions_sent=stats["retractions"], refresh_rounds=stats["rounds"], api_calls_while_a_round_was_running=stats["mid_loop_api_calls"],
               behaviours_with_a_round_in_every_slot=stats["timely"], behaviours_cut_short_because_an_api_call_blocked=stats["blocked"], drift_notes=stats["drift"], inconclusive_scripts=ninc,
               timing_formula_probe=probe_rows, oracle_selftest_scripts_caught=len(caught),
               known_findings_reproduced=sorted(rep.known), phases_s=phases, action_coverage=cover, exhaustive=False,
               rule="TLC exhausts the PRESCRIPTIVE DiscoveryClient model (invariants RefreshBeforeExpiry, FailureVisible, FailureRetried, PartialVisible, "
                    "NoStaleError, ErrorOnlyIfActivated, StaysDeactivated, NoRegistrationAfterDeactivate, NoSilentOrphan, OnlyOwnMatchingCredentials, "
                    "ParametersRespected, AllEligibleAttempted; action properties RetractionSent, RecordsIndependent; NoLapse under one round per "
                    "clock slot; liveness RetryClearsError under FairSpec) and the properties the code has on the DESCRIPTIVE model; behaviours of "
                    "the descriptive model (one witness per distinct state violating a property the code lacks, lapse schedules, random walks, "
                    "directed ones) are replayed step by step on the real discovery.Module client/server pair with the refresh loop stopped before "
                    "every candidate; the statement is evaluated after every step on the presentations handed to the HTTP client, the sqlite rows, "
                    "GetServiceActivation and the two lists; every recorded real trace is validated by TLC against TraceDiscoveryClient.tla",
               **gstats)
    vlib.write_evidence(prop, tier, seed, "model_checking", cov, time.time() - t0, len(rep.violations), ASSUMPTIONS)
    return rep.finish()
