"""C19: Robust.tla <-> every parsing / validation entry point that faces untrusted input (harness/drivers/robust).

TLC enumerates (entry point x mutation operator x position class); the Go driver concretises every case at every member of
valid instances and runs it on the REAL entry point under recover() + deadline + state digest; the recorded call/reply traces
are validated by TLC against TraceRobust.tla (a lost reply = panic/hang violates Totality, reject with changed digest violates
RejectUnchanged).

Entry points behind the DAG (payload.*): the payload of an accepted transaction is handed to the node's REAL subscribers
(VCR ambassador for application/vc+json and application/ld+json;type=revocation, VDR ambassador for application/did+json)
through real dag notifiers with the subscribers' own selection filters; JSON-LD payloads are delivered with the stale proof
of the unmutated document and with a proof renewed over the mutated content (.resealed); an input such a subscriber refuses
is delivered once more (action Redeliver of Robust.tla: retry / start-up replay / reprocess)."""
import json, os, re, resource, shutil, subprocess, time
from concurrent.futures import ThreadPoolExecutor
from .. import vlib
from ..vlib import Report, Inconclusive

PROPS = ["C19"]
DRIVER = "robust"


def _cases(tier):
    g = vlib.tlc("MCRobust", "Robust.gen.cfg", workers=8, timeout=600)
    if not g.ok:
        raise Inconclusive("TLC case enumeration failed: %s %s\n%s" % (g.violation, g.error, g.raw[-1500:]))
    cases = []
    for b in g.printed:
        if len(b) != 1 or b[0].get("a") != "Call":
            continue
        c = b[0]
        cases.append(dict(id="%s|%s|%s" % (c["ep"], c["op"], c["pos"]), ep=c["ep"], op=c["op"], pos=c["pos"]))
    cases.sort(key=lambda c: c["id"])
    if len(cases) < 100:
        raise Inconclusive("TLC enumerated only %d cases" % len(cases))
    return g, cases


def _model(cfg, expect_violation=None, coverage=False):
    m = vlib.tlc("MCRobust", cfg, workers=8, timeout=900, coverage=coverage)
    if m.error:
        raise Inconclusive("TLC %s: %s\n%s" % (cfg, m.error, m.raw[-1500:]))
    if expect_violation:
        if m.violation != expect_violation:
            raise Inconclusive("vacuity guard: %s should violate %s but TLC reports %s" % (cfg, expect_violation, m.violation))
    elif m.violation:
        raise Inconclusive("model %s violates %s:\n%s" % (cfg, m.violation, m.raw[-2000:]))
    return dict(cfg=cfg, states=m.distinct, transitions=m.generated, depth=m.depth, wall_s=round(m.wall, 1),
                expected_violation=expect_violation, coverage=m.coverage)


def _sig(f):
    return dict(kind=f["kind"], entry=f["entry"], site=f["site"])


def _replay_obj(f):
    return dict(property="C19", signature=_sig(f), value=f.get("value"), stack=f.get("stack"),
                replay=dict(ep=f["entry"], input_b64=f["input_b64"], ctx=f.get("ctx"), desc=f.get("desc")))


# relative cost hints (measured ms per entry point in the quick tier); unknown entry points get the default
_WEIGHT = {"pe.PresentationDefinition": 6000, "revocation.StatusList2021": 9800, "discovery.Register": 7500, "pe.PresentationSubmission": 5900,
           "v2.TransactionSet": 3800, "v2.TransactionList": 3800, "iam.JAR": 2900, "didjwk.Resolve": 1700, "verifier.VerifyVP.jwt": 1500,
           "revocation.expand": 1800, "didkey.Resolve": 1500,
           "payload.did.create": 6000, "payload.did.update": 6000, "payload.vc": 4000, "payload.vc.resealed": 5000,
           "payload.revocation": 2500, "payload.revocation.resealed": 3000}
_NODE = ("verifier.", "discovery.", "iam.", "revocation.StatusList2021", "v2.", "payload.")


def _shard(cases, n):
    """Greedy balancing. Entry points that need a whole node / a DAG stay together (one start per shard); the cases of the pure
    entry points may be spread. Cases that are expected to hit the deadline get a shard of their own weight."""
    groups = {}
    for c in cases:
        key = c["ep"] if c["ep"].startswith(_NODE) else c["ep"] + "|" + c["op"]
        groups.setdefault(key, []).append(c)
    def weight(key, cs):
        ep = cs[0]["ep"]
        w = _WEIGHT.get(ep, 800) * len(cs) / 40.0
        if ep == "pe.PresentationDefinition" and cs[0]["op"] == "unusual":
            w += 12000   # the catastrophic regular expressions run into the 5 s deadline
        return w
    shards = [[0.0, []] for _ in range(n)]
    for key in sorted(groups, key=lambda k: -weight(k, groups[k])):
        s = min(shards, key=lambda x: x[0])
        s[0] += weight(key, groups[key])
        s[1].extend(groups[key])
    return [s[1] for s in shards if s[1]]


# ------------------------------------------------------------------ a driver process that may be killed by what it tests

_REPO_PREFIX = "github.com/nuts-foundation/nuts-node/"
MEM_LIMIT_MB = 6144          # the driver's own watchdog (Go heap + stacks)
AS_LIMIT = 64 << 30          # address space limit of the driver process: an absurd allocation fails at once
RSS_LIMIT = 10 << 30         # watchdog of last resort on the resident set of the driver process


def _site_of_fatal(text):
    """Top repository frame of the goroutine that was running when the Go runtime gave up (fatal error / unrecovered panic)."""
    m = re.search(r"^goroutine \d+ \[running[^\]]*\]:\n((?:.+\n)+)", text, re.M)
    block = m.group(1) if m else text
    other = None
    for line in block.splitlines():
        if line.startswith(("\t", "goroutine ", "created by")) or not line.strip():
            continue
        fn = re.sub(r"\[[^\]]*\]", "", line[:line.rfind("(")] if "(" in line else line)
        if fn.startswith(("runtime.", "runtime/", "panic(", "verifharness/")) or re.search(r"\.Verif[A-Z]", fn):
            continue
        if fn.startswith(_REPO_PREFIX):
            return fn[len(_REPO_PREFIX):]
        other = other or fn
    return other or "unknown"


def _run_once(binary, inp, timeout):
    """Runs one driver process. Returns (results written, status) where status is None when the process ended normally, else
    dict(how=..., cur=<call in flight or None>, site=..., tail=...)."""
    work = vlib.scratch("drv")
    try:
        ip, op = os.path.join(work, "in.json"), os.path.join(work, "out.ndjson")
        with open(ip, "w") as fh:
            json.dump(dict(inp, mem_limit_mb=MEM_LIMIT_MB), fh)
        e = vlib.go_env()
        e.update({"VERIF_IN": ip, "VERIF_OUT": op, "TMPDIR": work})
        logp = os.path.join(work, "log.txt")

        def limits():
            try:
                resource.setrlimit(resource.RLIMIT_AS, (AS_LIMIT, AS_LIMIT))
            except Exception:
                pass
        how = None
        with open(logp, "w") as logf:
            p = subprocess.Popen([binary, "-test.run", "^TestDriver$", "-test.timeout", "%ds" % (timeout + 60), "-test.count=1"],
                                 cwd=work, env=e, stdout=logf, stderr=subprocess.STDOUT, preexec_fn=limits)
            t0 = time.time()
            while p.poll() is None:
                time.sleep(0.25)
                if time.time() - t0 > timeout:
                    p.kill()
                    how = "no result within %d s (process killed by the check)" % timeout
                    break
                try:
                    rss = int(open("/proc/%d/statm" % p.pid).read().split()[1]) * os.sysconf("SC_PAGE_SIZE")
                    if rss > RSS_LIMIT:
                        p.kill()
                        how = "resident set of the driver grew to %d MB (process killed by the check)" % (rss >> 20)
                        break
                except (OSError, ValueError, IndexError):
                    pass
            p.wait()
        results = []
        if os.path.exists(op):
            for line in open(op):
                line = line.strip()
                if line:
                    try:
                        results.append(json.loads(line))
                    except ValueError:
                        pass
        if p.returncode == 0 and how is None:
            return results, None
        tail = open(logp, errors="replace").read()
        cur = None
        if os.path.exists(op + ".cur"):
            try:
                cur = json.load(open(op + ".cur"))
            except ValueError:
                cur = None
        if how is None:
            m = re.search(r"^(fatal error: .*|panic: .*|VERIF-MEMORY-WATCHDOG: .*|signal: .*)$", tail, re.M)
            how = (m.group(1) if m else "driver process ended with exit code %s" % p.returncode)[:300]
        site = (cur or {}).get("site") or _site_of_fatal(tail)
        m = re.search(r"^((?:fatal error|panic): .*\n(?:.*\n)*?goroutine \d+ \[running[^\]]*\]:\n(?:.+\n)+)", tail, re.M)
        return results, dict(how=how, cur=cur, site=site, tail=(m.group(1)[:5000] if m else tail[-6000:]), rc=p.returncode)
    finally:
        shutil.rmtree(work, ignore_errors=True)


def _alone(binary, cur, seed, timeout=120):
    """Re-runs ONE input alone in a fresh process. Returns a finding dict (kind panic/hang/process-killed/...) or None when
    the input is handled normally (the death did not reproduce)."""
    rp = dict(ep=cur["ep"], input_b64=cur["input_b64"], ctx=cur.get("ctx"), desc=cur.get("desc"))
    res, st = _run_once(binary, dict(seed=seed, level=0, scripts=[], replay=[rp], deadline_ms=5000), timeout)
    base = dict(entry=cur["ep"], desc=cur.get("desc", ""), input_b64=cur["input_b64"], ctx=cur.get("ctx"), call_id=cur.get("call_id", "alone"))
    if st is not None:
        if st["cur"] is None and not res:
            return dict(base, kind="harness", site="driver did not start", value=st["how"], stack=st["tail"][-3000:])
        kind = "hang" if st["how"].startswith("no result within") else "process-killed"
        return dict(base, kind=kind, site=st["site"], value=st["how"], stack=((st["cur"] or {}).get("stack") or st["tail"])[-5000:])
    for r in res:
        for f in r["findings"]:
            return dict(base, kind=f["kind"], site=f["site"], value=f.get("value"), stack=f.get("stack"))
    return None


def _run_cases(binary, cases, seed, level, random_n, max_per_case, shards=8, timeout=900):
    """Runs the cases in parallel driver processes. A process that dies (fatal error, memory, killed) is survived: what it had
    finished is kept, the call that was in flight is set aside (returned under deaths) and the rest is run again without it."""
    parts = _shard(cases, shards)

    def one(part):
        results, deaths, skip, pending = [], [], [], list(part)
        starts_failed = 0
        for attempt in range(12):
            inp = dict(seed=seed, level=level, scripts=pending, random=random_n, deadline_ms=5000, max_per_case=max_per_case, skip=skip)
            res, st = _run_once(binary, inp, timeout)
            results += res
            done = set(r["id"] for r in results)
            pending = [c for c in pending if c["id"] not in done]
            if st is None:
                break
            if st["cur"] is None:
                # died outside a call (e.g. the in-process node lost the race for a free TCP port): once more, then give up
                starts_failed += 1
                if starts_failed > 2:
                    raise Inconclusive("driver dies outside any call: %s\n%s" % (st["how"], st["tail"][-2500:]))
                continue
            deaths.append(st)
            skip.append(st["cur"]["call_id"])
            if not pending:
                break
        else:
            raise Inconclusive("driver process died %d times in one shard" % len(deaths))
        if pending:
            raise Inconclusive("driver left %d cases undone" % len(pending))
        return results, deaths
    with ThreadPoolExecutor(max_workers=len(parts)) as ex:
        outs = list(ex.map(one, parts))
    res = [r for o, _ in outs for r in o]
    res.sort(key=lambda r: r["id"])
    deaths = [d for _, ds in outs for d in ds]
    return res, deaths


def _split_trace(tr):
    """Returns (clean events, list of (call event) that never got a reply)."""
    lost, out = [], []
    i = 0
    while i < len(tr):
        e = tr[i]
        if e["ev"] == "call":
            if i + 1 < len(tr) and tr[i + 1]["ev"] == "reply" and tr[i + 1]["id"] == e["id"]:
                out += [e, tr[i + 1]]
                i += 2
                continue
            lost.append(e)
            i += 1
            continue
        out.append(e)
        i += 1
    return out, lost


def run(prop, tier, seed, replay=None):
    t0 = time.time()
    rep = Report(prop)
    binary = vlib.build_driver(DRIVER)

    if replay:
        obj = json.load(open(replay))
        res, st = _run_once(binary, dict(seed=seed, level=0, scripts=[], replay=[obj["replay"]], deadline_ms=5000), 180)
        if st is not None:
            # the input ends the process (or the process does not come back): that IS the observation
            rp = obj["replay"]
            if st["cur"] is None and not res:
                raise Inconclusive("driver did not start: %s\n%s" % (st["how"], st["tail"][-2000:]))
            kind = "hang" if st["how"].startswith("no result within") else "process-killed"
            f = dict(kind=kind, entry=rp["ep"], site=st["site"], value=st["how"], stack=((st["cur"] or {}).get("stack") or st["tail"])[-5000:],
                     input_b64=rp["input_b64"], ctx=rp.get("ctx"), desc=rp.get("desc"))
            print("  %s at %s: %s" % (kind, f["site"], f["value"]))
            print("  " + "\n  ".join(f["stack"].splitlines()[-40:]))
            rep.violation(_sig(f), _replay_obj(f))
        for r in res:
            print(json.dumps(dict(id=r["id"], ep=r["ep"], outcome=(r.get("sample") or {}).get("desc"), error=r.get("error")))[:1500])
            if r.get("error"):
                rep.inconclusive.append(r["error"])
            for f in r["findings"]:
                print("  %s at %s: %s" % (f["kind"], f["site"], (f.get("value") or "")[:300]))
                if f.get("stack"):
                    print("  " + "\n  ".join(f["stack"].splitlines()[:24]))
                rep.violation(_sig(f), _replay_obj(f))
        return rep.finish()

    quick = tier == "quick"
    models = []
    phases = {}
    def mark(name, t=[time.time()]):
        phases[name] = round(time.time() - t[0], 1)
        t[0] = time.time()
    mark("build")
    # 1. the specification: the prescriptive model satisfies the properties; the deviating variant violates them (vacuity guard)
    models.append(_model("Robust.quick.cfg" if quick else "Robust.thorough.cfg", coverage=not quick))
    models.append(_model("Robust.deviant.cfg", expect_violation="RejectLeavesStore"))
    if not quick:
        models.append(_model("Robust.live.cfg"))
        cov = models[0]["coverage"]
        for a in ("Call", "Accept", "Reject"):
            if not cov.get(a):
                raise Inconclusive("vacuity: action %s never fired in %s" % (a, models[0]["cfg"]))
    # 2. TLC enumerates the cases
    g, cases = _cases(tier)
    models.append(dict(cfg="Robust.gen.cfg", states=g.distinct, transitions=g.generated, wall_s=round(g.wall, 1), cases=len(cases)))
    mark("tlc")
    # 3. the real code
    level = 0 if quick else 1
    random_n = 150 if quick else 16000
    results, deaths = _run_cases(binary, cases, seed, level, random_n, 0 if not quick else 400, shards=10, timeout=240 if quick else 840)
    if len(results) != len(cases):
        raise Inconclusive("driver returned %d results for %d cases" % (len(results), len(cases)))

    mark("driver")
    evaluations = sum(r["calls"] for r in results)
    nontrivial = [r for r in results if r["calls"] > 0]
    vacuous = [r["id"] for r in results if r["calls"] == 0 and not r.get("error")]
    errors = [r for r in results if r.get("error")]
    for r in errors[:5]:
        rep.inconclusive.append("case %s: %s" % (r["id"], r["error"][:300]))

    # 4. verdicts from the real observables: panic / hang / reject with changed state
    by_sig, n_findings = {}, 0
    for r in results:
        for f in r["findings"]:
            n_findings += 1
            k = json.dumps(_sig(f), sort_keys=True)
            by_sig.setdefault(k, []).append((r, f))
    # an input that ended the driver process is re-run ALONE in a fresh process: reproduces => violation (process-killed, or the
    # panic / hang it turns out to be); does not reproduce => the death stays unexplained (inconclusive)
    killed = []
    for st in deaths:
        f = _alone(binary, st["cur"], seed)
        if f is None or f["kind"] == "harness":
            rep.inconclusive.append("a driver process died (%s) while running %s [%s] but the input alone is handled normally"
                                    % (st["how"], st["cur"]["ep"], st["cur"].get("desc", "")[:120]))
            continue
        n_findings += 1
        killed.append(f)
        r0 = dict(trace=[dict(ev="call", id=f["call_id"], ep=st["cur"]["ep"], op=st["cur"]["op"], pos=st["cur"]["pos"], pre="-",
                             re=f["call_id"].endswith("r"))])
        by_sig.setdefault(json.dumps(_sig(f), sort_keys=True), []).append((r0, f))
    # a missed deadline is confirmed by re-running the input alone (the machine may have been busy): still no reply => hang
    slow = 0
    for k in sorted(by_sig):
        r, f = by_sig[k][0]
        if f["kind"] != "hang" or any(f is g for g in killed):
            continue
        again = _alone(binary, dict(ep=f["entry"], input_b64=f["input_b64"], ctx=f.get("ctx"), desc=f.get("desc")), seed)
        if again is None or again["kind"] not in ("hang", "process-killed"):
            slow += len(by_sig[k])
            rep.notes.append("NOTE: %s missed the 5 s deadline under load but replied when re-run alone (%s); not counted as a hang"
                             % (f["entry"], f["desc"][:120]))
            del by_sig[k]
    for k in sorted(by_sig):
        r, f = by_sig[k][0]
        rep.violation(_sig(f), _replay_obj(f))
        if len(by_sig[k]) > 1:
            r2, f2 = by_sig[k][-1]
            rep.violation(_sig(f2), _replay_obj(f2))

    # 5. trace validation by TLC: (a) everything that replied must be a behaviour of Robust (one batch);
    #    (b) one representative trace per distinct finding signature must be REJECTED with the matching invariant
    clean, lost_total = [], 0
    for r in results:
        tr, lost = _split_trace(r["trace"])
        lost_total += len(lost)
        if tr:
            clean.append(tr)
    changed_ids = set(f["call_id"] for r in results for f in r["findings"] if f["kind"] == "state-changed")
    clean_ok = []
    for tr in clean:
        # (a redelivery is only a behaviour after its first delivery: both go when the first one is taken out)
        clean_ok.append([e for e in tr if e["id"] not in changed_ids and not (e["id"].endswith("r") and e["id"][:-1] in changed_ids)])
    nchunks = 6
    chunks = [clean_ok[i::nchunks] for i in range(nchunks)]
    chunks = [c for c in chunks if c]
    pool = ThreadPoolExecutor(max_workers=8)
    futs = [pool.submit(vlib.validate_traces, "TraceRobust", "Robust.trace.cfg", c, 900, 4000) for c in chunks]
    expected = {"panic": "invariant:Totality", "hang": "invariant:Totality", "process-killed": "invariant:Totality",
                "state-changed": "invariant:RejectUnchanged"}
    reps = []
    for k in sorted(by_sig):
        r, f = by_sig[k][0]
        ids = {f["call_id"]} | ({f["call_id"][:-1]} if f["call_id"].endswith("r") else set())   # a redelivery follows its first delivery
        evs = [e for e in r["trace"] if e["id"] in ids]
        reps.append((k, f, evs))

    def check(item):
        k, f, evs = item
        a, rj = vlib.validate_traces("TraceRobust", "Robust.trace.cfg", [evs], timeout=300)
        return k, f, a, rj
    # one representative per kind first, then further signatures up to 8 TLC runs (the check is the same for every lost call)
    seen_kind, first, rest = set(), [], []
    for it in reps:
        (first if it[1]["kind"] not in seen_kind else rest).append(it)
        seen_kind.add(it[1]["kind"])
    reps = (first + rest)[:8]
    rep_futs = [pool.submit(check, it) for it in reps]
    acc, rej = 0, []
    for ci, fu in enumerate(futs):
        a, rj = fu.result()
        acc += a
        for x in rj:
            x["index"] = x["index"] * nchunks + ci
        rej += rj
    for x in rej[:5]:
        if x["kind"].startswith("invariant:"):
            rep.violation(dict(kind="trace-" + x["kind"], entry=(x.get("event") or {}).get("ep", "?"), site="trace"),
                          dict(property=prop, rejected=x, trace=clean_ok[x["index"]][:50]))
        else:
            rep.notes.append("DRIFT: trace %d rejected at event %s (%s)" % (x["index"], json.dumps(x["event"])[:200], x["kind"]))
    if len(rej) > max(3, len(clean_ok) // 10):
        rep.inconclusive.append("%d of %d recorded traces are not behaviours of Robust.tla" % (len(rej), len(clean_ok)))

    confirmed = 0
    for k, f, a, rj in [fu.result() for fu in rep_futs]:
        want = expected.get(f["kind"])
        if a == 0 and rj and rj[0]["kind"] == want:
            confirmed += 1
        else:
            rep.inconclusive.append("binding: the trace of finding %s was not rejected with %s (got %s)" % (k, want, rj[:1] or "accepted"))
    pool.shutdown()

    mark("trace_validation")
    samples = []
    for r in nontrivial[:: max(1, len(nontrivial) // 12)][:12]:
        if r.get("sample"):
            samples.append(dict(case=r["id"], calls=r["calls"], accepted=r["accepted"], rejected=r["rejected"],
                                example=r["sample"]["desc"][:300], input_b64=r["sample"]["input_b64"][:400]))
    per_ep = {}
    for r in results:
        d = per_ep.setdefault(r["ep"], dict(cases=0, calls=0, accepted=0, rejected=0, findings=0))
        d["cases"] += 1 if r["calls"] else 0
        d["calls"] += r["calls"]
        d["accepted"] += r["accepted"]
        d["rejected"] += r["rejected"]
        d["findings"] += len(r["findings"])
    cov = dict(evaluations=evaluations, distinct_nontrivial=len(nontrivial),
               distinct_inputs=sum(r.get("distinct_inputs", 0) for r in results),
               rule="TLC enumerates every applicable (entry point, mutation operator, position class) case of Robust.tla (MCRobust.Applicable); "
                    "the Go concretiser applies the operator at EVERY member of that position class of every valid instance of the entry point "
                    "(plus hand written schema-valid-but-unusual inputs and seeded stacks of 2-4 random mutations for op=random) and runs the REAL "
                    "entry point under recover() + 5 s deadline + state digest; inputs of the payload.* entry points (subscribers of the DAG) "
                    "that are refused are delivered a second time (Redeliver). evaluations = concrete calls; distinct_nontrivial = number of "
                    "distinct (entry point, operator, position) cases for which at least one concrete input was executed (cases without any "
                    "member of that class in the valid instances are listed under vacuous_cases and not counted)",
               samples=samples, cases_enumerated_by_tlc=len(cases), vacuous_cases=len(vacuous), vacuous_sample=vacuous[:10],
               entry_points=len(per_ep), per_entry_point=per_ep, accepted=sum(r["accepted"] for r in results),
               rejected=sum(r["rejected"] for r in results), calls_without_reply=lost_total, findings=n_findings,
               distinct_finding_signatures=len(by_sig), finding_traces_rejected_by_tlc=confirmed,
               traces_validated_against_impl=acc + len(rej) + len(reps), traces_accepted=acc, traces_rejected=len(rej) + confirmed,
               slowest_call_us=max([r.get("max_us", 0) for r in results] or [0]),
               models=models, states=sum(m.get("states", 0) for m in models), transitions=sum(m.get("transitions", 0) for m in models),
               exhaustive=False, harness_errors=len(errors), phase_wall_s=phases, deadline_misses_not_confirmed=slow, driver_processes_killed_by_an_input=len(deaths),
               inputs_that_kill_the_process_reproduced_alone=len(killed),
               calls_replied_after_deadline_within_grace=sum(r.get("slow_calls", 0) for r in results),
               refused_inputs_redelivered=sum(r.get("redelivered", 0) for r in results))
    vlib.write_evidence(prop, tier, seed, "exploration", cov, time.time() - t0, len(rep.violations),
                        ["the universal quantifier over all byte strings is SAMPLED through the enumerated structure-aware mutation classes "
                         "(type confusion, missing/null member, extreme numbers, truncation, duplicate member, empty, deep nesting, "
                         "hand-written unusual combinations, seeded random stacks); no claim outside those classes",
                         "termination is a per-call deadline (5 s, plus a 10 s grace period on a busy machine; a reported hang is re-run alone), not a proof",
                         "an input that ends the driver process (fatal error such as out of memory, unrecovered panic in a spawned goroutine, "
                         "memory watchdog at 6 GB Go heap / 10 GB RSS / 64 GB address space) is re-run alone and reported as process-killed when "
                         "it reproduces; a death that does not reproduce is inconclusive",
                         "memory is an oracle only through the limits above: an input that makes the node hold less than that counts as handled",
                         "reject => unchanged is checked on a state digest where a store exists: DAG content modulo well-formed transactions "
                         "(v2 handlers), all rows of the discovery / credential tables, all rows of status_list_credential",
                         "LD-proof presentations/credentials cannot be re-signed by the harness after mutation: for those the code behind the "
                         "signature check is reached through the JWT formats (signed by the harness over the mutated content) and with the "
                         "signature check switched off (verifier.Verify.ldp)",
                         "payload receivers (payload.*): the event is handed to the subscribers the node registered at network.Transactions.Subscribe "
                         "through non-persistent dag notifiers (first attempt synchronous, as dag.State does after WritePayload); the job shelf, the "
                         "back-off timing and the NATS reprocess stream are not exercised (they call the same receivers); a redelivery is one "
                         "immediate second call. Stale-proof credentials keep one id per case, so an input of a case that is stored shadows the "
                         "later inputs of THAT case at the store's id check (resealed inputs get a fresh id each)",
                         "jwx, go-did, json-gold, protobuf and regexp2 are part of the executed code; defects in them count when reachable "
                         "through a repository entry point"])
    return rep.finish()
